import RsMatterVerif.Model.Codec.Mdns
/-!
# Model of `MatterLocalService::service` (`transport/network/mdns.rs`): the instance name, the service
type, the subtypes and the TXT `key=value` pairs a Matter node publishes over mDNS

Transliterated branch by branch: the `Commissioned` arm (`{:016X}-{:016X}`, subtype `_I{:016X}`, TXT `SAI`,
`SII`, `T`, `ICD`, `DUMMY`) and the `Commissionable` arm (`{:016X}`, subtypes `_L`, `_S`, `_V`, `_T`, `_CM`,
TXT `D`, `CM`, `VP`, `SAI`, `SII`, `DN`, `PI`, `PH`, `DT`, `T`, `ICD`), both with the `filter(|v| !v.is_empty())`.
`core::fmt` (`{}` of an unsigned integer, `{:016X}`) is specified by `decimal` / `hex16` and checked by
correspondence. All strings are written into one scratch buffer (`write_split!`): the call fails with
`BufferTooSmall` exactly when their total length exceeds it.
-/
namespace Codec.Mdns

/-- `{}` of an unsigned integer: decimal ASCII digits, no leading zero (20 digits suffice for `u64`) -/
def decDigits : Nat → Nat → List Nat → List Nat
  | 0, _, acc => acc
  | f + 1, n, acc =>
    let acc' := (48 + n % 10) :: acc
    if n / 10 = 0 then acc' else decDigits f (n / 10) acc'

def decimal (n : Nat) : List Nat := decDigits 20 n []

def hexUpper (x : Nat) : Nat := if x < 10 then 48 + x else 55 + x

/-- `{:016X}` of a `u64` -/
def hex16 (n : Nat) : List Nat := (List.range 16).map fun i => hexUpper (n / 16 ^ (15 - i) % 16)

/-- the fields of `BasicInfoConfig` the service description depends on -/
structure DevDet where
  vid : Nat
  pid : Nat
  sai : Option Nat
  sii : Option Nat
  deviceName : List Nat
  pairingInstruction : List Nat
  pairingHint : Nat
  deviceType : Option Nat
  tcp : Bool
deriving Repr

/-- `MatterLocalService` -/
inductive LocalSvc
  | commissioned (compressedFabricId nodeId : Nat)
  | commissionable (id discriminator : Nat) (enhanced : Bool)
deriving Repr

def asciiStr (s : String) : List Nat := s.toList.map Char.toNat

def optDec (o : Option Nat) : List Nat := match o with | some x => decimal x | none => []

/-- `ICD` value: "1" LIT, "0" SIT, absent otherwise -/
def icdTxt (icd : Option Bool) : List Nat := match icd with | some true => [49] | some false => [48] | none => []

def nonEmptyValues (kvs : List (List Nat × List Nat)) : List (List Nat × List Nat) := kvs.filter fun kv => !kv.2.isEmpty

/-- `compute_short_discriminator`: bits 8..11 -/
def shortDiscriminator (d : Nat) : Nat := d / 256 % 16

/-- `service_internal`: the description and the number of scratch octets it needs -/
def matterService (l : LocalSvc) (dd : DevDet) (port : Nat) (icd : Option Bool) : Svc × Nat :=
  match l with
  | .commissioned cfid node =>
    let name := hex16 cfid ++ [45] ++ hex16 node
    let subI := asciiStr "_I" ++ hex16 cfid
    let sai := optDec dd.sai
    let sii := optDec dd.sii
    let txt := nonEmptyValues
      [(asciiStr "SAI", sai), (asciiStr "SII", sii), (asciiStr "T", if dd.tcp then [54] else []), (asciiStr "ICD", icdTxt icd),
       (asciiStr "DUMMY", asciiStr "DUMMY")]
    ({ name, service := asciiStr "_matter", protocol := asciiStr "_tcp", port, subtypes := [subI], txt },
     name.length + subI.length + sai.length + sii.length)
  | .commissionable id disc enhanced =>
    let name := hex16 id
    let subL := asciiStr "_L" ++ decimal disc
    let subS := asciiStr "_S" ++ decimal (shortDiscriminator disc)
    let subV := asciiStr "_V" ++ decimal dd.vid
    let subT := match dd.deviceType with | some dt => asciiStr "_T" ++ decimal dt | none => []
    let subtypes := [subL, subS, subV, subT, asciiStr "_CM"].filter fun s => !s.isEmpty
    let d := decimal disc
    let vp := decimal dd.vid ++ [43] ++ decimal dd.pid
    let sai := optDec dd.sai
    let sii := optDec dd.sii
    let ph := decimal dd.pairingHint
    let dt := optDec dd.deviceType
    let tcp := if dd.tcp then [54] else []
    let txt := nonEmptyValues
      [(asciiStr "D", d), (asciiStr "CM", if enhanced then [50] else [49]), (asciiStr "VP", vp), (asciiStr "SAI", sai),
       (asciiStr "SII", sii), (asciiStr "DN", dd.deviceName), (asciiStr "PI", dd.pairingInstruction), (asciiStr "PH", ph),
       (asciiStr "DT", dt), (asciiStr "T", tcp), (asciiStr "ICD", icdTxt icd)]
    ({ name, service := asciiStr "_matterc", protocol := asciiStr "_udp", port, subtypes, txt },
     name.length + subL.length + subS.length + subV.length + subT.length + d.length + vp.length + sai.length + sii.length +
       dd.deviceName.length + dd.pairingInstruction.length + ph.length + dt.length + tcp.length)

/-- `MatterLocalService::service` with a scratch buffer of `cap` octets -/
def matterServiceIn (l : LocalSvc) (dd : DevDet) (port : Nat) (icd : Option Bool) (cap : Nat) : R Svc :=
  let (s, need) := matterService l dd port icd
  if need ≤ cap then .ok s else .error .bufferTooSmall

end Codec.Mdns
