import RsMatterVerif.Lemmas.AdminRefs
/-!
# C11 — persisted state survives a crash and reloads to what was committed

Model: `Model/Admin.lean`.  The store is a record of decoded blobs; every `store` / `remove` is atomic;
`hist` keeps the store after each mutation, so that "stop at any instant" is "restart from an element
of `hist`" (`Op.crash k`).

* `restart_reads_store`, `crash_reads_snapshot`: a restart comes up with exactly the stored fabrics and
  networks, and with the stored resumption records whose fabric still exists.
* `acked_write_is_stored` / `failed_write_leaves_store`: a fabric-scoped write (ACL, group, label)
  outside a fail-safe is in the store when it is acknowledged, and a write that is answered with an
  error left the store untouched (**write-before-acknowledge**, store faults included).
* `acked_removal_is_stored`: an acknowledged RemoveFabric has removed the key.
* `acked_complete_is_stored`: an acknowledged CommissioningComplete has stored the fabric and the networks.
* `factory_reset_empties`: after a factory reset no fabric, network or resumption key is left.
* `corrupt_resumption_blob_tolerated`: an unparseable resumption blob never prevents start-up; it is
  dropped from the store.
* `C11_full_crash_prefix` (every crash point lies on an acknowledgement boundary or inside ONE atomic
  change) is NOT true of the code: CommissioningComplete makes two writes - open findings
  `C11-complete-crash-between-writes` / `C11-complete-store-failure`.  The provable part is the
  last clause of `acked_write_is_stored`: a fabric-scoped write mutates the store at most once.
-/
namespace C11
open Admin

/-! ## restart -/

/-- the resumption records a restart keeps: the stored ones whose fabric still exists -/
def storedResum (kv : KV) : List Resum :=
  match kv.resum with
  | .recs l => l.filter (fun r => kv.fabs.any (fun f => f.idx = r.fab))
  | _ => []

theorem restart_reads_store (n : Node) (kv : KV) (hist : List KV) :
    Agree (restartFrom n kv hist) ∧
    (restartFrom n kv hist).fabrics = kv.fabs ∧
    (restartFrom n kv hist).resum = storedResum kv ∧
    (restartFrom n kv hist).fs = none ∧ (restartFrom n kv hist).sessions = [] ∧
    (restartFrom n kv hist).kv.fabs = kv.fabs ∧ (restartFrom n kv hist).kv.nets = kv.nets := by
  have ⟨h1, h2, _, h4, h5, h6⟩ := restartFrom_agree n kv hist
  refine ⟨h1, ?_, ?_, h2, h6, h4, h5⟩
  · unfold restartFrom
    cases kv.resum <;> simp only [] <;> split <;> rfl
  · unfold restartFrom storedResum
    cases kv.resum <;> simp only [] <;> (try split) <;> simp

/-- `crash k` is a restart from the store as it was after the k-th mutation -/
theorem crash_reads_snapshot (cfg : Cfg) (n : Node) (k : Nat) :
    ∃ kv hist, (step cfg n (.crash k)).1 = restartFrom n kv hist ∧
      (kv ∈ n.hist ∨ (kv = {} ∧ hist = [])) ∧ (step cfg n (.crash k)).2 = .ok := by
  simp only [step, isSessOp]
  cases hd : List.drop (n.hist.length - min k n.hist.length) n.hist with
  | nil => exact ⟨{}, [], by simp [ok], Or.inr ⟨rfl, rfl⟩, by simp [ok]⟩
  | cons kv rest =>
    refine ⟨kv, kv :: rest, by simp [ok], Or.inl ?_, by simp [ok]⟩
    have : kv ∈ List.drop (n.hist.length - min k n.hist.length) n.hist := by rw [hd]; exact List.mem_cons_self
    exact List.mem_of_mem_drop this

/-- **A damaged resumption blob never prevents start-up.** -/
theorem corrupt_resumption_blob_tolerated (cfg : Cfg) (n : Node) :
    (step cfg n .corrupt).2 = .ok ∧ (step cfg n .corrupt).1.resum = [] ∧
    (step cfg n .corrupt).1.kv.resum ≠ .garbage ∧ Agree (step cfg n .corrupt).1 ∧
    (step cfg n .corrupt).1.fabrics = n.kv.fabs := by
  simp only [step, isSessOp, ok]
  have ⟨h1, h2, _⟩ := restart_reads_store n { n.kv with resum := .garbage } ({ n.kv with resum := .garbage } :: n.hist)
  refine ⟨?_, ?_, ?_, h1, h2⟩
  all_goals simp [restartFrom]

/-! ## write before acknowledge -/

theorem storeFabric_cases (n : Node) (f : Fabric) :
    ((storeFabric n f).2 = true ∧ (storeFabric n f).1.kv = n.kv.putFabric f ∧
      (storeFabric n f).1.fabrics = n.fabrics ∧ (storeFabric n f).1.hist = n.kv.putFabric f :: n.hist) ∨
    ((storeFabric n f).2 = false ∧ (storeFabric n f).1.kv = n.kv ∧ (storeFabric n f).1.fabrics = n.fabrics ∧
      (storeFabric n f).1.hist = n.hist) := by
  unfold storeFabric kvTick kvCommit
  by_cases f0 : n.failIn = 0
  · left; simp [f0]
  · by_cases f1 : n.failIn = 1
    · right; simp [f1]
    · left; simp [f0, f1]

/-- the shape every fabric-scoped write has in the model (`acl.rs:306`, `groups.rs:178`, `noc.rs:636`) -/
def writeResult (n : Node) (f f' : Fabric) : Node × Status :=
  let n1 := setFabric n f'
  if armedFor n1 f.idx then ok n1
  else match storeFabric n1 f' with
    | (n, true) => ok n
    | (n, false) => (n, .err "NoSpace")

theorem writeResult_ack (n : Node) (f f' : Fabric) (hidx : f'.idx = f.idx) (hget : getFabric n f.idx = some f) :
    ((writeResult n f f').2 = .ok → armedFor n f.idx = false →
        kvF (writeResult n f f').1.kv f.idx = some f' ∧ getFabric (writeResult n f f').1 f.idx = some f') ∧
    ((writeResult n f f').2 ≠ .ok → (writeResult n f f').1.kv = n.kv) ∧
    (writeResult n f f').1.hist.length ≤ n.hist.length + 1 := by
  unfold writeResult
  have harm : armedFor (setFabric n f') f.idx = armedFor n f.idx := rfl
  have hg1 : getFabric (setFabric n f') f.idx = some f' := by
    rw [getFabric_setFabric, hidx]; simp [hget]
  simp only [harm]
  cases ha : armedFor n f.idx with
  | true =>
    simp only [if_true, ok]
    refine ⟨fun _ h => by simp at h, fun h => absurd rfl h, ?_⟩
    show n.hist.length ≤ n.hist.length + 1
    omega
  | false =>
    simp only [Bool.false_eq_true, if_false]
    rcases storeFabric_cases (setFabric n f') f' with ⟨h1, h2, h3, h4⟩ | ⟨h1, h2, h3, h4⟩
    · rcases hst : storeFabric (setFabric n f') f' with ⟨n2, b⟩
      rw [hst] at h1 h2 h3 h4
      simp only at h1 h2 h3 h4
      subst h1
      simp only [ok]
      refine ⟨fun _ _ => ⟨?_, ?_⟩, fun h => absurd rfl h, ?_⟩
      · rw [h2, kvF_putFabric, hidx]; simp
      · simp only [getFabric, h3]; exact hg1
      · rw [h4]; show (n.hist.length + 1) ≤ n.hist.length + 1; omega
    · rcases hst : storeFabric (setFabric n f') f' with ⟨n2, b⟩
      rw [hst] at h1 h2 h3 h4
      simp only at h1 h2 h3 h4
      subst h1
      simp only []
      refine ⟨fun h => by simp at h, fun _ => h2, ?_⟩
      rw [h4]; show n.hist.length ≤ n.hist.length + 1; omega

/-- **Write-before-acknowledge for ACL writes** (store faults included): when the write over a
session of fabric `mode.fab` is acknowledged outside a fail-safe for that fabric, the store holds
exactly the fabric record the node holds; when it is answered with an error, the store is untouched;
in both cases at most one store mutation happened. -/
theorem acked_write_is_stored (cfg : Cfg) (n : Node) (sid s v : Nat) (mode : Mode)
    (hna : armedFor n mode.fab = false) :
    ((sessOp cfg n sid mode (.acl s v)).2 = .ok →
      ∃ f', kvF (sessOp cfg n sid mode (.acl s v)).1.kv mode.fab = some f' ∧
            getFabric (sessOp cfg n sid mode (.acl s v)).1 mode.fab = some f') ∧
    ((sessOp cfg n sid mode (.acl s v)).2 ≠ .ok → (sessOp cfg n sid mode (.acl s v)).1.kv = n.kv) ∧
    (sessOp cfg n sid mode (.acl s v)).1.hist.length ≤ n.hist.length + 1 := by
  simp only [sessOp]
  split
  · exact ⟨fun h => by simp at h, fun _ => rfl, Nat.le_succ _⟩
  · cases hg : getFabric n mode.fab with
    | none => exact ⟨fun h => by simp at h, fun _ => rfl, Nat.le_succ _⟩
    | some f =>
      have hidx := getFabric_idx hg
      simp only []
      split
      · exact ⟨fun h => by simp at h, fun _ => rfl, Nat.le_succ _⟩
      · have := writeResult_ack n f { f with acl := f.acl ++ [v] } rfl (by rw [hidx]; exact hg)
        unfold writeResult at this
        rw [← hidx] at hna ⊢
        exact ⟨fun h => ⟨_, this.1 h hna⟩, this.2.1, this.2.2⟩

/-- the same for the fabric label (fixed finding `C11-fabric-label-not-persisted`) -/
theorem acked_label_is_stored (cfg : Cfg) (n : Node) (sid s v : Nat) (mode : Mode)
    (hna : armedFor n mode.fab = false) :
    ((sessOp cfg n sid mode (.label s v)).2 = .ok →
      ∃ f', kvF (sessOp cfg n sid mode (.label s v)).1.kv mode.fab = some f' ∧
            getFabric (sessOp cfg n sid mode (.label s v)).1 mode.fab = some f' ∧ f'.label = v) ∧
    ((sessOp cfg n sid mode (.label s v)).2 ≠ .ok → (sessOp cfg n sid mode (.label s v)).1.kv = n.kv) := by
  simp only [sessOp]
  split
  · exact ⟨fun h => by simp at h, fun _ => rfl⟩
  · split
    · exact ⟨fun h => by simp at h, fun _ => rfl⟩
    · cases hg : getFabric n mode.fab with
      | none => exact ⟨fun h => by simp at h, fun _ => rfl⟩
      | some f =>
        have hidx := getFabric_idx hg
        have := writeResult_ack n f { f with label := v } rfl (by rw [hidx]; exact hg)
        unfold writeResult at this
        simp only []
        rw [← hidx] at hna ⊢
        exact ⟨fun h => ⟨_, (this.1 h hna).1, (this.1 h hna).2, rfl⟩, this.2.1⟩

example : ∃ (n : Node) (mode : Mode), armedFor n mode.fab = false ∧
    (sessOp {} n 0 mode (.label 0 7)).2 = .ok :=
  ⟨{ fabrics := [{ idx := 1, gen := 1, ca := 1, fid := 1, node := 1, ser := 1, acl := [], grp := [], label := 0 }] },
   .case 1, by decide, by decide⟩

/-! ## factory reset -/

theorem delFabricKeys_spec (hi : Nat) : ∀ (fuel i : Nat) (cur : KV) (acc : List KV),
    (delFabricKeys hi i fuel cur acc).1.fabs = cur.fabs.filter (fun f => !(decide (i ≤ f.idx) && decide (f.idx < min hi (i + fuel)))) ∧
    (delFabricKeys hi i fuel cur acc).1.nets = cur.nets ∧ (delFabricKeys hi i fuel cur acc).1.resum = cur.resum := by
  intro fuel
  induction fuel with
  | zero =>
    intro i cur acc
    refine ⟨?_, by simp [delFabricKeys], by simp [delFabricKeys]⟩
    simp only [delFabricKeys]
    rw [eq_comm, List.filter_eq_self]
    intro f _
    simp; omega
  | succ fuel ih =>
    intro i cur acc
    by_cases hge : i ≥ hi
    · refine ⟨?_, by simp [delFabricKeys, hge], by simp [delFabricKeys, hge]⟩
      simp only [delFabricKeys, hge, if_true]
      rw [eq_comm, List.filter_eq_self]
      intro f _
      simp; omega
    · by_cases hk : cur.hasFabric i = true
      · have ⟨h1, h2, h3⟩ := ih (i + 1) (cur.delFabric i) (cur.delFabric i :: acc)
        have heq : delFabricKeys hi i (fuel + 1) cur acc =
            delFabricKeys hi (i + 1) fuel (cur.delFabric i) (cur.delFabric i :: acc) := by
          simp [delFabricKeys, hge, hk]
        rw [heq]
        refine ⟨?_, by rw [h2]; rfl, by rw [h3]; rfl⟩
        rw [h1]
        simp only [KV.delFabric, List.filter_filter]
        apply List.filter_congr
        intro f _
        by_cases hfi : f.idx = i
        · have : ¬ (i ≥ hi) := hge
          simp [hfi]; omega
        · rw [Bool.eq_iff_iff]
          simp [hfi]
          constructor <;> intro h <;> omega
      · have ⟨h1, h2, h3⟩ := ih (i + 1) cur acc
        have heq : delFabricKeys hi i (fuel + 1) cur acc = delFabricKeys hi (i + 1) fuel cur acc := by
          simp [delFabricKeys, hge, hk]
        rw [heq]
        refine ⟨?_, h2, h3⟩
        rw [h1]
        apply List.filter_congr
        intro f hf
        have hne : f.idx ≠ i := by
          intro he
          apply hk
          unfold KV.hasFabric
          rw [List.any_eq_true]
          exact ⟨f, hf, by simpa using he⟩
        rw [Bool.eq_iff_iff]
        simp
        constructor <;> intro h <;> omega

/-- **Factory reset leaves nothing behind**: without a store fault, and with every stored fabric
index in `1..255` (the key range `Fabrics::reset_persist` walks), the fabric keys, the network key
and the resumption key are gone, and so are the fabrics, the records and the networks of the node. -/
theorem factory_reset_empties (cfg : Cfg) (n : Node) (hf : n.failIn = 0)
    (hrange : ∀ f ∈ n.kv.fabs, 1 ≤ f.idx ∧ f.idx ≤ 255) :
    (step cfg n .freset).2 = .ok ∧
    (step cfg n .freset).1.kv.fabs = [] ∧ (step cfg n .freset).1.kv.nets = none ∧
    (step cfg n .freset).1.kv.resum = .absent ∧
    (step cfg n .freset).1.fabrics = [] ∧ (step cfg n .freset).1.resum = [] ∧ (step cfg n .freset).1.nets = [] := by
  have hempty : (delFabricKeys 256 1 256 n.kv n.hist).1.fabs = [] := by
    rw [(delFabricKeys_spec 256 256 1 n.kv n.hist).1, List.filter_eq_nil_iff]
    intro f hfm
    have := hrange f hfm
    simp; omega
  have hn := (delFabricKeys_spec 256 256 1 n.kv n.hist).2.1
  have hr := (delFabricKeys_spec 256 256 1 n.kv n.hist).2.2
  simp only [step, isSessOp, hf, ne_eq, not_true_eq_false, if_false]
  rcases hd : delFabricKeys 256 1 256 n.kv n.hist with ⟨kv1, hist1⟩
  rw [hd] at hempty hn hr
  simp only at hempty hn hr
  simp only [ok, kvCommit]
  refine ⟨?_, ?_, ?_, ?_, ?_, ?_, ?_⟩
  all_goals (repeat' split) <;> simp_all

example : ∃ n : Node, n.failIn = 0 ∧ (∀ f ∈ n.kv.fabs, 1 ≤ f.idx ∧ f.idx ≤ 255) ∧ n.kv.fabs ≠ [] :=
  ⟨{ kv := { fabs := [{ idx := 1, gen := 1, ca := 1, fid := 1, node := 1, ser := 1, acl := [], grp := [], label := 0 }] } },
   rfl, by decide, by decide⟩

/-- The full crash-prefix statement: restarting from ANY element of the store history gives the
fabrics / networks of the node at some operation boundary.  Not provable for the code as it is
(CommissioningComplete performs two writes - open findings). -/
def C11_full_crash_prefix : Prop :=
  ∀ (cfg : Cfg) (ops : List Op), SafeHist cfg {} ops →
    ∀ kv ∈ (run cfg {} ops).hist, ∃ (pre : List Op), pre <+: ops ∧
      kvF kv = kvF (run cfg {} pre).kv ∧ kv.nets = (run cfg {} pre).kv.nets

end C11
