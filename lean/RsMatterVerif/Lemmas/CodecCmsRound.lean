import RsMatterVerif.Lemmas.CodecCmsCd
/-!
# Round trip of the CMS envelope: `cmsParse (encCms content kid r s)`

The decode∘encode lemmas of `CodecDerRead.lean` are stated for slice readers; here they are lifted to
arbitrary (nested) readers: `Next r l` = "the bytes `l` are what reader `r` will deliver next, and every frame of
`r` has room for them"; each decoder step consumes a prefix and leaves `Next (r.adv k) rest`.
-/
namespace Codec.DerRd


/-! ## decoding what the model encoder produced, on any (nested) reader -/

/-- every frame's position moved forward by `k` -/
def Rdr.adv : Rdr → Nat → Rdr
  | .slice b p, k => .slice b (p + k)
  | .nested i n p, k => .nested (i.adv k) n (p + k)

theorem Rdr.adv_facts (r : Rdr) (k : Nat) :
    (r.adv k).offset = r.offset + k ∧ (r.adv k).input = r.input ∧ (r.adv k).inputLen = r.inputLen ∧
    (r.adv k).position = r.position + k := by
  induction r with
  | slice b p => exact ⟨rfl, rfl, rfl, rfl⟩
  | nested i n p ih => exact ⟨ih.1, ih.2.1, rfl, rfl⟩

theorem Rdr.adv_zero (r : Rdr) : r.adv 0 = r := by
  induction r with
  | slice b p => rfl
  | nested i n p ih => simp [Rdr.adv, ih]

theorem Rdr.adv_adv (r : Rdr) (j k : Nat) : (r.adv j).adv k = r.adv (j + k) := by
  induction r with
  | slice b p => simp [Rdr.adv, Nat.add_assoc]
  | nested i n p ih => simp [Rdr.adv, ih, Nat.add_assoc]

theorem Rdr.WF.inputLen_le {r : Rdr} (h : r.WF) : r.inputLen ≤ MAX_LEN := by
  cases r with
  | slice b p => exact h.2
  | nested i n p =>
    obtain ⟨hi, hp, hrem, hoff⟩ := h
    have h1 := hi.rem_le
    have h2 := hi.offset_le
    have h3 := hi.input_le
    simp only [Rdr.inputLen] at *
    omega

theorem Rdr.WF.adv {r : Rdr} (h : r.WF) {k : Nat} (hk : k ≤ r.inputLen - r.position) : (r.adv k).WF := by
  induction r with
  | slice b p =>
    simp only [Rdr.inputLen, Rdr.position] at hk
    have h1 : p ≤ b.length := h.1
    exact ⟨(by omega : p + k ≤ b.length), h.2⟩
  | nested i n p ih =>
    obtain ⟨hi, hp, hrem, hoff⟩ := h
    simp only [Rdr.inputLen, Rdr.position] at hk
    have hk' : k ≤ i.inputLen - i.position := by omega
    obtain ⟨f1, _, f3, f4⟩ := i.adv_facts k
    refine ⟨ih hi hk', by omega, ?_, ?_⟩
    · rw [f3, f4]; omega
    · rw [f1]; omega

/-- `read_slice(n)` succeeds whenever this reader still has `n` bytes -/
theorem readSlice_ok {r : Rdr} (h : r.WF) {n : Nat} (hn : n ≤ r.inputLen - r.position) :
    r.readSlice n = .ok ((r.input.drop r.offset).take n, r.adv n) := by
  induction r with
  | slice b p =>
    obtain ⟨hp, hb⟩ := h
    simp only [Rdr.inputLen, Rdr.position] at hn
    unfold Rdr.readSlice
    rw [if_pos hp, if_pos (by simp; omega), lenAdd_of_le (by omega)]
    rfl
  | nested i len p ih =>
    have hmax := Rdr.WF.inputLen_le h
    obtain ⟨hi, hp, hrem, hoff⟩ := h
    simp only [Rdr.inputLen, Rdr.position] at hn hmax
    unfold Rdr.readSlice
    rw [lenAdd_of_le (by omega)]
    simp only [Bind.bind, Except.bind]
    rw [if_pos (by omega), ih hi (by omega)]
    rfl


/-- the bytes `l` are what `r` delivers next, and `r` (all its frames) has room for them -/
structure Next (r : Rdr) (l : List Nat) : Prop where
  wf : r.WF
  room : l.length ≤ r.inputLen - r.position
  bytes : (r.input.drop r.offset).take l.length = l

theorem Next.adv {r : Rdr} {x rest : List Nat} (h : Next r (x ++ rest)) : Next (r.adv x.length) rest := by
  obtain ⟨f1, f2, f3, f4⟩ := r.adv_facts x.length
  have hroom := h.room
  simp only [List.length_append] at hroom
  refine ⟨h.wf.adv (by omega), by rw [f3, f4]; omega, ?_⟩
  rw [f1, f2, ← List.drop_drop]
  have hb := h.bytes
  simp only [List.length_append] at hb
  have : (r.input.drop r.offset).take (x.length + rest.length) = x ++ rest := hb
  have h2 := congrArg (List.drop x.length) this
  rw [List.drop_take, List.drop_left] at h2
  simpa using h2

theorem Next.prefix {r : Rdr} {x rest : List Nat} (h : Next r (x ++ rest)) : Next r x := by
  have hroom := h.room
  simp only [List.length_append] at hroom
  refine ⟨h.wf, by omega, ?_⟩
  have hb := h.bytes
  simp only [List.length_append] at hb
  have h2 := congrArg (List.take x.length) hb
  rw [List.take_take, List.take_left] at h2
  simpa [Nat.min_eq_left (Nat.le_add_right _ _)] using h2

theorem Next.slice {r : Rdr} {x rest : List Nat} (h : Next r (x ++ rest)) :
    r.readSlice x.length = .ok (x, r.adv x.length) := by
  have hroom := h.room
  simp only [List.length_append] at hroom
  rw [readSlice_ok h.wf (by omega), h.prefix.bytes]

theorem Next.byte {r : Rdr} {b : Nat} {rest : List Nat} (h : Next r (b :: rest)) :
    r.readByte = .ok (b, r.adv 1) := by
  have := Next.slice (x := [b]) (rest := rest) (by simpa using h)
  unfold Rdr.readByte
  simp only [List.length_singleton] at this
  rw [this]
  simp [Bind.bind, Except.bind, dassert, index, Pure.pure, Except.pure]

theorem Next.lenBytes : ∀ (bs : List Nat) (acc : Nat) (rest : List Nat) (r : Rdr), Next r (bs ++ rest) →
    lengthBytes bs.length acc r = .ok (beFold acc bs, r.adv bs.length)
  | [], acc, rest, r, _ => by simp [lengthBytes, beFold, Rdr.adv_zero]
  | b :: bs, acc, rest, r, h => by
    simp only [List.length_cons, lengthBytes]
    rw [Next.byte (rest := bs ++ rest) (by simpa using h)]
    simp only [Bind.bind, Except.bind]
    have h1 : Next (r.adv 1) (bs ++ rest) := by
      have := Next.adv (x := [b]) (rest := bs ++ rest) (by simpa using h)
      simpa using this
    rw [Next.lenBytes bs _ rest (r.adv 1) h1, Rdr.adv_adv]
    simp [beFold, Nat.add_comm]

/-- `Length::decode` inverts the minimal length octets, on any reader -/
theorem Next.len {r : Rdr} {n : Nat} {rest : List Nat} (h : Next r (encLen n ++ rest)) (hn : n ≤ MAX_LEN) :
    lengthDecode r = .ok (n, r.adv (encLen n).length) := by
  have hMAX : MAX_LEN = 268435455 := rfl
  unfold lengthDecode
  have tail1 : ∀ {b : Nat} {bs : List Nat}, Next r (b :: bs ++ rest) → Next (r.adv 1) (bs ++ rest) := by
    intro b bs hh
    have := Next.adv (x := [b]) (rest := bs ++ rest) (by simpa using hh)
    simpa using this
  by_cases h1 : n < 128
  · rw [encLen_1 h1] at h ⊢
    rw [Next.byte (rest := rest) (by simpa using h)]
    simp [Bind.bind, Except.bind, h1, Pure.pure, Except.pure]
  · by_cases h2 : n < 256
    · rw [encLen_2 (by omega) h2] at h ⊢
      rw [Next.byte (rest := [n] ++ rest) (by simpa using h)]
      simp only [Bind.bind, Except.bind]
      rw [if_neg (by omega), if_neg (by omega), if_pos (by omega), csub_ok (by omega)]
      have := Next.lenBytes [n] 0 rest (r.adv 1) (tail1 (by simpa using h))
      simp only [List.length_singleton] at this
      simp only [show (0x81 : Nat) - 0x80 = 1 from rfl, show dassert (decide (1 ≤ 4)) = Except.ok () from rfl, this]
      have hv : beFold 0 [n] = n := by simp [beFold]
      rw [hv, lenNew_of_le hn]
      simp only [initialOctet_81 (by omega : 0x80 ≤ n) (by omega : n ≤ 0xFF), if_true, Pure.pure, Except.pure,
        Rdr.adv_adv]
      rfl
    · by_cases h3 : n < 65536
      · rw [encLen_3 (by omega) h3] at h ⊢
        rw [Next.byte (rest := [n / 256, n % 256] ++ rest) (by simpa using h)]
        simp only [Bind.bind, Except.bind]
        rw [if_neg (by omega), if_neg (by omega), if_pos (by omega), csub_ok (by omega)]
        have := Next.lenBytes [n / 256, n % 256] 0 rest (r.adv 1) (tail1 (by simpa using h))
        simp only [List.length_cons, List.length_nil] at this
        simp only [show (0x82 : Nat) - 0x80 = 0 + 1 + 1 from rfl,
          show dassert (decide (0 + 1 + 1 ≤ 4)) = Except.ok () from rfl, this]
        have hv : beFold 0 [n / 256, n % 256] = n := by simp [beFold]; omega
        rw [hv, lenNew_of_le hn]
        simp only [initialOctet_82 (by omega : 0x100 ≤ n) (by omega : n ≤ 0xFFFF), if_true, Pure.pure, Except.pure,
          Rdr.adv_adv]
        rfl
      · by_cases h4 : n < 16777216
        · rw [encLen_4 (by omega) h4] at h ⊢
          rw [Next.byte (rest := [n / 65536, n / 256 % 256, n % 256] ++ rest) (by simpa using h)]
          simp only [Bind.bind, Except.bind]
          rw [if_neg (by omega), if_neg (by omega), if_pos (by omega), csub_ok (by omega)]
          have := Next.lenBytes [n / 65536, n / 256 % 256, n % 256] 0 rest (r.adv 1) (tail1 (by simpa using h))
          simp only [List.length_cons, List.length_nil] at this
          simp only [show (0x83 : Nat) - 0x80 = 0 + 1 + 1 + 1 from rfl,
            show dassert (decide (0 + 1 + 1 + 1 ≤ 4)) = Except.ok () from rfl, this]
          have hv : beFold 0 [n / 65536, n / 256 % 256, n % 256] = n := by simp [beFold]; omega
          rw [hv, lenNew_of_le hn]
          simp only [initialOctet_83 (by omega : 0x10000 ≤ n) (by omega : n ≤ 0xFFFFFF), if_true, Pure.pure,
            Except.pure, Rdr.adv_adv]
          rfl
        · rw [encLen_5 (by omega)] at h ⊢
          rw [Next.byte (rest := [n / 16777216, n / 65536 % 256, n / 256 % 256, n % 256] ++ rest)
            (by simpa using h)]
          simp only [Bind.bind, Except.bind]
          rw [if_neg (by omega), if_neg (by omega), if_pos (by omega), csub_ok (by omega)]
          have := Next.lenBytes [n / 16777216, n / 65536 % 256, n / 256 % 256, n % 256] 0 rest (r.adv 1)
            (tail1 (by simpa using h))
          simp only [List.length_cons, List.length_nil] at this
          simp only [show (0x84 : Nat) - 0x80 = 0 + 1 + 1 + 1 + 1 from rfl,
            show dassert (decide (0 + 1 + 1 + 1 + 1 ≤ 4)) = Except.ok () from rfl, this]
          have hv : beFold 0 [n / 16777216, n / 65536 % 256, n / 256 % 256, n % 256] = n := by
            simp [beFold]; omega
          rw [hv, lenNew_of_le hn]
          simp only [initialOctet_84 (by omega : 0x1000000 ≤ n) hn, if_true, Pure.pure, Except.pure, Rdr.adv_adv]
          rfl


theorem Next.length_le {r : Rdr} {l : List Nat} (h : Next r l) : l.length ≤ MAX_LEN := by
  have h1 := h.room
  have h2 := h.wf.inputLen_le
  omega

theorem Next.header {r : Rdr} {tag n : Nat} {rest : List Nat} (h : Next r (tag :: encLen n ++ rest))
    (ht : tagOfByte tag = .ok tag) (hn : n ≤ MAX_LEN) :
    headerDecode r = .ok ((tag, n), r.adv (1 + (encLen n).length)) := by
  unfold headerDecode
  rw [Next.byte (rest := encLen n ++ rest) (by simpa using h)]
  simp only [Bind.bind, Except.bind, ht]
  have h1 : Next (r.adv 1) (encLen n ++ rest) := by
    have := Next.adv (x := [tag]) (rest := encLen n ++ rest) (by simpa using h)
    simpa using this
  rw [Next.len h1 hn, Rdr.adv_adv]
  simp [Pure.pure, Except.pure]

/-- header of an encoded element, and what comes next -/
theorem Next.tlvHeader {r : Rdr} {tag : Nat} {v rest : List Nat} (h : Next r (encTlv tag v ++ rest))
    (ht : tagOfByte tag = .ok tag) :
    headerDecode r = .ok ((tag, v.length), r.adv (1 + (encLen v.length).length)) ∧
    Next (r.adv (1 + (encLen v.length).length)) (v ++ rest) := by
  have hl := h.length_le
  have hv : v.length ≤ MAX_LEN := by simp [encTlv] at hl; omega
  have h0 : Next r (tag :: encLen v.length ++ (v ++ rest)) := by simpa [encTlv] using h
  refine ⟨Next.header h0 ht hv, ?_⟩
  have := Next.adv (x := tag :: encLen v.length) (rest := v ++ rest) (by simpa using h0)
  simpa [Nat.add_comm] using this

theorem Next.any {r : Rdr} {tag : Nat} {v rest : List Nat} (h : Next r (encTlv tag v ++ rest))
    (ht : tagOfByte tag = .ok tag) :
    anyDecode r = .ok ((tag, v), r.adv (encTlv tag v).length) := by
  obtain ⟨hh, hn⟩ := Next.tlvHeader h ht
  unfold anyDecode
  rw [hh]
  simp only [Bind.bind, Except.bind]
  have hvl : v.length ≤ MAX_LEN := by have := hn.length_le; simp at this; omega
  rw [Next.slice hn]
  simp only [lenNew_of_le hvl, Rdr.adv_adv, encTlv_length, Pure.pure, Except.pure]

theorem tagOfByte_oid : tagOfByte TAG_OID = .ok TAG_OID := by simp [tagOfByte, TAG_OID]
theorem tagOfByte_octet : tagOfByte TAG_OCTET_STRING = .ok TAG_OCTET_STRING := by simp [tagOfByte, TAG_OCTET_STRING]
theorem tagOfByte_set : tagOfByte TAG_SET = .ok TAG_SET := by simp [tagOfByte, TAG_SET]
theorem tagOfByte_a0 : tagOfByte 0xA0 = .ok 0xA0 := by simp [tagOfByte]
theorem tagOfByte_80 : tagOfByte 0x80 = .ok 0x80 := by simp [tagOfByte]

theorem Next.oid {r : Rdr} {c rest : List Nat} (h : Next r (encOid c ++ rest)) (hc : c.length ≤ OID_MAX_SIZE) :
    expectOid c r = .ok (r.adv (encOid c).length) := by
  obtain ⟨hh, hn⟩ := Next.tlvHeader h tagOfByte_oid
  unfold expectOid
  rw [hh]
  simp only [Bind.bind, Except.bind]
  rw [if_neg (by simp), if_neg (by omega), Next.slice hn]
  simp only [if_true, Pure.pure, Except.pure, Rdr.adv_adv, encOid, encTlv_length]

theorem Next.u8 {r : Rdr} {val : Nat} {rest : List Nat} (h : Next r ([0x02, 0x01, val] ++ rest)) :
    expectU8 val r = .ok (r.adv 3) := by
  have h' : Next r (encTlv TAG_INTEGER [val] ++ rest) := by simpa [encTlv, encLen, TAG_INTEGER] using h
  obtain ⟨hh, hn⟩ := Next.tlvHeader h' tagOfByte_int
  unfold expectU8
  rw [hh]
  simp only [Bind.bind, Except.bind, List.length_singleton]
  rw [if_neg (by simp), if_neg (by omega)]
  have := Next.slice hn
  simp only [List.length_singleton] at this
  rw [this]
  simp [Pure.pure, Except.pure, Rdr.adv_adv, encLen]

theorem Next.sliceAt {r : Rdr} {x rest : List Nat} (h : Next r (x ++ rest)) :
    readSliceAt r x.length = .ok ((x, r.offset), r.adv x.length) := by
  unfold readSliceAt
  rw [Next.slice h]
  rfl

theorem Next.octet {r : Rdr} {v rest : List Nat} (h : Next r (encTlv TAG_OCTET_STRING v ++ rest)) :
    octetStringDecode r = .ok ((v, r.offset + (1 + (encLen v.length).length)), r.adv (encTlv TAG_OCTET_STRING v).length) := by
  obtain ⟨hh, hn⟩ := Next.tlvHeader h tagOfByte_octet
  unfold octetStringDecode
  rw [hh]
  simp only [Bind.bind, Except.bind]
  rw [if_neg (by simp), Next.sliceAt hn, Rdr.adv_adv, encTlv_length, (r.adv_facts _).1]

/-- entering a nested reader over the next `|v|` bytes -/
theorem Next.nested {r : Rdr} {v rest : List Nat} (h : Next r (v ++ rest)) :
    nestedNew r v.length = .ok (.nested r v.length 0) ∧ Next (.nested r v.length 0) v := by
  have hroom := h.room
  simp only [List.length_append] at hroom
  have hwf : (Rdr.nested r v.length 0).WF := ⟨h.wf, Nat.zero_le _, by omega, Nat.zero_le _⟩
  refine ⟨?_, hwf, by simp [Rdr.inputLen, Rdr.position], ?_⟩
  · unfold nestedNew
    rw [remainingLen_ok h.wf]
    simp only [Bind.bind, Except.bind]
    rw [if_pos (by omega)]
    rfl
  · exact h.prefix.bytes

/-- `read_nested` over exactly the bytes `v`, when the body consumes all of them -/
theorem Next.nest {α : Type} {r : Rdr} {v rest : List Nat} (h : Next r (v ++ rest))
    {f : Rdr → Except E (α × Rdr)} {a : α}
    (hf : f (.nested r v.length 0) = .ok (a, (Rdr.nested r v.length 0).adv v.length)) :
    readNested r v.length f = .ok (a, r.adv v.length) := by
  obtain ⟨hn, hnext⟩ := Next.nested h
  unfold readNested
  rw [hn]
  simp only [Bind.bind, Except.bind, hf]
  have hwf : ((Rdr.nested r v.length 0).adv v.length).WF := hnext.wf.adv (by simp [Rdr.inputLen, Rdr.position])
  have hfin : ((Rdr.nested r v.length 0).adv v.length).finish = .ok () := by
    unfold Rdr.finish
    rw [isFinished_ok hwf]
    simp [Rdr.adv, Rdr.inputLen, Rdr.position, Bind.bind, Except.bind, Pure.pure, Except.pure]
  rw [hfin]
  simp [Rdr.adv, Pure.pure, Except.pure]


theorem Next.ofSlice {bytes : List Nat} (h : bytes.length ≤ MAX_LEN) : Next (.slice bytes 0) bytes :=
  ⟨⟨Nat.zero_le _, h⟩, by simp [Rdr.inputLen, Rdr.position], by simp [Rdr.input, Rdr.offset]⟩

theorem Next.nil_of {r : Rdr} {l : List Nat} (h : Next r l) : Next r (l ++ []) := by simpa using h

/-- a nested reader that has delivered everything peeks nothing -/
theorem peekByte_done {i : Rdr} {n : Nat} (h : (Rdr.nested i n n).WF) : (Rdr.nested i n n).peekByte = .ok none := by
  unfold Rdr.peekByte
  rw [isFinished_ok h]
  simp [Rdr.inputLen, Rdr.position, Bind.bind, Except.bind, Pure.pure, Except.pure]

/-- `from_der` of a SEQUENCE whose `decode_value` consumes exactly the body -/
theorem fromDerSeq_enc {α : Type} {body : List Nat} {dv : Rdr → Nat → Except E (α × Rdr)} {a : α}
    (hmax : (encTlv TAG_SEQUENCE body).length ≤ MAX_LEN)
    (hdv : ∀ r, Next r (body ++ []) → dv r body.length = .ok (a, r.adv body.length)) :
    fromDerSeq (encTlv TAG_SEQUENCE body) dv = .ok a := by
  unfold fromDerSeq Rdr.new
  rw [lenNew_of_le hmax]
  simp only [Bind.bind, Except.bind, Pure.pure, Except.pure]
  have h0 : Next (.slice (encTlv TAG_SEQUENCE body) 0) (encTlv TAG_SEQUENCE body ++ []) := (Next.ofSlice hmax).nil_of
  obtain ⟨hh, hn⟩ := Next.tlvHeader h0 tagOfByte_seq
  rw [hh]
  simp only
  rw [if_neg (by simp), hdv _ hn]
  simp only
  have hwf := (hn.adv (x := body) (rest := [])).wf
  have hfin : (((Rdr.slice (encTlv TAG_SEQUENCE body) 0).adv (1 + (encLen body.length).length)).adv body.length).finish = .ok () := by
    unfold Rdr.finish
    rw [isFinished_ok hwf]
    simp [Rdr.adv, Rdr.inputLen, Rdr.position, encTlv, Bind.bind, Except.bind, Pure.pure, Except.pure]
    omega
  rw [hfin]

theorem oid_len_ok : OID_PKCS7_SIGNED_DATA.length ≤ OID_MAX_SIZE ∧ OID_PKCS7_DATA.length ≤ OID_MAX_SIZE ∧
    OID_SHA256.length ≤ OID_MAX_SIZE ∧ OID_ECDSA_WITH_SHA256.length ≤ OID_MAX_SIZE := by decide

theorem Next.algId {r : Rdr} {c rest : List Nat} (h : Next r (encAlgId c ++ rest)) (hc : c.length ≤ OID_MAX_SIZE) :
    algIdDecode c r = .ok (r.adv (encAlgId c).length) := by
  obtain ⟨hh, hn⟩ := Next.tlvHeader (tag := TAG_SEQUENCE) (v := encOid c) (by simpa [encAlgId] using h) tagOfByte_seq
  unfold algIdDecode
  rw [hh]
  simp only [Bind.bind, Except.bind]
  rw [if_neg (by simp)]
  have hbody : (fun n => do
        let n1 ← expectOid c n
        match ← n1.peekByte with
        | none => pure ((), n1)
        | some b => do
          let _ ← tagOfByte b
          let (_, n2) ← anyDecode n1
          pure ((), n2)) (Rdr.nested (r.adv (1 + (encLen (encOid c).length).length)) (encOid c).length 0)
      = (.ok ((), (Rdr.nested (r.adv (1 + (encLen (encOid c).length).length)) (encOid c).length 0).adv (encOid c).length) : Except E (Unit × Rdr)) := by
    obtain ⟨_, hnn⟩ := Next.nested hn
    simp only [Bind.bind, Except.bind]
    rw [Next.oid hnn.nil_of hc]
    simp only
    have hwf := (hnn.nil_of.adv (x := encOid c) (rest := [])).wf
    have : ((Rdr.nested (r.adv (1 + (encLen (encOid c).length).length)) (encOid c).length 0).adv (encOid c).length)
        = Rdr.nested ((r.adv (1 + (encLen (encOid c).length).length)).adv (encOid c).length) (encOid c).length (encOid c).length := by
      simp [Rdr.adv]
    rw [this] at hwf ⊢
    rw [peekByte_done hwf]
    rfl
  rw [Next.nest hn hbody]
  simp only [Pure.pure, Except.pure, Rdr.adv_adv, encAlgId, encTlv_length]


theorem Rdr.adv_offset (r : Rdr) (k : Nat) : (r.adv k).offset = r.offset + k := (r.adv_facts k).1

theorem Rdr.adv_eq_of_eq (r : Rdr) {j k : Nat} (h : j = k) : r.adv j = r.adv k := by rw [h]

/-- `ContentInfo::decode_value` on `OID signedData ‖ [0] { sd }` -/
theorem contentInfo_enc {r : Rdr} {sd : List Nat}
    (h : Next r ((encOid OID_PKCS7_SIGNED_DATA ++ encTlv 0xA0 sd) ++ [])) :
    contentInfoValue r (encOid OID_PKCS7_SIGNED_DATA ++ encTlv 0xA0 sd).length
      = .ok ((sd, r.offset + (encOid OID_PKCS7_SIGNED_DATA).length + (1 + (encLen sd.length).length)),
          r.adv (encOid OID_PKCS7_SIGNED_DATA ++ encTlv 0xA0 sd).length) := by
  obtain ⟨_, hn⟩ := Next.nested h
  have hn0 : Next (Rdr.nested r (encOid OID_PKCS7_SIGNED_DATA ++ encTlv 0xA0 sd).length 0)
      (encOid OID_PKCS7_SIGNED_DATA ++ (encTlv 0xA0 sd ++ [])) := by simpa using hn
  have h1 := Next.oid hn0 oid_len_ok.1
  have hn1 := hn0.adv
  obtain ⟨hh, hn2⟩ := Next.tlvHeader hn1 tagOfByte_a0
  have h3 := Next.sliceAt hn2
  simp only [Rdr.adv_offset, Rdr.offset] at h3
  unfold contentInfoValue
  refine Next.nest h ?_
  simp only [Bind.bind, Except.bind, h1, hh]
  rw [if_neg (by decide), h3, Rdr.adv_adv, Rdr.adv_adv]
  congr 2
  apply Rdr.adv_eq_of_eq
  first | omega | (simp [encTlv_length]; done) | (simp [encTlv_length]; omega)

/-- `EncapsulatedContentInfo::decode` on `SEQUENCE { OID data, [0] { OCTET STRING content } }` -/
theorem encap_enc {r : Rdr} {content rest : List Nat}
    (h : Next r (encTlv TAG_SEQUENCE (encOid OID_PKCS7_DATA ++ encTlv 0xA0 (encTlv TAG_OCTET_STRING content)) ++ rest)) :
    encapDecode r = .ok ((content, r.offset + (1 + (encLen (encOid OID_PKCS7_DATA ++ encTlv 0xA0 (encTlv TAG_OCTET_STRING content)).length).length)
        + (encOid OID_PKCS7_DATA).length + (1 + (encLen (encTlv TAG_OCTET_STRING content).length).length)
        + (1 + (encLen content.length).length)),
      r.adv (encTlv TAG_SEQUENCE (encOid OID_PKCS7_DATA ++ encTlv 0xA0 (encTlv TAG_OCTET_STRING content))).length) := by
  obtain ⟨hh, hb⟩ := Next.tlvHeader h tagOfByte_seq
  obtain ⟨_, hn⟩ := Next.nested hb
  have hn0 : Next (Rdr.nested (r.adv (1 + (encLen (encOid OID_PKCS7_DATA ++ encTlv 0xA0 (encTlv TAG_OCTET_STRING content)).length).length))
      (encOid OID_PKCS7_DATA ++ encTlv 0xA0 (encTlv TAG_OCTET_STRING content)).length 0)
      (encOid OID_PKCS7_DATA ++ (encTlv 0xA0 (encTlv TAG_OCTET_STRING content) ++ [])) := by simpa using hn
  have h1 := Next.oid hn0 oid_len_ok.2.1
  have hn1 := hn0.adv
  obtain ⟨hh2, hn2⟩ := Next.tlvHeader hn1 tagOfByte_a0
  obtain ⟨_, hn3⟩ := Next.nested hn2
  have h4 := Next.octet hn3.nil_of
  simp only [Rdr.adv_offset, Rdr.offset] at h4
  have h5 := Next.nest hn2 (f := octetStringDecode) h4
  have hbody : (fun n => do
        let n1 ← expectOid OID_PKCS7_DATA n
        let ((ctag, clen), n2) ← headerDecode n1
        if ctag ≠ 0xA0 then .error .tagUnexpected else
          readNested n2 clen octetStringDecode)
      (Rdr.nested (r.adv (1 + (encLen (encOid OID_PKCS7_DATA ++ encTlv 0xA0 (encTlv TAG_OCTET_STRING content)).length).length))
        (encOid OID_PKCS7_DATA ++ encTlv 0xA0 (encTlv TAG_OCTET_STRING content)).length 0)
      = .ok ((content, r.offset + (1 + (encLen (encOid OID_PKCS7_DATA ++ encTlv 0xA0 (encTlv TAG_OCTET_STRING content)).length).length)
          + (encOid OID_PKCS7_DATA).length + (1 + (encLen (encTlv TAG_OCTET_STRING content).length).length)
          + (1 + (encLen content.length).length)),
        (Rdr.nested (r.adv (1 + (encLen (encOid OID_PKCS7_DATA ++ encTlv 0xA0 (encTlv TAG_OCTET_STRING content)).length).length))
          (encOid OID_PKCS7_DATA ++ encTlv 0xA0 (encTlv TAG_OCTET_STRING content)).length 0).adv
          (encOid OID_PKCS7_DATA ++ encTlv 0xA0 (encTlv TAG_OCTET_STRING content)).length) := by
    simp only [Bind.bind, Except.bind, h1, hh2]
    rw [if_neg (by simp), h5, Rdr.adv_adv, Rdr.adv_adv]
    congr 2
    apply Rdr.adv_eq_of_eq
    first | omega | (simp [encTlv_length]; done) | (simp [encTlv_length]; omega)
  unfold encapDecode
  rw [hh]
  simp only [Bind.bind, Except.bind]
  rw [if_neg (by simp), Next.nest hb hbody, Rdr.adv_adv]
  congr 2
  apply Rdr.adv_eq_of_eq
  first | omega | (simp [encTlv_length]; done) | (simp [encTlv_length]; omega)


/-- body of the SignerInfo SEQUENCE that `encSignerInfo` writes -/
def signerBody (kid sigder : List Nat) : List Nat :=
  [0x02, 0x01, 0x03] ++ (encTlv 0x80 kid ++ (encAlgId OID_SHA256 ++ (encAlgId OID_ECDSA_WITH_SHA256 ++
    (encTlv TAG_OCTET_STRING sigder ++ []))))

theorem signerBody_length (kid sigder : List Nat) : (signerBody kid sigder).length =
    3 + (encTlv 0x80 kid).length + (encAlgId OID_SHA256).length + (encAlgId OID_ECDSA_WITH_SHA256).length +
      (encTlv TAG_OCTET_STRING sigder).length := by
  simp [signerBody]; omega

/-- `SignerInfo::decode_value` on the encoded body -/
theorem signerInfo_enc {r : Rdr} {kid sigder : List Nat} (hk : kid.length = KEY_IDENTIFIER_LEN)
    (h : Next r (signerBody kid sigder ++ [])) :
    ∃ o1 o2, signerInfoValue r (signerBody kid sigder).length
      = .ok (((kid, o1), (sigder, o2)), r.adv (signerBody kid sigder).length) := by
  obtain ⟨_, hn⟩ := Next.nested h
  have hn0 : Next (Rdr.nested r (signerBody kid sigder).length 0)
      ([0x02, 0x01, 0x03] ++ (encTlv 0x80 kid ++ (encAlgId OID_SHA256 ++ (encAlgId OID_ECDSA_WITH_SHA256 ++
        (encTlv TAG_OCTET_STRING sigder ++ []))))) := hn
  have h1 := Next.u8 hn0
  have hn1 : Next ((Rdr.nested r (signerBody kid sigder).length 0).adv 3)
      (encTlv 0x80 kid ++ (encAlgId OID_SHA256 ++ (encAlgId OID_ECDSA_WITH_SHA256 ++
        (encTlv TAG_OCTET_STRING sigder ++ [])))) := hn0.adv
  obtain ⟨hh, hn2⟩ := Next.tlvHeader hn1 tagOfByte_80
  have h3 := Next.sliceAt hn2
  have hn3 := hn2.adv
  have h4 := Next.algId hn3 oid_len_ok.2.2.1
  have hn4 := hn3.adv
  have h5 := Next.algId hn4 oid_len_ok.2.2.2
  have hn5 := hn4.adv
  have h6 := Next.octet hn5
  refine ⟨?_, ?_, ?_⟩
  rotate_left 2
  · unfold signerInfoValue
    refine Next.nest h ?_
    simp only [Bind.bind, Except.bind, h1, hh]
    rw [if_neg (by decide), h3]
    simp only
    rw [if_neg (by simp [hk])]
    simp only [h4, h5, h6]
    simp only [Pure.pure, Except.pure, Rdr.adv_adv, List.length_cons, List.length_nil]
    congr 2
    · rfl
    · apply Rdr.adv_eq_of_eq
      rw [signerBody_length, encTlv_length 0x80 kid]; omega


def encEncap (content : List Nat) : List Nat :=
  encTlv TAG_SEQUENCE (encOid OID_PKCS7_DATA ++ encTlv 0xA0 (encTlv TAG_OCTET_STRING content))

/-- body of the SignedData SEQUENCE that `encSignedData` writes (`si` = the bytes of the SignerInfo element) -/
def signedBody (content si : List Nat) : List Nat :=
  [0x02, 0x01, 0x03] ++ (encTlv TAG_SET (encAlgId OID_SHA256) ++ (encEncap content ++ (encTlv TAG_SET si ++ [])))

theorem signedBody_length (content si : List Nat) : (signedBody content si).length =
    3 + (encTlv TAG_SET (encAlgId OID_SHA256)).length + (encEncap content).length + (encTlv TAG_SET si).length := by
  simp [signedBody]; omega

/-- `SignedData::decode_value` on the encoded body -/
theorem signedData_enc {r : Rdr} {content si : List Nat} (h : Next r (signedBody content si ++ [])) :
    ∃ o1 o2, signedDataValue r (signedBody content si).length
      = .ok (((content, o1), (si, o2)), r.adv (signedBody content si).length) := by
  obtain ⟨_, hn⟩ := Next.nested h
  have hn0 : Next (Rdr.nested r (signedBody content si).length 0)
      ([0x02, 0x01, 0x03] ++ (encTlv TAG_SET (encAlgId OID_SHA256) ++ (encEncap content ++ (encTlv TAG_SET si ++ [])))) := hn
  have h1 := Next.u8 hn0
  have hn1 : Next ((Rdr.nested r (signedBody content si).length 0).adv 3)
      (encTlv TAG_SET (encAlgId OID_SHA256) ++ (encEncap content ++ (encTlv TAG_SET si ++ []))) := hn0.adv
  have h2 := Next.any hn1 tagOfByte_set
  have hn2 := hn1.adv
  have h3 := encap_enc (content := content) (rest := encTlv TAG_SET si ++ []) hn2
  have hn3 : Next ((((Rdr.nested r (signedBody content si).length 0).adv 3).adv (encTlv TAG_SET (encAlgId OID_SHA256)).length).adv
      (encEncap content).length) (encTlv TAG_SET si ++ []) := hn2.adv
  obtain ⟨hh, hn4⟩ := Next.tlvHeader hn3 tagOfByte_set
  have h5 := Next.sliceAt hn4
  have hsl : si.length ≤ MAX_LEN := by have := hn4.length_le; simp at this; omega
  refine ⟨?_, ?_, ?_⟩
  rotate_left 2
  · unfold signedDataValue
    refine Next.nest h ?_
    simp only [Bind.bind, Except.bind, h1, h2]
    rw [if_neg (by simp)]
    simp only [encEncap] at h3 hh h5 ⊢
    simp only [h3, hh, h5, lenNew_of_le hsl]
    rw [if_neg (by simp)]
    simp only [Pure.pure, Except.pure, Rdr.adv_adv]
    congr 2
    · rfl
    · apply Rdr.adv_eq_of_eq
      rw [signedBody_length, encTlv_length TAG_SET si]; simp only [encEncap]; omega


/-- `from_der` of a SEQUENCE whose `decode_value` consumes exactly the body; the value may depend on the reader -/
theorem fromDerSeq_encP {α : Type} {body : List Nat} {dv : Rdr → Nat → Except E (α × Rdr)} {P : α → Prop}
    (hmax : (encTlv TAG_SEQUENCE body).length ≤ MAX_LEN)
    (hdv : ∀ r, Next r (body ++ []) → ∃ a, P a ∧ dv r body.length = .ok (a, r.adv body.length)) :
    ∃ a, P a ∧ fromDerSeq (encTlv TAG_SEQUENCE body) dv = .ok a := by
  have h0 : Next (.slice (encTlv TAG_SEQUENCE body) 0) (encTlv TAG_SEQUENCE body ++ []) := (Next.ofSlice hmax).nil_of
  obtain ⟨hh, hn⟩ := Next.tlvHeader h0 tagOfByte_seq
  obtain ⟨a, hp, ha⟩ := hdv _ hn
  refine ⟨a, hp, ?_⟩
  unfold fromDerSeq Rdr.new
  rw [lenNew_of_le hmax]
  simp only [Bind.bind, Except.bind, Pure.pure, Except.pure]
  rw [hh]
  simp only
  rw [if_neg (by simp), ha]
  simp only
  have hwf := (hn.adv (x := body) (rest := [])).wf
  have hfin : (((Rdr.slice (encTlv TAG_SEQUENCE body) 0).adv (1 + (encLen body.length).length)).adv body.length).finish = .ok () := by
    unfold Rdr.finish
    rw [isFinished_ok hwf]
    simp [Rdr.adv, Rdr.inputLen, Rdr.position, encTlv, Bind.bind, Except.bind, Pure.pure, Except.pure]
    omega
  rw [hfin]

theorem encSignerInfo_eq (kid r s : List Nat) : encSignerInfo kid r s = encTlv TAG_SEQUENCE (signerBody kid (encSig r s)) := by
  simp [encSignerInfo, signerBody, List.append_assoc]

theorem encSignedData_eq (content kid r s : List Nat) :
    encSignedData content kid r s = encTlv TAG_SEQUENCE (signedBody content (encSignerInfo kid r s)) := by
  simp [encSignedData, signedBody, encEncap, List.append_assoc]

theorem encTlv_length_ge (tag : Nat) (v : List Nat) : v.length ≤ (encTlv tag v).length := by
  rw [encTlv_length]; omega

/-- **CMS round trip**: `CmsSignedData::parse` of the Matter CD envelope built from `content`, a 20-byte key
identifier and the signature `(r, s)` returns exactly these -/
theorem cmsParse_encCms {content kid r s : List Nat} (hk : kid.length = KEY_IDENTIFIER_LEN) (hr : Canon 32 r)
    (hs : Canon 32 s) (hmax : (encCms content kid r s).length ≤ MAX_LEN) :
    ∃ c, cmsParse (encCms content kid r s) = .ok c ∧ c.kid = kid ∧ c.cd = content ∧
      c.sig = padLeft 32 r ++ padLeft 32 s := by
  -- sizes of the nested encodings
  have hlen1 : (encSignedData content kid r s).length ≤ MAX_LEN := by
    have h1 := encTlv_length_ge 0xA0 (encSignedData content kid r s)
    have h2 := encTlv_length_ge TAG_SEQUENCE (encOid OID_PKCS7_SIGNED_DATA ++ encTlv 0xA0 (encSignedData content kid r s))
    simp only [List.length_append] at h2
    unfold encCms at hmax
    omega
  have hlen2 : (encSignerInfo kid r s).length ≤ MAX_LEN := by
    have h1 := encTlv_length_ge TAG_SET (encSignerInfo kid r s)
    have h2 := encTlv_length_ge TAG_SEQUENCE (signedBody content (encSignerInfo kid r s))
    rw [signedBody_length] at h2
    rw [encSignedData_eq] at hlen1
    omega
  -- level 1: ContentInfo
  obtain ⟨a1, hp1, he1⟩ := fromDerSeq_encP (dv := contentInfoValue) (P := fun a => a.1 = encSignedData content kid r s)
    (body := encOid OID_PKCS7_SIGNED_DATA ++ encTlv 0xA0 (encSignedData content kid r s)) hmax
    (fun rd hrd => ⟨_, rfl, contentInfo_enc hrd⟩)
  -- level 2: SignedData
  obtain ⟨a2, hp2, he2⟩ := fromDerSeq_encP (dv := signedDataValue)
    (P := fun a => a.1.1 = content ∧ a.2.1 = encSignerInfo kid r s)
    (body := signedBody content (encSignerInfo kid r s)) (by rw [← encSignedData_eq]; exact hlen1)
    (fun rd hrd => by
      obtain ⟨o1, o2, h⟩ := signedData_enc hrd
      exact ⟨_, ⟨rfl, rfl⟩, h⟩)
  -- level 3: SignerInfo
  obtain ⟨a3, hp3, he3⟩ := fromDerSeq_encP (dv := signerInfoValue)
    (P := fun a => a.1.1 = kid ∧ a.2.1 = encSig r s)
    (body := signerBody kid (encSig r s)) (by rw [← encSignerInfo_eq]; exact hlen2)
    (fun rd hrd => by
      obtain ⟨o1, o2, h⟩ := signerInfo_enc hk hrd
      exact ⟨_, ⟨rfl, rfl⟩, h⟩)
  obtain ⟨sd, sdOff⟩ := a1
  obtain ⟨⟨cd, cdOff⟩, ⟨si, siOff⟩⟩ := a2
  obtain ⟨⟨kd, kdOff⟩, ⟨sg, sgOff⟩⟩ := a3
  simp only at hp1 hp2 hp3
  obtain ⟨hp2a, hp2b⟩ := hp2
  obtain ⟨hp3a, hp3b⟩ := hp3
  subst hp1 hp2a hp2b hp3a hp3b
  refine ⟨{ kid := kd, kidOff := sdOff + siOff + kdOff, cd := cd, cdOff := sdOff + cdOff,
            sig := padLeft 32 r ++ padLeft 32 s }, ?_, rfl, rfl, rfl⟩
  unfold cmsParse
  unfold encCms
  simp only [he1, mapCdInvalid, Bind.bind, Except.bind]
  rw [encSignedData_eq]
  simp only [he2]
  rw [encSignerInfo_eq]
  simp only [he3, ecdsaDerToRaw_encSig hr hs, Pure.pure, Except.pure]

end Codec.DerRd
