import RsMatterVerif.Model.Admin
/-!
# Lemmas about `Model/Admin` shared by the C07 / C08 / C11 property files
-/
namespace Admin

/-- the stored copy of the fabric with index `i` -/
def kvF (kv : KV) (i : Nat) : Option Fabric := kv.fabs.find? (fun f => f.idx = i)

theorem find_filter_ne (l : List Fabric) (k i : Nat) :
    (l.filter (fun f => f.idx ≠ k)).find? (fun f => f.idx = i) =
      if i = k then none else l.find? (fun f => f.idx = i) := by
  induction l with
  | nil => simp
  | cons g r ih =>
    by_cases hg : g.idx = k
    · by_cases hi : i = k
      · simp_all
      · have : g.idx ≠ i := by omega
        simp_all
    · by_cases hgi : g.idx = i
      · have : i ≠ k := by omega
        simp_all
      · simp_all

theorem find_filter_neB (l : List Fabric) (k i : Nat) :
    (l.filter (fun f => !decide (f.idx = k))).find? (fun f => decide (f.idx = i)) =
      if i = k then none else l.find? (fun f => decide (f.idx = i)) := by
  have := find_filter_ne l k i
  simpa [decide_not] using this

theorem find_append_single (l : List Fabric) (f : Fabric) (i : Nat) :
    (l ++ [f]).find? (fun g => g.idx = i) =
      match l.find? (fun g => g.idx = i) with
      | some g => some g
      | none => if f.idx = i then some f else none := by
  induction l with
  | nil => simp
  | cons g r ih => by_cases hg : g.idx = i <;> simp_all

theorem find_map_set (l : List Fabric) (f : Fabric) (i : Nat) :
    (l.map (fun g => if g.idx = f.idx then f else g)).find? (fun g => g.idx = i) =
      if i = f.idx then (l.find? (fun g => g.idx = i)).map (fun _ => f) else l.find? (fun g => g.idx = i) := by
  induction l with
  | nil => simp
  | cons g r ih =>
    by_cases hg : g.idx = f.idx
    · by_cases hi : i = f.idx
      · simp_all
      · have : ¬ g.idx = i := by omega
        have h2 : ¬ f.idx = i := by omega
        simp_all
    · by_cases hgi : g.idx = i
      · have : ¬ i = f.idx := by omega
        simp_all
      · simp_all

theorem getFabric_setFabric (n : Node) (f : Fabric) (i : Nat) :
    getFabric (setFabric n f) i =
      if i = f.idx then (getFabric n i).map (fun _ => f) else getFabric n i := by
  simp only [getFabric, setFabric]
  exact find_map_set n.fabrics f i

theorem kvF_putFabric (kv : KV) (f : Fabric) (i : Nat) :
    kvF (kv.putFabric f) i = if i = f.idx then some f else kvF kv i := by
  simp only [kvF, KV.putFabric]
  by_cases h : i = f.idx
  · subst h; simp
  · have h' : ¬ f.idx = i := by omega
    rw [List.find?_cons]
    simp only [h', decide_false]
    rw [find_filter_ne]
    simp [h]

theorem kvF_delFabric (kv : KV) (k i : Nat) :
    kvF (kv.delFabric k) i = if i = k then none else kvF kv i := by
  simp only [kvF, KV.delFabric]
  exact find_filter_ne kv.fabs k i

def kvNets (kv : KV) : List Nat × Bool := match kv.nets with | some p => p | none => ([], false)
def exemptIdx (n : Node) : Nat := match n.fs with | some a => a.fab | none => 0


/-! ## the store primitives, with or without an injected fault -/

/-- everything the invariants look at, except the store, is unchanged -/
structure Frame (n n' : Node) : Prop where
  fabrics : n'.fabrics = n.fabrics
  sessions : n'.sessions = n.sessions
  resum : n'.resum = n.resum
  fs : n'.fs = n.fs
  nets : n'.nets = n.nets
  managed : n'.managed = n.managed
  nextGen : n'.nextGen = n.nextGen

theorem Frame.refl (n : Node) : Frame n n := ⟨rfl, rfl, rfl, rfl, rfl, rfl, rfl⟩

theorem Frame.trans {a b c : Node} (h1 : Frame a b) (h2 : Frame b c) : Frame a c :=
  ⟨by rw [h2.fabrics, h1.fabrics], by rw [h2.sessions, h1.sessions], by rw [h2.resum, h1.resum],
   by rw [h2.fs, h1.fs], by rw [h2.nets, h1.nets], by rw [h2.managed, h1.managed],
   by rw [h2.nextGen, h1.nextGen]⟩

theorem kvTick_frame (n : Node) :
    Frame n (kvTick n).1 ∧ (kvTick n).1.kv = n.kv ∧ (kvTick n).1.hist = n.hist := by
  refine ⟨⟨?_, ?_, ?_, ?_, ?_, ?_, ?_⟩, ?_, ?_⟩
  all_goals (unfold kvTick; split <;> (try split) <;> rfl)

/-- closes `x = x` goals, also after `simp only` has turned them into `True` -/
macro "triv" : term => `(by first | rfl | trivial)

/-- `FabricPersist::store`: either the blob is written (one new element of the store history), or
the call fails and the store is untouched -/
theorem storeFabric_spec (n : Node) (f : Fabric) :
    Frame n (storeFabric n f).1 ∧
    (((storeFabric n f).2 = true ∧ (storeFabric n f).1.kv = n.kv.putFabric f ∧
        (storeFabric n f).1.hist = n.kv.putFabric f :: n.hist) ∨
     ((storeFabric n f).2 = false ∧ (storeFabric n f).1.kv = n.kv ∧ (storeFabric n f).1.hist = n.hist)) := by
  have ⟨hfr, hkv, hh⟩ := kvTick_frame n
  unfold storeFabric
  rcases ht : kvTick n with ⟨n1, bad⟩
  rw [ht] at hfr hkv hh
  simp only at hfr hkv hh
  cases bad with
  | true => exact ⟨hfr, Or.inr ⟨triv, hkv, hh⟩⟩
  | false =>
    simp only [Bool.false_eq_true, if_false, kvCommit]
    refine ⟨⟨hfr.fabrics, hfr.sessions, hfr.resum, hfr.fs, hfr.nets, hfr.managed, hfr.nextGen⟩, Or.inl ⟨triv, ?_, ?_⟩⟩
    · simp only [hkv]
    · simp only [hkv, hh]

/-- `FabricPersist::remove` -/
theorem removeFabricKey_spec (n : Node) (idx : Nat) :
    Frame n (removeFabricKey n idx).1 ∧ (removeFabricKey n idx).1.kv.nets = n.kv.nets ∧
    (removeFabricKey n idx).1.kv.resum = n.kv.resum ∧
    (((removeFabricKey n idx).2 = true ∧
        (∀ i, kvF (removeFabricKey n idx).1.kv i = if i = idx then none else kvF n.kv i) ∧
        ((removeFabricKey n idx).1.kv = n.kv.delFabric idx ∧
            (removeFabricKey n idx).1.hist = n.kv.delFabric idx :: n.hist ∨
         (removeFabricKey n idx).1.kv = n.kv ∧ (removeFabricKey n idx).1.hist = n.hist)) ∨
     ((removeFabricKey n idx).2 = false ∧ (removeFabricKey n idx).1.kv = n.kv ∧
        (removeFabricKey n idx).1.hist = n.hist)) := by
  have ⟨hfr, hkv, hh⟩ := kvTick_frame n
  unfold removeFabricKey
  rcases ht : kvTick n with ⟨n1, bad⟩
  rw [ht] at hfr hkv hh
  simp only at hfr hkv hh
  cases bad with
  | true => exact ⟨hfr, by simp only [if_true, hkv], by simp only [if_true, hkv], Or.inr ⟨triv, hkv, hh⟩⟩
  | false =>
    simp only [Bool.false_eq_true, if_false]
    by_cases hk : n1.kv.hasFabric idx = true
    · simp only [hk, if_true, kvCommit]
      refine ⟨⟨hfr.fabrics, hfr.sessions, hfr.resum, hfr.fs, hfr.nets, hfr.managed, hfr.nextGen⟩, ?_, ?_, Or.inl ⟨triv, ?_, Or.inl ⟨?_, ?_⟩⟩⟩
      · simp only [KV.delFabric, hkv]
      · simp only [KV.delFabric, hkv]
      · intro i; rw [kvF_delFabric, hkv]
      · simp only [hkv]
      · simp only [hkv, hh]
    · have hk' : n1.kv.hasFabric idx = false := by simpa using hk
      simp only [hk', Bool.false_eq_true, if_false]
      refine ⟨hfr, by rw [hkv], by rw [hkv], Or.inl ⟨triv, ?_, Or.inr ⟨hkv, hh⟩⟩⟩
      intro i
      rw [hkv]
      by_cases hi : i = idx
      · subst hi
        simp only [if_true]
        rw [hkv] at hk'
        unfold KV.hasFabric at hk'
        unfold kvF
        rw [List.find?_eq_none]
        intro f hfm
        have := (List.any_eq_false.mp hk') f hfm
        simpa using this
      · simp only [hi, if_false]

theorem storeNets_spec (n : Node) :
    Frame n (storeNets n).1 ∧
    (((storeNets n).2 = true ∧ (storeNets n).1.kv = { n.kv with nets := some (n.nets, n.managed) } ∧
        (storeNets n).1.hist = { n.kv with nets := some (n.nets, n.managed) } :: n.hist) ∨
     ((storeNets n).2 = false ∧ (storeNets n).1.kv = n.kv ∧ (storeNets n).1.hist = n.hist)) := by
  have ⟨hfr, hkv, hh⟩ := kvTick_frame n
  unfold storeNets
  rcases ht : kvTick n with ⟨n1, bad⟩
  rw [ht] at hfr hkv hh
  simp only at hfr hkv hh
  cases bad with
  | true => exact ⟨hfr, Or.inr ⟨triv, hkv, hh⟩⟩
  | false =>
    simp only [Bool.false_eq_true, if_false, kvCommit]
    refine ⟨⟨hfr.fabrics, hfr.sessions, hfr.resum, hfr.fs, hfr.nets, hfr.managed, hfr.nextGen⟩, Or.inl ⟨triv, ?_, ?_⟩⟩
    · simp only [hkv, hfr.nets, hfr.managed]
    · simp only [hkv, hh, hfr.nets, hfr.managed]

/-- `MatterState::store_resumption`: either the resumption blob is written (the cache as it is) and
the failure mark is cleared, or the call fails, the store is untouched and the failure is remembered -/
theorem storeResum_spec (n : Node) :
    Frame n (storeResum n).1 ∧ (storeResum n).1.kv.fabs = n.kv.fabs ∧ (storeResum n).1.kv.nets = n.kv.nets ∧
    (((storeResum n).2 = false ∧ (storeResum n).1.kv = n.kv ∧ (storeResum n).1.hist = n.hist ∧
        (storeResum n).1.resumStale = true) ∨
     ((storeResum n).2 = true ∧ (storeResum n).1.kv = { n.kv with resum := .recs n.resum } ∧
      (storeResum n).1.hist = { n.kv with resum := .recs n.resum } :: n.hist ∧
        (storeResum n).1.resumStale = false)) := by
  have ⟨hfr, hkv, hh⟩ := kvTick_frame n
  unfold storeResum
  rcases ht : kvTick n with ⟨n1, bad⟩
  rw [ht] at hfr hkv hh
  simp only at hfr hkv hh
  cases bad with
  | true =>
    simp only [if_true]
    exact ⟨⟨hfr.fabrics, hfr.sessions, hfr.resum, hfr.fs, hfr.nets, hfr.managed, hfr.nextGen⟩,
      by rw [hkv], by rw [hkv], Or.inl ⟨triv, hkv, hh, triv⟩⟩
  | false =>
    simp only [Bool.false_eq_true, if_false, kvCommit]
    refine ⟨⟨hfr.fabrics, hfr.sessions, hfr.resum, hfr.fs, hfr.nets, hfr.managed, hfr.nextGen⟩, ?_, ?_,
      Or.inr ⟨triv, ?_, ?_, triv⟩⟩
    · simp only [hkv]
    · simp only [hkv]
    · simp only [hkv, hfr.resum]
    · simp only [hkv, hfr.resum, hh]

/-- `MatterState::retry_resumption_store`: nothing, or `store_resumption` -/
theorem retryResum_cases (n : Node) : retryResum n = (n, true) ∨ retryResum n = storeResum n := by
  unfold retryResum
  split
  · exact Or.inr rfl
  · exact Or.inl rfl

/-- `MatterState::purge_resumption_for_fabric`: the records of `idx` are gone from the cache; the
store is touched in its resumption blob only (if at all) -/
theorem purgeResum_spec (n : Node) (idx : Nat) :
    (purgeResum n idx).1.fabrics = n.fabrics ∧ (purgeResum n idx).1.sessions = n.sessions ∧
    (purgeResum n idx).1.fs = n.fs ∧ (purgeResum n idx).1.nets = n.nets ∧
    (purgeResum n idx).1.managed = n.managed ∧ (purgeResum n idx).1.nextGen = n.nextGen ∧
    (purgeResum n idx).1.resum = n.resum.filter (fun r => r.fab ≠ idx) ∧
    (purgeResum n idx).1.kv.fabs = n.kv.fabs ∧ (purgeResum n idx).1.kv.nets = n.kv.nets ∧
    (((purgeResum n idx).1.kv = n.kv ∧ (purgeResum n idx).1.hist = n.hist) ∨
     ((purgeResum n idx).2 = true ∧
      (purgeResum n idx).1.kv = { n.kv with resum := .recs (n.resum.filter (fun r => r.fab ≠ idx)) } ∧
      (purgeResum n idx).1.hist = { n.kv with resum := .recs (n.resum.filter (fun r => r.fab ≠ idx)) } :: n.hist)) := by
  unfold purgeResum
  have ⟨hfr, hf, hn, hst⟩ := storeResum_spec { n with resum := n.resum.filter (fun r => decide (r.fab ≠ idx)) }
  refine ⟨hfr.fabrics, hfr.sessions, hfr.fs, hfr.nets, hfr.managed, hfr.nextGen, hfr.resum, hf, hn, ?_⟩
  rcases hst with ⟨_, hkv, hh, _⟩ | ⟨hb, hkv, hh, _⟩
  · exact Or.inl ⟨hkv, hh⟩
  · exact Or.inr ⟨hb, hkv, hh⟩

/-- `AddNOC` = the retry of a failed resumption-cache store, then `addNoc`: a predicate kept by both
is kept by the command -/
theorem sessOp_addnoc_lift {P : Node → Prop} (cfg : Cfg) (n : Node) (sid s ca fid node subj ser : Nat) (mode : Mode)
    (hs : ∀ m, P m → P (storeResum m).1) (ha : ∀ m, P m → P (addNoc cfg m sid mode ca fid node subj ser).1)
    (h : P n) : P (sessOp cfg n sid mode (.addnoc s ca fid node subj ser)).1 := by
  simp only [sessOp]
  rcases retryResum_cases n with hr | hr
  · rw [hr]; exact ha n h
  · rw [hr]
    have h1 := hs n h
    rcases hst : storeResum n with ⟨n1, b⟩
    rw [hst] at h1
    cases b with
    | false => exact h1
    | true => exact ha n1 h1

/-! ## coherence of node and store, store faults included -/

/-- the fabric the fail-safe context is bound to was not changed in memory behind the store's back:
no deferred write, no `UpdateNOC`, not the (unstored) fabric of an `AddNOC` -/
def DefOK (n : Node) (D : List Nat) : Prop :=
  ∀ a, n.fs = some a → a.fab ≠ 0 → a.deferred = false → a.flags.updNoc = false → a.flags.addNoc = false →
    a.fab ∈ D ∨ getFabric n a.fab = kvF n.kv a.fab

/-- node and store agree: on every fabric index except the one the fail-safe is armed for and the
*dirty* ones (`D`: a fabric-scoped write outside the fail-safe was answered with a store error - the
change is in memory, not in the store), and - while no fail-safe is armed - on the networks -/
def CohD (n : Node) (D : List Nat) : Prop :=
  (∀ i, i ≠ 0 → i ≠ exemptIdx n → i ∉ D → getFabric n i = kvF n.kv i) ∧
  (n.fs = none → (n.nets, n.managed) = kvNets n.kv) ∧ DefOK n D

/-- coherence proper: nothing is dirty -/
def Coh (n : Node) : Prop := CohD n []

/-- full agreement of node and store (what `Coh` says once no fail-safe is armed) -/
def Agree (n : Node) : Prop :=
  (∀ i, i ≠ 0 → getFabric n i = kvF n.kv i) ∧ (n.nets, n.managed) = kvNets n.kv

theorem cohD_mono {n : Node} {D D' : List Nat} (hs : ∀ i, i ∈ D → i ∈ D') (h : CohD n D) : CohD n D' :=
  ⟨fun i h0 he hd => h.1 i h0 he (fun hm => hd (hs i hm)), h.2.1,
   fun a ha h0 h1 h2 h3 => (h.2.2 a ha h0 h1 h2 h3).elim (fun hm => Or.inl (hs _ hm)) Or.inr⟩

theorem cohD_of_agree {n : Node} (D : List Nat) (h : Agree n) : CohD n D :=
  ⟨fun i hi _ _ => h.1 i hi, fun _ => h.2, fun a _ h0 _ _ _ => Or.inr (h.1 a.fab h0)⟩

theorem agree_of_cohD_idle {n : Node} (h : CohD n []) (hfs : n.fs = none) : Agree n := by
  refine ⟨fun i hi => h.1 i hi ?_ (by simp), h.2.1 hfs⟩
  simp [exemptIdx, hfs]; omega

theorem cohD_congr {n n' : Node} {D : List Nat} (h1 : n'.fabrics = n.fabrics) (h2 : n'.fs = n.fs)
    (h3 : n'.nets = n.nets) (h4 : n'.managed = n.managed) (h5 : n'.kv.fabs = n.kv.fabs)
    (h6 : n'.kv.nets = n.kv.nets) (h : CohD n D) : CohD n' D := by
  unfold CohD DefOK getFabric kvF kvNets exemptIdx at *
  simp only [h1, h2, h3, h4, h5, h6]
  exact h

theorem cohD_frame {n n' : Node} {D : List Nat} (hf : Frame n n') (h5 : n'.kv.fabs = n.kv.fabs)
    (h6 : n'.kv.nets = n.kv.nets) (h : CohD n D) : CohD n' D :=
  cohD_congr hf.fabrics hf.fs hf.nets hf.managed h5 h6 h

theorem storeResum_cohD (n : Node) (D : List Nat) (hc : CohD n D) : CohD (storeResum n).1 D := by
  have ⟨hfr, hf, hn, _⟩ := storeResum_spec n
  exact cohD_frame hfr hf hn hc

/-- a change of the fail-safe context that keeps its fabric (re-arming, a flag) or starts a context -/
theorem cohD_setfs {n : Node} {D : List Nat} (b : Armed) (bc st : Nat) (hc : CohD n D)
    (h : (n.fs = none ∧ b.deferred = false ∨
         ∃ a, n.fs = some a ∧ a.fab = b.fab ∧ (b.deferred = false → a.deferred = false) ∧
           (b.flags.updNoc = false → a.flags.updNoc = false) ∧
           (b.flags.addNoc = false → a.flags.addNoc = false))) :
    CohD { n with fs := some b, bc := bc, staged := st } D := by
  refine ⟨fun i hi he hd => ?_, fun hn => by simp at hn, fun a ha h0 h1 h2 h3 => ?_⟩
  · have he' : i ≠ b.fab := by simpa [exemptIdx] using he
    rcases h with ⟨hn, _⟩ | ⟨a, ha, hab, _⟩
    · have := hc.1 i hi (by simp [exemptIdx, hn]; omega) hd
      simpa [getFabric, kvF] using this
    · have := hc.1 i hi (by simp [exemptIdx, ha, hab]; exact he') hd
      simpa [getFabric, kvF] using this
  · have hab : a = b := by simpa using ha.symm
    subst hab
    rcases h with ⟨hn, _⟩ | ⟨a0, ha0, hab, d1, d2, d3⟩
    · by_cases hd : a.fab ∈ D
      · exact Or.inl hd
      · right
        have := hc.1 a.fab h0 (by simp [exemptIdx, hn]; omega) hd
        simpa [getFabric, kvF] using this
    · have := hc.2.2 a0 ha0 (by rw [hab]; exact h0) (d1 h1) (d2 h2) (d3 h3)
      rw [hab] at this
      simpa [getFabric, kvF] using this

/-- network changes are only made while the fail-safe is armed -/
theorem cohD_nets_armed {n : Node} {D : List Nat} (l : List Nat) (m : Bool) (hc : CohD n D) (ha : n.fs ≠ none) :
    CohD { n with nets := l, managed := m } D := by
  refine ⟨fun i hi he hd => ?_, fun hn => absurd hn ha, fun a ha' h0 h1 h2 h3 => ?_⟩
  · have := hc.1 i hi (by simpa [exemptIdx] using he) hd
    simpa [getFabric, kvF] using this
  · have := hc.2.2 a ha' h0 h1 h2 h3
    simpa [getFabric, kvF] using this

theorem checkArmed_none {n : Node} {mode : Mode} (h : checkArmed n mode = none) :
    ∃ a, n.fs = some a ∧ a.fab = mode.fab := by
  unfold checkArmed at h
  cases hfs : n.fs with
  | none => simp [hfs] at h
  | some a =>
    simp only [hfs] at h
    by_cases hab : a.fab = mode.fab
    · exact ⟨a, triv, hab⟩
    · simp [hab] at h

theorem getFabric_idx {n : Node} {i : Nat} {f : Fabric} (h : getFabric n i = some f) : f.idx = i := by
  simpa using List.find?_some h

theorem armedFor_iff (n : Node) (i : Nat) : armedFor n i = true ↔ ∃ a, n.fs = some a ∧ a.fab = i := by
  unfold armedFor
  cases n.fs with
  | none => simp
  | some a => simp

/-- a fabric-scoped write of fabric `f.idx` (ACL, group, label): the new record replaces the old one
in the node; it is stored unless the fail-safe is armed for this fabric (then the context remembers
the deferred change); a failing store leaves the fabric dirty -/
theorem cohD_fabric_write (n : Node) (D : List Nat) (f f' : Fabric) (hidx : f'.idx = f.idx) (hne : f.idx ≠ 0)
    (hget : getFabric n f.idx = some f) (hc : CohD n D) :
    CohD (if armedFor (setFabric n f') f.idx then ok (markDeferred (setFabric n f'))
      else match storeFabric (setFabric n f') f' with
        | (n, true) => ok n
        | (n, false) => (n, .err "NoSpace")).1
      (if (if armedFor (setFabric n f') f.idx then ok (markDeferred (setFabric n f'))
      else match storeFabric (setFabric n f') f' with
        | (n, true) => ok n
        | (n, false) => (n, .err "NoSpace")).2 = .err "NoSpace" then f.idx :: D else D) := by
  generalize hn1 : setFabric n f' = n1
  have hfs1 : n1.fs = n.fs := by rw [← hn1]; rfl
  have hkv1 : n1.kv = n.kv := by rw [← hn1]; rfl
  have hnets1 : n1.nets = n.nets := by rw [← hn1]; rfl
  have hman1 : n1.managed = n.managed := by rw [← hn1]; rfl
  have hget1 : ∀ i, getFabric n1 i = if i = f.idx then some f' else getFabric n i := by
    intro i
    rw [← hn1, getFabric_setFabric, hidx]
    by_cases hi : i = f.idx
    · subst hi; simp [hget]
    · simp [hi]
  have hex1 : exemptIdx n1 = exemptIdx n := by simp [exemptIdx, hfs1]
  by_cases harm : armedFor n1 f.idx = true
  · simp only [harm, if_true, ok]
    have ⟨a, ha, hab⟩ := (armedFor_iff n1 f.idx).mp harm
    have hmd : markDeferred n1 = { n1 with fs := some { a with deferred := true } } := by
      unfold markDeferred; rw [ha]
    rw [hmd]
    have hne2 : (Status.ok = Status.err "NoSpace") = False := by simp
    simp only [hne2, if_false]
    refine ⟨fun i hi he hd => ?_, fun hn => by simp at hn, fun b hb h0 h1 _ _ => ?_⟩
    · have hif : i ≠ f.idx := by simpa [exemptIdx, hab] using he
      show getFabric n1 i = kvF n1.kv i
      rw [hget1, if_neg hif, hkv1]
      exact hc.1 i hi (by rw [← hex1]; simp [exemptIdx, ha, hab]; exact hif) hd
    · have : b = { a with deferred := true } := by simpa using hb.symm
      subst this
      simp at h1
  · have harm' : armedFor n1 f.idx = false := by simpa using harm
    simp only [harm', Bool.false_eq_true, if_false]
    have hna : ∀ a, n1.fs = some a → a.fab ≠ f.idx := by
      intro a ha hab
      exact harm ((armedFor_iff n1 f.idx).mpr ⟨a, ha, hab⟩)
    have hexne : exemptIdx n1 ≠ f.idx := by
      unfold exemptIdx
      cases hfs : n1.fs with
      | none => simp only []; omega
      | some a => exact hna a hfs
    have ⟨hfr, hst⟩ := storeFabric_spec n1 f'
    rcases hr : storeFabric n1 f' with ⟨n2, b⟩
    rw [hr] at hfr hst
    simp only at hfr hst
    have hget2 : ∀ i, getFabric n2 i = getFabric n1 i := by intro i; simp only [getFabric, hfr.fabrics]
    have hex2 : exemptIdx n2 = exemptIdx n1 := by simp [exemptIdx, hfr.fs]
    rcases hst with ⟨hb, hkv, _⟩ | ⟨hb, hkv, _⟩
    · subst hb
      simp only [ok]
      have hne2 : (Status.ok = Status.err "NoSpace") = False := by simp
      simp only [hne2, if_false]
      refine ⟨fun i hi he hd => ?_, fun hn => ?_, fun a ha h0 h1 h2 h3 => ?_⟩
      · rw [hget2, hget1, hkv, kvF_putFabric, hidx, hkv1]
        by_cases hif : i = f.idx
        · simp [hif]
        · simp only [hif, if_false]
          exact hc.1 i hi (by rw [← hex1, ← hex2]; exact he) hd
      · have := hc.2.1 (by rw [← hfs1, ← hfr.fs]; exact hn)
        rw [hfr.nets, hfr.managed, hnets1, hman1, this, hkv]
        simp [kvNets, KV.putFabric, hkv1]
      · have haf : a.fab ≠ f.idx := hna a (by rw [← hfr.fs]; exact ha)
        rcases hc.2.2 a (by rw [← hfs1, ← hfr.fs]; exact ha) h0 h1 h2 h3 with hm | he
        · exact Or.inl hm
        · right
          rw [hget2, hget1, if_neg haf, hkv, kvF_putFabric, hidx, if_neg haf, hkv1]
          exact he
    · subst hb
      simp only [if_true]
      refine ⟨fun i hi he hd => ?_, fun hn => ?_, fun a ha h0 h1 h2 h3 => ?_⟩
      · have hif : i ≠ f.idx := fun h => hd (by rw [h]; exact List.mem_cons_self)
        rw [hget2, hget1, if_neg hif, hkv, hkv1]
        exact hc.1 i hi (by rw [← hex1, ← hex2]; exact he) (fun hm => hd (List.mem_cons_of_mem _ hm))
      · have := hc.2.1 (by rw [← hfs1, ← hfr.fs]; exact hn)
        rw [hfr.nets, hfr.managed, hnets1, hman1, this, hkv, hkv1]
      · have haf : a.fab ≠ f.idx := hna a (by rw [← hfr.fs]; exact ha)
        rcases hc.2.2 a (by rw [← hfs1, ← hfr.fs]; exact ha) h0 h1 h2 h3 with hm | he
        · exact Or.inl (List.mem_cons_of_mem _ hm)
        · right
          rw [hget2, hget1, if_neg haf, hkv, hkv1]
          exact he

/-! ### rollback -/

theorem rollbackFabrics_find (cfg : Cfg) (n : Node) (D : List Nat) (a : Armed) (fs : List Fabric)
    (hc : CohD n D) (hfs : n.fs = some a) (h : rollbackFabrics cfg n a = .ok fs) :
    ∀ i, i ≠ 0 → i ∉ D ∨ i = a.fab → fs.find? (fun f => decide (f.idx = i)) = kvF n.kv i := by
  have hex : exemptIdx n = a.fab := by simp [exemptIdx, hfs]
  unfold rollbackFabrics at h
  simp only [decide_not] at h
  intro i hi hd
  by_cases h0 : a.fab = 0
  · rw [if_pos h0] at h
    injection h with h; subst h
    have hd' : i ∉ D := by
      rcases hd with hd | hd
      · exact hd
      · exact absurd (hd.trans h0) hi
    have := hc.1 i hi (by rw [hex, h0]; exact hi) hd'
    simpa [getFabric] using this
  · rw [if_neg h0] at h
    cases hk : n.kv.fabs.find? (fun f => decide (f.idx = a.fab)) with
    | none =>
      simp only [hk] at h
      injection h with h; subst h
      rw [find_filter_neB]
      by_cases hia : i = a.fab
      · simp [hia, kvF, hk]
      · simp only [hia, if_false]
        have hd' : i ∉ D := hd.elim id (fun h => absurd h hia)
        have := hc.1 i hi (by rw [hex]; exact hia) hd'
        simpa [getFabric] using this
    | some f =>
      simp only [hk] at h
      have hfidx : f.idx = a.fab := by simpa using List.find?_some hk
      by_cases hroom : (n.fabrics.filter (fun f => !decide (f.idx = a.fab))).length < cfg.maxFabrics
      · rw [if_pos hroom] at h
        injection h with h; subst h
        rw [find_append_single, find_filter_neB]
        by_cases hia : i = a.fab
        · subst hia
          simp [kvF, hk, hfidx]
        · have hfi : ¬ f.idx = i := by omega
          simp only [hia, if_false, hfi]
          have hd' : i ∉ D := hd.elim id (fun h => absurd h hia)
          have := hc.1 i hi (by rw [hex]; exact hia) hd'
          simp only [getFabric] at this
          rw [this]
          cases kvF n.kv i <;> simp
      · rw [if_neg hroom] at h
        simp at h

/-- **Rollback restores the stored view.**  If `FailSafe::expire` succeeds, the fail-safe is disarmed,
the store is untouched, and node and store agree on the networks and on every fabric that is not
dirty - the fail-safe's own fabric included. -/
theorem expireArmed_cohD (cfg : Cfg) (n : Node) (D : List Nat) (a : Armed) (exp : Option Nat)
    (hc : CohD n D) (hfs : n.fs = some a) (hok : (expireArmed cfg n a exp).2.1 = none) :
    CohD (expireArmed cfg n a exp).1 D ∧ (expireArmed cfg n a exp).1.fs = none ∧
    (expireArmed cfg n a exp).1.kv = n.kv ∧ (expireArmed cfg n a exp).1.hist = n.hist ∧
    (a.fab ≠ 0 → getFabric (expireArmed cfg n a exp).1 a.fab = kvF n.kv a.fab) ∧
    ((expireArmed cfg n a exp).1.nets, (expireArmed cfg n a exp).1.managed) = kvNets n.kv := by
  unfold expireArmed at hok ⊢
  cases hr : rollbackFabrics cfg n a with
  | error e => simp [hr] at hok
  | ok fs =>
    simp only [hr]
    have hfind := rollbackFabrics_find cfg n D a fs hc hfs hr
    refine ⟨⟨fun i hi _ hd => ?_, fun _ => ?_, fun b hb => by simp at hb⟩, triv, triv, triv, fun h0 => ?_, ?_⟩
    · simpa [getFabric] using hfind i hi (Or.inl hd)
    · simp [kvNets]; cases n.kv.nets <;> simp
    · simpa [getFabric] using hfind a.fab h0 (Or.inr triv)
    · simp [kvNets]; cases n.kv.nets <;> simp

theorem expireArmed_error (cfg : Cfg) (n : Node) (a : Armed) (exp : Option Nat) (e : String)
    (h : (expireArmed cfg n a exp).2.1 = some e) : (expireArmed cfg n a exp).1 = n := by
  unfold expireArmed at h ⊢
  cases hr : rollbackFabrics cfg n a <;> simp_all

/-- `expire` + the purge of the resumption cache done by its callers (whatever the store answers) -/
theorem expireAndPurge_cohD (cfg : Cfg) (n : Node) (D : List Nat) (a : Armed) (exp : Option Nat)
    (hc : CohD n D) (hfs : n.fs = some a) :
    CohD (expireAndPurge cfg n a exp).1 D ∧
    (expireAndPurge cfg n a exp).1.kv.fabs = n.kv.fabs ∧ (expireAndPurge cfg n a exp).1.kv.nets = n.kv.nets ∧
    ((expireArmed cfg n a exp).2.1 = none →
      (expireAndPurge cfg n a exp).1.fs = none ∧
      (a.fab ≠ 0 → getFabric (expireAndPurge cfg n a exp).1 a.fab = kvF n.kv a.fab) ∧
      ((expireAndPurge cfg n a exp).1.nets, (expireAndPurge cfg n a exp).1.managed) = kvNets n.kv) := by
  unfold expireAndPurge
  have key := expireArmed_cohD cfg n D a exp hc hfs
  have kerr := expireArmed_error cfg n a exp
  rcases hres : expireArmed cfg n a exp with ⟨n1, e, r⟩
  rw [hres] at key kerr
  cases e with
  | some e =>
    have := kerr e triv
    simp only at this
    subst this
    exact ⟨hc, triv, triv, fun h => by simp at h⟩
  | none =>
    have ⟨hcd, hfs1, hkv, _, hfab, hnets⟩ := key triv
    simp only at hcd hfs1 hkv hfab hnets
    cases r with
    | none => exact ⟨hcd, by rw [hkv], by rw [hkv], fun _ => ⟨hfs1, hfab, hnets⟩⟩
    | some idx =>
      have ⟨p1, _, p3, p4, p5, _, _, p8, p9, _⟩ := purgeResum_spec n1 idx
      rcases hp : purgeResum n1 idx with ⟨n2, b⟩
      rw [hp] at p1 p3 p4 p5 p8 p9
      simp only at p1 p3 p4 p5 p8 p9
      have hc2 : CohD n2 D := cohD_congr p1 p3 p4 p5 p8 p9 hcd
      have fin : CohD n2 D ∧ n2.kv.fabs = n.kv.fabs ∧ n2.kv.nets = n.kv.nets ∧
          ((none : Option String) = none → n2.fs = none ∧ (a.fab ≠ 0 → getFabric n2 a.fab = kvF n.kv a.fab) ∧
            (n2.nets, n2.managed) = kvNets n.kv) := by
        refine ⟨hc2, by rw [p8, hkv], by rw [p9, hkv], fun _ => ⟨by rw [p3]; exact hfs1, fun h0 => ?_, ?_⟩⟩
        · have := hfab h0
          simpa [getFabric, p1] using this
        · rw [p4, p5]; exact hnets
      simp only [hp]
      cases b <;> (simp only []; exact ⟨fin.1, fin.2.1, fin.2.2.1, fun _ => fin.2.2.2 triv⟩)

theorem windowTimeout_cohD (n : Node) (D : List Nat) (hc : CohD n D) : CohD (windowTimeout n) D := by
  unfold windowTimeout
  split
  · split
    · exact cohD_congr triv triv triv triv triv triv hc
    · exact hc
  · exact hc

/-- the prologue of every command (`check_timeouts`) keeps coherence -/
theorem checkTimeouts_cohD (cfg : Cfg) (n : Node) (D : List Nat) (sid : Option Nat) (hc : CohD n D) :
    CohD (checkTimeouts cfg n sid).1 D := by
  unfold checkTimeouts
  cases hfs : n.fs with
  | none => simp only []; exact windowTimeout_cohD n D hc
  | some a =>
    simp only []
    by_cases ht : n.now ≥ a.armedAt + a.timeout
    · simp only [ht, if_true]
      have h1 := (expireAndPurge_cohD cfg n D a (expSid n sid) hc hfs).1
      have heq : (expireAndPurgeLenient cfg n a (expSid n sid)).1 = (expireAndPurge cfg n a (expSid n sid)).1 := rfl
      cases he : (expireAndPurgeLenient cfg n a (expSid n sid)).2 with
      | some e => simp only []; rw [heq]; exact h1
      | none => simp only []; rw [heq]; exact windowTimeout_cohD _ D h1
    · simp only [ht, if_false]
      exact windowTimeout_cohD n D hc

theorem expire_cohD (cfg : Cfg) (n : Node) (D : List Nat) (exp : Option Nat) (hc : CohD n D) :
    CohD (expire cfg n exp).1 D := by
  unfold expire
  cases hfs : n.fs with
  | none => exact hc
  | some a => exact (expireAndPurge_cohD cfg n D a exp hc hfs).1


/-! ### the commands -/

/-- the undo of the first write of a failed CommissioningComplete touches the store only at the
index the fail-safe is armed for, and only for a fabric added under it -/
theorem undoAdded_cohD (n : Node) (D : List Nat) (idx : Nat) (hc : CohD n D) : CohD (undoAdded n idx) D := by
  unfold undoAdded
  split
  · rename_i had
    unfold addingFabric at had
    cases hfs : n.fs with
    | none => simp [hfs] at had
    | some a =>
      simp only [hfs, Bool.and_eq_true, beq_iff_eq] at had
      have ⟨hfr, hn, _, hst⟩ := removeFabricKey_spec n idx
      have hkvF : ∀ i, i ≠ idx → kvF (removeFabricKey n idx).1.kv i = kvF n.kv i := by
        intro i hi
        rcases hst with ⟨_, hk, _⟩ | ⟨_, hk, _⟩
        · rw [hk, if_neg hi]
        · rw [hk]
      refine ⟨fun i hi he hd => ?_, fun hnone => ?_, fun b hb _ _ _ h3 => ?_⟩
      · have hex : exemptIdx (removeFabricKey n idx).1 = idx := by simp [exemptIdx, hfr.fs, hfs, had.1]
        rw [hex] at he
        rw [hkvF i he]
        simp only [getFabric, hfr.fabrics]
        exact hc.1 i hi (by simp [exemptIdx, hfs, had.1]; exact he) hd
      · rw [hfr.fs, hfs] at hnone; cases hnone
      · have : b = a := by rw [hfr.fs, hfs] at hb; simpa using hb.symm
        subst this
        rw [had.2] at h3; cases h3
  · exact hc

/-- what a command adds to the dirty set: the fabric of a fabric-scoped write that was answered
with a store error -/
def dirtyOp (D : List Nat) (mode : Mode) (op : Op) (st : Status) : List Nat :=
  match op with
  | .acl _ _ | .grp _ _ | .label _ _ | .fwrite _ | .vvs _ => if st = .err "NoSpace" then mode.fab :: D else D
  | _ => D

theorem dirty_keep (D : List Nat) (j : Nat) (e : String) (he : e ≠ "NoSpace") :
    (if Status.err e = Status.err "NoSpace" then j :: D else D) = D := by
  simp [he]

theorem sessOp_acl_cohD (cfg : Cfg) (n : Node) (D : List Nat) (sid s v : Nat) (mode : Mode) (hc : CohD n D) :
    CohD (sessOp cfg n sid mode (.acl s v)).1 (dirtyOp D mode (.acl s v) (sessOp cfg n sid mode (.acl s v)).2) := by
  simp only [dirtyOp]
  unfold sessOp
  by_cases h0 : mode.fab = 0
  · simp only [h0, if_true]; rw [dirty_keep _ _ _ (by decide)]; exact hc
  · simp only [h0, if_false]
    cases hg : getFabric n mode.fab with
    | none => simp only []; rw [dirty_keep _ _ _ (by decide)]; exact hc
    | some f =>
      have hidx := getFabric_idx hg
      simp only []
      split
      · rw [dirty_keep _ _ _ (by decide)]; exact hc
      · have := cohD_fabric_write n D f { f with acl := f.acl ++ [v] } rfl (by omega) (by rw [hidx]; exact hg) hc
        have hD : mode.fab :: D = f.idx :: D := by rw [hidx]
        rw [hD]
        exact this

theorem sessOp_grp_cohD (cfg : Cfg) (n : Node) (D : List Nat) (sid s v : Nat) (mode : Mode) (hc : CohD n D) :
    CohD (sessOp cfg n sid mode (.grp s v)).1 (dirtyOp D mode (.grp s v) (sessOp cfg n sid mode (.grp s v)).2) := by
  simp only [dirtyOp]
  unfold sessOp
  by_cases h0 : mode.fab = 0
  · simp only [h0, if_true]; rw [dirty_keep _ _ _ (by decide)]; exact hc
  · simp only [h0, if_false]
    cases hg : getFabric n mode.fab with
    | none => simp only []; rw [dirty_keep _ _ _ (by decide)]; exact hc
    | some f =>
      have hidx := getFabric_idx hg
      simp only []
      split
      · rw [dirty_keep _ _ _ (by decide)]; exact hc
      · have := cohD_fabric_write n D f (if f.grp.contains v then f else { f with grp := f.grp ++ [v] })
          (by split <;> rfl) (by omega) (by rw [hidx]; exact hg) hc
        have hD : mode.fab :: D = f.idx :: D := by rw [hidx]
        rw [hD]
        exact this

theorem sessOp_label_cohD (cfg : Cfg) (n : Node) (D : List Nat) (sid s v : Nat) (mode : Mode) (hc : CohD n D) :
    CohD (sessOp cfg n sid mode (.label s v)).1 (dirtyOp D mode (.label s v) (sessOp cfg n sid mode (.label s v)).2) := by
  simp only [dirtyOp]
  unfold sessOp
  by_cases h0 : mode.fab = 0
  · simp only [h0, if_true]; rw [dirty_keep _ _ _ (by decide)]; exact hc
  · simp only [h0, if_false]
    split
    · rw [dirty_keep _ _ _ (by decide)]; exact hc
    · cases hg : getFabric n mode.fab with
      | none => simp only []; rw [dirty_keep _ _ _ (by decide)]; exact hc
      | some f =>
        have hidx := getFabric_idx hg
        have := cohD_fabric_write n D f { f with label := v } rfl (by omega) (by rw [hidx]; exact hg) hc
        have hD : mode.fab :: D = f.idx :: D := by rw [hidx]
        rw [hD]
        exact this

theorem sessOp_fwrite_cohD (cfg : Cfg) (n : Node) (D : List Nat) (sid s : Nat) (mode : Mode) (hc : CohD n D) :
    CohD (sessOp cfg n sid mode (.fwrite s)).1 (dirtyOp D mode (.fwrite s) (sessOp cfg n sid mode (.fwrite s)).2) := by
  simp only [dirtyOp]
  unfold sessOp
  by_cases h0 : mode.fab = 0
  · simp only [h0, if_true]; rw [dirty_keep _ _ _ (by decide)]; exact hc
  · simp only [h0, if_false]
    cases hg : getFabric n mode.fab with
    | none => simp only []; rw [dirty_keep _ _ _ (by decide)]; exact hc
    | some f =>
      have hidx := getFabric_idx hg
      have := cohD_fabric_write n D f f rfl (by omega) (by rw [hidx]; exact hg) hc
      have hD : mode.fab :: D = f.idx :: D := by rw [hidx]
      rw [hD]
      exact this

/-- the record a fabric has in memory is stored as it is (SetVIDVerificationStatement): afterwards node
and store agree on it; a failing store makes it dirty (it may have been dirty before) -/
theorem cohD_store_current (n : Node) (D : List Nat) (f : Fabric) (hget : getFabric n f.idx = some f)
    (hc : CohD n D) :
    CohD (match storeFabric n f with
        | (n, true) => ok n
        | (n, false) => (n, .err "NoSpace")).1
      (if (match storeFabric n f with
        | (n, true) => ok n
        | (n, false) => (n, Status.err "NoSpace")).2 = .err "NoSpace" then f.idx :: D else D) := by
  have ⟨hfr, hst⟩ := storeFabric_spec n f
  rcases hr : storeFabric n f with ⟨n2, b⟩
  rw [hr] at hfr hst
  simp only at hfr hst
  have hget2 : ∀ i, getFabric n2 i = getFabric n i := by intro i; simp only [getFabric, hfr.fabrics]
  have hex2 : exemptIdx n2 = exemptIdx n := by simp [exemptIdx, hfr.fs]
  rcases hst with ⟨hb, hkv, _⟩ | ⟨hb, hkv, _⟩
  · subst hb
    simp only [ok]
    have hne2 : (Status.ok = Status.err "NoSpace") = False := by simp
    simp only [hne2, if_false]
    refine ⟨fun i hi he hd => ?_, fun hn => ?_, fun a ha h0 h1 h2 h3 => ?_⟩
    · rw [hget2, hkv, kvF_putFabric]
      by_cases hif : i = f.idx
      · simp only [hif, if_true]; exact hget
      · simp only [hif, if_false]
        exact hc.1 i hi (by rw [← hex2]; exact he) hd
    · have := hc.2.1 (by rw [← hfr.fs]; exact hn)
      rw [hfr.nets, hfr.managed, this, hkv]
      simp [kvNets, KV.putFabric]
    · by_cases haf : a.fab = f.idx
      · right
        rw [hget2, hkv, kvF_putFabric]
        simp only [haf, if_true]; exact hget
      · rcases hc.2.2 a (by rw [← hfr.fs]; exact ha) h0 h1 h2 h3 with hm | he
        · exact Or.inl hm
        · right
          rw [hget2, hkv, kvF_putFabric]
          simp only [haf, if_false]
          exact he
  · subst hb
    simp only [if_true]
    refine ⟨fun i hi he hd => ?_, fun hn => ?_, fun a ha h0 h1 h2 h3 => ?_⟩
    · rw [hget2, hkv]
      exact hc.1 i hi (by rw [← hex2]; exact he) (fun hm => hd (List.mem_cons_of_mem _ hm))
    · have := hc.2.1 (by rw [← hfr.fs]; exact hn)
      rw [hfr.nets, hfr.managed, this, hkv]
    · rcases hc.2.2 a (by rw [← hfr.fs]; exact ha) h0 h1 h2 h3 with hm | he
      · exact Or.inl (List.mem_cons_of_mem _ hm)
      · right
        rw [hget2, hkv]
        exact he

theorem sessOp_vvs_cohD (cfg : Cfg) (n : Node) (D : List Nat) (sid s : Nat) (mode : Mode) (hc : CohD n D) :
    CohD (sessOp cfg n sid mode (.vvs s)).1 (dirtyOp D mode (.vvs s) (sessOp cfg n sid mode (.vvs s)).2) := by
  simp only [dirtyOp]
  unfold sessOp
  by_cases h0 : mode.fab = 0
  · simp only [h0, if_true]; rw [dirty_keep _ _ _ (by decide)]; exact hc
  · simp only [h0, if_false]
    cases hg : getFabric n mode.fab with
    | none => simp only []; rw [dirty_keep _ _ _ (by decide)]; exact hc
    | some f =>
      have hidx := getFabric_idx hg
      simp only []
      by_cases hp : pendingFor n f.idx = true
      · simp only [hp, if_true, ok]
        have hne2 : (Status.ok = Status.err "NoSpace") = False := by simp
        simp only [hne2, if_false]; exact hc
      · have hp' : pendingFor n f.idx = false := by simpa using hp
        simp only [hp', Bool.false_eq_true, if_false]
        have := cohD_store_current n D f (by rw [hidx]; exact hg) hc
        have hD : mode.fab :: D = f.idx :: D := by rw [hidx]
        rw [hD]
        exact this

theorem sessOp_openW_cohD (cfg : Cfg) (n : Node) (D : List Nat) (sid s : Nat) (mode : Mode) (hc : CohD n D) :
    CohD (sessOp cfg n sid mode (.openW s)).1 D := by
  unfold sessOp
  simp only []
  split
  · exact windowTimeout_cohD n D hc
  · exact cohD_congr triv triv triv triv triv triv (windowTimeout_cohD n D hc)

theorem sessOp_bcw_cohD (cfg : Cfg) (n : Node) (D : List Nat) (sid s v : Nat) (mode : Mode) (hc : CohD n D) :
    CohD (sessOp cfg n sid mode (.bcw s v)).1 D := by
  unfold sessOp
  exact cohD_congr triv triv triv triv triv triv hc

theorem sessOp_arm_cohD (cfg : Cfg) (n : Node) (D : List Nat) (sid s secs : Nat) (mode : Mode) (hc : CohD n D) :
    CohD (sessOp cfg n sid mode (.arm s secs)).1 D := by
  unfold sessOp
  by_cases h0 : secs = 0
  · simp only [h0, if_true]
    have := expire_cohD cfg n D (some sid) hc
    rcases hr : expire cfg n (some sid) with ⟨n1, e⟩
    rw [hr] at this
    cases e <;> exact this
  · simp only [h0, if_false]
    cases hfs : n.fs with
    | none =>
      simp only []
      split
      · exact hc
      · have := cohD_setfs (n := n) { fab := mode.fab, flags := {}, timeout := secs, armedAt := n.now } secs n.staged hc
          (Or.inl ⟨hfs, rfl⟩)
        exact cohD_congr triv triv triv triv triv triv this
    | some a =>
      simp only []
      split
      · exact hc
      · have := cohD_setfs (n := n) { a with armedAt := n.now, timeout := secs } secs n.staged hc
          (Or.inr ⟨a, hfs, rfl, id, id, id⟩)
        exact cohD_congr triv triv triv triv triv triv this

theorem sessOp_csr_cohD (cfg : Cfg) (n : Node) (D : List Nat) (sid s : Nat) (upd : Bool) (mode : Mode) (hc : CohD n D) :
    CohD (sessOp cfg n sid mode (.csr s upd)).1 D := by
  unfold sessOp
  cases hca : checkArmed n mode with
  | some e => exact hc
  | none =>
    simp only []
    split
    · exact hc
    · cases hfs : n.fs with
      | none => exact hc
      | some a =>
        simp only []
        split
        · exact hc
        · have := cohD_setfs (n := n)
            { a with flags := (if upd = true then { a.flags with updCsr := true } else { a.flags with addCsr := true }) }
            n.bc n.staged hc (Or.inr ⟨a, hfs, rfl, id, by split <;> exact id, by split <;> exact id⟩)
          exact cohD_congr triv triv triv triv triv triv this

theorem sessOp_root_cohD (cfg : Cfg) (n : Node) (D : List Nat) (sid s ca : Nat) (mode : Mode) (hc : CohD n D) :
    CohD (sessOp cfg n sid mode (.root s ca)).1 D := by
  unfold sessOp
  cases hca : checkArmed n mode with
  | some e => exact hc
  | none =>
    simp only []
    cases hfs : n.fs with
    | none => exact hc
    | some a =>
      simp only []
      split
      · exact hc
      · have := cohD_setfs (n := n) { a with flags := { a.flags with root := true } } n.bc ca hc
          (Or.inr ⟨a, hfs, rfl, id, id, id⟩)
        exact cohD_congr triv triv triv triv triv triv this

theorem sessOp_net_cohD (cfg : Cfg) (n : Node) (D : List Nat) (sid s v : Nat) (mode : Mode) (hc : CohD n D) :
    CohD (sessOp cfg n sid mode (.net s v)).1 D := by
  unfold sessOp
  cases hca : checkArmed n mode with
  | some e => exact hc
  | none =>
    have ⟨a, hfs, _⟩ := checkArmed_none hca
    have hne : n.fs ≠ none := by rw [hfs]; simp
    simp only []
    split
    · exact cohD_nets_armed n.nets false hc hne
    · split
      · exact hc
      · exact cohD_nets_armed _ false hc hne

theorem sessOp_rmnet_cohD (cfg : Cfg) (n : Node) (D : List Nat) (sid s v : Nat) (mode : Mode) (hc : CohD n D) :
    CohD (sessOp cfg n sid mode (.rmnet s v)).1 D := by
  unfold sessOp
  cases hca : checkArmed n mode with
  | some e => exact hc
  | none =>
    have ⟨a, hfs, _⟩ := checkArmed_none hca
    have hne : n.fs ≠ none := by rw [hfs]; simp
    simp only []
    split
    · exact cohD_nets_armed _ false hc hne
    · exact hc

theorem sessOp_revoke_cohD (cfg : Cfg) (n : Node) (D : List Nat) (sid s : Nat) (mode : Mode) (hc : CohD n D) :
    CohD (sessOp cfg n sid mode (.revoke s)).1 D := by
  unfold sessOp
  simp only []
  have := expire_cohD cfg n D (some sid) hc
  rcases hr : expire cfg n (some sid) with ⟨n1, e⟩
  rw [hr] at this
  cases e with
  | some e => exact this
  | none => exact cohD_congr triv triv triv triv triv triv this

theorem sessOp_rmfab_cohD (cfg : Cfg) (n : Node) (D : List Nat) (sid s idx : Nat) (mode : Mode) (hc : CohD n D) :
    CohD (sessOp cfg n sid mode (.rmfab s idx)).1 D := by
  unfold sessOp
  by_cases h0 : idx = 0
  · simp only [h0, if_true]; exact hc
  · simp only [h0, if_false]
    by_cases hh : hasFabric n idx = true
    · simp only [hh, if_true]
      have ⟨p1, _, p3, p4, p5, _, _, p8, p9, _⟩ := purgeResum_spec n idx
      rcases hp : purgeResum n idx with ⟨n2, b⟩
      rw [hp] at p1 p3 p4 p5 p8 p9
      simp only at p1 p3 p4 p5 p8 p9
      have hc2 : CohD n2 D := cohD_congr p1 p3 p4 p5 p8 p9 hc
      cases b with
      | false => exact hc2
      | true =>
        simp only []
        have ⟨hfr, hnets, _, hst⟩ := removeFabricKey_spec n2 idx
        rcases hr : removeFabricKey n2 idx with ⟨n3, b3⟩
        rw [hr] at hfr hnets hst
        simp only at hfr hnets hst
        rcases hst with ⟨hb, hkvF, _⟩ | ⟨hb, hkv, _⟩
        · subst hb
          simp only [ok]
          have hex : exemptIdx n3 = exemptIdx n2 := by simp [exemptIdx, hfr.fs]
          have hget : ∀ i, getFabric n3 i = getFabric n2 i := by intro i; simp only [getFabric, hfr.fabrics]
          refine ⟨fun i hi he hd => ?_, fun hn => ?_, fun a ha h0' h1 h2 h3 => ?_⟩
          · show List.find? (fun f => decide (f.idx = i)) (List.filter (fun f => decide (f.idx ≠ idx)) n3.fabrics) = kvF n3.kv i
            rw [find_filter_ne, hkvF]
            by_cases hii : i = idx
            · simp [hii]
            · simp only [hii, if_false]
              have := hc2.1 i hi (by rw [← hex]; exact he) hd
              rw [← hget] at this
              exact this
          · have := hc2.2.1 (by rw [← hfr.fs]; exact hn)
            show (n3.nets, n3.managed) = kvNets n3.kv
            rw [hfr.nets, hfr.managed, this]
            simp [kvNets, hnets]
          · show _ ∨ List.find? (fun f => decide (f.idx = a.fab)) (List.filter (fun f => decide (f.idx ≠ idx)) n3.fabrics) = kvF n3.kv a.fab
            rw [find_filter_ne, hkvF]
            by_cases hii : a.fab = idx
            · right; simp [hii]
            · simp only [hii, if_false]
              rcases hc2.2.2 a (by rw [← hfr.fs]; exact ha) h0' h1 h2 h3 with hm | he
              · exact Or.inl hm
              · right; rw [← hget] at he; exact he
        · subst hb
          exact cohD_frame hfr (by rw [hkv]) (by rw [hkv]) hc2
    · simp only [hh, Bool.false_eq_true, if_false]; exact hc

theorem sessOp_updnoc_cohD (cfg : Cfg) (n : Node) (D : List Nat) (sid s node ser : Nat) (mode : Mode) (hc : CohD n D) :
    CohD (sessOp cfg n sid mode (.updnoc s node ser)).1 D := by
  unfold sessOp
  cases hca : checkArmed n mode with
  | some e => exact hc
  | none =>
    have ⟨a0, hfs0, hab0⟩ := checkArmed_none hca
    simp only []
    split
    · exact hc
    · simp only [hfs0]
      split
      · exact hc
      · cases hg : getFabric n mode.fab with
        | none => exact hc
        | some f =>
          have hidx := getFabric_idx hg
          simp only [ok]
          refine ⟨fun i hi he hd => ?_, fun hn => by simp at hn, fun a ha _ _ h2 _ => ?_⟩
          · have hif : i ≠ f.idx := by simpa [exemptIdx] using he
            show getFabric (setFabric n { f with node := node, ser := ser }) i = kvF n.kv i
            rw [getFabric_setFabric]
            simp only [hif, if_false]
            exact hc.1 i hi (by simp [exemptIdx, hfs0, hab0, ← hidx]; exact hif) hd
          · have : a = { a0 with fab := f.idx, flags := { a0.flags with updNoc := true } } := by simpa using ha.symm
            subst this
            simp at h2

theorem sessOp_complete_cohD (cfg : Cfg) (n : Node) (D : List Nat) (sid s : Nat) (mode : Mode) (hc : CohD n D) :
    CohD (sessOp cfg n sid mode (.complete s)).1 D ∧
    ((sessOp cfg n sid mode (.complete s)).2 = .ok →
      (sessOp cfg n sid mode (.complete s)).1.fs = none ∧
      getFabric (sessOp cfg n sid mode (.complete s)).1 mode.fab = kvF (sessOp cfg n sid mode (.complete s)).1.kv mode.fab ∧
      (getFabric (sessOp cfg n sid mode (.complete s)).1 mode.fab).isSome = true) := by
  unfold sessOp
  cases hca : checkArmed n mode with
  | some e => exact ⟨hc, by simp⟩
  | none =>
    have ⟨a0, hfs0, hab0⟩ := checkArmed_none hca
    simp only []
    split
    · exact ⟨hc, by simp⟩
    · cases hg : getFabric n mode.fab with
      | none => exact ⟨hc, by simp⟩
      | some f =>
        have hidx := getFabric_idx hg
        simp only []
        have ⟨hfr1, hst1⟩ := storeFabric_spec n f
        rcases hr1 : storeFabric n f with ⟨n1, b1⟩
        rw [hr1] at hfr1 hst1
        simp only at hfr1 hst1
        rcases hst1 with ⟨hb1, hkv1, _⟩ | ⟨hb1, hkv1, _⟩
        · subst hb1
          simp only []
          -- the fabric is stored: still armed for it
          have hget1 : ∀ i, getFabric n1 i = getFabric n i := by intro i; simp only [getFabric, hfr1.fabrics]
          have hkvF1 : ∀ i, kvF n1.kv i = if i = f.idx then some f else kvF n.kv i := by
            intro i; rw [hkv1, kvF_putFabric]
          have hc1 : CohD n1 D := by
            refine ⟨fun i hi he hd => ?_, fun hn => ?_, fun a ha h0 h1 h2 h3 => ?_⟩
            · have hif : i ≠ f.idx := by
                have : exemptIdx n1 = f.idx := by simp [exemptIdx, hfr1.fs, hfs0, hab0, hidx]
                rw [← this]; exact he
              rw [hget1, hkvF1, if_neg hif]
              exact hc.1 i hi (by simp [exemptIdx, hfs0, hab0, ← hidx]; exact hif) hd
            · rw [hfr1.fs, hfs0] at hn; simp at hn
            · right
              have : a = a0 := by rw [hfr1.fs, hfs0] at ha; simpa using ha.symm
              subst this
              rw [hget1, hkvF1, hab0, ← hidx]
              simp [hidx, hg]
          generalize hn1m : ({ n1 with managed := true } : Node) = n1m
          have hc1m : CohD n1m D := by
            rw [← hn1m]
            exact cohD_nets_armed n1.nets true hc1 (by rw [hfr1.fs, hfs0]; simp)
          have ⟨hfr2, hst2⟩ := storeNets_spec n1m
          rcases hr2 : storeNets n1m with ⟨n2, b2⟩
          rw [hr2] at hfr2 hst2
          simp only at hfr2 hst2
          have hfs1m : n1m.fs = some a0 := by rw [← hn1m]; exact hfr1.fs.trans hfs0
          rcases hst2 with ⟨hb2, hkv2, _⟩ | ⟨hb2, hkv2, _⟩
          · subst hb2
            simp only [ok]
            have hget2 : ∀ i, getFabric n2 i = getFabric n i := by
              intro i; simp only [getFabric, hfr2.fabrics]; rw [← hn1m]; exact hget1 i
            have hkvF2 : ∀ i, kvF n2.kv i = if i = f.idx then some f else kvF n.kv i := by
              intro i
              have : kvF n2.kv i = kvF n1.kv i := by rw [hkv2, ← hn1m]; rfl
              rw [this, hkvF1]
            have hjoint : ∀ i, (i ≠ 0 ∧ i ∉ D) ∨ i = f.idx → getFabric n2 i = kvF n2.kv i := by
              intro i hd
              rw [hget2, hkvF2]
              by_cases hif : i = f.idx
              · rw [if_pos hif, hif, hidx]; exact hg
              · rw [if_neg hif]
                have hd' := hd.elim id (fun h => absurd h hif)
                exact hc.1 i hd'.1 (by simp [exemptIdx, hfs0, hab0, ← hidx]; exact hif) hd'.2
            refine ⟨⟨fun i hi _ hd => ?_, fun _ => ?_, fun a ha => by simp at ha⟩, fun _ => ⟨triv, ?_, ?_⟩⟩
            · exact hjoint i (Or.inl ⟨hi, hd⟩)
            · show (n2.nets, n2.managed) = kvNets n2.kv
              rw [hkv2, hfr2.nets, hfr2.managed]
              simp [kvNets]
            · exact hjoint mode.fab (Or.inr hidx.symm)
            · show (getFabric n2 mode.fab).isSome = true
              rw [hget2, hg]; rfl
          · subst hb2
            simp only []
            have hc2 : CohD n2 D := cohD_frame hfr2 (by rw [hkv2]) (by rw [hkv2]) hc1m
            refine ⟨?_, by simp⟩
            exact undoAdded_cohD _ D f.idx (cohD_nets_armed n2.nets n1.managed hc2 (by rw [hfr2.fs, hfs1m]; simp))
        · subst hb1
          simp only []
          exact ⟨cohD_frame hfr1 (by rw [hkv1]) (by rw [hkv1]) hc, by simp⟩

theorem checkState_none {a : Armed} {mode : Mode} {present absent : Flags → Bool} {noc : Bool}
    (h : checkState a mode present absent noc = none) :
    a.fab = mode.fab ∧ present a.flags = true ∧ absent a.flags = false := by
  unfold checkState at h
  by_cases h1 : a.fab = mode.fab
  · by_cases h2 : present a.flags = true
    · by_cases h3 : absent a.flags = true
      · simp [h1, h2, h3] at h
      · exact ⟨h1, h2, by simpa using h3⟩
    · simp only [h1, ne_eq, not_true_eq_false, if_false, h2, Bool.false_eq_true, Bool.not_false, if_true] at h
      split at h <;> cases h
  · simp [h1] at h

/-- `AddNOC` re-binds the fail-safe context to the fabric it adds: the fabric the context was bound
to before is not exempt any more, so it must agree with the store (`DefOK`) -/
theorem cohD_rebind {n n' : Node} {D : List Nat} (a b : Armed) (idx : Nat) (hc : CohD n D)
    (hfs : n.fs = some a) (hfs' : n'.fs = some b) (hb : b.fab = idx) (hbf : b.flags.addNoc = true)
    (hmem : ∀ i, i ≠ idx → getFabric n' i = getFabric n i) (hkv : n'.kv = n.kv)
    (hold : a.fab ≠ 0 → a.fab ∈ D ∨ getFabric n a.fab = kvF n.kv a.fab) : CohD n' D := by
  refine ⟨fun i hi he hd => ?_, fun hn => by rw [hfs'] at hn; simp at hn, fun c hc' _ _ _ h3 => ?_⟩
  · have hii : i ≠ idx := by simpa [exemptIdx, hfs', hb] using he
    rw [hmem i hii, hkv]
    by_cases hia : i = a.fab
    · rcases hold (by rw [← hia]; exact hi) with hm | heq
      · exact absurd (by rw [hia]; exact hm) hd
      · rw [hia]; exact heq
    · exact hc.1 i hi (by simp [exemptIdx, hfs]; exact hia) hd
  · have : c = b := by rw [hfs'] at hc'; simpa using hc'.symm
    subst this
    rw [hbf] at h3; cases h3

theorem addNoc_cohD (cfg : Cfg) (n : Node) (D : List Nat) (sid ca fid node subj ser : Nat) (mode : Mode)
    (hc : CohD n D) :
    CohD (addNoc cfg n sid mode ca fid node subj ser).1 D := by
  unfold addNoc
  cases hca : checkArmed n mode with
  | some e => exact hc
  | none =>
    have ⟨a0, hfs0, hab0⟩ := checkArmed_none hca
    simp only [hfs0]
    cases hcs : checkState a0 mode (fun f => f.root && f.addCsr) (fun f => f.addNoc || f.updCsr || f.updNoc) true with
    | some e => exact hc
    | none =>
      have ⟨_, _, habs⟩ := checkState_none hcs
      simp only [Bool.or_eq_false_iff] at habs
      simp only []
      split
      · exact hc
      · rename_i hbusy
        have hold : a0.fab ≠ 0 → a0.fab ∈ D ∨ getFabric n a0.fab = kvF n.kv a0.fab := by
          intro h0
          have hdef : a0.deferred = false := by
            cases hd : a0.deferred with
            | false => rfl
            | true => exact absurd (by simp [h0, hd]) hbusy
          exact hc.2.2 a0 hfs0 h0 hdef habs.2 habs.1.1
        split
        · exact hc
        · split
          · exact hc
          · split
            · exact hc
            · split
              · exact hc
              · rename_i idx _
                split
                · exact hc
                · -- the new fabric `f` at index `idx`
                  generalize hf : ({ idx := idx, gen := n.nextGen, ca := n.staged, fid := fid, node := node, ser := ser,
                                     acl := [subj], grp := [], label := 0 } : Fabric) = f
                  have hfi : f.idx = idx := by rw [← hf]
                  have happ : ∀ i, i ≠ idx → (n.fabrics ++ [f]).find? (fun g => decide (g.idx = i)) = getFabric n i := by
                    intro i hi
                    rw [find_append_single]
                    have : ¬ f.idx = i := by rw [hfi]; exact fun h => hi h.symm
                    simp only [getFabric, this, if_false]
                    cases n.fabrics.find? (fun g => decide (g.idx = i)) <;> rfl
                  split
                  · -- promoted PASE session
                    refine cohD_rebind a0 { a0 with fab := idx, flags := { a0.flags with addNoc := true } } idx hc hfs0
                      triv triv triv (fun i hi => ?_) triv hold
                    exact happ i hi
                  · -- scopeguard: the fabric is removed again
                    refine cohD_rebind a0 { a0 with fab := idx, flags := { a0.flags with addNoc := true } } idx hc hfs0
                      triv triv triv (fun i hi => ?_) triv hold
                    show List.find? (fun g => decide (g.idx = i)) (List.filter (fun g => decide (g.idx ≠ idx)) (n.fabrics ++ [f])) = getFabric n i
                    rw [find_filter_ne, if_neg hi]
                    exact happ i hi
                  · refine cohD_rebind a0 { a0 with fab := idx, flags := { a0.flags with addNoc := true } } idx hc hfs0
                      triv triv triv (fun i hi => ?_) triv hold
                    exact happ i hi

/-! ### sessions after the prologue keep their id and mode -/

def SessSub (l' l : List Sess) : Prop := ∀ s' ∈ l', ∃ s0 ∈ l, s0.id = s'.id ∧ s0.mode = s'.mode

theorem sessSub_refl (l : List Sess) : SessSub l l := fun s hs => ⟨s, hs, rfl, rfl⟩

theorem sessSub_trans {a b c : List Sess} (h1 : SessSub a b) (h2 : SessSub b c) : SessSub a c := by
  intro s hs
  obtain ⟨s1, hs1, e1, m1⟩ := h1 s hs
  obtain ⟨s2, hs2, e2, m2⟩ := h2 s1 hs1
  exact ⟨s2, hs2, by rw [e2, e1], by rw [m2, m1]⟩

theorem removePase_sub (l : List Sess) (exp : Option Nat) : SessSub (removePase l exp) l := by
  intro s hs
  unfold removePase at hs
  rw [List.mem_map] at hs
  obtain ⟨s0, hs0, rfl⟩ := hs
  have hm := (List.mem_filter.mp hs0).1
  refine ⟨s0, hm, ?_, ?_⟩ <;> split <;> rfl

theorem removeForFabric_sub (l : List Sess) (fab : Nat) (exp : Option Nat) : SessSub (removeForFabric l fab exp) l := by
  intro s hs
  unfold removeForFabric at hs
  rw [List.mem_map] at hs
  obtain ⟨s0, hs0, rfl⟩ := hs
  have hm := (List.mem_filter.mp hs0).1
  refine ⟨s0, hm, ?_, ?_⟩ <;> split <;> rfl

theorem rollbackSessions_sub (n : Node) (r exp : Option Nat) : SessSub (rollbackSessions n r exp) n.sessions := by
  unfold rollbackSessions
  cases r with
  | none => exact removePase_sub _ _
  | some idx => exact sessSub_trans (removePase_sub _ _) (removeForFabric_sub _ _ _)

theorem expireArmed_sub (cfg : Cfg) (n : Node) (a : Armed) (exp : Option Nat) :
    SessSub (expireArmed cfg n a exp).1.sessions n.sessions := by
  unfold expireArmed
  cases rollbackFabrics cfg n a with
  | error e => exact sessSub_refl _
  | ok fs => exact rollbackSessions_sub n _ exp

theorem purgeResum_sessions (n : Node) (i : Nat) : (purgeResum n i).1.sessions = n.sessions :=
  (purgeResum_spec n i).2.1

theorem expireAndPurge_sub (cfg : Cfg) (n : Node) (a : Armed) (exp : Option Nat) :
    SessSub (expireAndPurge cfg n a exp).1.sessions n.sessions := by
  unfold expireAndPurge
  have h := expireArmed_sub cfg n a exp
  rcases hres : expireArmed cfg n a exp with ⟨n1, e, r⟩
  rw [hres] at h
  simp only at h
  cases e with
  | some e => exact h
  | none =>
    cases r with
    | none => exact h
    | some idx =>
      have hp := purgeResum_sessions n1 idx
      rcases hpr : purgeResum n1 idx with ⟨n2, b⟩
      rw [hpr] at hp
      simp only at hp
      cases b <;> (simp only [hpr]; rw [hp]; exact h)

theorem windowTimeout_sessions (m : Node) : (windowTimeout m).sessions = m.sessions := by
  unfold windowTimeout; split <;> (try split) <;> rfl

theorem checkTimeouts_sub (cfg : Cfg) (n : Node) (sid : Option Nat) :
    SessSub (checkTimeouts cfg n sid).1.sessions n.sessions := by
  unfold checkTimeouts
  cases hfs : n.fs with
  | none => simp only []; rw [windowTimeout_sessions]; exact sessSub_refl _
  | some a =>
    simp only []
    by_cases ht : n.now ≥ a.armedAt + a.timeout
    · simp only [ht, if_true]
      have h := expireAndPurge_sub cfg n a (expSid n sid)
      have heq : (expireAndPurgeLenient cfg n a (expSid n sid)).1 = (expireAndPurge cfg n a (expSid n sid)).1 := rfl
      cases he : (expireAndPurgeLenient cfg n a (expSid n sid)).2 with
      | some e => simp only []; rw [heq]; exact h
      | none => simp only []; rw [windowTimeout_sessions, heq]; exact h
    · simp only [ht, if_false]; rw [windowTimeout_sessions]; exact sessSub_refl _


/-! ### restart, and the whole step -/

/-- a restart rebuilds exactly the stored view -/
theorem restartFrom_agree (n : Node) (kv : KV) (hist : List KV) :
    Agree (restartFrom n kv hist) ∧ (restartFrom n kv hist).fs = none ∧ (restartFrom n kv hist).failIn = 0 ∧
    (restartFrom n kv hist).kv.fabs = kv.fabs ∧ (restartFrom n kv hist).kv.nets = kv.nets ∧
    (restartFrom n kv hist).sessions = [] := by
  unfold restartFrom
  cases hr : kv.resum <;> simp only [] <;> split <;>
    (refine ⟨⟨fun i _ => ?_, ?_⟩, ?_, ?_, ?_, ?_, ?_⟩
     · simp [getFabric, kvF]
     · simp [kvNets]; cases kv.nets <;> simp
     all_goals simp)

theorem addSess_cohD (cfg : Cfg) (n : Node) (D : List Nat) (mode : Mode) (peer gen : Nat) (hc : CohD n D) :
    CohD (addSess cfg n mode peer gen).1 D := by
  unfold addSess
  simp only []
  split
  · exact cohD_congr triv triv triv triv triv triv hc
  · exact cohD_congr triv triv triv triv triv triv hc

theorem sessOp_addnoc_cohD (cfg : Cfg) (n : Node) (D : List Nat) (sid s ca fid node subj ser : Nat) (mode : Mode)
    (hc : CohD n D) :
    CohD (sessOp cfg n sid mode (.addnoc s ca fid node subj ser)).1 D :=
  sessOp_addnoc_lift (P := fun m => CohD m D) cfg n sid s ca fid node subj ser mode
    (fun m hm => storeResum_cohD m D hm) (fun m hm => addNoc_cohD cfg m D sid ca fid node subj ser mode hm) hc

theorem getSess_mem {n : Node} {sid : Nat} {s : Sess} (h : getSess n sid = some s) : s ∈ n.sessions ∧ s.id = sid := by
  unfold getSess at h
  exact ⟨List.mem_of_find?_eq_some h, by simpa using List.find?_some h⟩

theorem sessOp_cohD (cfg : Cfg) (n : Node) (D : List Nat) (sid : Nat) (mode : Mode) (op : Op) (hc : CohD n D) :
    CohD (sessOp cfg n sid mode op).1 (dirtyOp D mode op (sessOp cfg n sid mode op).2) := by
  cases op with
  | openW s => exact sessOp_openW_cohD cfg n D sid s mode hc
  | arm s secs => exact sessOp_arm_cohD cfg n D sid s secs mode hc
  | csr s upd => exact sessOp_csr_cohD cfg n D sid s upd mode hc
  | root s ca => exact sessOp_root_cohD cfg n D sid s ca mode hc
  | addnoc s ca fid node subj ser => exact sessOp_addnoc_cohD cfg n D sid s ca fid node subj ser mode hc
  | updnoc s node ser => exact sessOp_updnoc_cohD cfg n D sid s node ser mode hc
  | acl s v => exact sessOp_acl_cohD cfg n D sid s v mode hc
  | grp s v => exact sessOp_grp_cohD cfg n D sid s v mode hc
  | label s v => exact sessOp_label_cohD cfg n D sid s v mode hc
  | net s v => exact sessOp_net_cohD cfg n D sid s v mode hc
  | rmnet s v => exact sessOp_rmnet_cohD cfg n D sid s v mode hc
  | complete s => exact (sessOp_complete_cohD cfg n D sid s mode hc).1
  | rmfab s idx => exact sessOp_rmfab_cohD cfg n D sid s idx mode hc
  | revoke s => exact sessOp_revoke_cohD cfg n D sid s mode hc
  | bcw s v => exact sessOp_bcw_cohD cfg n D sid s v mode hc
  | fwrite s => exact sessOp_fwrite_cohD cfg n D sid s mode hc
  | vvs s => exact sessOp_vvs_cohD cfg n D sid s mode hc
  | _ => exact hc

/-- the dirty set after one operation: a restart re-synchronises everything; a fabric-scoped write
that was answered with a store error makes the fabric of its session dirty -/
def dirtyStep (cfg : Cfg) (n : Node) (op : Op) (D : List Nat) : List Nat :=
  match op with
  | .restart | .crash _ | .corrupt | .coldreset | .fabrecover _ => []
  | _ =>
    match isSessOp op with
    | some sid =>
      match getSess (checkTimeouts cfg n (some sid)).1 sid with
      | some s => dirtyOp D s.mode op (step cfg n op).2
      | none => D
    | none => D

theorem dirtyOp_sup (D : List Nat) (mode : Mode) (op : Op) (st : Status) : ∀ i, i ∈ D → i ∈ dirtyOp D mode op st := by
  intro i hi
  unfold dirtyOp
  split <;> (try split) <;> first | exact List.mem_cons_of_mem _ hi | exact hi

/-- a session-borne command either stops in the prologue (no session, reserved session, prologue
error, session gone or expired) or is `sessOp` on the state after the prologue -/
theorem step_sess (cfg : Cfg) (n : Node) (op : Op) (sid : Nat) (hso : isSessOp op = some sid) :
    (step cfg n op).1 = n ∨ (step cfg n op).1 = (checkTimeouts cfg n (some sid)).1 ∨
    ∃ s1, getSess (checkTimeouts cfg n (some sid)).1 sid = some s1 ∧
      step cfg n op = sessOp cfg (checkTimeouts cfg n (some sid)).1 sid s1.mode op := by
  unfold step
  simp only [hso]
  cases hg : getSess n sid with
  | none => exact Or.inl triv
  | some s0 =>
    simp only []
    split
    · exact Or.inl triv
    rcases hct : checkTimeouts cfg n (some sid) with ⟨n1, e⟩
    cases e with
    | some e => exact Or.inr (Or.inl triv)
    | none =>
      simp only []
      cases hg1 : getSess n1 sid with
      | none => exact Or.inr (Or.inl triv)
      | some s1 =>
        simp only []
        split
        · exact Or.inr (Or.inl triv)
        · exact Or.inr (Or.inr ⟨s1, triv, triv⟩)

/-- **Coherence (with the dirty set) is an invariant** of every operation, store faults included;
only the factory reset is excluded (treated in C11) -/
theorem step_cohD (cfg : Cfg) (n : Node) (D : List Nat) (op : Op) (hc : CohD n D) (hop : op ≠ .freset) :
    CohD (step cfg n op).1 (dirtyStep cfg n op D) := by
  cases hso : isSessOp op with
  | some sid =>
    have hds : dirtyStep cfg n op D =
        match getSess (checkTimeouts cfg n (some sid)).1 sid with
        | some s => dirtyOp D s.mode op (step cfg n op).2
        | none => D := by
      unfold dirtyStep
      cases op <;> simp_all [isSessOp]
    rw [hds]
    have hsup : ∀ (m : Node), CohD m D → CohD m (match getSess (checkTimeouts cfg n (some sid)).1 sid with
        | some s => dirtyOp D s.mode op (step cfg n op).2
        | none => D) := by
      intro m hm
      refine cohD_mono (fun i hi => ?_) hm
      split
      · exact dirtyOp_sup _ _ _ _ i hi
      · exact hi
    have hc1 := checkTimeouts_cohD cfg n D (some sid) hc
    rcases step_sess cfg n op sid hso with h | h | ⟨s1, hg1, h⟩
    · rw [h]; exact hsup _ hc
    · rw [h]; exact hsup _ hc1
    · simp only [hg1]
      rw [h]
      exact sessOp_cohD cfg _ D sid s1.mode op hc1
  | none =>
    cases op with
    | boot =>
      simp only [step, isSessOp, dirtyStep]
      split <;> first | exact hc | exact cohD_congr triv triv triv triv triv triv hc
    | pase =>
      simp only [step, isSessOp, dirtyStep]
      split
      · exact hc
      · have := addSess_cohD cfg n D (.pase 0) 0 0 hc
        rcases hr : addSess cfg n (.pase 0) 0 0 with ⟨n1, o⟩
        rw [hr] at this
        cases o <;> exact this
    | caseEst fab node rid =>
      simp only [step, isSessOp, dirtyStep]
      split
      · exact hc
      · rename_i f _
        have := addSess_cohD cfg n D (.case fab) node f.gen hc
        rcases hr : addSess cfg n (.case fab) node f.gen with ⟨n1, o⟩
        rw [hr] at this
        cases o with
        | none => exact this
        | some id => exact cohD_congr triv triv triv triv triv triv this
    | resume rid newRid =>
      simp only [step, isSessOp, dirtyStep]
      split
      · exact hc
      · rename_i r _
        split
        · exact hc
        · have := addSess_cohD cfg n D (.case r.fab) r.peer r.gen hc
          rcases hr : addSess cfg n (.case r.fab) r.peer r.gen with ⟨n1, o⟩
          rw [hr] at this
          cases o with
          | none => exact this
          | some id => exact cohD_congr triv triv triv triv triv triv this
    | tick secs =>
      simp only [step, isSessOp, dirtyStep, ok]
      exact cohD_congr triv triv triv triv triv triv hc
    | poll =>
      simp only [step, isSessOp, dirtyStep]
      have := checkTimeouts_cohD cfg n D none hc
      rcases hr : checkTimeouts cfg n none with ⟨n1, e⟩
      rw [hr] at this
      cases e <;> exact this
    | flush =>
      have h1 := storeResum_cohD n D hc
      simp only [step, isSessOp, dirtyStep]
      rcases hst : storeResum n with ⟨n1, b⟩
      rw [hst] at h1
      cases b <;> exact h1
    | restart =>
      simp only [step, isSessOp, dirtyStep, ok]
      exact cohD_of_agree [] (restartFrom_agree n n.kv n.hist).1
    | crash k =>
      simp only [step, isSessOp, dirtyStep, ok]
      exact cohD_of_agree [] (restartFrom_agree n _ _).1
    | corrupt =>
      simp only [step, isSessOp, dirtyStep, ok]
      exact cohD_of_agree [] (restartFrom_agree n _ _).1
    | kvfail k =>
      simp only [step, isSessOp, dirtyStep, ok]
      exact cohD_congr triv triv triv triv triv triv hc
    | hs fab node rid =>
      simp only [step, isSessOp, dirtyStep]
      split
      · exact hc
      · rename_i f _
        have := addSess_cohD cfg n D (.case fab) node f.gen hc
        rcases hr : addSess cfg n (.case fab) node f.gen with ⟨n1, o⟩
        rw [hr] at this
        cases o with
        | none => exact this
        | some id => exact cohD_congr triv triv triv triv triv triv this
    | hsdone sid =>
      simp only [step, isSessOp, dirtyStep]
      split
      · exact cohD_congr triv triv triv triv triv triv hc
      · exact hc
    | nop => exact hc
    | sdrop sid =>
      simp only [step, isSessOp, dirtyStep]
      split
      · exact hc
      · exact cohD_congr triv triv triv triv triv triv hc
    | coldreset =>
      simp only [step, isSessOp, dirtyStep, ok]
      exact cohD_of_agree [] ⟨fun i _ => by simp [getFabric, kvF], by simp [kvNets]⟩
    | fabrecover i =>
      simp only [step, isSessOp, dirtyStep, ok]
      exact cohD_of_agree [] ⟨fun i _ => by simp [getFabric, kvF], by simp [kvNets]⟩
    | freset => exact absurd rfl hop
    | _ => simp [isSessOp] at hso

/-- a history, one operation after the other -/
def run (cfg : Cfg) (n : Node) : List Op → Node
  | [] => n
  | op :: rest => run cfg (step cfg n op).1 rest

/-- the dirty set of a history -/
def dirtyRun (cfg : Cfg) (n : Node) (D : List Nat) : List Op → List Nat
  | [] => D
  | op :: rest => dirtyRun cfg (step cfg n op).1 (dirtyStep cfg n op D) rest

theorem run_cohD (cfg : Cfg) (ops : List Op) : ∀ (n : Node) (D : List Nat), CohD n D → Op.freset ∉ ops →
    CohD (run cfg n ops) (dirtyRun cfg n D ops) := by
  induction ops with
  | nil => intro n D hc _; exact hc
  | cons op rest ih =>
    intro n D hc hno
    have hop : op ≠ .freset := fun he => hno (by rw [he]; exact List.mem_cons_self)
    exact ih _ _ (step_cohD cfg n D op hc hop) (fun hm => hno (List.mem_cons_of_mem _ hm))

theorem coh_init : Coh ({} : Node) := by
  refine ⟨fun i _ _ _ => ?_, fun _ => ?_, fun a ha => ?_⟩
  · simp [getFabric, kvF]
  · simp [kvNets]
  · simp at ha

theorem run_append (cfg : Cfg) (n : Node) (a b : List Op) : run cfg n (a ++ b) = run cfg (run cfg n a) b := by
  induction a generalizing n with
  | nil => rfl
  | cons op rest ih => exact ih _

/-! ### the factory reset -/

theorem delFabricKeys_keep (hi : Nat) : ∀ (fuel i : Nat) (cur : KV) (acc : List KV),
    (delFabricKeys hi i fuel cur acc).1.nets = cur.nets ∧ (delFabricKeys hi i fuel cur acc).1.resum = cur.resum := by
  intro fuel
  induction fuel with
  | zero => intro i cur acc; simp [delFabricKeys]
  | succ fuel ih =>
    intro i cur acc
    simp only [delFabricKeys]
    split
    · exact ⟨rfl, rfl⟩
    · split
      · have := ih (i + 1) (cur.delFabric i) (cur.delFabric i :: acc)
        exact ⟨this.1, this.2⟩
      · exact ih (i + 1) cur acc

/-- what a factory reset leaves in memory - whether a store call fails or not: no fabric, no session
of a fabric, no resumption record (repo fix of `C07-factory-reset-keeps-sessions`) -/
theorem factoryReset_mem (n : Node) :
    (factoryReset n).1.fabrics = [] ∧
    (factoryReset n).1.sessions = n.sessions.filter (fun s => s.mode.fab = 0) ∧
    (factoryReset n).1.resum = [] ∧ (factoryReset n).1.resumStale = false ∧
    (factoryReset n).1.kv.resum = .absent ∧ (factoryReset n).1.kv.nets = none ∧
    (factoryReset n).1.nets = [] ∧ (factoryReset n).1.fs = n.fs := by
  unfold factoryReset
  have hk := delFabricKeys_keep (if n.failIn ≠ 0 then n.failIn else 256) 256 1 n.kv n.hist
  rcases hd : delFabricKeys (if n.failIn ≠ 0 then n.failIn else 256) 1 256 n.kv n.hist with ⟨kv1, hist1⟩
  rw [hd] at hk
  simp only at hk
  simp only [kvCommit]
  refine ⟨?_, ?_, ?_, ?_, ?_, ?_, ?_, ?_⟩
  all_goals (repeat' split) <;> simp_all

theorem delFabricKeys_spec (hi : Nat) : ∀ (fuel i : Nat) (cur : KV) (acc : List KV),
    (delFabricKeys hi i fuel cur acc).1.fabs = cur.fabs.filter (fun f => !(decide (i ≤ f.idx) && decide (f.idx < min hi (i + fuel)))) ∧
    (delFabricKeys hi i fuel cur acc).1.nets = cur.nets ∧ (delFabricKeys hi i fuel cur acc).1.resum = cur.resum := by
  intro fuel
  induction fuel with
  | zero =>
    intro i cur acc
    refine ⟨?_, by simp [delFabricKeys], by simp [delFabricKeys]⟩
    simp only [delFabricKeys]
    rw [eq_comm, List.filter_eq_self]
    intro f _
    simp; omega
  | succ fuel ih =>
    intro i cur acc
    by_cases hge : i ≥ hi
    · refine ⟨?_, by simp [delFabricKeys, hge], by simp [delFabricKeys, hge]⟩
      simp only [delFabricKeys, hge, if_true]
      rw [eq_comm, List.filter_eq_self]
      intro f _
      simp; omega
    · by_cases hk : cur.hasFabric i = true
      · have ⟨h1, h2, h3⟩ := ih (i + 1) (cur.delFabric i) (cur.delFabric i :: acc)
        have heq : delFabricKeys hi i (fuel + 1) cur acc =
            delFabricKeys hi (i + 1) fuel (cur.delFabric i) (cur.delFabric i :: acc) := by
          simp [delFabricKeys, hge, hk]
        rw [heq]
        refine ⟨?_, by rw [h2]; rfl, by rw [h3]; rfl⟩
        rw [h1]
        simp only [KV.delFabric, List.filter_filter]
        apply List.filter_congr
        intro f _
        by_cases hfi : f.idx = i
        · have : ¬ (i ≥ hi) := hge
          simp [hfi]; omega
        · rw [Bool.eq_iff_iff]
          simp [hfi]
          constructor <;> intro h <;> omega
      · have ⟨h1, h2, h3⟩ := ih (i + 1) cur acc
        have heq : delFabricKeys hi i (fuel + 1) cur acc = delFabricKeys hi (i + 1) fuel cur acc := by
          simp [delFabricKeys, hge, hk]
        rw [heq]
        refine ⟨?_, h2, h3⟩
        rw [h1]
        apply List.filter_congr
        intro f hf
        have hne : f.idx ≠ i := by
          intro he
          apply hk
          unfold KV.hasFabric
          rw [List.any_eq_true]
          exact ⟨f, hf, by simpa using he⟩
        rw [Bool.eq_iff_iff]
        simp
        constructor <;> intro h <;> omega

/-- the fabric keys a factory reset without a store fault leaves: none, when every stored index is
in the key range `1..255` that `Fabrics::reset_persist` walks (fabric indices are `u8` in the code) -/
theorem factoryReset_store (n : Node) (hf : n.failIn = 0)
    (hrange : ∀ f ∈ n.kv.fabs, 1 ≤ f.idx ∧ f.idx ≤ 255) :
    (factoryReset n).1.kv.fabs = [] ∧ (factoryReset n).2 = .ok := by
  have hempty : (delFabricKeys 256 1 256 n.kv n.hist).1.fabs = [] := by
    rw [(delFabricKeys_spec 256 256 1 n.kv n.hist).1, List.filter_eq_nil_iff]
    intro f hfm
    have := hrange f hfm
    simp; omega
  unfold factoryReset
  simp only [hf, ne_eq, not_true_eq_false, if_false]
  rcases hd : delFabricKeys 256 1 256 n.kv n.hist with ⟨kv1, hist1⟩
  rw [hd] at hempty
  simp only at hempty
  simp only [kvCommit]
  refine ⟨?_, trivial⟩
  (repeat' split) <;> simp_all

/-- a factory reset issued in state `n` is *clean*: no store fault is pending, and every stored fabric
index is in the key range `1..255` that `Fabrics::reset_persist` walks (a `u8` in the code; the model
hands out indices in `1..254` only, but the range is not carried as an invariant) -/
def ResetClean (n : Node) : Prop := n.failIn = 0 ∧ ∀ f ∈ n.kv.fabs, 1 ≤ f.idx ∧ f.idx ≤ 255

instance (n : Node) : Decidable (ResetClean n) := by unfold ResetClean; infer_instance

/-- every factory reset of the history is clean (decidable on histories) -/
def ResetsClean (cfg : Cfg) : Node → List Op → Prop
  | _, [] => True
  | n, op :: rest => (op = .freset → ResetClean n) ∧ ResetsClean cfg (step cfg n op).1 rest

instance decResetsClean (cfg : Cfg) : (n : Node) → (ops : List Op) → Decidable (ResetsClean cfg n ops)
  | _, [] => by simp only [ResetsClean]; infer_instance
  | n, op :: rest =>
    have := decResetsClean cfg (step cfg n op).1 rest
    by simp only [ResetsClean]; infer_instance

/-- a history without factory reset is one -/
theorem resetsClean_of_none (cfg : Cfg) : ∀ (ops : List Op) (n : Node), Op.freset ∉ ops → ResetsClean cfg n ops := by
  intro ops
  induction ops with
  | nil => intro _ _; trivial
  | cons op rest ih =>
    intro n hno
    exact ⟨fun he => absurd (by rw [he]; exact List.mem_cons_self) hno,
      ih _ (fun hm => hno (List.mem_cons_of_mem _ hm))⟩

end Admin
