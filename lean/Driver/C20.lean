import Driver.TransportCommon
/-! Driver for C20 (unit level): model correspondence + the property's specification on the
implementation's own outputs:
* a session slot is `reserved` only while a live `ReservedSession` owns it; dropping the handle
  without `complete` frees the slot, `complete` turns it into an ordinary session;
* the table refuses a new session exactly when it is full (the transport then answers busy or evicts);
* eviction picks only a session that is not reserved and carries no exchange; when every session's
  last use lies strictly in the past it finds one whenever such a session exists;
* ending a handshake (dropping its `ReservedSession`, completed or not) or an exchange never panics,
  whatever happened to the session meanwhile;
* at quiescence (every handle dropped, closer ran until it found nothing) no session is reserved and
  no exchange slot is occupied by an owned or dropped exchange. -/
namespace Driver.C20
open Driver.TC

structure OSt where
  prev : ISnap := {}
  /-- handle → session uid of live `ReservedSession`s -/
  rsv : List (Nat × Nat) := []
  /-- live `Exchange` handles -/
  exh : List Nat := []
  /-- the previous op was a positive time step -/
  afterTick : Bool := false
  /-- the previous op was the closer answering `none` -/
  closerIdle : Bool := false

structure St where
  m : MSt := {}
  o : OSt := {}

def idle (s : ISess) : Bool := !s.reserved && s.live.isEmpty

def oracle (o : OSt) (w : List String) (res : String) (snap : ISnap) : OSt × Option String :=
  let n (i : Nat) : Nat := ((w.getD i "").toNat?).getD 0
  let rw := words res
  let op := w.getD 0 ""
  let full := o.prev.sessions.length ≥ Consts.maxSessions
  let (o1, v) : OSt × Option String :=
    match op with
    | "add" =>
      (o, if full then (if res = "err NoSpaceSessions" then none else some s!"table full but add answered '{res}'")
          else (if rw.head? = some "id" then none else some s!"table not full but add answered '{res}'"))
    | "rsv" =>
      match hnum (w.getD 1 ""), rw with
      | some h, "id" :: u :: _ =>
        ({ o with rsv := (h, u.toNat?.getD 0) :: o.rsv },
          if full then some "table full but a slot was reserved"
          else if (snap.sess (u.toNat?.getD 0)).any (·.reserved) then none else some "reserved session not marked reserved")
      | _, _ =>
        (o, if res = "dup-handle" || res = "bad" then none
            else if full then (if res = "err NoSpaceSessions" then none else some s!"table full but reserve answered '{res}'")
            else some s!"table not full but reserve answered '{res}'")
    | "cmp" | "drp" =>
      if res = "panic" then
        (o, some s!"dropping the handshake's session handle panicked ({op}): the node goes down")
      else
      match hnum (w.getD 1 "") with
      | some h =>
        match o.rsv.find? (·.1 == h) with
        | some (_, uid) =>
          let o' := { o with rsv := o.rsv.filter (·.1 != h) }
          if (o.prev.sess uid).isNone then (o', none)   -- the session was removed under the handle (eviction / rm)
          else if op = "drp" then
            (o', if (snap.sess uid).isSome then some s!"abandoned handshake: reserved session {uid} not released" else none)
          else
            (o', match snap.sess uid with
              | some s => if s.reserved then some s!"completed session {uid} still reserved" else none
              | none => some s!"completed session {uid} disappeared")
        | none => (o, none)
      | none => (o, none)
    | "init" =>
      match hnum (w.getD 2 ""), rw.head? with
      | some h, some "x" => ({ o with exh := h :: o.exh }, none)
      | _, _ => (o, none)
    | "acc" =>
      match hnum (w.getD 3 "") with
      | some h => (if res = "ok" then { o with exh := h :: o.exh } else o, none)
      | none => (o, none)
    | "xdrop" =>
      match hnum (w.getD 1 "") with
      | some h => ({ o with exh := o.exh.filter (· != h) },
          if res = "panic" then some "dropping an exchange handle panicked: the node goes down" else none)
      | none => (o, none)
    | "evict" | "evictrm" =>
      match rw with
      | ["id", u] =>
        match o.prev.sess (u.toNat?.getD 0) with
        | some s =>
          (o, if s.reserved then some s!"eviction chose reserved session {s.uid}"
              else if !s.live.isEmpty then some s!"eviction chose session {s.uid} which carries a live exchange"
              else if op = "evictrm" && (snap.sess s.uid).isSome then some "evicted session still in the table"
              else none)
        | none => (o, some "eviction chose a session that does not exist")
      | _ =>
        (o, if o.afterTick && o.prev.sessions.any idle then some "an idle unreserved session exists but eviction found none" else none)
    | "qchk" =>
      if o.rsv.isEmpty && o.exh.isEmpty && o.closerIdle then
        let leakedR := snap.sessions.find? (·.reserved)
        let leakedX := snap.sessions.find? (fun s => s.live.any (fun e => e.role != "RP"))
        (o, match leakedR, leakedX with
          | some s, _ => some s!"quiescent but session {s.uid} is still reserved"
          | _, some s => some s!"quiescent but session {s.uid} still holds an exchange slot"
          | _, _ => none)
      else (o, none)
    | _ => (o, none)
  -- on every snapshot: reserved ⇒ a live ReservedSession owns it
  let orphanR := snap.sessions.find? (fun s => s.reserved && !o1.rsv.any (·.2 == s.uid))
  let v := match v with
    | some x => some x
    | none => orphanR.map (fun s => s!"session {s.uid} is reserved but no ReservedSession owns it")
  ({ o1 with prev := snap, afterTick := op = "t" && n 1 > 0, closerIdle := op = "swd" && res = "none" }, v)

def step (st : St) (line : String) : St × String :=
  let (op, out) := splitArrow line
  match words op with
  | "case" :: _ :: kind => ({ m := newCase kind }, "case")
  | w =>
    let (res, snapS) := splitHash out
    let (m', dis) := modelStep st.m op out
    let (o', ora) := if st.m.isMrp then (st.o, none) else oracle st.o w res (parseSnap snapS)
    let st' : St := { m := m', o := o' }
    match ora with
    | some why => (st', s!"ORA {why}")
    | none =>
      match dis with
      | some mo => (st', s!"DIS {mo}")
      | none => (st', "ok")

def run : IO UInt32 := Driver.runLoop ({} : St) step

end Driver.C20
