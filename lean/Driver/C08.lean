import Driver.AdminCommon
/-! Driver for C08: the shared administrative model + the C08 part of the oracle (see Driver/AdminCommon.lean). -/
namespace Driver.C08

def run : IO UInt32 := Driver.Adm.run "C08"

end Driver.C08
