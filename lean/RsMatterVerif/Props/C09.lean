import RsMatterVerif.Lemmas.Transport
import RsMatterVerif.Lemmas.Dedup
import RsMatterVerif.Lemmas.TwoNode
import RsMatterVerif.Lemmas.TwoNodeBi
import RsMatterVerif.Props.C04
/-!
# C09 — reliable messaging delivers each message at most once and reports the truth

## One node: `Model/Transport.lean` (+ `Model/Dedup.lean` for the receive window)
* `at_most_once` (SECURE sessions), `at_most_once_unsecured` (unsecured sessions, for header sequences
  in which no copy arrives more than 16 counters behind the newest accepted one: `timelyRx`),
  `at_most_once_timely` (both): every counter is handed to the exchange layer at most once, for every
  sequence of received headers; `unsecured_not_at_most_once`: why the unsecured statement needs its
  hypothesis (the restart rule of the unsecured window); `at_most_once_with_own_traffic`: the same for
  every history in which the node's own sends (piggy-backed acknowledgements, retransmissions, give-ups),
  exchange opens / drops and received messages with matching / stale / no acknowledgement interleave;
  `stale_ack_drops_fresh_message` (observation: the mismatch rule loses a fresh message);
* give-up, whole histories: `gives_up_on_every_schedule` (every interleaving of back-off expiries
  and received messages none of which acknowledges the pending counter: exactly `budget − count`
  further transmissions, then `TxTimeout`, nothing pending afterwards),
  `gives_up_after_budget_on_every_schedule` (from the first transmission: `1 + budget`
  transmissions), `stops_only_by_ack_or_timeout`, `one_ack_suffices_on_every_schedule`;
  one fixed history / one step: `gives_up_after_budget`, `giveup_is_timeout_not_success`,
  `stops_only_by_matching_ack`, `one_ack_suffices`, `reliable_message_gets_acked`;
* back-off: `specBackoff` is the Matter specification's formula over the rationals with the
  specification's literal constants; `code_constants_are_the_spec_constants`;
  `backoff_within_spec_range` (base ≥ 200 ms, attempts ≤ 5, jitter byte 100..255: the code's delay lies
  between the specification's value for `random = 0` and for `random = 1`), `backoff_le_spec_max`
  (upper half, every base / jitter); refinement part (integer ladder against the real-valued one):
  `backoff_monotone_attempt`, `backoff_monotone_jitter`, `backoff_lower_bound` (rounding allowance),
  `backoff_actual_ge_spec`.

## Two nodes and an adversarial network: `Model/TwoNode.lean`, `Lemmas/TwoNode.lean`
For EVERY schedule of the model (induction over the schedule, invariant `TwoNode.Good`):
`twoNode_in_order_at_most_once` (+ `_secure`), `twoNode_success_only_if_accepted`,
`twoNode_acks_only_for_accepted`, `twoNode_ack_through_succeeds`, `twoNode_duplicate_acked_again`
(+ `_secure`), `twoNode_retx_xor_giveup` (the sender always has exactly one enabled move of its own:
retransmit below the budget, give up with `TxTimeout` at the budget), `twoNode_one_tx_one_ack_suffice`
(existential, secure sessions), `unsecured_late_copy_is_shown_again` (why the unsecured clauses carry
`late = false`), `accepted_trace_is_a_run` (soundness of the trace monitor).
Restrictions of that model, all needed or stated: ONE exchange, data flows A → B only and
acknowledgements B → A are stand-alone (lifted for the clauses below by `Model/TwoNodeBi.lean`); the
sending application stops for good at the first failed call
(`order_breaks_if_sender_continues_after_giveup` shows that "in sending order" fails otherwise);
the receiving application's receive is atomic with its stack's; no forged or corrupted datagrams.
No fairness is assumed and no liveness is proved: "no hang" is `twoNode_retx_xor_giveup` (the sender
itself is never blocked) plus the harness's hang detection, not a termination theorem.

## Two nodes, BOTH directions, piggy-backed acknowledgements: `Model/TwoNodeBi.lean`, `Lemmas/TwoNodeBi.lean`
Secure session, one exchange, both applications send reliably (stop-and-wait each), acknowledgements
piggy-backed by `ReliableMessage::pre_send`, acknowledgement mismatch ⇒ `Duplicate`, every schedule
(invariant `TwoNodeBi.Dir` for both directions): `biNode_in_order_at_most_once`,
`biNode_success_only_if_settled`, `biNode_acks_only_for_settled`; `biNode_success_without_application`
(with crossing traffic a call can succeed for a message the peer's application never sees).
This model is not replayed against the running system (the harness's flows are one-directional).
-/
namespace C09
open Transport

/-! ## At most once -/

/-- receive a sequence of headers on a session; returns the final session, the counters the
de-duplication accepted and the counters that reached an exchange (`post_recv = Ok`), newest first -/
def runRx : Sess → List Nat → List Nat → List (RxHdr × Nat) → Sess × List Nat × List Nat
  | s, acc, del, [] => (s, acc, del)
  | s, acc, del, (h, now) :: rest =>
    let dd := (Dedup.postRecv s.rx h.ctr s.mode.enc false).2
    let r := s.postRecv h now
    let ok := match r.2 with
      | .ok _ => true
      | .error _ => false
    runRx r.1 (if dd then h.ctr :: acc else acc) (if ok then h.ctr :: del else del) rest

theorem postRecv_rx_mode (s : Sess) (h : RxHdr) (now : Nat) :
    (s.postRecv h now).1.rx = (Dedup.postRecv s.rx h.ctr s.mode.enc false).1 ∧
    (s.postRecv h now).1.mode = s.mode ∧
    (∀ b, (s.postRecv h now).2 = .ok b → (Dedup.postRecv s.rx h.ctr s.mode.enc false).2 = true) := by
  have hset : ∀ (t : Sess) i m, (t.setMrp i m).rx = t.rx ∧ (t.setMrp i m).mode = t.mode := by
    intro t i m; unfold Sess.setMrp; split <;> exact ⟨rfl, rfl⟩
  have hadd : ∀ (t t' : Sess) id role i, t.addExch id role = some (t', i) → t'.rx = t.rx ∧ t'.mode = t.mode := by
    intro t t' id role i h
    unfold Sess.addExch at h
    simp only at h
    split at h
    · simp only [Option.some.injEq, Prod.mk.injEq] at h; obtain ⟨h1, _⟩ := h; subst h1; exact ⟨rfl, rfl⟩
    · split at h
      · simp only [Option.some.injEq, Prod.mk.injEq] at h; obtain ⟨h1, _⟩ := h; subst h1; exact ⟨rfl, rfl⟩
      · simp at h
  unfold Sess.postRecv
  simp only
  cases hd : (Dedup.postRecv s.rx h.ctr s.mode.enc false).2 with
  | false => simp
  | true =>
    simp only [Bool.not_true, Bool.false_eq_true, ↓reduceIte]
    split
    · split
      · generalize (Mrp.postRecv _ h.ctr h.ack h.reliable now) = P
        obtain ⟨m, err⟩ := P
        cases err <;> simp [(hset _ _ _).1, (hset _ _ _).2]
      · simp
    · split
      · simp
      · split
        · simp
        · split
          · rename_i s' i ha
            have := hadd _ _ _ _ _ ha
            generalize (Mrp.postRecv _ h.ctr h.ack h.reliable now) = P
            obtain ⟨m, err⟩ := P
            cases err <;> simp [(hset _ _ _).1, (hset _ _ _).2, this.1, this.2]
          · simp

theorem inv_unsynced : C04.Inv Dedup.RxState.unsynced [] := by
  refine ⟨fun _ => rfl, ?_, ?_, ?_⟩
  · intro h; simp [Dedup.RxState.unsynced] at h
  · intro a h; simp at h
  · intro h; simp [Dedup.RxState.unsynced] at h

/-- every header of the sequence arrives *timely*: on a secure session always; on an unsecured one
its counter is not more than `Dedup.L = 16` behind the newest counter accepted so far
(`TwoNode.timelyFor`) at the moment it arrives — the one-node form of the two-node model's
`late = false` -/
def timelyRx : Sess → List (RxHdr × Nat) → Prop
  | _, [] => True
  | s, (h, now) :: rest =>
    (s.mode.enc = true ∨ TwoNode.timelyFor s.rx h.ctr = true) ∧ timelyRx (s.postRecv h now).1 rest

theorem timelyRx_secure (hs : List (RxHdr × Nat)) : ∀ (s : Sess), s.mode.enc = true → timelyRx s hs := by
  induction hs with
  | nil => intro s _; trivial
  | cons x rest ih =>
    intro s henc
    obtain ⟨h, now⟩ := x
    exact ⟨Or.inl henc, ih _ (by rw [(postRecv_rx_mode s h now).2.1]; exact henc)⟩

theorem runRx_facts (hs : List (RxHdr × Nat)) : ∀ (s : Sess) (acc del : List Nat),
    timelyRx s hs → C04.Inv s.rx acc → acc.Nodup → del.Sublist acc →
    (runRx s acc del hs).2.1.Nodup ∧ (runRx s acc del hs).2.2.Sublist (runRx s acc del hs).2.1 := by
  induction hs with
  | nil => intro s acc del _ _ hn hsub; exact ⟨hn, hsub⟩
  | cons x rest ih =>
    intro s acc del htim hinv hn hsub
    obtain ⟨h, now⟩ := x
    simp only [runRx]
    have hpr := postRecv_rx_mode s h now
    have hplain : Dedup.postRecv s.rx h.ctr s.mode.enc false = Dedup.postRecvPlain s.rx h.ctr true := by
      have := TwoNode.window_timely s.rx h.ctr s.mode.enc htim.1
      simpa [Dedup.postRecv, TwoNode.window] using this
    have href := C04.step_refines s.rx acc h.ctr hinv
    rw [← hplain] at href
    apply ih
    · exact htim.2
    · rw [hpr.1]; exact href.2
    · cases hd : (Dedup.postRecv s.rx h.ctr s.mode.enc false).2 with
      | false => simpa using hn
      | true =>
        simp only [↓reduceIte]
        have hspec : Dedup.specAccept acc h.ctr = true := by rw [← href.1]; exact hd
        have hnot : h.ctr ∉ acc := by
          intro hin
          rw [C04.spec_false_mem acc h.ctr hin] at hspec
          simp at hspec
        exact List.nodup_cons.2 ⟨hnot, hn⟩
    · cases hr : (s.postRecv h now).2 with
      | error e =>
        simp only [Bool.false_eq_true, ↓reduceIte]
        by_cases hd : (Dedup.postRecv s.rx h.ctr s.mode.enc false).2 = true
        · simp only [hd, ↓reduceIte]; exact List.Sublist.cons _ hsub
        · simp only [hd]; exact hsub
      | ok b =>
        have := hpr.2.2 b hr
        simp only [this, ↓reduceIte]
        exact List.Sublist.cons_cons _ hsub

/-- **At most once, both session kinds**: on a session with a fresh receive window, whatever
sequence of headers arrives timely (`timelyRx`: no condition on a secure session; on an unsecured
one no copy more than 16 counters behind the newest accepted one), no counter reaches the
exchange layer twice. -/
theorem at_most_once_timely (s : Sess) (hs : List (RxHdr × Nat)) (htim : timelyRx s hs)
    (hfresh : s.rx = Dedup.RxState.unsynced) : (runRx s [] [] hs).2.2.Nodup := by
  have h := runRx_facts hs s [] [] htim (by rw [hfresh]; exact inv_unsynced) List.nodup_nil (List.Sublist.refl _)
  exact List.Nodup.sublist h.2 h.1

/-- **At most once, SECURE sessions** (`mode.enc = true`: PASE / CASE): on a fresh secure session,
whatever sequence of headers arrives (any loss, duplication, delay, reordering, any exchange ids /
flags / acknowledgements), no counter reaches the exchange layer twice. For unsecured sessions see
`at_most_once_unsecured` (needs timeliness) and `unsecured_not_at_most_once` (why). -/
theorem at_most_once (s : Sess) (hs : List (RxHdr × Nat)) (henc : s.mode.enc = true)
    (hfresh : s.rx = Dedup.RxState.unsynced) : (runRx s [] [] hs).2.2.Nodup :=
  at_most_once_timely s hs (timelyRx_secure hs s henc) hfresh

/-- **At most once, UNSECURED sessions**: the same for `mode = plain`, for every header sequence in
which no header arrives more than 16 counters behind the newest counter the window has accepted
(the hypothesis the two-node model records as `late = false`). -/
theorem at_most_once_unsecured (s : Sess) (hs : List (RxHdr × Nat)) (_hplain : s.mode = .plain)
    (htim : timelyRx s hs) (hfresh : s.rx = Dedup.RxState.unsynced) : (runRx s [] [] hs).2.2.Nodup :=
  at_most_once_timely s hs htim hfresh

/-- non-vacuity: duplicates and a reordered first-timer — 5 accepted, 5 again rejected, 7 accepted,
6 (overtaken, first time) accepted, 6 again rejected. -/
example :
    let h (c : Nat) : RxHdr × Nat := ({ ctr := c, exch := 1, initiator := true, ack := none, reliable := true, newOk := true }, 0)
    (runRx ({ uid := 0, ctr := 0, mode := .pase } : Sess) [] [] [h 5, h 5, h 7, h 6, h 6]).2.2 = [6, 7, 5] := by
  decide

/-- the same sequence on an unsecured session is timely, with the same outcome -/
example :
    let h (c : Nat) : RxHdr × Nat := ({ ctr := c, exch := 1, initiator := true, ack := none, reliable := true, newOk := true }, 0)
    let s : Sess := { uid := 0, ctr := 0, mode := .plain }
    timelyRx s [h 5, h 5, h 7, h 6, h 6] ∧ (runRx s [] [] [h 5, h 5, h 7, h 6, h 6]).2.2 = [6, 7, 5] := by
  intro h s
  refine ⟨?_, by decide⟩
  simp only [timelyRx]
  decide

/-- **Why the unsecured statement needs the hypothesis**: the unsecured window's restart rule
(a counter more than 16 behind the newest one is taken for a restarted peer, by specification -
C04's `PSpec.isRestart`) hands counter 5 to the exchange layer TWICE when its copy arrives after 30
has been accepted. -/
theorem unsecured_not_at_most_once :
    let h (c : Nat) : RxHdr × Nat := ({ ctr := c, exch := 1, initiator := true, ack := none, reliable := true, newOk := true }, 0)
    (runRx ({ uid := 0, ctr := 0, mode := .plain } : Sess) [] [] [h 5, h 30, h 5]).2.2 = [5, 30, 5] ∧
    (runRx ({ uid := 0, ctr := 0, mode := .pase } : Sess) [] [] [h 5, h 30, h 5]).2.2 = [30, 5] := by
  intro h
  refine ⟨by decide, by decide⟩

/-! ### … with the node's own traffic interleaved (both directions on the exchange)

`runRx` only receives. On a real exchange the node also sends — reliable messages with piggy-backed
acknowledgements, retransmissions, stand-alone acknowledgements — and drops / opens exchanges, and
the received messages carry acknowledgements that match, or do not match, what the node is waiting
for (`ReliableMessage::post_recv` answers `Duplicate` on a mismatch). None of this touches the
receive window: at-most-once holds for every such history. -/

/-- what happens on one session: a message arrives, or the node itself acts -/
inductive NOp
  | rx (h : RxHdr) (now : Nat)
  | tx (idx : Option Nat) (rel : Bool) (ha sai : Option Nat)
  | open_ (id : Nat)
  | close (i : Nat)

def NOp.step (s : Sess) : NOp → Sess
  | .rx h now => (s.postRecv h now).1
  | .tx idx rel ha sai => (s.preSend idx rel ha sai).1
  | .open_ id => match s.addExch id .io with
    | some (s', _) => s'
    | none => s
  | .close i => (s.removeExch i).1

/-- counters handed to the exchange layer (`post_recv = Ok`), newest first -/
def runN : Sess → List Nat → List NOp → Sess × List Nat
  | s, del, [] => (s, del)
  | s, del, op :: rest =>
    let del' := match op with
      | .rx h now => (match (s.postRecv h now).2 with
        | .ok _ => h.ctr :: del
        | .error _ => del)
      | _ => del
    runN (op.step s) del' rest

/-- the received headers of a history, with the session state each of them meets -/
def timelyN : Sess → List NOp → Prop
  | _, [] => True
  | s, op :: rest =>
    (match op with
      | .rx h _ => s.mode.enc = true ∨ TwoNode.timelyFor s.rx h.ctr = true
      | _ => True) ∧ timelyN (op.step s) rest

theorem own_step_keeps_window (s : Sess) (op : NOp) (h : ∀ hd now, op ≠ .rx hd now) :
    (op.step s).rx = s.rx ∧ (op.step s).mode = s.mode := by
  have hset : ∀ (t : Sess) i m, (t.setMrp i m).rx = t.rx ∧ (t.setMrp i m).mode = t.mode := by
    intro t i m; unfold Sess.setMrp; split <;> exact ⟨rfl, rfl⟩
  cases op with
  | rx hd now => exact absurd rfl (h hd now)
  | tx idx rel ha sai =>
    simp only [NOp.step]
    unfold Sess.preSend
    cases idx with
    | none => exact ⟨rfl, rfl⟩
    | some i =>
      simp only
      split
      · exact ⟨rfl, rfl⟩
      · rename_i e he
        generalize (e.mrp.preSend _ rel ha sai) = P
        obtain ⟨m, oa, err⟩ := P
        cases hrc : Option.map (fun x => x.ctr) e.mrp.retrans <;> (
          cases err with
          | none => exact ⟨(hset _ _ _).1, (hset _ _ _).2⟩
          | some er =>
            cases er <;> simp only <;> first
              | exact ⟨(hset _ _ _).1, (hset _ _ _).2⟩
              | (split <;> exact ⟨(hset _ _ _).1, (hset _ _ _).2⟩))
  | open_ id =>
    simp only [NOp.step]
    cases ha : s.addExch id .io with
    | none => exact ⟨rfl, rfl⟩
    | some p =>
      obtain ⟨s', i⟩ := p
      unfold Sess.addExch at ha
      simp only at ha
      split at ha
      · simp only [Option.some.injEq, Prod.mk.injEq] at ha; obtain ⟨h1, _⟩ := ha; subst h1; exact ⟨rfl, rfl⟩
      · split at ha
        · simp only [Option.some.injEq, Prod.mk.injEq] at ha; obtain ⟨h1, _⟩ := ha; subst h1; exact ⟨rfl, rfl⟩
        · simp at ha
  | close i =>
    simp only [NOp.step]
    unfold Sess.removeExch
    split
    · exact ⟨rfl, rfl⟩
    · split <;> exact ⟨rfl, rfl⟩

theorem runN_facts (ops : List NOp) : ∀ (s : Sess) (acc del : List Nat),
    timelyN s ops → C04.Inv s.rx acc → acc.Nodup → del.Sublist acc → (runN s del ops).2.Nodup := by
  induction ops with
  | nil => intro s acc del _ _ hn hsub; exact List.Nodup.sublist hsub hn
  | cons op rest ih =>
    intro s acc del htim hinv hn hsub
    cases op with
    | rx h now =>
      simp only [runN, NOp.step]
      have hpr := postRecv_rx_mode s h now
      have hplain : Dedup.postRecv s.rx h.ctr s.mode.enc false = Dedup.postRecvPlain s.rx h.ctr true := by
        have := TwoNode.window_timely s.rx h.ctr s.mode.enc htim.1
        simpa [Dedup.postRecv, TwoNode.window] using this
      have href := C04.step_refines s.rx acc h.ctr hinv
      rw [← hplain] at href
      cases hd : (Dedup.postRecv s.rx h.ctr s.mode.enc false).2 with
      | false =>
        rw [hd] at href
        simp only [Bool.false_eq_true, ↓reduceIte] at href
        cases hr : (s.postRecv h now).2 with
        | ok b => have := hpr.2.2 b hr; rw [hd] at this; cases this
        | error e =>
          simp only
          exact ih _ acc del htim.2 (by rw [hpr.1]; exact href.2) hn hsub
      | true =>
        rw [hd] at href
        simp only [↓reduceIte] at href
        have hnot : h.ctr ∉ acc := by
          intro hin
          have := href.1
          rw [C04.spec_false_mem acc h.ctr hin] at this
          cases this
        cases hr : (s.postRecv h now).2 with
        | ok b =>
          simp only
          exact ih _ (h.ctr :: acc) (h.ctr :: del) htim.2 (by rw [hpr.1]; exact href.2)
            (List.nodup_cons.2 ⟨hnot, hn⟩) (List.Sublist.cons_cons _ hsub)
        | error e =>
          simp only
          exact ih _ (h.ctr :: acc) del htim.2 (by rw [hpr.1]; exact href.2)
            (List.nodup_cons.2 ⟨hnot, hn⟩) (List.Sublist.cons _ hsub)
    | tx idx rel ha sai =>
      have hk := own_step_keeps_window s (.tx idx rel ha sai) (fun _ _ h => by cases h)
      simp only [runN]
      exact ih _ acc del htim.2 (by rw [hk.1]; exact hinv) hn hsub
    | open_ id =>
      have hk := own_step_keeps_window s (.open_ id) (fun _ _ h => by cases h)
      simp only [runN]
      exact ih _ acc del htim.2 (by rw [hk.1]; exact hinv) hn hsub
    | close i =>
      have hk := own_step_keeps_window s (.close i) (fun _ _ h => by cases h)
      simp only [runN]
      exact ih _ acc del htim.2 (by rw [hk.1]; exact hinv) hn hsub

theorem timelyN_secure (ops : List NOp) : ∀ (s : Sess), s.mode.enc = true → timelyN s ops := by
  induction ops with
  | nil => intro s _; trivial
  | cons op rest ih =>
    intro s henc
    refine ⟨?_, ih _ ?_⟩
    · cases op <;> first | exact Or.inl henc | trivial
    · cases op with
      | rx h now => simp only [NOp.step]; rw [(postRecv_rx_mode s h now).2.1]; exact henc
      | tx idx rel ha sai => rw [(own_step_keeps_window s _ (fun _ _ h => by cases h)).2]; exact henc
      | open_ id => rw [(own_step_keeps_window s _ (fun _ _ h => by cases h)).2]; exact henc
      | close i => rw [(own_step_keeps_window s _ (fun _ _ h => by cases h)).2]; exact henc

/-- **At most once, with traffic in both directions**: on a fresh secure session, for every history of
received messages (any acknowledgement fields: matching, stale, none; reliable or not; any exchange)
interleaved with the node's own sends through any slot (reliable messages with piggy-backed
acknowledgements, retransmissions, give-ups, stand-alone acknowledgements), exchanges opened and
dropped: no counter reaches the exchange layer twice. (Unsecured sessions: the same under `timelyN`,
`runN_facts`.) -/
theorem at_most_once_with_own_traffic (s : Sess) (ops : List NOp) (henc : s.mode.enc = true)
    (hfresh : s.rx = Dedup.RxState.unsynced) : (runN s [] ops).2.Nodup :=
  runN_facts ops s [] [] (timelyN_secure ops s henc) (by rw [hfresh]; exact inv_unsynced) List.nodup_nil
    (List.Sublist.refl _)

/-- non-vacuity: request received (exchange opened), response sent reliably with the piggy-backed
acknowledgement, the request's retransmission arrives (rejected), a message with a stale
acknowledgement arrives (`Duplicate` from the reliability layer: not handed over), the matching
acknowledgement arrives -/
example :
    let h (c : Nat) (a : Option Nat) : RxHdr := { ctr := c, exch := 1, initiator := true, ack := a, reliable := true, newOk := true }
    (runN ({ uid := 0, ctr := 70, mode := .case } : Sess) []
      [.rx (h 5 none) 0, .tx (some 0) true none none, .rx (h 5 none) 1, .rx (h 6 (some 69)) 2, .rx (h 7 (some 70)) 3]).2 = [7, 5] := by
  decide

/-- **Observation (the mismatch rule loses a fresh message).** An exchange waits for the
acknowledgement of its message `r.ctr`; a message with a NEW counter arrives on it whose
acknowledgement field names another counter. `ReliableMessage::post_recv` answers `Duplicate`
("ignore the ACK and not process this message any further, as it is a duplicate" — but the session's
receive window has just accepted the counter as new): the message is not handed to the application,
the window remembers its counter — every retransmission of it will be rejected as a duplicate as well —
and `handle_rx_packet` answers a `Duplicate` of a reliable message with a stand-alone
acknowledgement, so the peer's call succeeds. The Matter text lets a non-matching acknowledgement be
ignored and the message be processed. Needs both sides sending on one exchange without waiting for
each other (a stale acknowledgement on a fresh message); "success ⇒ the peer's STACK received it"
still holds, "… its application" does not. Documented in `docs/C09.md`, not flagged. -/
theorem stale_ack_drops_fresh_message (s : Sess) (h : RxHdr) (now i k : Nat) (e : Exch) (r : Retrans)
    (hw : (Dedup.postRecv s.rx h.ctr s.mode.enc false).2 = true) (hget : s.getExchForRx h = some i)
    (hs : s.slot i = some e) (hr : e.mrp.retrans = some r) (hack : h.ack = some k) (hk : k ≠ r.ctr) :
    (s.postRecv h now).2 = .error .duplicate ∧
    (s.postRecv h now).1.rx = (Dedup.postRecv s.rx h.ctr s.mode.enc false).1 ∧
    ∀ j, (s.postRecv h now).1.slot j = s.slot j := by
  have hp := (postRecv_pending e.mrp r h.ctr h.ack h.reliable now hr).2.1 k hack hk
  refine ⟨?_, (postRecv_rx_mode s h now).1, ?_⟩
  · unfold Sess.postRecv
    simp only [hw, Bool.not_true, Bool.false_eq_true, ↓reduceIte]
    have hget' : ({ s with rx := (Dedup.postRecv s.rx h.ctr s.mode.enc false).1 } : Sess).getExchForRx h = some i := hget
    have hs' : ({ s with rx := (Dedup.postRecv s.rx h.ctr s.mode.enc false).1 } : Sess).slot i = some e := hs
    simp only [hget', hs', hp]
  · have hspec := postRecv_effect s h now
    unfold RecvSpec at hspec
    have : (s.postRecv h now).2 = .error .duplicate := by
      unfold Sess.postRecv
      simp only [hw, Bool.not_true, Bool.false_eq_true, ↓reduceIte]
      have hget' : ({ s with rx := (Dedup.postRecv s.rx h.ctr s.mode.enc false).1 } : Sess).getExchForRx h = some i := hget
      have hs' : ({ s with rx := (Dedup.postRecv s.rx h.ctr s.mode.enc false).1 } : Sess).slot i = some e := hs
      simp only [hget', hs', hp]
    exact hspec.2.2 _ this

/-! ## Give-up -/

/-- the retransmission budget -/
def budget : Nat := Consts.mrpMaxTransmissions

/-- `k` retransmissions of the pending message in a row (no acknowledgement arrives); returns the
state and the results of the attempts -/
def retransmitK (hdrAck sai : Option Nat) : Nat → Mrp → Mrp × List (Option Err)
  | 0, m => (m, [])
  | k + 1, m =>
    match m.retrans with
    | none => (m, [])
    | some r =>
      let res := m.preSend r.ctr true hdrAck sai
      let rest := retransmitK hdrAck sai k res.1
      (rest.1, res.2.2 :: rest.2)

theorem retransmitK_ok (hdrAck sai : Option Nat) (k : Nat) : ∀ (m : Mrp) (r : Retrans),
    m.retrans = some r → r.count + k ≤ budget →
    (retransmitK hdrAck sai k m).2 = List.replicate k none ∧
    ∃ r', (retransmitK hdrAck sai k m).1.retrans = some r' ∧ r'.ctr = r.ctr ∧ r'.count = r.count + k := by
  induction k with
  | zero => intro m r hr _; exact ⟨rfl, r, hr, rfl, rfl⟩
  | succ k ih =>
    intro m r hr hb
    have hlt : r.count < Consts.mrpMaxTransmissions := by unfold budget at hb; omega
    have hstep := preSend_retrans_ok m r hdrAck sai hr hlt
    simp only [retransmitK, hr]
    rw [hstep]
    simp only
    have := ih { retrans := some { r with count := r.count + 1 }, ack := m.ack.map (fun a => { a with acked := true }), recvAt := none }
      { r with count := r.count + 1 } rfl (by simp only; omega)
    refine ⟨by rw [this.1]; rfl, ?_⟩
    obtain ⟨r', h1, h2, h3⟩ := this.2
    exact ⟨r', h1, h2, by rw [h3]; simp only; omega⟩

/-- **Give-up after the budget**: starting from the first transmission of a reliable message
(`pre_send` created the entry), `budget` retransmissions are allowed, and the attempt after them
answers `TxTimeout` and leaves neither a pending retransmission nor a pending acknowledgement. -/
theorem gives_up_after_budget (m : Mrp) (c : Nat) (hdrAck sai : Option Nat) (hm : m.retrans = none) :
    let m0 := (m.preSend c true hdrAck sai).1
    (retransmitK hdrAck sai (budget + 1) m0).2 = List.replicate budget none ++ [some .txTimeout] ∧
    (retransmitK hdrAck sai (budget + 1) m0).1.retrans = none ∧
    (retransmitK hdrAck sai (budget + 1) m0).1.ack = none := by
  simp only
  have h0 : (m.preSend c true hdrAck sai).1.retrans = some (Retrans.new sai c) := by
    unfold Mrp.preSend; simp [hm]
  generalize (m.preSend c true hdrAck sai).1 = m0 at h0
  -- split `budget + 1` attempts into `budget` successful ones and the last
  have key : ∀ k (m : Mrp), retransmitK hdrAck sai (k + 1) m =
      ((retransmitK hdrAck sai 1 (retransmitK hdrAck sai k m).1).1,
       (retransmitK hdrAck sai k m).2 ++ (retransmitK hdrAck sai 1 (retransmitK hdrAck sai k m).1).2) := by
    intro k
    induction k with
    | zero => intro m; simp [retransmitK]
    | succ k ih =>
      intro m
      cases hr : m.retrans with
      | none => simp [retransmitK, hr]
      | some r =>
        have := ih (m.preSend r.ctr true hdrAck sai).1
        simp only [retransmitK, hr] at this ⊢
        rw [this]
        simp
  have hok := retransmitK_ok hdrAck sai budget m0 (Retrans.new sai c) h0 (by simp [Retrans.new])
  obtain ⟨r', hr', hc', hcount⟩ := hok.2
  rw [key budget m0, hok.1]
  have hnot : ¬ r'.count < Consts.mrpMaxTransmissions := by
    rw [hcount]; simp [Retrans.new, budget]
  have hto := preSend_retrans_timeout (retransmitK hdrAck sai budget m0).1 r' hdrAck sai hr' hnot
  simp only [retransmitK, hr']
  exact ⟨by rw [hto.1], hto.2.1, hto.2.2⟩

/-! ### … on every schedule

`gives_up_after_budget` is one history (nothing received between the attempts). The sender loop
(`Sender::tx`: `wait_tx` = acknowledgement or back-off timer, then `pre_send` again) runs
interleaved with whatever arrives on the exchange; `runSend` executes ANY such interleaving on the
reliability state, collecting the result of every (re)transmission attempt. -/

/-- what happens on the sending exchange while its message waits for the acknowledgement -/
inductive SEv
  /-- the back-off elapsed: the sender loop calls `pre_send` for the pending message again -/
  | retx
  /-- a message arrives on the exchange: `post_recv` -/
  | recv (rxCtr : Nat) (ack : Option Nat) (rel : Bool) (now : Nat)

def SEv.isRetx : SEv → Bool
  | .retx => true
  | _ => false

/-- the event does not acknowledge counter `c` -/
def SEv.noAckOf (c : Nat) : SEv → Bool
  | .retx => true
  | .recv _ a _ _ => a != some c

/-- run a schedule; the results of the retransmission attempts, oldest first (`none` = sent). Once
nothing is pending `wait_tx` answers `Done` and the loop makes no further attempt. -/
def runSend (hdrAck sai : Option Nat) : Mrp → List SEv → Mrp × List (Option Err)
  | m, [] => (m, [])
  | m, .retx :: evs =>
    match m.retrans with
    | none => runSend hdrAck sai m evs
    | some r =>
      let res := m.preSend r.ctr true hdrAck sai
      let rest := runSend hdrAck sai res.1 evs
      (rest.1, res.2.2 :: rest.2)
  | m, .recv c a rel now :: evs => runSend hdrAck sai (m.postRecv c a rel now).1 evs

/-- number of times the back-off elapses in the schedule -/
def numRetx (evs : List SEv) : Nat := (evs.filter SEv.isRetx).length

theorem runSend_idle (hdrAck sai : Option Nat) (evs : List SEv) : ∀ (m : Mrp), m.retrans = none →
    (runSend hdrAck sai m evs).2 = [] ∧ (runSend hdrAck sai m evs).1.retrans = none := by
  induction evs with
  | nil => intro m hm; exact ⟨rfl, hm⟩
  | cons e evs ih =>
    intro m hm
    cases e with
    | retx => simp only [runSend, hm]; exact ih m hm
    | recv c a rel now =>
      simp only [runSend]
      apply ih
      cases hx : (m.postRecv c a rel now).1.retrans with
      | none => rfl
      | some r' => have := postRecv_mrp_retrans m c a rel now r' hx; rw [hm] at this; cases this

/-- **Give-up after the budget, on every schedule without a matching acknowledgement.** Let a
message with counter `r.ctr` be pending with `r.count ≤ budget` attempts made. For EVERY schedule of
back-off expiries and received messages — stale or foreign acknowledgements, duplicates,
reliable or unreliable messages, in any order and number — none of which acknowledges `r.ctr`:
exactly the first `budget − r.count` retransmission attempts are sent, the next one (if the schedule
contains one) answers `TxTimeout` and nothing after it is attempted; until then the message stays
pending with its counter (no received message ends it), afterwards nothing is pending. -/
theorem gives_up_on_every_schedule (hdrAck sai : Option Nat) (evs : List SEv) : ∀ (m : Mrp) (r : Retrans),
    m.retrans = some r → r.count ≤ budget → (∀ e ∈ evs, e.noAckOf r.ctr = true) →
    (runSend hdrAck sai m evs).2 =
      List.replicate (min (numRetx evs) (budget - r.count)) none ++
        (if budget - r.count < numRetx evs then [some .txTimeout] else []) ∧
    (if budget - r.count < numRetx evs then (runSend hdrAck sai m evs).1.retrans = none
     else ∃ r', (runSend hdrAck sai m evs).1.retrans = some r' ∧ r'.ctr = r.ctr ∧ r'.count = r.count + numRetx evs) := by
  induction evs with
  | nil =>
    intro m r hr hb _
    simp only [runSend, numRetx, List.filter_nil, List.length_nil, Nat.zero_min, List.replicate_zero, List.append_nil,
      Nat.not_lt_zero, ↓reduceIte, Nat.add_zero]
    exact ⟨by simp, r, hr, rfl, rfl⟩
  | cons e evs ih =>
    intro m r hr hb hno
    have hno' : ∀ e ∈ evs, e.noAckOf r.ctr = true := fun x hx => hno x (List.mem_cons_of_mem _ hx)
    cases e with
    | retx =>
      have hn : numRetx (SEv.retx :: evs) = numRetx evs + 1 := by
        unfold numRetx
        rw [List.filter_cons_of_pos (by rfl)]
        rfl
      rw [hn]
      simp only [runSend, hr]
      by_cases hlt : r.count < Consts.mrpMaxTransmissions
      · rw [preSend_retrans_ok m r hdrAck sai hr hlt]
        simp only
        have := ih { retrans := some { r with count := r.count + 1 }, ack := m.ack.map (fun a => { a with acked := true }),
                     recvAt := none } { r with count := r.count + 1 } rfl (by unfold budget; simp only; omega) hno'
        simp only at this
        obtain ⟨h1, h2⟩ := this
        have hb1 : budget - r.count = (budget - (r.count + 1)) + 1 := by unfold budget; omega
        refine ⟨?_, ?_⟩
        · rw [h1, hb1, Nat.succ_min_succ, List.replicate_succ]
          simp only [List.cons_append, Nat.add_lt_add_iff_right]
        · rw [hb1]
          simp only [Nat.add_lt_add_iff_right]
          split
          · rename_i hc; simp only [hc, ↓reduceIte] at h2; exact h2
          · rename_i hc
            simp only [hc, ↓reduceIte] at h2
            obtain ⟨r', hr', hc', hcnt⟩ := h2
            exact ⟨r', hr', hc', by rw [hcnt]; omega⟩
      · have hz : budget - r.count = 0 := by unfold budget at hb ⊢; omega
        obtain ⟨hto, hnone, _⟩ := preSend_retrans_timeout m r hdrAck sai hr hlt
        have hidle := runSend_idle hdrAck sai evs _ hnone
        rw [hz]
        simp only [Nat.min_zero, List.replicate_zero, List.nil_append, Nat.zero_lt_succ, ↓reduceIte]
        exact ⟨by rw [hto, hidle.1], hidle.2⟩
    | recv c a rel now =>
      have hn : numRetx (SEv.recv c a rel now :: evs) = numRetx evs := by
        unfold numRetx
        rw [List.filter_cons_of_neg (by simp [SEv.isRetx])]
      rw [hn]
      simp only [runSend]
      have hp := postRecv_pending m r c a rel now hr
      simp only at hp
      have ha : a ≠ some r.ctr := by
        have := hno _ (List.mem_cons_self ..)
        simpa [SEv.noAckOf] using this
      have hstill : (m.postRecv c a rel now).1.retrans = some r := by
        cases a with
        | none => exact (hp.2.2 rfl).2.1
        | some av =>
          have : av ≠ r.ctr := fun h => ha (by rw [h])
          rw [hp.2.1 av rfl this]
          exact hr
      exact ih _ r hstill hb hno'

/-- **From the first transmission: at most `1 + budget` transmissions, then `TxTimeout`** — for every
schedule that contains more than `budget` back-off expiries and no acknowledgement of the message. -/
theorem gives_up_after_budget_on_every_schedule (m : Mrp) (c : Nat) (hdrAck sai : Option Nat) (evs : List SEv)
    (hm : m.retrans = none) (hno : ∀ e ∈ evs, e.noAckOf c = true) (hmany : budget < numRetx evs) :
    (m.preSend c true hdrAck sai).2.2 = none ∧
    (runSend hdrAck sai (m.preSend c true hdrAck sai).1 evs).2 = List.replicate budget none ++ [some .txTimeout] ∧
    (runSend hdrAck sai (m.preSend c true hdrAck sai).1 evs).1.retrans = none := by
  have h0 : (m.preSend c true hdrAck sai).1.retrans = some (Retrans.new sai c) := by
    unfold Mrp.preSend; simp [hm]
  have hok : (m.preSend c true hdrAck sai).2.2 = none := by
    unfold Mrp.preSend; simp [hm]
  have := gives_up_on_every_schedule hdrAck sai evs _ (Retrans.new sai c) h0 (by simp [Retrans.new]) hno
  have hz : budget - (Retrans.new sai c).count = budget := by simp [Retrans.new]
  rw [hz] at this
  simp only [hmany, ↓reduceIte] at this
  refine ⟨hok, ?_, this.2⟩
  rw [this.1, Nat.min_eq_right (Nat.le_of_lt hmany)]

/-- **The pending message ends only by the matching acknowledgement or by `TxTimeout`** — every
schedule: if nothing in it acknowledges the counter and the message is no longer pending at its end,
one of the attempts answered `TxTimeout` (the call reported failure, not success). -/
theorem stops_only_by_ack_or_timeout (hdrAck sai : Option Nat) (evs : List SEv) (m : Mrp) (r : Retrans)
    (hr : m.retrans = some r) (hb : r.count ≤ budget) (hno : ∀ e ∈ evs, e.noAckOf r.ctr = true)
    (hstop : (runSend hdrAck sai m evs).1.retrans = none) : some Err.txTimeout ∈ (runSend hdrAck sai m evs).2 := by
  obtain ⟨h1, h2⟩ := gives_up_on_every_schedule hdrAck sai evs m r hr hb hno
  by_cases hc : budget - r.count < numRetx evs
  · rw [h1]; simp [hc]
  · simp only [hc, ↓reduceIte] at h2
    obtain ⟨r', hr', _⟩ := h2
    rw [hstop] at hr'
    cases hr'

/-- **One acknowledgement suffices, at any moment before the give-up** — after every schedule
without a matching acknowledgement that has not used up the budget, a message acknowledging the
counter ends the retransmission and is itself processed (no error): `wait_tx` answers `Done`. -/
theorem one_ack_suffices_on_every_schedule (hdrAck sai : Option Nat) (evs : List SEv) (m : Mrp) (r : Retrans)
    (hr : m.retrans = some r) (hb : r.count ≤ budget) (hno : ∀ e ∈ evs, e.noAckOf r.ctr = true)
    (hfew : numRetx evs ≤ budget - r.count) (rxCtr : Nat) (rel : Bool) (now : Nat) :
    ((runSend hdrAck sai m evs).1.postRecv rxCtr (some r.ctr) rel now).2 = none ∧
    ((runSend hdrAck sai m evs).1.postRecv rxCtr (some r.ctr) rel now).1.retrans = none := by
  obtain ⟨_, h2⟩ := gives_up_on_every_schedule hdrAck sai evs m r hr hb hno
  have hc : ¬ budget - r.count < numRetx evs := by omega
  simp only [hc, ↓reduceIte] at h2
  obtain ⟨r', hr', hc', _⟩ := h2
  have := postRecv_pending _ r' rxCtr (some r.ctr) rel now hr'
  simp only at this
  exact this.1 (by rw [hc'])

/-- non-vacuity: stale acknowledgements, a duplicate and an unreliable message between seven back-off
expiries: five retransmissions are sent, the sixth attempt is `TxTimeout`, the seventh is not made -/
example :
    let m0 : Mrp := (({} : Mrp).preSend 9 true none none).1
    let evs : List SEv := [.retx, .recv 4 (some 8) true 0, .retx, .retx, .recv 5 none false 0, .retx, .recv 4 (some 8) true 0,
      .retx, .retx, .retx]
    (∀ e ∈ evs, e.noAckOf 9 = true) ∧ (runSend none none m0 evs).2 = List.replicate 5 none ++ [some .txTimeout] := by
  intro m0 evs
  refine ⟨by decide, by decide⟩

/-- the give-up is an error of `Session::pre_send` (never `Ok`), and the error is `TxTimeout` -/
theorem giveup_is_timeout_not_success (s : Sess) (i : Nat) (e : Exch) (r : Retrans) (ha sai : Option Nat)
    (hs : s.slot i = some e) (hr : e.mrp.retrans = some r) (hb : ¬ r.count < Consts.mrpMaxTransmissions) :
    (s.preSend (some i) true ha sai).2 = .error .txTimeout := by
  have hto := preSend_retrans_timeout e.mrp r ha sai hr hb
  unfold Sess.preSend
  simp only [hs, hr, Option.map_some]
  generalize hP : e.mrp.preSend r.ctr true ha sai = P at hto
  obtain ⟨m', oa, err⟩ := P
  simp only at hto
  rw [hto.1]

example : ∃ r : Retrans, ¬ r.count < Consts.mrpMaxTransmissions := ⟨{ base := 300, ctr := 1, count := 5 }, by decide⟩

/-! ## Success only through the matching acknowledgement -/

/-- a received message ends the pending retransmission only if it acknowledges exactly that counter -/
theorem stops_only_by_matching_ack (m : Mrp) (r : Retrans) (rxCtr : Nat) (ackOpt : Option Nat) (rel : Bool)
    (now : Nat) (hr : m.retrans = some r) (hstop : (m.postRecv rxCtr ackOpt rel now).1.retrans = none) :
    ackOpt = some r.ctr := by
  have h := postRecv_pending m r rxCtr ackOpt rel now hr
  simp only at h
  cases ackOpt with
  | none => have := (h.2.2 rfl).2.1; rw [hstop] at this; simp at this
  | some a =>
    by_cases ha : a = r.ctr
    · rw [ha]
    · have := h.2.1 a rfl ha
      rw [this] at hstop
      simp [hr] at hstop

/-- one transmission and one acknowledgement are enough: after the first `pre_send`, a message
acknowledging that counter ends the retransmission and is itself processed (no error), so the sender
loop's `wait_tx` answers `Done`. -/
theorem one_ack_suffices (m : Mrp) (c rxCtr : Nat) (rel : Bool) (now : Nat) (hdrAck sai : Option Nat)
    (hm : m.retrans = none) :
    let m0 := (m.preSend c true hdrAck sai).1
    (m0.postRecv rxCtr (some c) rel now).2 = none ∧ (m0.postRecv rxCtr (some c) rel now).1.retrans = none := by
  simp only
  have h0 : (m.preSend c true hdrAck sai).1.retrans = some (Retrans.new sai c) := by
    unfold Mrp.preSend; simp [hm]
  have h := postRecv_pending _ _ rxCtr (some c) rel now h0
  simp only at h
  exact h.1 (by simp [Retrans.new])

/-- an accepted message that requested an acknowledgement leaves it pending, and the next message
sent on the exchange carries it -/
theorem reliable_message_gets_acked (m : Mrp) (rxCtr : Nat) (ackOpt : Option Nat) (now : Nat)
    (hok : (m.postRecv rxCtr ackOpt true now).2 = none) (c : Nat) (rel : Bool) (ha sai : Option Nat) :
    (m.postRecv rxCtr ackOpt true now).1.isAckPending = true ∧
    ((m.postRecv rxCtr ackOpt true now).1.preSend c rel ha sai).2.1 = some rxCtr := by
  have hack : (m.postRecv rxCtr ackOpt true now).1.ack = some { ctr := rxCtr, acked := false } := by
    unfold Mrp.postRecv at hok ⊢
    cases ackOpt <;> cases hm : m.retrans <;> simp [hm] at hok ⊢
    split at hok <;> simp_all
  refine ⟨by simp [Mrp.isAckPending, hack], ?_⟩
  rw [preSend_outAck]
  simp [outAckOf, Mrp.ackCtr, hack]

/-! ## Back-off -/

theorem scaleLoop_mono_d (k : Nat) : ∀ a b, a ≤ b → scaleLoop k a ≤ scaleLoop k b := by
  induction k with
  | zero => intro a b h; exact h
  | succ k ih =>
    intro a b h
    simp only [scaleLoop]
    apply ih
    exact Nat.div_le_div_right (Nat.mul_le_mul_right _ h)

theorem scaleLoop_ge (k : Nat) : ∀ d, d ≤ scaleLoop k d := by
  induction k with
  | zero => intro d; exact Nat.le_refl _
  | succ k ih =>
    intro d
    simp only [scaleLoop]
    have h1 : d ≤ d * Consts.mrpBackoffBaseNum / Consts.mrpBackoffBaseDen := by
      show d ≤ d * 16 / 10
      omega
    exact Nat.le_trans h1 (ih _)

theorem scaleLoop_succ (k d : Nat) : scaleLoop (k + 1) d = scaleLoop k d * Consts.mrpBackoffBaseNum / Consts.mrpBackoffBaseDen := by
  induction k generalizing d with
  | zero => rfl
  | succ k ih => simp only [scaleLoop] at ih ⊢; rw [ih]

theorem backoffBase_mono (base : Nat) (n n' : Nat) (h : n ≤ n') : backoffBase base n ≤ backoffBase base n' := by
  have step : ∀ n, backoffBase base n ≤ backoffBase base (n + 1) := by
    intro n
    unfold backoffBase
    simp only
    by_cases h1 : n > Consts.mrpBackoffThreshold
    · have h2 : n + 1 > Consts.mrpBackoffThreshold := by omega
      simp only [h1, h2, ↓reduceIte]
      have : n + 1 - Consts.mrpBackoffThreshold = (n - Consts.mrpBackoffThreshold) + 1 := by omega
      rw [this, scaleLoop_succ]
      show _ ≤ _ * 16 / 10
      omega
    · simp only [h1, ↓reduceIte]
      split
      · exact scaleLoop_ge _ _
      · exact Nat.le_refl _
  induction h with
  | refl => exact Nat.le_refl _
  | step _ ih => exact Nat.le_trans ih (step _)

/-- the ladder never shrinks from one attempt to the next (same jitter) -/
theorem backoff_monotone_attempt (base jitter n n' : Nat) (h : n ≤ n') :
    backoffMs base n jitter ≤ backoffMs base n' jitter := by
  unfold backoffMs
  simp only
  have hb := backoffBase_mono base n n' h
  have : backoffBase base n * jitter * Consts.mrpJitterNum / (255 * Consts.mrpJitterDen) ≤
      backoffBase base n' * jitter * Consts.mrpJitterNum / (255 * Consts.mrpJitterDen) :=
    Nat.div_le_div_right (Nat.mul_le_mul_right _ (Nat.mul_le_mul_right _ hb))
  omega

theorem backoff_monotone_jitter (base n j j' : Nat) (h : j ≤ j') :
    backoffMs base n j ≤ backoffMs base n j' := by
  unfold backoffMs
  simp only
  have : backoffBase base n * j * Consts.mrpJitterNum / (255 * Consts.mrpJitterDen) ≤
      backoffBase base n * j' * Consts.mrpJitterNum / (255 * Consts.mrpJitterDen) :=
    Nat.div_le_div_right (Nat.mul_le_mul_right _ (Nat.mul_le_mul_left _ h))
  omega

/-- jitter only adds -/
theorem backoff_ge_base (base n j : Nat) : backoffBase base n ≤ backoffMs base n j := by
  unfold backoffMs; exact Nat.le_add_right _ _

/-- rounding allowance (ms) of the integer ladder after `k` scaling steps -/
def allowance : Nat → Nat
  | 0 => 1 | 1 => 3 | 2 => 5 | 3 => 9 | _ => 15

/-- **Protocol lower bound**: for every base interval, jitter and attempt `n ≤ budget`, the delay
before retransmission `n+1` is at least `base · 1.1 · 1.6^max(0,n−1)` minus the rounding allowance
of the integer ladder (1, 3, 5, 9, 15 ms for 0..4 scaling steps); written without fractions:
`(delay + allowance) · 10^(k+1) ≥ base · 11 · 16^k`, `k = n − 1`. -/
theorem backoff_lower_bound (base n j : Nat) (hn : n ≤ 5) :
    (backoffMs base n j + allowance (n - 1)) * 10 ^ (n - 1 + 1) ≥ base * 11 * 16 ^ (n - 1) := by
  have hj := backoff_ge_base base n j
  have hcases : n = 0 ∨ n = 1 ∨ n = 2 ∨ n = 3 ∨ n = 4 ∨ n = 5 := by omega
  rcases hcases with h | h | h | h | h | h <;> subst h <;>
    simp only [backoffBase, Consts.mrpBackoffThreshold, Consts.mrpMarginNum, Consts.mrpMarginDen,
      Consts.mrpBackoffBaseNum, Consts.mrpBackoffBaseDen, scaleLoop, allowance] at hj ⊢ <;>
    simp at hj ⊢ <;> omega

/-- **What the sender loop really waits**: with the jitter byte the code uses
(`Consts.mrpJitterFixed`) or any larger one, and a base interval of at least 200 ms (the default is
300 ms), the delay is never below the protocol's back-off — no allowance. -/
theorem backoff_actual_ge_spec (base n j : Nat) (hn : n ≤ 5) (hb : 200 ≤ base) (hj : Consts.mrpJitterFixed ≤ j) :
    backoffMs base n j * 10 ^ (n - 1 + 1) ≥ base * 11 * 16 ^ (n - 1) := by
  have hmono := backoff_monotone_jitter base n Consts.mrpJitterFixed j hj
  have hcases : n = 0 ∨ n = 1 ∨ n = 2 ∨ n = 3 ∨ n = 4 ∨ n = 5 := by omega
  suffices h : backoffMs base n Consts.mrpJitterFixed * 10 ^ (n - 1 + 1) ≥ base * 11 * 16 ^ (n - 1) from
    Nat.le_trans h (Nat.mul_le_mul_right _ hmono)
  rcases hcases with h | h | h | h | h | h <;> subst h <;>
    simp only [backoffMs, backoffBase, Consts.mrpBackoffThreshold, Consts.mrpMarginNum, Consts.mrpMarginDen,
      Consts.mrpBackoffBaseNum, Consts.mrpBackoffBaseDen, Consts.mrpJitterFixed, Consts.mrpJitterNum,
      Consts.mrpJitterDen, scaleLoop] <;>
    simp <;> omega

/-! ### The Matter specification's back-off, written independently of the code

Matter Core Specification, Message Reliability Protocol, retransmission timing:
`mrpBackoffTime = i · MRP_BACKOFF_BASE^max(0, n − MRP_BACKOFF_THRESHOLD) · (1.0 + random(0,1) · MRP_BACKOFF_JITTER)`
with `i = base interval · MRP_BACKOFF_MARGIN`, `MRP_BACKOFF_MARGIN = 1.1`, `MRP_BACKOFF_BASE = 1.6`,
`MRP_BACKOFF_JITTER = 0.25`, `MRP_BACKOFF_THRESHOLD = 1`, `n` = number of send attempts so far.
`specBackoff` is this formula over the rationals with the specification's literal constants; the
code's constants (re-extracted from `mrp.rs` on every run) are proved to be these
(`code_constants_are_the_spec_constants`), the code's integer ladder is proved to lie inside the
specification's range `[rand = 0, rand = 1]` for the parameter range in use
(`backoff_within_spec_range`). `backoff_lower_bound` / `backoff_actual_ge_spec` above remain as the
refinement part (what the integer arithmetic loses against the real-valued ladder). -/

/-- the specification's formula (ms), `rand ∈ [0, 1]`; `n - 1` on `Nat` is `max(0, n − 1)` -/
def specBackoff (baseMs n : Nat) (rand : Rat) : Rat :=
  ((baseMs : Rat) * (11 / 10)) * (16 / 10) ^ (n - 1) * (1 + rand * (25 / 100))

/-- the constants of `mrp.rs` are the specification's: margin 1.1, base 1.6, jitter 0.25, threshold 1;
the jitter byte is scaled by 255 -/
theorem code_constants_are_the_spec_constants :
    Consts.mrpMarginNum * 10 = 11 * Consts.mrpMarginDen ∧ Consts.mrpBackoffBaseNum * 10 = 16 * Consts.mrpBackoffBaseDen ∧
    Consts.mrpJitterNum * 100 = 25 * Consts.mrpJitterDen ∧ Consts.mrpBackoffThreshold = 1 ∧ Consts.mrpJitterDiv = 255 := by
  decide

/-- the integer ladder never exceeds the real-valued one with the largest jitter — every base, every jitter byte -/
theorem backoff_le_spec_max_nat (base n j : Nat) (hn : n ≤ 5) (hj : j ≤ 255) :
    backoffMs base n j * (10 ^ (n - 1 + 1) * 4) ≤ base * 11 * 16 ^ (n - 1) * 5 := by
  have hmono := backoff_monotone_jitter base n j 255 hj
  suffices h : backoffMs base n 255 * (10 ^ (n - 1 + 1) * 4) ≤ base * 11 * 16 ^ (n - 1) * 5 from
    Nat.le_trans (Nat.mul_le_mul_right _ hmono) h
  have hcases : n = 0 ∨ n = 1 ∨ n = 2 ∨ n = 3 ∨ n = 4 ∨ n = 5 := by omega
  rcases hcases with h | h | h | h | h | h <;> subst h <;>
    simp only [backoffMs, backoffBase, Consts.mrpBackoffThreshold, Consts.mrpMarginNum, Consts.mrpMarginDen,
      Consts.mrpBackoffBaseNum, Consts.mrpBackoffBaseDen, Consts.mrpJitterNum,
      Consts.mrpJitterDen, scaleLoop] <;>
    simp <;> omega

theorem spec_lo (b x k : Nat) (hk : k ≤ 4) (h : b * 11 * 16 ^ k ≤ x * 10 ^ (k + 1)) :
    ((b : Rat) * (11 / 10)) * (16 / 10) ^ k * (1 + 0 * (25 / 100)) ≤ (x : Rat) := by
  have h' : ((b * 11 * 16 ^ k : Nat) : Rat) ≤ ((x * 10 ^ (k + 1) : Nat) : Rat) := by exact_mod_cast h
  have hc : k = 0 ∨ k = 1 ∨ k = 2 ∨ k = 3 ∨ k = 4 := by omega
  rcases hc with rfl | rfl | rfl | rfl | rfl <;> (push_cast at h'; grind)

theorem spec_hi (b x k : Nat) (hk : k ≤ 4) (h : x * (10 ^ (k + 1) * 4) ≤ b * 11 * 16 ^ k * 5) :
    (x : Rat) ≤ ((b : Rat) * (11 / 10)) * (16 / 10) ^ k * (1 + 1 * (25 / 100)) := by
  have h' : ((x * (10 ^ (k + 1) * 4) : Nat) : Rat) ≤ ((b * 11 * 16 ^ k * 5 : Nat) : Rat) := by exact_mod_cast h
  have hc : k = 0 ∨ k = 1 ∨ k = 2 ∨ k = 3 ∨ k = 4 := by omega
  rcases hc with rfl | rfl | rfl | rfl | rfl <;> (push_cast at h'; grind)

/-- **The code's back-off lies in the specification's range.** For the parameter range in use — base
interval at least 200 ms (the default `MRP_BASE_RETRY_INTERVAL_MS` is 300 ms; the peer-advertised
session active interval replaces it), attempts `n ≤ 5 = MRP_MAX_TRANSMISSIONS`, jitter byte between
the one the sender loop uses (`Consts.mrpJitterFixed = 100`) and 255 — the delay the code waits before
retransmission `n + 1` is at least the specification's `mrpBackoffTime` with `random = 0` (never
earlier than the protocol's back-off) and at most the one with `random = 1`. -/
theorem backoff_within_spec_range (base n j : Nat) (hn : n ≤ 5) (hb : 200 ≤ base) (hj : Consts.mrpJitterFixed ≤ j)
    (hj2 : j ≤ 255) :
    specBackoff base n 0 ≤ (backoffMs base n j : Rat) ∧ (backoffMs base n j : Rat) ≤ specBackoff base n 1 := by
  have hlo := backoff_actual_ge_spec base n j hn hb hj
  have hhi := backoff_le_spec_max_nat base n j hn hj2
  unfold specBackoff
  exact ⟨spec_lo base _ (n - 1) (by omega) hlo, spec_hi base _ (n - 1) (by omega) hhi⟩

/-- the upper half needs no restriction on base and jitter (rounding only shortens the ladder) -/
theorem backoff_le_spec_max (base n j : Nat) (hn : n ≤ 5) (hj : j ≤ 255) :
    (backoffMs base n j : Rat) ≤ specBackoff base n 1 := by
  unfold specBackoff
  exact spec_hi base _ (n - 1) (by omega) (backoff_le_spec_max_nat base n j hn hj)

/-- the specification's values for the default interval (random = 0): 330, 330, 528, 844.8, 1351.68,
2162.688 ms, and 2703.36 ms for the last step with random = 1; the code waits 362, 362, 579, 926,
1482, 2371 ms (next example): inside the range -/
example : specBackoff 300 0 0 = 330 ∧ specBackoff 300 1 0 = 330 ∧ specBackoff 300 2 0 = 528 ∧
    specBackoff 300 3 0 = 4224 / 5 ∧ specBackoff 300 4 0 = 33792 / 25 ∧ specBackoff 300 5 0 = 270336 / 125 ∧
    specBackoff 300 5 1 = 337920 / 125 := by
  simp only [specBackoff]
  grind

/-- the default ladder: 362, 362, 579, 926, 1482, 2371 ms (base 300, the code's jitter byte) -/
example : (List.range 6).map (fun n => backoffMs 300 n Consts.mrpJitterFixed) = [362, 362, 579, 926, 1482, 2371] := by
  decide

/-- the integer ladder degenerates for tiny base intervals: base 1 ms stays at 1 ms on every step,
the real-valued protocol formula gives 7.2 ms at the last one — covered by the allowance of
`backoff_lower_bound`, excluded by `200 ≤ base` in `backoff_actual_ge_spec`. -/
example : backoffMs 1 5 Consts.mrpJitterFixed = 1 := by decide

/-! ## Two nodes and an adversarial network: every schedule

`Model/TwoNode.lean` composes the sender's reliability layer, the receiver's window + reliability
layer + duplicate handling and a multiset network. A *schedule* is any list of events
(`send`, `retx`, `giveup`, `ackB`, and the adversary's `drop d`, `dup d`, `deliver d` for any
datagram in flight); `run` executes it, `none` = some event was not enabled. The theorems below hold
for **every** schedule, by induction over it (`TwoNode.good_run`). -/

open TwoNode in
/-- **In order, at most once** — for every schedule, on a secure session and on an unsecured one
(`enc`), with any number of messages: as long as no copy of a data message has been handed to the
receiver of an UNSECURED session later than its window is wide (`s.late = false`; on a secure
session the flag never rises: `twoNode_late_only_unsecured`), the receiving application's log (newest
first) is strictly decreasing: no message number twice, none after a later one.
The hypothesis cannot be dropped: `unsecured_late_copy_is_shown_again`. -/
theorem twoNode_in_order_at_most_once (a0 b0 : Nat) (enc : Bool) (sai : Option Nat) (evs : List Ev) (s : Sys)
    (h : run (init a0 b0 enc sai) evs = some s) (hl : s.late = false) : s.app.Pairwise (· > ·) := by
  obtain ⟨_, _, g⟩ := good_run evs (good_init a0 b0 enc sai) h
  exact g.sorted hl

open TwoNode in
/-- the ghost flag `late` rises on unsecured sessions only -/
theorem twoNode_late_only_unsecured (a0 b0 : Nat) (sai : Option Nat) (evs : List Ev) (s : Sys)
    (h : run (init a0 b0 true sai) evs = some s) : s.late = false := by
  obtain ⟨_, _, g⟩ := good_run evs (good_init a0 b0 true sai) h
  exact g.lateEnc (run_enc evs h)

open TwoNode in
/-- **In order, at most once, secure sessions** — every schedule, no side condition. -/
theorem twoNode_in_order_at_most_once_secure (a0 b0 : Nat) (sai : Option Nat) (evs : List Ev) (s : Sys)
    (h : run (init a0 b0 true sai) evs = some s) : s.app.Pairwise (· > ·) :=
  twoNode_in_order_at_most_once a0 b0 true sai evs s h (twoNode_late_only_unsecured a0 b0 sai evs s h)

open TwoNode in
/-- what the ghost flag records, transition by transition: it rises exactly when a data copy is
delivered on an unsecured session whose window is synchronised and more than `L` counters ahead of it -/
theorem twoNode_late_step (s s' : Sys) (e : Ev) (h : step s e = some s') :
    s'.late = (s.late || match e with
      | .deliver (.data c _) => !(s.enc || timelyFor s.bRx c)
      | _ => false) := by
  cases e with
  | send =>
    simp only [step, Sys.sendStep] at h
    repeat' (split at h)
    all_goals first | (cases h; done) | (cases h; simp)
  | retx =>
    simp only [step, Sys.resendStep] at h
    repeat' (split at h)
    all_goals first | (cases h; done) | (cases h; simp)
  | giveup =>
    simp only [step, Sys.resendStep] at h
    repeat' (split at h)
    all_goals first | (cases h; done) | (cases h; simp)
  | ackB =>
    simp only [step, Sys.ackStep] at h
    repeat' (split at h)
    all_goals first | (cases h; done) | (cases h; simp)
  | drop d =>
    simp only [step] at h
    split at h
    · cases h; simp
    · cases h
  | dup d =>
    simp only [step] at h
    split at h
    · cases h; simp
    · cases h
  | deliver d =>
    simp only [step] at h
    split at h
    · cases d with
      | data c i =>
        simp only [Option.some.injEq] at h; subst h
        unfold Sys.recvData
        simp only
        split <;> rfl
      | ack bc k =>
        simp only [Option.some.injEq] at h; subst h
        unfold Sys.recvAck
        simp only
        split
        · simp
        · unfold Sys.afterAck
          repeat' split
          all_goals simp
    · cases h

open TwoNode in
/-- **Why the hypothesis is inherent (the unsecured restart rule).** In every reachable state of an
UNSECURED session - whatever the schedule so far - a copy of a data message that is still in flight
while the receiver's window has moved more than `L` counters past it is, when delivered, accepted by
the window (the code and the Matter rule take it for a restarted peer: `Dedup.PSpec.isRestart`,
`late_copy_is_restart`) and handed to the application **again**: the message is already in its log.
With at least `L + 2 = 18` messages on one unsecured session and an adversary that may hold a copy
back, "at most once" cannot hold; it holds exactly up to the first such delivery
(`twoNode_in_order_at_most_once`). -/
theorem unsecured_late_copy_is_shown_again (a0 b0 : Nat) (sai : Option Nat) (evs : List Ev) (s : Sys)
    (h : run (init a0 b0 false sai) evs = some s) (c i : Nat) (hin : Dg.data c i ∈ s.net)
    (hs : s.bRx.synced = true) (hlate : c + Dedup.L < s.bRx.max) :
    ∃ s', step s (.deliver (.data c i)) = some s' ∧ i ∈ s.app ∧ s'.app = i :: s.app ∧ s'.late = true ∧
      s'.bRx.max = c := by
  obtain ⟨accB, accA, g⟩ := good_run evs (good_init a0 b0 false sai) h
  have henc : s.enc = false := run_enc evs h
  have hc := g.netData c i hin
  -- the window's newest counter belongs to a message of the log, newer than `i`
  have hmax := g.maxIn hs
  rw [g.accApp] at hmax
  obtain ⟨j, hj, hje⟩ := List.mem_map.1 hmax
  have hjn := g.appLt j hj
  have hiapp : i ∈ s.app := g.done i (by omega)
  have hr := C04.restart_accepted s.bRx c hs hlate
  let s0 : Sys := { s with net := s.net.erase (Dg.data c i) }
  have hw0 : (window s0.bRx c s0.enc).2 = true := by
    show (window s.bRx c s.enc).2 = true
    unfold window; rw [henc]; exact hr.1
  refine ⟨s0.recvData c i, ?_, hiapp, ?_, ?_, ?_⟩
  · simp only [step]
    rw [if_pos (by simpa using hin)]
  · rw [recvData_acc s0 c i hw0]
  · rw [recvData_acc s0 c i hw0]
    show (s.late || !(s.enc || timelyFor s.bRx c)) = true
    have : timelyFor s.bRx c = false := by
      unfold timelyFor
      simp [hs]
      omega
    rw [henc, this]
    simp
  · rw [recvData_acc s0 c i hw0]
    show (window s.bRx c s.enc).1.max = c
    unfold window; rw [henc]; exact hr.2

/-- a late copy is a *restart* in the sense of C04's specification of the unsecured window -/
theorem late_copy_is_restart (rx : Dedup.RxState) (p : Dedup.PSpec) (c : Nat) (hp : C04.PInv rx p)
    (hs : rx.synced = true) (hlate : c + Dedup.L < rx.max) : p.isRestart c = true :=
  C04.isRestart_true_of_mem p c rx.max (hp.maxIn hs) hlate

open TwoNode in
/-- **Success only if the peer's stack accepted the message** — for EVERY schedule, both session
kinds, any number of messages, restarts of an unsecured window included: a send call that returned
success was handed to the receiving application (`i ∈ s.app`: this is the content). The second
conjunct (while no late copy was delivered, the counter is in SOME list `acc` that C04's invariant
relates to the receiver's window) is weak on its own — `C04.Inv` pins `acc` down only around the
window — and is kept as the bridge to C04's specification. -/
theorem twoNode_success_only_if_accepted (a0 b0 : Nat) (enc : Bool) (sai : Option Nat) (evs : List Ev) (s : Sys)
    (h : run (init a0 b0 enc sai) evs = some s) (i : Nat) (hok : (i, true) ∈ s.res) :
    i ∈ s.app ∧ (s.late = false → ∃ acc, C04.Inv s.bRx acc ∧ a0 + i ∈ acc) := by
  obtain ⟨accB, _, g⟩ := good_run evs (good_init a0 b0 enc sai) h
  have hi := g.resOk i hok
  refine ⟨hi, fun hl => ⟨accB, g.winB hl, ?_⟩⟩
  rw [g.accApp]
  exact List.mem_map.2 ⟨i, hi, rfl⟩

open TwoNode in
/-- acknowledgements exist only for counters the receiver's window accepted (the half of the
previous theorem that lives on the wire) -/
theorem twoNode_acks_only_for_accepted (a0 b0 : Nat) (enc : Bool) (sai : Option Nat) (evs : List Ev) (s : Sys)
    (h : run (init a0 b0 enc sai) evs = some s) (bc k : Nat) (hin : Dg.ack bc k ∈ s.net) :
    ∃ i, k = a0 + i ∧ i ∈ s.app := by
  obtain ⟨accB, _, g⟩ := good_run evs (good_init a0 b0 enc sai) h
  have := (g.netAck bc k hin).1
  rw [g.accApp] at this
  obtain ⟨i, hi, rfl⟩ := List.mem_map.1 this
  exact ⟨i, rfl, hi⟩

open TwoNode in
/-- **An acknowledgement that gets through ends the call with success** — in every reachable state
with a call in progress, delivering an acknowledgement of that message which the sender's window
lets through makes the call return success at once. -/
theorem twoNode_ack_through_succeeds (a0 b0 : Nat) (enc : Bool) (sai : Option Nat) (evs : List Ev) (s : Sys)
    (h : run (init a0 b0 enc sai) evs = some s) (i bc : Nat) (hcur : s.cur = some i)
    (hin : Dg.ack bc (a0 + i) ∈ s.net) (hw : (window s.aRx bc s.enc).2 = true) :
    ∃ s', step s (.deliver (.ack bc (a0 + i))) = some s' ∧ s'.cur = none ∧ s'.res = (i, true) :: s.res := by
  obtain ⟨accB, accA, g⟩ := good_run evs (good_init a0 b0 enc sai) h
  obtain ⟨_, r, hr, hctr, _⟩ := g.curSome i hcur
  have hp := (postRecv_ack_pending s.aMrp r bc (a0 + i) hr).1 hctr.symm
  let s0 : Sys := { s with net := s.net.erase (Dg.ack bc (a0 + i)) }
  have hw0 : (window s0.aRx bc s0.enc).2 = true := hw
  have hcur0 : s0.cur = some i := hcur
  refine ⟨s0.recvAck bc (a0 + i), ?_, ?_, ?_⟩
  · simp only [step]
    rw [if_pos (by simpa using hin)]
  · rw [recvAck_acc s0 bc _ hw0, afterAck_done s0 _ _ i hp.1 hcur0 hp.2]
  · rw [recvAck_acc s0 bc _ hw0, afterAck_done s0 _ _ i hp.1 hcur0 hp.2]

open TwoNode in
/-- **Every received duplicate is acknowledged again** — in every reachable state (any number of
messages, both session kinds; on an unsecured session: no late copy so far and this copy is itself
not more than `L` counters behind the receiver's window - otherwise the restart rule applies,
`unsecured_late_copy_is_shown_again`), a copy of a message the application already has, when it is
delivered, is not shown to the application again and is answered with a fresh acknowledgement (a new
counter of the receiver). -/
theorem twoNode_duplicate_acked_again (a0 b0 : Nat) (enc : Bool) (sai : Option Nat) (evs : List Ev) (s : Sys)
    (h : run (init a0 b0 enc sai) evs = some s) (c i : Nat) (hin : Dg.data c i ∈ s.net) (hdup : i ∈ s.app)
    (hl : s.late = false) (ht : s.enc = true ∨ timelyFor s.bRx c = true) :
    ∃ s', step s (.deliver (.data c i)) = some s' ∧ s'.app = s.app ∧
      s'.net = Dg.ack s.bCtr c :: s.net.erase (Dg.data c i) ∧ s'.bCtr = s.bCtr + 1 := by
  obtain ⟨accB, accA, g⟩ := good_run evs (good_init a0 b0 enc sai) h
  have hc := (g.netData c i hin).1
  have hacc : c ∈ accB := by
    rw [g.accApp, hc]
    exact List.mem_map.2 ⟨i, hdup, rfl⟩
  have href := (C04.step_refines s.bRx accB c (g.winB hl)).1
  rw [C04.spec_false_mem accB c hacc] at href
  have heq := window_timely s.bRx c s.enc ht
  let s0 : Sys := { s with net := s.net.erase (Dg.data c i) }
  have href0 : (window s0.bRx c s0.enc).2 = false := by
    show (window s.bRx c s.enc).2 = false
    rw [heq]; exact href
  refine ⟨s0.recvData c i, ?_, ?_, ?_, ?_⟩
  · simp only [step]
    rw [if_pos (by simpa using hin)]
  all_goals rw [recvData_rej s0 c i href0]

open TwoNode in
/-- … on a secure session: every copy of a message the application has, no side condition -/
theorem twoNode_duplicate_acked_again_secure (a0 b0 : Nat) (sai : Option Nat) (evs : List Ev) (s : Sys)
    (h : run (init a0 b0 true sai) evs = some s) (c i : Nat) (hin : Dg.data c i ∈ s.net) (hdup : i ∈ s.app) :
    ∃ s', step s (.deliver (.data c i)) = some s' ∧ s'.app = s.app ∧
      s'.net = Dg.ack s.bCtr c :: s.net.erase (Dg.data c i) ∧ s'.bCtr = s.bCtr + 1 :=
  twoNode_duplicate_acked_again a0 b0 true sai evs s h c i hin hdup
    (twoNode_late_only_unsecured a0 b0 sai evs s h) (Or.inl (run_enc evs h))

open TwoNode in
/-- **One transmission and one acknowledgement suffice** (secure sessions) — from every reachable
state in which a call is in progress and one copy of its message is in flight, the schedule "deliver
that copy, (the application acknowledges,) deliver the acknowledgement" is enabled and ends the call
with success: the model never needs more than one transmission and one acknowledgement to get through. -/
theorem twoNode_one_tx_one_ack_suffice (a0 b0 : Nat) (sai : Option Nat) (evs : List Ev) (s : Sys)
    (h : run (init a0 b0 true sai) evs = some s) (i : Nat) (hcur : s.cur = some i)
    (hin : Dg.data (a0 + i) i ∈ s.net) :
    ∃ evs' s', evs'.length ≤ 3 ∧ run s evs' = some s' ∧ (i, true) ∈ s'.res := by
  obtain ⟨accB, accA, g⟩ := good_run evs (good_init a0 b0 true sai) h
  obtain ⟨_, r, hr, hctr, _⟩ := g.curSome i hcur
  have henc : s.enc = true := run_enc evs h
  -- the sender's window lets a counter through that the receiver has not used yet
  have hfresh : (window s.aRx s.bCtr s.enc).2 = true := by
    unfold window
    rw [henc, (C04.step_refines s.aRx accA s.bCtr (g.winA henc)).1]
    apply C04.spec_true
    · intro hm; have := g.accALt henc _ hm; omega
    · intro a ha; have := g.accALt henc a ha; omega
  have hp := (postRecv_ack_pending s.aMrp r s.bCtr (a0 + i) hr).1 hctr.symm
  let s0 : Sys := { s with net := s.net.erase (Dg.data (a0 + i) i) }
  have hstep1 : step s (.deliver (.data (a0 + i) i)) = some (s0.recvData (a0 + i) i) := by
    simp only [step]
    rw [if_pos (by simpa using hin)]
  cases hw : (window s.bRx (a0 + i) s.enc).2 with
  | false =>
    -- already accepted earlier: acknowledged afresh at once
    have hw0 : (window s0.bRx (a0 + i) s0.enc).2 = false := hw
    have h1 := recvData_rej s0 (a0 + i) i hw0
    let s1 : Sys := { s0 with bRx := (window s0.bRx (a0 + i) s0.enc).1, bCtr := s0.bCtr + 1,
                              net := Dg.ack s0.bCtr (a0 + i) :: s0.net,
                              late := s0.late || !(s0.enc || timelyFor s0.bRx (a0 + i)) }
    let s1' : Sys := { s1 with net := s1.net.erase (Dg.ack s.bCtr (a0 + i)) }
    have hstepA : step s1 (.deliver (.ack s.bCtr (a0 + i))) = some (s1'.recvAck s.bCtr (a0 + i)) := by
      simp only [step]
      rw [if_pos (by simp [s1, s0])]
    refine ⟨[.deliver (.data (a0 + i) i), .deliver (.ack s.bCtr (a0 + i))], s1'.recvAck s.bCtr (a0 + i), by simp, ?_, ?_⟩
    · simp only [run]
      rw [hstep1]
      simp only
      rw [h1, hstepA]
    · have w1 : (window s1'.aRx s.bCtr s1'.enc).2 = true := hfresh
      have c1 : s1'.cur = some i := hcur
      rw [recvAck_acc s1' _ _ w1, afterAck_done s1' _ _ i hp.1 c1 hp.2]
      exact List.mem_cons_self
  | true =>
    have hw0 : (window s0.bRx (a0 + i) s0.enc).2 = true := hw
    have h1 := recvData_acc s0 (a0 + i) i hw0
    let s1 : Sys := { s0 with bRx := (window s0.bRx (a0 + i) s0.enc).1,
                              bMrp := (s0.bMrp.postRecv (a0 + i) none true 0).1, app := i :: s0.app,
                              late := s0.late || !(s0.enc || timelyFor s0.bRx (a0 + i)) }
    have hack : s1.bMrp.ack = some { ctr := a0 + i, acked := false } := by
      show (s.bMrp.postRecv (a0 + i) none true 0).1.ack = _
      rw [postRecv_noAck]
      rfl
    have hpu := preSend_unreliable s1.bMrp s1.bCtr none none
    let s2 : Sys := { s1 with bMrp := (s1.bMrp.preSend s1.bCtr false none none).1, bCtr := s.bCtr + 1,
                              net := Dg.ack s.bCtr (a0 + i) :: s1.net }
    have hstep2 : s1.ackStep = some s2 := by
      unfold Sys.ackStep
      have hpend : s1.bMrp.isAckPending = true := by simp [Mrp.isAckPending, hack]
      simp only [hpend, Bool.not_true, Bool.false_eq_true, ↓reduceIte]
      rw [hpu.2.1]
      simp only [outAckOf, Mrp.ackCtr, hack, Option.map_some]
      rfl
    let s2' : Sys := { s2 with net := s2.net.erase (Dg.ack s.bCtr (a0 + i)) }
    have hstepA : step s2 (.deliver (.ack s.bCtr (a0 + i))) = some (s2'.recvAck s.bCtr (a0 + i)) := by
      simp only [step]
      rw [if_pos (by simp [s2])]
    have hstepB : step s1 .ackB = some s2 := hstep2
    refine ⟨[.deliver (.data (a0 + i) i), .ackB, .deliver (.ack s.bCtr (a0 + i))], s2'.recvAck s.bCtr (a0 + i), by simp, ?_, ?_⟩
    · simp only [run]
      rw [hstep1]
      simp only
      rw [h1, hstepB]
      simp only
      rw [hstepA]
    · have w2 : (window s2'.aRx s.bCtr s2'.enc).2 = true := hfresh
      have c2 : s2'.cur = some i := hcur
      rw [recvAck_acc s2' _ _ w2, afterAck_done s2' _ _ i hp.1 c2 hp.2]
      exact List.mem_cons_self

open TwoNode in
/-- **The sender is never stuck, and gives up exactly at the budget** — in every reachable state with
a call in progress, exactly one of the sender's own moves is enabled: below the budget
(`count < MRP_MAX_TRANSMISSIONS`) the retransmission and NOT the give-up; at the budget the give-up
and NOT another retransmission, and the give-up ends the call with failure (`TxTimeout`), never
with success. (Every schedule, both session kinds.) -/
theorem twoNode_retx_xor_giveup (a0 b0 : Nat) (enc : Bool) (sai : Option Nat) (evs : List Ev) (s : Sys)
    (h : run (init a0 b0 enc sai) evs = some s) (i : Nat) (hcur : s.cur = some i) :
    ∃ r, s.aMrp.retrans = some r ∧ r.ctr = a0 + i ∧
      ((r.count < budget ∧ (step s .retx).isSome = true ∧ step s .giveup = none) ∨
       (r.count = budget ∧ step s .retx = none ∧
          ∃ s', step s .giveup = some s' ∧ s'.cur = none ∧ s'.res = (i, false) :: s.res ∧ s'.aMrp.retrans = none)) := by
  obtain ⟨_, _, g⟩ := good_run evs (good_init a0 b0 enc sai) h
  obtain ⟨_, r, hr, hctr, hcnt⟩ := g.curSome i hcur
  refine ⟨r, hr, hctr, ?_⟩
  by_cases hb : r.count < Consts.mrpMaxTransmissions
  · left
    have hp := preSend_retrans_ok s.aMrp r none s.sai hr hb
    refine ⟨hb, ?_, ?_⟩ <;> simp [step, Sys.resendStep, hcur, hr, hp]
  · right
    have hp := preSend_retrans_timeout s.aMrp r none s.sai hr hb
    refine ⟨by unfold budget; omega, ?_, ?_⟩
    · simp [step, Sys.resendStep, hcur, hr, hp.1]
    · refine ⟨{ s with aMrp := (s.aMrp.preSend r.ctr true none s.sai).1, cur := none, res := (i, false) :: s.res }, ?_, rfl, rfl, hp.2.1⟩
      simp [step, Sys.resendStep, hcur, hr, hp.1]

/-- `sendStep` WITHOUT "the application stops at the first failed call": a new message although an
earlier call on this exchange failed -/
def sendAfterFailure (s : TwoNode.Sys) : Option TwoNode.Sys :=
  if s.cur.isSome || s.aMrp.retrans.isSome then none else
  let r := s.aMrp.preSend s.aCtr true none s.sai
  match r.2.2 with
  | some _ => none
  | none =>
    some { s with aCtr := s.aCtr + 1, aMrp := r.1, cur := some s.next, next := s.next + 1,
                  net := TwoNode.Dg.data s.aCtr s.next :: s.net }

/-- **The restriction "nothing is sent on the exchange after a failed call" is needed** (it is the
Matter rule: an exchange on which reliable delivery failed is closed; rs-matter reports `TxTimeout`
and, on a CASE session, expires the session, but its `Exchange` API does not itself refuse a further
`send`). On a SECURE session: message 0 is given up after six transmissions all of which are merely
delayed; the application sends message 1 on the same exchange; message 1 arrives, then a delayed
copy of message 0 — a first-time counter inside the receive window — is accepted and shown to the
receiving application AFTER message 1: not in sending order, and message 0 was reported as failed. -/
theorem order_breaks_if_sender_continues_after_giveup :
    ∃ s1 s2 s3, TwoNode.run (TwoNode.init 100 500 true) [.send, .retx, .retx, .retx, .retx, .retx, .giveup] = some s1 ∧
      s1.res = [(0, false)] ∧ TwoNode.step s1 .send = none ∧ sendAfterFailure s1 = some s2 ∧
      TwoNode.run s2 [.deliver (.data 101 1), .deliver (.data 100 0)] = some s3 ∧ s3.app = [0, 1] ∧ s3.late = false := by
  refine ⟨_, _, _, rfl, ?_, ?_, rfl, rfl, ?_, ?_⟩ <;> decide

open TwoNode in
/-- **Soundness of the trace monitor**: a log of observed events the driver accepts
(`acceptsTrace`) is the trace of a schedule of the model, so everything proved above about every
schedule holds for the run that produced it — in particular every call it reports as successful
reached the receiving application, and, unless the model saw a late copy on an unsecured session
(`s.late`, which the driver reports), the log it ends with is in order and at-most-once. -/
theorem accepted_trace_is_a_run (a0 b0 : Nat) (enc : Bool) (sai : Option Nat) (os : List Obs) (s : Sys)
    (h : acceptsTrace (init a0 b0 enc sai) os = .ok s) :
    (∃ evs, run (init a0 b0 enc sai) evs = some s) ∧ (s.late = false → s.app.Pairwise (· > ·)) ∧
    ∀ i, (i, true) ∈ s.res → i ∈ s.app := by
  obtain ⟨evs, hrun⟩ := acceptsTrace_run _ _ _ h
  exact ⟨⟨evs, hrun⟩, twoNode_in_order_at_most_once a0 b0 enc sai evs s hrun,
    fun i hi => (twoNode_success_only_if_accepted a0 b0 enc sai evs s hrun i hi).1⟩

/-- non-vacuity of the monitor: a good trace (first transmission lost, retransmission after the
back-off, delivery, acknowledgement, success) is accepted … -/
example : (match TwoNode.acceptsTrace (TwoNode.init 100 500)
      [.txA 0 100 0 .lost, .txA 362 100 0 .pass, .rxB 100 0, .appB 0, .txB 500 100 .pass, .rxA 500 100, .endA 0 true] with
    | .ok s => some (s.app, s.res, s.late)
    | .error _ => none) = some ([0], [(0, true)], false) := by decide

/-- … a give-up after the budget (six transmissions at the code's own back-off, all lost) is accepted … -/
example : (match TwoNode.acceptsTrace (TwoNode.init 100 500)
      [.txA 0 100 0 .lost, .txA 362 100 0 .lost, .txA 724 100 0 .lost, .txA 1303 100 0 .lost, .txA 2229 100 0 .lost,
       .txA 3711 100 0 .lost, .endA 0 false] with
    | .ok s => some (s.app, s.res)
    | .error _ => none) = some ([], [(0, false)]) := by decide

/-- … and it rejects: a retransmission earlier than the back-off, a success without an acknowledgement,
a failure before the budget is used up -/
example :
    (TwoNode.acceptsTrace (TwoNode.init 100 500) [.txA 0 100 0 .lost, .txA 100 100 0 .pass]).toOption.isNone = true ∧
    (TwoNode.acceptsTrace (TwoNode.init 100 500)
      [.txA 0 100 0 .pass, .rxB 100 0, .appB 0, .txB 500 100 .lost, .endA 0 true]).toOption.isNone = true ∧
    (TwoNode.acceptsTrace (TwoNode.init 100 500) [.txA 0 100 0 .lost, .txA 362 100 0 .lost, .endA 0 false]).toOption.isNone = true := by
  refine ⟨by decide, by decide, by decide⟩

/-- a schedule with a give-up in the two-node model: six transmissions, all dropped, then `giveup` -/
example :
    (TwoNode.run (TwoNode.init 100 500)
      [.send, .drop (.data 100 0), .retx, .drop (.data 100 0), .retx, .drop (.data 100 0), .retx, .drop (.data 100 0),
       .retx, .drop (.data 100 0), .retx, .drop (.data 100 0), .giveup]).map (fun s => (s.app, s.res, s.cur, s.net)) =
    some ([], [(0, false)], none, []) := by
  decide

/-! ## Two nodes, both directions, piggy-backed acknowledgements: every schedule

`Model/TwoNodeBi.lean`: both nodes send reliable application messages on ONE exchange of a secure
session (stop-and-wait each, nothing after a failed call), their headers carry the acknowledgement
`ReliableMessage::pre_send` piggy-backs, both retransmit / give up / acknowledge, both receive through
window + `ReliableMessage::post_recv` (matching acknowledgement ends the pending call, a mismatching
one ⇒ `Duplicate`), duplicates are acknowledged afresh outside the exchange; the adversary drops,
duplicates, delays, reorders. `TwoNodeBi.both_run`: the invariant of both directions holds after
every schedule. -/

open TwoNodeBi in
/-- **In sending order, at most once — both directions at once, piggy-backed acknowledgements,
every schedule** (secure session): whatever both applications send and whenever, and whatever the
network does, the log of EACH receiving application (newest first) is strictly decreasing. -/
theorem biNode_in_order_at_most_once (a0 b0 : Nat) (sai : Option Nat) (evs : List Ev) (s : Sys)
    (h : run (init a0 b0 sai) evs = some s) (y : Bool) : (s.n y).app.Pairwise (· > ·) := by
  obtain ⟨acc, g⟩ := both_run evs (both_init a0 b0 sai) h (!y)
  have := g.sorted
  simpa using this

open TwoNodeBi in
/-- **Success only if the message is settled at the peer's stack** — both directions, every schedule:
a send call that returned success sent its message under a counter the peer's receive window has
accepted or will never accept any more (`specAccept acc c = false` for the set `acc` of counters that
window, C04's specification, has accepted). With traffic in both directions this is all that can be
said: `biNode_success_without_application`. -/
theorem biNode_success_only_if_settled (a0 b0 : Nat) (sai : Option Nat) (evs : List Ev) (s : Sys)
    (h : run (init a0 b0 sai) evs = some s) (x : Bool) (j : Nat) (hok : (j, true) ∈ (s.n x).res) :
    ∃ c acc, (s.n x).msgs[j]? = some c ∧ C04.Inv (s.n (!x)).rx acc ∧ Dedup.specAccept acc c = false := by
  obtain ⟨acc, g⟩ := both_run evs (both_init a0 b0 sai) h x
  obtain ⟨c, hc, hs⟩ := g.resOk j hok
  exact ⟨c, acc, hc, g.win, hs⟩

open TwoNodeBi in
/-- acknowledgements on the wire — stand-alone or piggy-backed on a reliable message — name only
counters that are settled at the node that sends them -/
theorem biNode_acks_only_for_settled (a0 b0 : Nat) (sai : Option Nat) (evs : List Ev) (s : Sys)
    (h : run (init a0 b0 sai) evs = some s) (d : Dg) (hd : d ∈ s.net) (k : Nat) (hk : d.ack = some k) :
    ∃ acc, C04.Inv (s.n d.frm).rx acc ∧ Dedup.specAccept acc k = false := by
  obtain ⟨acc, g⟩ := both_run evs (both_init a0 b0 sai) h (!d.frm)
  have hw := g.win
  simp only [Bool.not_not] at hw
  exact ⟨acc, hw, g.netAck d hd (by simp) k hk⟩

/-- non-vacuity: a request / response / next-request round with a lost and a duplicated request, a lost
response and its retransmission; the response's header acknowledges the request, the next request
acknowledges the response -/
example :
    let r := TwoNodeBi.run (TwoNodeBi.init 100 500)
      [.send true, .drop ⟨true, 100, some 0, none⟩, .retx true, .dup ⟨true, 100, some 0, none⟩,
       .deliver ⟨true, 100, some 0, none⟩, .send false, .deliver ⟨true, 100, some 0, none⟩,
       .drop ⟨false, 500, some 0, some 100⟩, .deliver ⟨false, 501, none, some 100⟩, .retx false,
       .deliver ⟨false, 500, some 0, some 100⟩, .send true, .deliver ⟨true, 101, some 1, some 500⟩]
    r.map (fun s => ((s.n true).app, (s.n true).res)) = some ([0], [(0, true)]) ∧
    r.map (fun s => ((s.n false).app, (s.n false).res)) = some ([1, 0], [(0, true)]) ∧
    r.map (fun s => s.net) = some [] := by
  intro r
  refine ⟨by decide, by decide, by decide⟩

/-- **With both sides sending, "success" does not mean "the application has it"** (the observation
`stale_ack_drops_fresh_message`, end to end): A's request 0 is delivered and acknowledged; then both
applications send at the same time. B's message still acknowledges A's OLD counter 100 while A waits
for the acknowledgement of 101: A's `ReliableMessage::post_recv` answers `Duplicate`, the message is
not handed to A's application, `handle_rx_packet` acknowledges it, B's call returns success — and A's
log is empty for good (a retransmission would be a window duplicate). -/
theorem biNode_success_without_application :
    (TwoNodeBi.run (TwoNodeBi.init 100 500)
      [.send true, .deliver ⟨true, 100, some 0, none⟩, .ackApp false, .deliver ⟨false, 500, none, some 100⟩,
       .send true, .send false, .deliver ⟨false, 501, some 0, some 100⟩, .deliver ⟨true, 102, none, some 501⟩]).map
      (fun s => ((s.n false).res, (s.n true).app)) = some ([(0, true)], []) := by
  decide

/-- The receive window of an unsecured session (`enc = false`, the other half of the harness's
system-level flows) differs from the secure one only for counters more than the window width behind
the newest one (`TwoNode.window_timely` is this statement for the two-node model). -/
theorem unsecured_window_differs_only_behind (s : Dedup.RxState) (c : Nat)
    (h : s.synced = false ∨ s.max ≤ c + Dedup.L) :
    Dedup.postRecvPlain s c false = Dedup.postRecvPlain s c true := by
  have := TwoNode.window_timely s c false (Or.inr (by
    unfold TwoNode.timelyFor
    rcases h with h | h
    · simp [h]
    · simp [h]))
  exact this

/-- non-vacuity of the two-node theorems: a schedule with a lost first transmission, a
retransmission, a duplicated datagram whose second copy is acknowledged afresh, and a second message -/
example :
    (TwoNode.run (TwoNode.init 100 500)
      [.send, .drop (.data 100 0), .retx, .dup (.data 100 0), .deliver (.data 100 0), .ackB,
       .deliver (.data 100 0), .deliver (.ack 500 100), .send, .deliver (.data 101 1), .ackB,
       .deliver (.ack 501 100), .deliver (.ack 502 101)]).map (fun s => (s.app, s.res, s.net, s.late)) =
    some ([1, 0], [(1, true), (0, true)], [], false) := by
  decide

/-- … and on an unsecured session (`enc = false`): same schedule, same outcome -/
example :
    (TwoNode.run (TwoNode.init 100 500 false)
      [.send, .drop (.data 100 0), .retx, .dup (.data 100 0), .deliver (.data 100 0), .ackB,
       .deliver (.data 100 0), .deliver (.ack 500 100), .send]).map (fun s => (s.app, s.res, s.cur, s.late)) =
    some ([0], [(0, true)], some 1, false) := by
  decide

/-- one round of a schedule without faults: message `i` is sent, delivered, acknowledged -/
def cleanRound (a0 b0 i : Nat) : List TwoNode.Ev :=
  [.send, .deliver (.data (a0 + i) i), .ackB, .deliver (.ack (b0 + i) (a0 + i))]

/-- the schedule of `unsecured_late_copy_is_shown_again`: the first transmission of message 0 is
duplicated, one copy stays in the network while 18 messages go through, then it is delivered -/
def lateSchedule (a0 b0 n : Nat) : List TwoNode.Ev :=
  [.send, .dup (.data a0 0), .deliver (.data a0 0), .ackB, .deliver (.ack b0 a0)] ++
    ((List.range n).map (fun k => cleanRound a0 b0 (k + 1))).flatten ++ [.deliver (.data a0 0)]

/-- **the bound is inherent, concretely**: on an unsecured session, 18 messages and ONE held-back copy:
message 0 is in the receiving application's log twice (and all 18 calls reported success) … -/
example :
    (TwoNode.run (TwoNode.init 100 500 false) (lateSchedule 100 500 17)).map
      (fun s => (s.app.head?, s.app.length, s.res.length, s.res.all (·.2), s.late, s.bRx.max)) =
    some (some 0, 19, 18, true, true, 100) := by
  decide

/-- … with 17 messages the same copy is still inside the window: rejected, acknowledged again … -/
example :
    (TwoNode.run (TwoNode.init 100 500 false) (lateSchedule 100 500 16)).map
      (fun s => (s.app.head?, s.app.length, s.late, s.net)) =
    some (some 16, 17, false, [TwoNode.Dg.ack 517 100]) := by
  decide

/-- … and on a secure session the late copy is rejected whatever the number of messages -/
example :
    (TwoNode.run (TwoNode.init 100 500 true) (lateSchedule 100 500 17)).map
      (fun s => (s.app.head?, s.app.length, s.late, s.net)) =
    some (some 17, 18, false, [TwoNode.Dg.ack 518 100]) := by
  decide

end C09
