//! C13, system-level stream: the REAL reporter / responder tasks of `im.rs` on the simulated
//! adversarial network (`simnet`) under virtual time.
//!
//! One case = one scenario:
//!  * node 0: a real device (`Matter` + `InteractionModel` (reporter task running) + `Responder`)
//!    serving a harness cluster (endpoint 1) with six integer attributes (0,1,3,5,7,8) and three
//!    700-byte octet strings (2,4,6), so that a priming report needs several chunks;
//!    the subscription table is persisted into an in-memory key-value store that survives `down`/`up`;
//!  * nodes 1,2: real subscribers (`Matter` + `InteractionModel::new_with_reports` + `Responder`);
//!    the subscribe goes through `ImClient::subscribe_sender`, reports arrive in a
//!    `ReportDataHandler` which records them;
//!  * all nodes are members of one fabric with minted certificates; sessions are established for
//!    real (`Exchange::initiate` -> operational resolve -> `CaseInitiator`), the resolve requests
//!    are answered by a harness task through the public responder contract
//!    (`wait_mdns_resolve_request` / `try_deposit_mdns_resolve`).
//!
//! Header: `case <id> sys seed=<n> drop=<pm> dup=<pm> delay=<pm> maxdelay=<ms> strict=<0|1> gc=<0|1>`
//! (`gc=1`: unsecured sessions without an exchange are evicted eagerly on all nodes).
//! Ops (self-contained text):
//!   `sub <who> <min> <max> <keep 0|1> <sel w|l> [hold=<chunk>:<ms>]`  queue a subscribe at subscriber `who`
//!   `set <attr> <val>`                 change an attribute + `notify_attr_changed` (silent while the device is down)
//!   `run <ms>`                         let virtual time pass
//!   `adv <drop> <dup> <delay> <maxdelay>`   adversary rates (per mille) for all datagrams
//!   `black <who> <0|1>`                total blackout from/to subscriber `who`
//!   `dropsess <who>`                   the device loses its session(s) to subscriber `who`
//!   `down <cold|warm>`                 tear the device down (cold: sessions are lost too)
//!   `up`                               fresh `InteractionModelState`, same key-value store, `startup()`
//!   `quiesce <ms>`                     adversary and blackouts off, run
//!   `obs`                              final observation
//! Output of every op: the observable facts produced during the op, ` ; `-separated, times in
//! virtual ms since the start of the case:
//!   `prm <who> <t> <subid> <more> <items>`   priming chunk received inside the subscribe exchange
//!   `est <who> <t> <subid> <maxint>`         SubscribeResponse received
//!   `sfail <who> <t> <err>`                  the subscribe flow failed
//!   `rep <who> <t> <subid> <more> <items>`   ReportData chunk accepted by the report handler
//!   `rej <who> <t> <subid>`                  ReportData disowned (InvalidSubscription)
//!   `tab <t> <entries> <reporting>`          the device's table changed; entry = id/peer/min/max/ra/rt/fc
//!                                            (ra: ms or `M` = not primed, rt: ms or `m` = none)
//!   `res <id:sel,...>`                       (only `up`) id and selection of the persisted records, in slot order
//!   `dev <values>` / `subv <who> <alive id:sel,...> <view>`   (only `obs`; sel `u` = adopted from a report)
use core::future::Future;
use core::num::NonZeroU8;
use core::pin::Pin;
use core::task::{Context, Poll};
use std::cell::{Cell, RefCell};
use std::collections::{BTreeMap, HashMap, VecDeque};
use std::panic::{catch_unwind, AssertUnwindSafe};
use std::rc::Rc;

use embassy_futures::select::{select, select4, Either};
use embassy_time::{Duration, MockDriver, Timer};

use rs_matter::acl::{AclEntry, AuthMode};
use rs_matter::crypto::{test_only_crypto, CanonAeadKeyRef, CanonPkcSecretKeyRef, Crypto};
use rs_matter::dm::clusters::net_comm::{DummyNetworks, NetworkType};
use rs_matter::dm::devices::test::{TEST_DEV_ATT, TEST_DEV_COMM, TEST_DEV_DET};
use rs_matter::dm::devices::DEV_TYPE_ON_OFF_LIGHT;
use rs_matter::dm::networks::wireless::NoopWirelessNetCtl;
use rs_matter::dm::{
    Access, Async, AttrChangeNotifier, Attribute, Cluster, Dataver, EmptyHandler, Endpoint, Handler, InvokeContext,
    InvokeReply, MatchContext, Node, NonBlockingHandler, Privilege, Quality, ReadContext, ReadReply, Reply,
    ReportContext as RepCtx, ReportDataHandler, WriteContext,
};
use rs_matter::error::{Error, ErrorCode};
use rs_matter::im::client::{ImClient, SubscribeOutcome, TxOutcome};
use rs_matter::im::encoding::ReportDataResp;
use rs_matter::im::subscriptions::{VerifItem, VerifSub};
use rs_matter::im::{AttrPath, AttrResp, GenericPath, IMStatusCode, InteractionModel, InteractionModelState};
use rs_matter::im::SubscribeReq;
use rs_matter::persist::{DummyKvBlobStore, KvBlobStore, PERSISTENT_SUBSCRIPTIONS_START};
use rs_matter::tlv::TLVElement;
use rs_matter::respond::Responder;
use rs_matter::tlv::TLVWrite;
use rs_matter::transport::exchange::{Exchange, MatterBuffers};
use rs_matter::transport::network::mdns::{DottedName, MdnsRemoteService};
use rs_matter::transport::network::{Address, MatterRemoteService, NoNetwork};
use rs_matter::transport::session::SessionMode;
use rs_matter::utils::sync::Notification;
use rs_matter::{attributes, clusters, commands, events, with, Matter};

use crate::c19::{gen_records, mint, GenP, Keys, IPK};
use crate::proto::{Case, Out};
use crate::rng::Rng;
use crate::simnet::{addr_of, now_ms, run_sim, Policy, SimNet, Verdict};

pub const RULE: &str = "sys cases: one scenario on the simulated network under virtual time with a real device (InteractionModel with the reporter task, Responder, persisted subscriptions in a key-value store that survives restarts) serving 6 integer + 3 large attributes (chunked priming) and two real subscribers (subscribe through ImClient::subscribe_sender, reports recorded by a ReportDataHandler), all sessions established for real (operational resolve + CASE); scenario families: a change injected between the round trips of a chunked priming, a competing subscriber with another minimum interval, datagram loss / duplication / delay, session loss on the device, total blackout of a subscriber, restart (cold/warm) with persisted subscriptions incl. a change during the downtime, a subscriber that is gone for good after a restart, buffer pressure (the device's pool of 10 IM buffers drained by 6-8 live subscriptions + hanging primings while a subscribed attribute changes), random mixes; non-trivial = a subscription was established, an attribute was changed after that and a reporter-originated report reached a subscriber";

const N_SUBS: usize = 2;
const DEV_NODE: u64 = 1;
const SUB_NODE0: u64 = 100;
const FABRIC: u64 = 7;
const EP: u16 = 1;
const CLUSTER_ID: u32 = 0xFFF1_FC30;
const BALLAST: usize = 700;
const EVENTS_BUF: usize = 2048;
/// room for the buffer-pressure scenarios: 8 established subscriptions + one priming in progress
const MAX_SUBS: usize = 9;
/// attribute ids of the integer attributes; `8` is not part of the `l` selection
pub const INT_ATTRS: [u32; 6] = [0, 1, 3, 5, 7, 8];
const BALLAST_ATTRS: [u32; 3] = [2, 4, 6];
const HZ: u64 = embassy_time::TICK_HZ;

macro_rules! attr {
    ($id:expr) => {
        Attribute::new($id, Access::RV, Quality::NONE)
    };
}

const CLUSTER: Cluster<'static> = Cluster {
    id: CLUSTER_ID,
    revision: 1,
    feature_map: 0,
    attributes: attributes!(attr!(0), attr!(1), attr!(2), attr!(3), attr!(4), attr!(5), attr!(6), attr!(7), attr!(8),),
    commands: commands!(),
    events: events!(),
    with_attrs: with!(all),
    with_cmds: with!(all),
    with_events: with!(all),
};

const NODE: Node<'static> = Node { endpoints: &[Endpoint::new(EP, &[DEV_TYPE_ON_OFF_LIGHT], clusters!(CLUSTER))] };

type Vals = Rc<RefCell<[u32; 9]>>;

struct SysHandler {
    dataver: Dataver,
    vals: Vals,
}

impl Handler for SysHandler {
    fn read(&self, ctx: impl ReadContext, reply: impl ReadReply) -> Result<(), Error> {
        let attr = ctx.attr();
        if let Some(mut writer) = reply.with_dataver(self.dataver.get())? {
            if attr.is_system() {
                return CLUSTER.read(attr, writer);
            }
            let id = attr.attr_id;
            let tag = writer.tag();
            if INT_ATTRS.contains(&id) {
                let v = self.vals.borrow()[id as usize];
                writer.writer().u32(tag, v)?;
                writer.complete()
            } else if BALLAST_ATTRS.contains(&id) {
                let v = vec![id as u8; BALLAST];
                writer.writer().str(tag, &v)?;
                writer.complete()
            } else {
                Err(ErrorCode::AttributeNotFound.into())
            }
        } else {
            Ok(())
        }
    }
    fn write(&self, _ctx: impl WriteContext) -> Result<(), Error> {
        Err(ErrorCode::AttributeNotFound.into())
    }
    fn invoke(&self, _ctx: impl InvokeContext, _reply: impl InvokeReply) -> Result<(), Error> {
        Err(ErrorCode::CommandNotFound.into())
    }
    fn bump_dataver(&self, _ctx: impl MatchContext) {
        self.dataver.changed();
    }
}

impl NonBlockingHandler for SysHandler {}

// ------------------------------------------------------------------------------------------------
// key-value store that survives a restart

#[derive(Clone, Default)]
struct MemKv(Rc<RefCell<HashMap<u16, Vec<u8>>>>);

impl KvBlobStore for MemKv {
    fn load<'a>(&mut self, key: u16, buf: &'a mut [u8]) -> Result<Option<&'a [u8]>, Error> {
        Ok(self.0.borrow().get(&key).map(|v| {
            buf[..v.len()].copy_from_slice(v);
            &buf[..v.len()]
        }))
    }
    fn store(&mut self, key: u16, data: &[u8], _buf: &mut [u8]) -> Result<(), Error> {
        self.0.borrow_mut().insert(key, data.to_vec());
        Ok(())
    }
    fn remove(&mut self, key: u16, _buf: &mut [u8]) -> Result<(), Error> {
        self.0.borrow_mut().remove(&key);
        Ok(())
    }
}

// ------------------------------------------------------------------------------------------------
// adversary

struct AdvCfg {
    rng: Rng,
    drop: u64,
    dup: u64,
    delay: u64,
    maxdelay: u64,
    /// blackout per node index (1 + who)
    black: [bool; 1 + N_SUBS],
    n_drop: u64,
    n_dup: u64,
    n_delay: u64,
    n_black: u64,
    n_total: u64,
}

struct Adv(Rc<RefCell<AdvCfg>>);

impl Policy for Adv {
    fn decide(&mut self, from: usize, to: usize, _b: &[u8], _seq: u64) -> Verdict {
        let mut c = self.0.borrow_mut();
        c.n_total += 1;
        if c.black.get(from).copied().unwrap_or(false) || c.black.get(to).copied().unwrap_or(false) {
            c.n_black += 1;
            return Verdict::Drop;
        }
        if c.drop + c.dup + c.delay == 0 {
            return Verdict::Deliver;
        }
        let x = c.rng.below(1000);
        if x < c.drop {
            c.n_drop += 1;
            Verdict::Drop
        } else if x < c.drop + c.dup {
            c.n_dup += 1;
            Verdict::Dup
        } else if x < c.drop + c.dup + c.delay {
            c.n_delay += 1;
            let m = c.maxdelay.max(1);
            Verdict::Delay(1 + c.rng.below(m))
        } else {
            Verdict::Deliver
        }
    }
}

// ------------------------------------------------------------------------------------------------
// subscriber

#[derive(Clone, Copy, PartialEq)]
enum Sel {
    Wild,
    List,
}

#[derive(Clone)]
struct SubCmd {
    min: u16,
    max: u16,
    keep: bool,
    sel: Sel,
    hold: Option<(u32, u64)>,
}

struct Known {
    id: u32,
    max_int: u16,
    last_ms: u64,
    /// what the subscription selects; `None` for a subscription adopted from a report
    sel: Option<Sel>,
}

struct Log {
    t0: u64,
    ev: RefCell<Vec<String>>,
    established: Cell<u64>,
    reports: Cell<u64>,
}

impl Log {
    fn t(&self) -> u64 {
        now_ms().saturating_sub(self.t0)
    }
    fn push(&self, s: String) {
        self.ev.borrow_mut().push(s);
    }
    fn drain(&self) -> String {
        let v: Vec<String> = self.ev.borrow_mut().drain(..).collect();
        if v.is_empty() {
            "-".into()
        } else {
            v.join(" ; ")
        }
    }
}

struct SubSt {
    who: usize,
    strict: bool,
    log: Rc<Log>,
    queue: RefCell<VecDeque<SubCmd>>,
    wake: Notification,
    pending: Cell<bool>,
    known: RefCell<Vec<Known>>,
    view: RefCell<BTreeMap<u32, u32>>,
}

/// decode the attribute reports of one ReportData chunk (step-capped), update the view
fn items_of(report: &ReportDataResp<'_>, view: Option<&RefCell<BTreeMap<u32, u32>>>) -> String {
    let mut items = Vec::new();
    if let Some(reports) = &report.attr_reports {
        for (k, r) in reports.iter().enumerate() {
            if k >= 64 {
                items.push("cap".to_string());
                break;
            }
            match r {
                Ok(AttrResp::Data(d)) => {
                    if d.path.cluster != Some(CLUSTER_ID) || d.path.endpoint != Some(EP) {
                        items.push("o".into());
                        continue;
                    }
                    let id = d.path.attr.unwrap_or(0xffff);
                    if INT_ATTRS.contains(&id) {
                        match d.data.u32() {
                            Ok(v) => {
                                if let Some(view) = view {
                                    view.borrow_mut().insert(id, v);
                                }
                                items.push(format!("{}={}", id, v));
                            }
                            Err(_) => items.push(format!("{}=?", id)),
                        }
                    } else if BALLAST_ATTRS.contains(&id) {
                        items.push(format!("b{}", id));
                    } else {
                        items.push("g".into());
                    }
                }
                Ok(AttrResp::Status(_)) => items.push("s".into()),
                Err(_) => {
                    items.push("err".into());
                    break;
                }
            }
        }
    }
    // the global attributes of the cluster are of no interest: fold them
    let n_g = items.iter().filter(|i| *i == "g").count();
    let mut v: Vec<String> = items.into_iter().filter(|i| i != "g").collect();
    if n_g > 0 {
        v.push(format!("g{}", n_g));
    }
    if v.is_empty() {
        "-".into()
    } else {
        v.join(",")
    }
}

impl ReportDataHandler for SubSt {
    async fn handle_report(&self, _ctx: impl RepCtx, report: &ReportDataResp<'_>) -> Result<(), IMStatusCode> {
        let sid = report.subscription_id.unwrap_or(0);
        let t = self.log.t();
        let known = self.known.borrow().iter().any(|k| k.id == sid);
        if !known {
            if self.strict && !self.pending.get() {
                self.log.push(format!("rej {} {} {}", self.who, t, sid));
                return Err(IMStatusCode::InvalidSubscription);
            }
            // lenient (or a subscribe is being established): adopt the subscription
            self.known.borrow_mut().push(Known { id: sid, max_int: 0, last_ms: t, sel: None });
        }
        let items = items_of(report, Some(&self.view));
        let more = report.more_chunks.unwrap_or(false);
        for k in self.known.borrow_mut().iter_mut() {
            if k.id == sid {
                k.last_ms = t;
            }
        }
        self.log.reports.set(self.log.reports.get() + 1);
        self.log.push(format!("rep {} {} {} {} {}", self.who, t, sid, if more { 1 } else { 0 }, items));
        Ok(())
    }
}

fn paths_of(sel: Sel) -> Vec<AttrPath> {
    match sel {
        Sel::Wild => vec![AttrPath::from_gp(&GenericPath::new(Some(EP), Some(CLUSTER_ID), None))],
        Sel::List => (0..8u32).map(|a| AttrPath::from_gp(&GenericPath::new(Some(EP), Some(CLUSTER_ID), Some(a)))).collect(),
    }
}

async fn subscribe_flow<C: Crypto>(st: &SubSt, matter: &Matter<'_>, crypto: C, fab: NonZeroU8, cmd: &SubCmd) -> Result<(), Error> {
    let exchange = Exchange::initiate(matter, crypto, fab, DEV_NODE).await?;
    let mut sender = exchange.subscribe_sender().await?;
    let paths = paths_of(cmd.sel);
    let mut chunk = loop {
        match sender.tx().await? {
            TxOutcome::BuildRequest(builder) => {
                sender = builder
                    .keep_subs(cmd.keep)?
                    .min_int_floor(cmd.min)?
                    .max_int_ceil(cmd.max)?
                    .attr_requests_from(&paths)?
                    .fabric_filtered(false)?
                    .end()?;
            }
            TxOutcome::GotResponse(c) => break c,
        }
    };
    let mut idx = 0u32;
    // a fresh priming replaces what the subscriber believed before
    let est = loop {
        {
            let resp = chunk.response()?;
            let items = items_of(&resp, Some(&st.view));
            st.log.push(format!(
                "prm {} {} {} {} {}",
                st.who,
                st.log.t(),
                resp.subscription_id.unwrap_or(0),
                if resp.more_chunks.unwrap_or(false) { 1 } else { 0 },
                items
            ));
        }
        if let Some((k, ms)) = cmd.hold {
            if k == idx {
                Timer::after(Duration::from_millis(ms)).await;
            }
        }
        idx += 1;
        if idx > 40 {
            return Err(ErrorCode::Invalid.into());
        }
        match chunk.complete().await? {
            SubscribeOutcome::NextChunk(next) => chunk = next,
            SubscribeOutcome::Established(est) => break est,
        }
    };
    let t = st.log.t();
    {
        let mut known = st.known.borrow_mut();
        if !cmd.keep {
            known.retain(|k| k.id == est.subscription_id);
        }
        if let Some(k) = known.iter_mut().find(|k| k.id == est.subscription_id) {
            k.max_int = est.max_int;
            k.last_ms = t;
            k.sel = Some(cmd.sel);
        } else {
            known.push(Known { id: est.subscription_id, max_int: est.max_int, last_ms: t, sel: Some(cmd.sel) });
        }
    }
    st.log.established.set(st.log.established.get() + 1);
    st.log.push(format!("est {} {} {} {}", st.who, t, est.subscription_id, est.max_int));
    Ok(())
}

async fn subscriber_task<C: Crypto>(st: &SubSt, matter: &Matter<'_>, crypto: C, fab: NonZeroU8) {
    loop {
        let cmd = st.queue.borrow_mut().pop_front();
        let Some(cmd) = cmd else {
            st.wake.wait().await;
            continue;
        };
        st.pending.set(true);
        let res = select(
            core::pin::pin!(subscribe_flow(st, matter, &crypto, fab, &cmd)),
            core::pin::pin!(Timer::after(Duration::from_secs(90))),
        )
        .await;
        st.pending.set(false);
        match res {
            Either::First(Ok(())) => {}
            Either::First(Err(e)) => st.log.push(format!("sfail {} {} {:?}", st.who, st.log.t(), e.code())),
            Either::Second(_) => st.log.push(format!("sfail {} {} timeout", st.who, st.log.t())),
        }
    }
}

/// the harness' operational resolver: answers every resolve request of `matter` for a known node id
async fn resolver(matter: &Matter<'_>) {
    loop {
        let svc = matter.transport().wait_mdns_resolve_request().await;
        let node = match &svc {
            MatterRemoteService::Operational { node_id, .. } => *node_id,
            _ => continue,
        };
        let idx = if node == DEV_NODE {
            0
        } else if node >= SUB_NODE0 && node < SUB_NODE0 + N_SUBS as u64 {
            1 + (node - SUB_NODE0) as usize
        } else {
            continue;
        };
        let Address::Udp(sa) = addr_of(idx) else {
            continue;
        };
        let mut name = heapless::String::<128>::new();
        svc.instance_name(&mut name);
        let answer = MdnsRemoteService {
            instance_name: DottedName(name.as_str()),
            port: Some(sa.port()),
            addrs: [sa.ip()].into_iter(),
            txt: core::iter::empty::<(&str, &str)>(),
            scope_id: 0,
        };
        matter.transport().try_deposit_mdns_resolve(&answer, &[]);
    }
}

// ------------------------------------------------------------------------------------------------
// the executor glue

type BoxFut<'a> = Pin<Box<dyn Future<Output = ()> + 'a>>;

/// polls the device future (if up) and the subscriber futures; never completes
struct PollAll<'r, 'a, 'b> {
    dev: Option<&'r mut BoxFut<'a>>,
    subs: &'r mut Vec<BoxFut<'b>>,
    dev_exited: &'r Cell<bool>,
    /// called after every poll of the device: a report that was begun is visible (the device waits
    /// for the subscriber, which has not been polled yet)
    sample: &'r dyn Fn(),
}

impl Future for PollAll<'_, '_, '_> {
    type Output = ();
    fn poll(self: Pin<&mut Self>, cx: &mut Context<'_>) -> Poll<()> {
        let this = self.get_mut();
        if let Some(d) = this.dev.as_mut() {
            if !this.dev_exited.get() {
                if let Poll::Ready(()) = d.as_mut().poll(cx) {
                    this.dev_exited.set(true);
                }
                (this.sample)();
            }
        }
        for s in this.subs.iter_mut() {
            let _ = s.as_mut().poll(cx);
        }
        Poll::Pending
    }
}

/// an instant as ms since the case start; `M` = `Instant::MAX`; with `min_is_none`, `m` = `Instant::MIN`
fn rel_ms(ticks: u64, t0: u64, min_is_none: bool) -> String {
    if ticks == u64::MAX {
        "M".into()
    } else if ticks == 0 && min_is_none {
        "m".into()
    } else {
        let ms = (ticks as u128 * 1000 / HZ as u128) as u64;
        format!("{}", ms.saturating_sub(t0))
    }
}

fn r_entry(s: &VerifSub, t0: u64) -> String {
    format!(
        "{}/{}/{}/{}/{}/{}/{}",
        s.id,
        s.peer_node_id,
        s.min_int_secs,
        s.max_int_secs,
        rel_ms(s.reported_at, t0, false),
        rel_ms(s.retry_at, t0, true),
        s.fail_count
    )
}

fn table_of<const NS: usize>(subs: &rs_matter::im::subscriptions::Subscriptions<NS>, t0: u64) -> String {
    let mut tab = Vec::new();
    let mut reporting = "-".to_string();
    subs.verif_visit(&mut |it| match it {
        VerifItem::Sub(s) => tab.push((s.id, r_entry(&s, t0))),
        VerifItem::Reporting(s) => reporting = r_entry(&s, t0),
        _ => {}
    });
    tab.sort();
    let t: Vec<String> = tab.into_iter().map(|x| x.1).collect();
    format!("{} {}", if t.is_empty() { "-".to_string() } else { t.join(",") }, reporting)
}

struct Hdr {
    seed: u64,
    drop: u64,
    dup: u64,
    delay: u64,
    maxdelay: u64,
    strict: bool,
    /// evict the unsecured sessions that have no exchange left (what LRU eviction does on a busy node)
    gc: bool,
}

fn parse_hdr(kind: &str) -> Hdr {
    let mut h = Hdr { seed: 1, drop: 0, dup: 0, delay: 0, maxdelay: 0, strict: true, gc: false };
    for t in kind.split_whitespace() {
        if let Some((k, v)) = t.split_once('=') {
            let n: u64 = v.parse().unwrap_or(0);
            match k {
                "seed" => h.seed = n,
                "drop" => h.drop = n.min(1000),
                "dup" => h.dup = n.min(1000),
                "delay" => h.delay = n.min(1000),
                "maxdelay" => h.maxdelay = n.min(5000),
                "strict" => h.strict = n != 0,
                "gc" => h.gc = n != 0,
                _ => {}
            }
        }
    }
    h
}

/// what the outer loop does next
enum Next {
    Done,
    Down,
}

struct World<'w> {
    net: SimNet,
    adv: Rc<RefCell<AdvCfg>>,
    log: Rc<Log>,
    vals: Vals,
    subs_st: &'w [Rc<SubSt>],
    last_tab: RefCell<String>,
    wall: std::time::Instant,
    dead: Cell<bool>,
    sets_after_est: Cell<u64>,
    linger_ms: Cell<u64>,
    gc: bool,
    nodes: Vec<&'w Matter<'w>>,
}

const WALL_BUDGET_S: u64 = 25;

impl World<'_> {
    fn exec_common(&self, w: &[&str]) -> Option<String> {
        let num = |i: usize| -> u64 { w.get(i).and_then(|x| x.parse::<u64>().ok()).unwrap_or(0) };
        match w.first().copied().unwrap_or("") {
            "adv" => {
                let mut c = self.adv.borrow_mut();
                c.drop = num(1).min(1000);
                c.dup = num(2).min(1000 - c.drop);
                c.delay = num(3).min(1000 - c.drop - c.dup);
                c.maxdelay = num(4).min(5000);
                Some("-".into())
            }
            "black" => {
                let who = num(1) as usize;
                if who < N_SUBS {
                    self.adv.borrow_mut().black[1 + who] = num(2) != 0;
                    Some("-".into())
                } else {
                    Some("bad".into())
                }
            }
            "sub" => {
                let who = num(1) as usize;
                if who >= N_SUBS {
                    return Some("bad".into());
                }
                let sel = if w.get(5).copied() == Some("l") { Sel::List } else { Sel::Wild };
                let hold = w.iter().find_map(|t| t.strip_prefix("hold=")).and_then(|v| {
                    let (a, b) = v.split_once(':')?;
                    Some((a.parse::<u32>().ok()?, b.parse::<u64>().ok()?.min(20_000)))
                });
                let st = &self.subs_st[who];
                st.queue.borrow_mut().push_back(SubCmd {
                    min: num(2).min(3600) as u16,
                    max: num(3).min(3600) as u16,
                    keep: num(4) != 0,
                    sel,
                    hold,
                });
                st.wake.notify();
                Some("-".into())
            }
            _ => None,
        }
    }

    fn quiet(&self) {
        let mut c = self.adv.borrow_mut();
        c.drop = 0;
        c.dup = 0;
        c.delay = 0;
        c.black = [false; 1 + N_SUBS];
    }

    /// let `ms` of virtual time pass; `sample` is called at every instant after the futures settled
    fn run_for(&self, ms: u64, dev: Option<&mut BoxFut<'_>>, subs: &mut Vec<BoxFut<'_>>, dev_exited: &Cell<bool>, sample: &dyn Fn()) {
        let end = now_ms() + ms;
        let mut dev = dev;
        loop {
            if self.wall.elapsed().as_secs() > WALL_BUDGET_S {
                self.dead.set(true);
                return;
            }
            if self.gc {
                for m in &self.nodes {
                    evict_idle_unsecured(m);
                }
            }
            {
                let fut = PollAll { dev: dev.as_mut().map(|d| &mut **d), subs, dev_exited, sample };
                let _ = run_sim(&self.net, fut, 0);
            }
            sample();
            let now = now_ms();
            if now >= end {
                break;
            }
            let step = if self.net.in_flight() > 0 { 2 } else { 5 };
            MockDriver::get().advance(Duration::from_millis(step.min(end - now)));
        }
    }

    fn obs_subs(&self) -> String {
        let now = self.log.t();
        let mut parts = Vec::new();
        for st in self.subs_st.iter() {
            let alive: Vec<String> = st
                .known
                .borrow()
                .iter()
                .filter(|k| k.max_int == 0 || now.saturating_sub(k.last_ms) <= k.max_int as u64 * 1000)
                .map(|k| format!("{}:{}", k.id, match k.sel { Some(Sel::Wild) => "w", Some(Sel::List) => "l", None => "u" }))
                .collect();
            let view: Vec<String> = st.view.borrow().iter().map(|(a, v)| format!("{}={}", a, v)).collect();
            parts.push(format!(
                "subv {} {} {}",
                st.who,
                if alive.is_empty() { "-".to_string() } else { alive.join(",") },
                if view.is_empty() { "-".to_string() } else { view.join(",") }
            ));
        }
        parts.join(" ; ")
    }

    fn dev_vals(&self) -> String {
        let v = self.vals.borrow();
        let s: Vec<String> = INT_ATTRS.iter().map(|a| format!("{}={}", a, v[*a as usize])).collect();
        format!("dev {}", s.join(","))
    }

    /// bookkeeping for the lingering statistic: an expired subscription that is still in the table
    fn note_linger(&self, tab: &str, t: u64) {
        for e in tab.split_whitespace().next().unwrap_or("-").split(',') {
            let f: Vec<&str> = e.split('/').collect();
            if f.len() == 7 {
                if let (Ok(max), Ok(ra)) = (f[3].parse::<u64>(), f[4].parse::<u64>()) {
                    let exp = ra + max * 1000;
                    if t > exp {
                        self.linger_ms.set(self.linger_ms.get().max(t - exp));
                    }
                }
            }
        }
    }
}

/// Remove the unsecured sessions of `m` that have no exchange left. rs-matter keeps them until the
/// session table is full (LRU eviction); a stale one shadows the unsecured session of a later
/// handshake between the same two nodes (see docs/C13.md), so cases with `gc=1` evict them eagerly.
fn evict_idle_unsecured(m: &Matter) {
    m.with_state(|st| {
        let ids: Vec<u32> = st
            .verif_sessions()
            .iter()
            .filter(|s| matches!(s.get_session_mode(), SessionMode::PlainText) && !s.verif_flags().1 && s.verif_exchanges().iter().all(|e| e.is_none()))
            .map(|s| s.id())
            .collect();
        for id in ids {
            st.verif_sessions_mut().remove(id);
        }
    });
}

/// What the persisted records hold, in slot order: the subscription id (trailing optional field 5 of the
/// record; a record without it is resumed under a fresh id, shown as 0) and what it selects
/// (`w` = a wildcard attribute path, `l` = a list).
fn persisted_selections(kv: &MemKv) -> Vec<(u32, &'static str)> {
    let mut v = Vec::new();
    let store = kv.0.borrow();
    for slot in 0..MAX_SUBS as u16 {
        let Some(data) = store.get(&(PERSISTENT_SUBSCRIPTIONS_START + slot)) else {
            break;
        };
        let sel = (|| -> Result<&'static str, Error> {
            let req_bytes = TLVElement::new(data).structure()?.find_ctx(4)?.str()?;
            let req = SubscribeReq::new(TLVElement::new(req_bytes));
            let mut wild = false;
            if let Some(paths) = req.attr_requests()? {
                for (k, p) in paths.iter().enumerate() {
                    if k >= 32 {
                        break;
                    }
                    if p?.attr.is_none() {
                        wild = true;
                    }
                }
            }
            Ok(if wild { "w" } else { "l" })
        })();
        let id = TLVElement::new(data).structure().and_then(|st| st.find_ctx(5)).and_then(|e| e.u32()).unwrap_or(0);
        v.push((id, sel.unwrap_or("u")));
    }
    v
}

fn install<C: Crypto>(crypto: &C, keys: &Keys, m: &Matter, node: u64, kn: u64) -> Result<NonZeroU8, String> {
    let p = GenP { fab: FABRIC, node, cats: vec![], rca: 3, ica: None, nb: 1, na: 0, kr: 0, ki: 1, kn };
    let (root, _icac, noc) = gen_records(&p);
    let rb = mint(crypto, keys, &root).map_err(|_| "mint")?;
    let nb = mint(crypto, keys, &noc).map_err(|_| "mint")?;
    let sk = keys.key(kn).sk;
    m.with_state(|st| {
        st.fabrics
            .add(crypto, CanonPkcSecretKeyRef::new(&sk), &rb, &nb, &[], Some(CanonAeadKeyRef::new(&IPK)), 0xFFF1, SUB_NODE0)
            .map(|f| f.fab_idx())
            .map_err(|e| format!("fabric:{:?}", e.code()))
    })
}

/// Run one scenario. Returns per-case facts for the statistics.
pub struct CaseFacts {
    pub nontrivial: bool,
    pub linger_ms: u64,
    pub datagrams: u64,
    pub dropped: u64,
    pub dupd: u64,
    pub delayed: u64,
    pub blacked: u64,
    pub reports: u64,
    pub established: u64,
    pub wall_ms: u64,
}

/// debugging aid: `VH_LOG=info|debug` prints the log of the rs-matter stacks with the virtual time
struct VtLogger;
impl log::Log for VtLogger {
    fn enabled(&self, _: &log::Metadata) -> bool {
        true
    }
    fn log(&self, r: &log::Record) {
        eprintln!("[{:>7}] {:5} {}: {}", now_ms(), r.level(), r.target(), r.args());
    }
    fn flush(&self) {}
}
static VT_LOGGER: VtLogger = VtLogger;

pub fn run_case(out: &mut Out, kind: &str, ops: &[String]) -> CaseFacts {
    if let Ok(l) = std::env::var("VH_LOG") {
        let _ = log::set_logger(&VT_LOGGER);
        log::set_max_level(if l == "debug" { log::LevelFilter::Debug } else { log::LevelFilter::Info });
    }
    let hdr = parse_hdr(kind);
    let crypto = test_only_crypto();
    let keys = Keys::new(&crypto);
    let t0 = now_ms();
    let log = Rc::new(Log { t0, ev: RefCell::new(Vec::new()), established: Cell::new(0), reports: Cell::new(0) });
    let adv = Rc::new(RefCell::new(AdvCfg {
        rng: Rng::new(hdr.seed),
        drop: hdr.drop,
        dup: hdr.dup.min(1000 - hdr.drop),
        delay: hdr.delay.min(1000 - hdr.drop - hdr.dup.min(1000 - hdr.drop)),
        maxdelay: hdr.maxdelay,
        black: [false; 1 + N_SUBS],
        n_drop: 0,
        n_dup: 0,
        n_delay: 0,
        n_black: 0,
        n_total: 0,
    }));
    let net = SimNet::new(1 + N_SUBS, Box::new(Adv(adv.clone())));
    let vals: Vals = Rc::new(RefCell::new([0u32; 9]));
    let facts_fail = |out: &mut Out, ops: &[String], why: &str| {
        for op in ops {
            out.op(op, why);
        }
        CaseFacts { nontrivial: false, linger_ms: 0, datagrams: 0, dropped: 0, dupd: 0, delayed: 0, blacked: 0, reports: 0, established: 0, wall_ms: 0 }
    };

    // nodes
    let dev = Box::new(Matter::new(&TEST_DEV_DET, TEST_DEV_COMM, &TEST_DEV_ATT, 0));
    if let Err(e) = install(&crypto, &keys, &dev, DEV_NODE, 2) {
        return facts_fail(out, ops, &e);
    }
    // both subscribers administer the device
    dev.with_state(|st| {
        let mut acl = AclEntry::new(None, Privilege::ADMIN, AuthMode::Case);
        for k in 1..N_SUBS as u64 {
            let _ = acl.add_subject(SUB_NODE0 + k);
        }
        if let Ok(f) = st.fabrics.fabric_mut(NonZeroU8::new(1).unwrap()) {
            let _ = f.acl_add(acl);
        }
    });
    let sub_matters: Vec<Box<Matter>> = (0..N_SUBS).map(|_| Box::new(Matter::new(&TEST_DEV_DET, TEST_DEV_COMM, &TEST_DEV_ATT, 0))).collect();
    let mut sub_fabs = Vec::new();
    for (k, m) in sub_matters.iter().enumerate() {
        match install(&crypto, &keys, m, SUB_NODE0 + k as u64, 3 + k as u64) {
            Ok(f) => sub_fabs.push(f),
            Err(e) => return facts_fail(out, ops, &e),
        }
    }
    let subs_st: Vec<Rc<SubSt>> = (0..N_SUBS)
        .map(|who| {
            Rc::new(SubSt {
                who,
                strict: hdr.strict,
                log: log.clone(),
                queue: RefCell::new(VecDeque::new()),
                wake: Notification::new(),
                pending: Cell::new(false),
                known: RefCell::new(Vec::new()),
                view: RefCell::new(BTreeMap::new()),
            })
        })
        .collect();
    let socks: Vec<_> = (0..1 + N_SUBS).map(|i| net.socket(i)).collect();

    // subscriber stacks (live for the whole case)
    let sub_bufs: Vec<Box<MatterBuffers>> = (0..N_SUBS).map(|_| Box::new(MatterBuffers::new())).collect();
    let sub_states: Vec<Box<InteractionModelState<DummyNetworks, 1, 64>>> =
        (0..N_SUBS).map(|_| Box::new(InteractionModelState::new(DummyNetworks))).collect();
    let sub_kvs: Vec<_> = sub_matters.iter().map(|m| m.kv(DummyKvBlobStore)).collect();
    let sub_dms: Vec<_> = (0..N_SUBS)
        .map(|k| {
            InteractionModel::new_with_reports(
                &*sub_matters[k],
                test_only_crypto(),
                &*sub_bufs[k],
                (Node::new(&[]), EmptyHandler),
                &sub_kvs[k],
                NoopWirelessNetCtl::new(NetworkType::Ethernet),
                &*subs_st[k],
                &*sub_states[k],
            )
        })
        .collect();
    for s in sub_states.iter() {
        s.suppress_start_up_event();
    }
    let sub_resp: Vec<_> = sub_dms.iter().map(|dm| Responder::new_default(dm)).collect();
    let mut sub_futs: Vec<BoxFut<'_>> = Vec::new();
    for k in 0..N_SUBS {
        let m: &Matter = &sub_matters[k];
        let sock = &socks[1 + k];
        let resp = &sub_resp[k];
        let st: &SubSt = &subs_st[k];
        let fab = sub_fabs[k];
        let crypto = &crypto;
        sub_futs.push(Box::pin(async move {
            let _ = select4(
                m.run(crypto, sock, sock, NoNetwork),
                resp.run::<4>(),
                resolver(m),
                subscriber_task(st, m, crypto, fab),
            )
            .await;
        }));
    }

    let world = World {
        net: net.clone(),
        adv: adv.clone(),
        log: log.clone(),
        vals: vals.clone(),
        subs_st: &subs_st,
        last_tab: RefCell::new(String::new()),
        wall: std::time::Instant::now(),
        dead: Cell::new(false),
        sets_after_est: Cell::new(0),
        linger_ms: Cell::new(0),
        gc: hdr.gc,
        nodes: core::iter::once(&*dev).chain(sub_matters.iter().map(|m| &**m)).collect(),
    };
    let kvstore = MemKv::default();
    let mut pos = 0usize;
    let mut first_boot = true;
    let mut cold = true;
    while pos < ops.len() {
        // ---- one boot of the device ----
        if cold && !first_boot {
            let _ = dev.reset_transport();
        }
        let state: Box<InteractionModelState<DummyNetworks, MAX_SUBS, EVENTS_BUF>> = Box::new(InteractionModelState::new(DummyNetworks));
        state.suppress_start_up_event();
        let buffers: Box<MatterBuffers> = Box::new(MatterBuffers::new());
        let kv = dev.kv(kvstore.clone());
        let handler = (NODE, Async(SysHandler { dataver: Dataver::new(7), vals: vals.clone() }));
        let dm = InteractionModel::new(&*dev, &crypto, &*buffers, handler, &kv, &*state);
        let started = {
            // `startup` has no await point that pends
            let mut f = core::pin::pin!(dm.startup());
            let w = futures_lite::future::block_on(futures_lite::future::poll_once(f.as_mut()));
            matches!(w, Some(Ok(())))
        };
        let responder = Responder::new_default(&dm);
        let dev_exited = Cell::new(false);
        let mut dev_fut: BoxFut<'_> = {
            let dev: &Matter = &dev;
            let sock = &socks[0];
            let crypto = &crypto;
            let dm = &dm;
            let responder = &responder;
            Box::pin(async move {
                let _ = select4(dev.run(crypto, sock, sock, NoNetwork), responder.run::<4>(), dm.run(), resolver(dev)).await;
            })
        };
        let sample = || {
            let t = log.t();
            let tab = table_of(state.subscriptions(), t0);
            world.note_linger(&tab, t);
            let mut last = world.last_tab.borrow_mut();
            if *last != tab {
                log.push(format!("tab {} {}", t, tab));
                *last = tab;
            }
        };
        if !first_boot {
            // the op that brought us here is `up`: its output is the resumed table
            *world.last_tab.borrow_mut() = String::new();
            sample();
            let res: Vec<String> = persisted_selections(&kvstore).iter().map(|(id, s)| format!("{}:{}", id, s)).collect();
            let o = format!(
                "{}{} ; res {}",
                if started { "" } else { "startup-failed ; " },
                log.drain(),
                if res.is_empty() { "-".to_string() } else { res.join(",") }
            );
            out.op(&ops[pos - 1], &o);
        }
        first_boot = false;
        let mut next = Next::Done;
        while pos < ops.len() {
            let op = ops[pos].clone();
            pos += 1;
            let w: Vec<&str> = op.split_whitespace().collect();
            if world.dead.get() {
                out.op(&op, "walltimeout");
                continue;
            }
            let num = |i: usize| -> u64 { w.get(i).and_then(|x| x.parse::<u64>().ok()).unwrap_or(0) };
            let res: String = match w.first().copied().unwrap_or("") {
                "set" => {
                    let a = num(1) as u32;
                    if INT_ATTRS.contains(&a) {
                        vals.borrow_mut()[a as usize] = num(2) as u32;
                        dm.notify_attr_changed(EP, CLUSTER_ID, a);
                        if log.established.get() > 0 {
                            world.sets_after_est.set(world.sets_after_est.get() + 1);
                        }
                        sample();
                        log.drain()
                    } else {
                        "bad".into()
                    }
                }
                "run" => {
                    world.run_for(num(1).min(3_600_000), Some(&mut dev_fut), &mut sub_futs, &dev_exited, &sample);
                    log.drain()
                }
                "quiesce" => {
                    world.quiet();
                    world.run_for(num(1).min(3_600_000), Some(&mut dev_fut), &mut sub_futs, &dev_exited, &sample);
                    log.drain()
                }
                "dropsess" => {
                    let peer = SUB_NODE0 + num(1);
                    let n = dev.with_state(|st| {
                        let ids: Vec<u32> = st.verif_sessions().iter().filter(|s| s.get_peer_node_id() == Some(peer)).map(|s| s.id()).collect();
                        for id in &ids {
                            st.verif_sessions_mut().remove(*id);
                        }
                        ids.len()
                    });
                    format!("n={}", n)
                }
                "down" => {
                    cold = w.get(1).copied() != Some("warm");
                    next = Next::Down;
                    break;
                }
                "up" => "already-up".into(),
                "obs" => {
                    *world.last_tab.borrow_mut() = String::new();
                    sample();
                    let tab = log.drain();
                    format!("{} ; {} ; {}", world.dev_vals(), tab, world.obs_subs())
                }
                _ => match world.exec_common(&w) {
                    Some(r) => r,
                    None => "badop".into(),
                },
            };
            let res = if dev_exited.get() { format!("{} ; devexit", res) } else { res };
            out.op(&op, &res);
        }
        drop(dev_fut);
        drop(responder);
        drop(dm);
        if let Next::Done = next {
            break;
        }
        // ---- the device is down ----
        out.op(&ops[pos - 1], &format!("kv={}", kvstore.0.borrow().len()));
        let mut up = false;
        let no_dev = Cell::new(false);
        while pos < ops.len() {
            let op = ops[pos].clone();
            pos += 1;
            let w: Vec<&str> = op.split_whitespace().collect();
            if world.dead.get() {
                out.op(&op, "walltimeout");
                continue;
            }
            let num = |i: usize| -> u64 { w.get(i).and_then(|x| x.parse::<u64>().ok()).unwrap_or(0) };
            let res: String = match w.first().copied().unwrap_or("") {
                "set" => {
                    let a = num(1) as u32;
                    if INT_ATTRS.contains(&a) {
                        vals.borrow_mut()[a as usize] = num(2) as u32;
                        "-".into()
                    } else {
                        "bad".into()
                    }
                }
                "run" | "quiesce" => {
                    if w[0] == "quiesce" {
                        world.quiet();
                    }
                    world.run_for(num(1).min(3_600_000), None, &mut sub_futs, &no_dev, &|| {});
                    log.drain()
                }
                "up" => {
                    up = true;
                    break;
                }
                "down" => "already-down".into(),
                "dropsess" => "down".into(),
                "obs" => format!("{} ; tab {} - - ; {}", world.dev_vals(), log.t(), world.obs_subs()),
                _ => match world.exec_common(&w) {
                    Some(r) => r,
                    None => "badop".into(),
                },
            };
            out.op(&op, &res);
        }
        if !up {
            break;
        }
    }
    drop(sub_futs);
    let a = adv.borrow();
    CaseFacts {
        nontrivial: log.established.get() > 0 && world.sets_after_est.get() > 0 && log.reports.get() > 0,
        linger_ms: world.linger_ms.get(),
        datagrams: a.n_total,
        dropped: a.n_drop,
        dupd: a.n_dup,
        delayed: a.n_delay,
        blacked: a.n_black,
        reports: log.reports.get(),
        established: log.established.get(),
        wall_ms: world.wall.elapsed().as_millis() as u64,
    }
}

fn run_guarded(out: &mut Out, id: u64, kind: &str, ops: &[String]) {
    out.case(id, kind);
    let start_ops = out.ops;
    let r = catch_unwind(AssertUnwindSafe(|| run_case(out, kind, ops)));
    match r {
        Ok(f) => {
            if f.nontrivial {
                out.buf.push_str("#nt\n");
                out.stat("sys_nontrivial", 1);
            }
            out.stat("sys_cases", 1);
            out.stat("sys_datagrams", f.datagrams);
            out.stat("sys_dg_dropped", f.dropped);
            out.stat("sys_dg_duplicated", f.dupd);
            out.stat("sys_dg_delayed", f.delayed);
            out.stat("sys_dg_blackout", f.blacked);
            out.stat("sys_reports_received", f.reports);
            out.stat("sys_subscriptions_established", f.established);
            out.stat("sys_wall_ms", f.wall_ms);
            if f.linger_ms > 0 {
                out.stat(&format!("sys_linger_{:03}s", (f.linger_ms / 10_000) * 10), 1);
            }
        }
        Err(_) => {
            // the ops that did not get an output
            let done = (out.ops - start_ops) as usize;
            for op in ops.iter().skip(done) {
                out.op(op, "panic");
            }
            out.stat("sys_panics", 1);
        }
    }
}

pub fn replay_case(out: &mut Out, c: &Case) {
    run_guarded(out, c.id, &c.kind, &c.ops);
}

// ------------------------------------------------------------------------------------------------
// generator

struct Gen<'r> {
    r: &'r mut Rng,
    ops: Vec<String>,
    next_val: u64,
    max_max: u64,
}

impl Gen<'_> {
    fn op(&mut self, s: String) {
        self.ops.push(s);
    }
    fn set(&mut self, attr: u32) {
        self.next_val += 1;
        let v = self.next_val;
        self.op(format!("set {} {}", attr, v));
    }
    fn set_any(&mut self) {
        let a = *self.r.pick(&INT_ATTRS);
        self.set(a);
    }
    fn run(&mut self, ms: u64) {
        self.op(format!("run {}", ms));
    }
    /// run for a random duration in lo..=hi
    fn run_r(&mut self, lo: u64, hi: u64) {
        let d = if hi <= lo { lo } else { self.r.range(lo, hi) };
        self.run(d);
    }
    fn sub(&mut self, who: u64, min: u64, max: u64, keep: bool, sel: &str, hold: Option<(u64, u64)>) {
        self.max_max = self.max_max.max(max.max(40));
        let h = hold.map(|(k, ms)| format!(" hold={}:{}", k, ms)).unwrap_or_default();
        self.op(format!("sub {} {} {} {} {}{}", who, min, max, if keep { 1 } else { 0 }, sel, h));
    }
    fn sel(&mut self) -> &'static str {
        if self.r.chance(1, 2) {
            "w"
        } else {
            "l"
        }
    }
    fn finish(&mut self) {
        let q = 2 * self.max_max * 1000 + 30_000;
        self.op(format!("quiesce {}", q));
        self.op("obs".into());
    }
}

pub const FAMILIES: [&str; 13] = [
    "primrace", "compete", "loss", "dupdelay", "sessloss", "outage", "blackout", "restart", "gone", "unselected", "persistrace", "pressure",
    "mix",
];

fn gen_scenario(family: &str, r: &mut Rng, thorough: bool) -> (String, Vec<String>) {
    let seed = r.below(1 << 32);
    let strict = r.chance(2, 3);
    let gc = if family == "pressure" || r.chance(2, 3) { 1 } else { 0 };
    let mut hdr = (0u64, 0u64, 0u64, 0u64);
    let mut g = Gen { r, ops: Vec::new(), next_val: 100, max_max: 40 };
    let max = *g.r.pick(&[40u64, 40, 45, 60]);
    match family {
        "primrace" => {
            // a change between the round trips of a chunked priming
            let k = g.r.below(3);
            let hold = g.r.range(300, 1500);
            let sel = g.sel();
            let min = g.r.below(2);
            // often with an established second subscriber: its report and the purge of the reporter
            // pass run while the priming of subscriber 0 is outside the table
            let other = g.r.chance(2, 3);
            if other {
                let s1 = g.sel();
                g.sub(1, 0, max, true, s1, None);
                g.run(2000);
            }
            g.sub(0, min, max, true, sel, Some((k, hold)));
            g.run_r(100, hold - 100);
            for _ in 0..g.r.range(1, 3) {
                g.set_any();
            }
            g.run(hold + 2000);
            if g.r.chance(1, 2) {
                g.set_any();
                g.run(3000);
            }
        }
        "compete" => {
            let m0 = g.r.range(2, 5);
            let s0 = g.sel();
            let s1 = g.sel();
            g.sub(0, m0, max, true, s0, None);
            g.sub(1, 0, max, true, s1, None);
            g.run(3000);
            for _ in 0..g.r.range(2, 5) {
                g.set_any();
                g.run_r(50, 2500);
            }
            g.run(6000);
        }
        "loss" => {
            let s0 = g.sel();
            g.sub(0, 0, max, true, s0, None);
            if g.r.chance(1, 2) {
                let s1 = g.sel();
                let m1 = g.r.below(3);
                g.sub(1, m1, max, true, s1, None);
            }
            g.run(3000);
            let d = g.r.range(150, 600);
            g.op(format!("adv {} 0 0 0", d));
            for _ in 0..g.r.range(2, if thorough { 8 } else { 4 }) {
                g.set_any();
                g.run_r(200, 15_000);
            }
        }
        "dupdelay" => {
            hdr = (g.r.below(100), g.r.range(100, 400), g.r.range(100, 400), *g.r.pick(&[50u64, 400, 1500]));
            let s0 = g.sel();
            let hold = if g.r.chance(1, 2) { Some((g.r.below(3), g.r.range(200, 900))) } else { None };
            g.sub(0, 0, max, true, s0, hold);
            g.run_r(200, 4000);
            for _ in 0..g.r.range(2, 6) {
                g.set_any();
                g.run_r(100, 6000);
            }
        }
        "sessloss" => {
            let s0 = g.sel();
            let m0 = g.r.below(3);
            g.sub(0, m0, max, true, s0, None);
            g.run(3000);
            g.set_any();
            g.run_r(0, 1500);
            g.op("dropsess 0".into());
            for _ in 0..g.r.range(1, 3) {
                g.set_any();
                g.run_r(100, 8000);
            }
        }
        "outage" => {
            // a subscriber is unreachable for less than the maximum interval: the reports that fail
            // meanwhile must be retried with their content once it is back
            let s0 = g.sel();
            let m0 = g.r.below(3);
            g.sub(0, m0, max, true, s0, None);
            if g.r.chance(1, 2) {
                let s1 = g.sel();
                g.sub(1, 0, max, true, s1, None);
            }
            g.run(3000);
            g.set_any();
            g.run_r(500, 8000);
            let total = g.r.chance(1, 3);
            g.op(if total { "adv 1000 0 0 0".to_string() } else { "black 0 1".to_string() });
            for _ in 0..g.r.range(1, 3) {
                g.set_any();
                g.run_r(1000, 9000);
            }
            // at least one attempt has failed by now (MRP gives up after 6.1 s)
            g.run_r(6500, 9000);
            g.op(if total { "adv 0 0 0 0".to_string() } else { "black 0 0".to_string() });
            g.run_r(0, 3000);
            if g.r.chance(1, 2) {
                g.set(8);
                g.run_r(0, 4000);
            }
        }
        "blackout" => {
            let s0 = g.sel();
            let s1 = g.sel();
            g.sub(0, 0, max, true, s0, None);
            g.sub(1, 0, max, true, s1, None);
            g.run(3000);
            g.set_any();
            g.run_r(500, 30_000);
            g.op("black 0 1".into());
            for _ in 0..g.r.range(1, 4) {
                g.set_any();
                g.run_r(1000, 30_000);
            }
            // until the subscription must have ended
            g.run(2 * max * 1000 + 20_000);
            if g.r.chance(1, 2) {
                g.set_any();
            }
        }
        "restart" => {
            let s0 = g.sel();
            g.sub(0, 0, max, true, s0, None);
            if g.r.chance(1, 2) {
                let s1 = g.sel();
                g.sub(1, 0, max, true, s1, None);
            }
            if g.r.chance(1, 3) {
                // a re-subscribe: the live subscription id is no longer 1
                g.run(2000);
                g.sub(0, 0, max, false, s0, None);
            }
            g.run(3000);
            g.set_any();
            g.run_r(0, 3000);
            let cold = g.r.chance(2, 3);
            g.op(format!("down {}", if cold { "cold" } else { "warm" }));
            if g.r.chance(1, 2) {
                // a change during the downtime
                g.set_any();
            }
            g.run_r(0, 5000);
            g.op("up".into());
            g.run_r(500, 8000);
            for _ in 0..g.r.range(1, 3) {
                g.set_any();
                g.run_r(100, 5000);
            }
        }
        "unselected" => {
            // changes of an attribute the subscriber did not select, paced around the liveness point
            g.sub(0, 0, max, true, "l", None);
            if g.r.chance(1, 2) {
                let s1 = g.sel();
                g.sub(1, 0, max, true, s1, None);
            }
            g.run(3000);
            for _ in 0..g.r.range(5, 9) {
                g.run_r(max * 250, max * 500 - 500);
                g.set(8);
                if g.r.chance(1, 6) {
                    g.set_any();
                }
            }
            g.run_r(0, 5000);
        }
        "persistrace" => {
            // a subscribe (which persists the table) while another subscription is being reported on
            let s1 = g.sel();
            g.sub(1, 0, max, true, s1, None);
            g.run(3000);
            g.op("black 1 1".into());
            g.set_any();
            g.run_r(100, 4000);
            let s0 = g.sel();
            g.sub(0, 0, max, true, s0, None);
            g.run_r(1500, 5000);
            g.op("black 1 0".into());
            let cold = g.r.chance(2, 3);
            g.op(format!("down {}", if cold { "cold" } else { "warm" }));
            g.run_r(0, 3000);
            g.op("up".into());
            g.run_r(2000, 30_000);
            g.set_any();
            g.run_r(1000, 5000);
        }
        "pressure" => {
            // The device's pool of 10 IM buffers is drained: every live subscription pins one buffer,
            // every interaction in progress holds two (rx + tx). Wildcard subscriptions (they select
            // attribute 8) of both subscribers, then primings of list subscriptions (they do not
            // select attribute 8) whose first chunk stays unanswered: while those hang the pool is
            // empty, and attribute 8 changes. The reporter cannot build a report for anybody. Whatever
            // it does then, after the release and a quiescent period a subscription that is still
            // alive must know the new value.
            let held = if g.r.chance(1, 2) { 2u64 } else { 1 };
            let per_sub = (10 - 2 * held) / 2; // 3 + 3 wildcard subscriptions and 2 held, or 4 + 4 and 1 held
            let min = *g.r.pick(&[0u64, 0, 1]);
            for who in 0..2u64 {
                for _ in 0..per_sub {
                    g.sub(who, min, max, true, "w", None);
                }
            }
            g.run_r(7000, 10_000);
            // (the device gives a priming up when its chunk stays unanswered for about 6 s - and a
            // subscriber answering later than that waits for the next chunk in vain -, so the hold
            // stays below that)
            let hold = g.r.range(3000, 4500);
            for who in 0..held {
                g.sub(who, 0, max, true, "l", Some((0, hold)));
            }
            g.run_r(800, 1500);
            g.set(8);
            g.run_r(200, 700);
            if g.r.chance(1, 2) {
                // a change of another attribute as well; the last word on attribute 8 is said while
                // the pool is empty
                g.set(0);
                g.set(8);
                g.run_r(200, 500);
            }
            g.run(hold + 3000);
            // the survivors are still served
            g.set(1);
            g.run_r(2000, 5000);
        }
        "gone" => {
            let s0 = g.sel();
            g.sub(0, 0, max, true, s0, None);
            g.run(3000);
            g.op("black 0 1".into());
            g.op("down cold".into());
            g.run(1000);
            g.op("up".into());
            let d = *g.r.pick(&[200_000u64, 400_000]);
            g.run(d);
            g.op("obs".into());
            let kind = format!("sys seed={} drop=0 dup=0 delay=0 maxdelay=0 strict={} gc={}", seed, if strict { 1 } else { 0 }, gc);
            return (kind, g.ops);
        }
        _ => {
            // random mix
            hdr = (g.r.below(200), g.r.below(200), g.r.below(200), *g.r.pick(&[50u64, 400]));
            let n = if thorough { g.r.range(8, 30) } else { g.r.range(6, 14) };
            let s0 = g.sel();
            g.sub(0, 0, max, true, s0, None);
            let mut down = false;
            for _ in 0..n {
                match g.r.below(20) {
                    0..=6 => g.set_any(),
                    7..=11 => g.run_r(50, 12_000),
                    12 => {
                        let who = g.r.below(2);
                        let s = g.sel();
                        let min = g.r.below(4);
                        let keep = g.r.chance(2, 3);
                        let hold = if g.r.chance(1, 3) { Some((g.r.below(3), g.r.range(200, 900))) } else { None };
                        g.sub(who, min, max, keep, s, hold);
                    }
                    13 => {
                        let (a, b, c, d) = (g.r.below(300), g.r.below(200), g.r.below(200), *g.r.pick(&[50u64, 400]));
                        g.op(format!("adv {} {} {} {}", a, b, c, d));
                    }
                    14 => g.op("adv 0 0 0 0".into()),
                    15 => {
                        let (a, b) = (g.r.below(2), g.r.below(2));
                        g.op(format!("black {} {}", a, b));
                    }
                    16 => {
                        let a = g.r.below(2);
                        g.op(format!("dropsess {}", a));
                    }
                    17 if !down => {
                        let cold = g.r.chance(1, 2);
                        g.op(format!("down {}", if cold { "cold" } else { "warm" }));
                        down = true;
                    }
                    18 if down => {
                        g.op("up".into());
                        down = false;
                    }
                    _ => g.run_r(1000, 30_000),
                }
            }
            if down {
                g.op("up".into());
            }
        }
    }
    g.finish();
    let kind = format!(
        "sys seed={} drop={} dup={} delay={} maxdelay={} strict={} gc={}",
        seed,
        hdr.0,
        hdr.1,
        hdr.2,
        hdr.3,
        if strict { 1 } else { 0 },
        gc
    );
    (kind, g.ops)
}

/// Append the system cases (ids from `first_id`) to `out`.
pub fn gen(out: &mut Out, r: &mut Rng, thorough: bool, first_id: u64) {
    let n = FAMILIES.len() as u64 * if thorough { 130 } else { 6 };
    for k in 0..n {
        let mut cr = r.fork();
        let family = FAMILIES[(k as usize) % FAMILIES.len()];
        let (kind, ops) = gen_scenario(family, &mut cr, thorough);
        out.stat(&format!("sys_family_{}", family), 1);
        run_guarded(out, first_id + k, &kind, &ops);
    }
}
