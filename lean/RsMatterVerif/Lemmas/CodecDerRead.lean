import RsMatterVerif.Model.Codec.DerRead
/-!
# Lemmas about the DER reading layer (`Model/Codec/DerRead.lean`)

* `Safe`: the model answers a value or a proper error — neither `E.panic` ("the Rust code would panic":
  index, slice, checked subtraction, `debug_assert!`, `copy_from_slice`) nor `E.endless` (fuel exhausted);
* reader invariant `Rdr.WF`, established by `Rdr.new` / `nestedNew`, preserved by every read;
* every slice returned by a read is the range `[offset, offset + len)` of the input and lies inside it;
* `Header::decode` / `AnyRef::decode` consume at least two bytes, hence the item loops terminate;
* `Length::decode` inverts the minimal length encoding and accepts nothing else (canonicity);
* `cert/der_utils.rs`: `copy_integer_to_fixed` / `ecdsa_der_to_raw` are safe and invert the model encoder.
-/
namespace Codec.DerRd

/-- the model's answer is a value or a proper error: neither "the Rust code panics" nor "the loop does not end" -/
def Safe {α : Type} (r : Except E α) : Prop :=
  match r with
  | .error .panic => False
  | .error .endless => False
  | _ => True

theorem safe_iff {α : Type} (r : Except E α) : Safe r ↔ r ≠ .error .panic ∧ r ≠ .error .endless := by
  unfold Safe; split <;> simp_all

namespace Safe
variable {α β : Type}
theorem ok (a : α) : Safe (.ok a : Except E α) := by simp [Safe]
theorem pure (a : α) : Safe (Pure.pure a : Except E α) := by simp [Safe, Pure.pure, Except.pure]
theorem err {e : E} (h : e ≠ .panic ∧ e ≠ .endless) : Safe (.error e : Except E α) := by
  rw [safe_iff]; simp [h.1, h.2]
theorem bind {x : Except E α} {f : α → Except E β} (hx : Safe x) (hf : ∀ a, x = .ok a → Safe (f a)) :
    Safe (x >>= f) := by
  cases x with
  | ok a => exact hf a rfl
  | error e =>
    have h := (safe_iff _).1 hx
    rw [safe_iff]
    simp only [Bind.bind, Except.bind]
    constructor
    · intro h1; injection h1 with h1; subst h1; exact h.1 rfl
    · intro h1; injection h1 with h1; subst h1; exact h.2 rfl
end Safe

/-! ## `Length` arithmetic -/

theorem lenNew_safe (n : Nat) : Safe (lenNew n) := by
  unfold lenNew; split <;> simp [Safe]
theorem lenAdd_safe (a b : Nat) : Safe (lenAdd a b) := by
  unfold lenAdd; split
  · exact lenNew_safe _
  · simp [Safe]

theorem lenNew_ok {n m : Nat} (h : lenNew n = .ok m) : m = n ∧ n ≤ MAX_LEN := by
  unfold lenNew at h; split at h <;> simp_all
theorem lenAdd_ok {a b m : Nat} (h : lenAdd a b = .ok m) : m = a + b ∧ a + b ≤ MAX_LEN := by
  unfold lenAdd at h; split at h
  · exact lenNew_ok h
  · simp at h
theorem lenNew_of_le {n : Nat} (h : n ≤ MAX_LEN) : lenNew n = .ok n := by simp [lenNew, h]
theorem lenAdd_of_le {a b : Nat} (h : a + b ≤ MAX_LEN) : lenAdd a b = .ok (a + b) := by
  have : a + b ≤ U32_MAX := by simp [MAX_LEN, U32_MAX] at *; omega
  simp [lenAdd, lenNew, h, this]

/-! ## reader invariant -/

/-- positions inside the input, input not longer than `Length::MAX`; a nested reader never has more
left than its parent and has consumed no more than its parent has -/
def Rdr.WF : Rdr → Prop
  | .slice b p => p ≤ b.length ∧ b.length ≤ MAX_LEN
  | .nested i n p => i.WF ∧ p ≤ n ∧ n - p ≤ i.inputLen - i.position ∧ p ≤ i.offset

theorem Rdr.WF.offset_le {r : Rdr} (h : r.WF) : r.offset ≤ r.input.length := by
  induction r with
  | slice b p => exact h.1
  | nested i n p ih => exact ih h.1

theorem Rdr.WF.input_le {r : Rdr} (h : r.WF) : r.input.length ≤ MAX_LEN := by
  induction r with
  | slice b p => exact h.2
  | nested i n p ih => exact ih h.1

theorem Rdr.WF.pos_le {r : Rdr} (h : r.WF) : r.position ≤ r.inputLen := by
  cases r with
  | slice b p => exact h.1
  | nested i n p => exact h.2.1

/-- what is left for this reader is also left in the underlying input -/
theorem Rdr.WF.rem_le {r : Rdr} (h : r.WF) : r.inputLen - r.position ≤ r.input.length - r.offset := by
  induction r with
  | slice b p => simp [Rdr.inputLen, Rdr.position, Rdr.input, Rdr.offset]
  | nested i n p ih =>
    have := ih h.1
    have := h.2.2
    simp only [Rdr.inputLen, Rdr.position, Rdr.input, Rdr.offset] at *
    omega

theorem remainingLen_ok {r : Rdr} (h : r.WF) : r.remainingLen = .ok (r.inputLen - r.position) := by
  have := h.pos_le
  simp [Rdr.remainingLen, dassert, this, Bind.bind, Except.bind, Pure.pure, Except.pure]

theorem isFinished_ok {r : Rdr} (h : r.WF) : r.isFinished = .ok (r.inputLen - r.position == 0) := by
  simp [Rdr.isFinished, remainingLen_ok h, Bind.bind, Except.bind, Pure.pure, Except.pure]

theorem new_ok {bytes : List Nat} {r : Rdr} (h : Rdr.new bytes = .ok r) : r = .slice bytes 0 ∧ r.WF := by
  unfold Rdr.new at h
  cases hl : lenNew bytes.length with
  | error e => simp [hl, Bind.bind, Except.bind] at h
  | ok m =>
    simp [hl, Bind.bind, Except.bind, Pure.pure, Except.pure] at h
    subst h
    exact ⟨rfl, Nat.zero_le _, (lenNew_ok hl).2⟩

theorem new_safe (bytes : List Nat) : Safe (Rdr.new bytes) := by
  unfold Rdr.new
  exact Safe.bind (lenNew_safe _) (fun _ _ => Safe.pure _)


/-- nesting structure of a reader (the `input_len`s of the `NestedReader` frames, outermost last) -/
def Rdr.shape : Rdr → List Nat
  | .slice _ _ => []
  | .nested i n _ => n :: i.shape

theorem readSlice_spec {r : Rdr} (h : r.WF) {n : Nat} {s : List Nat} {r' : Rdr}
    (hr : r.readSlice n = .ok (s, r')) :
    s = (r.input.drop r.offset).take n ∧ s.length = n ∧ r'.offset = r.offset + n ∧ r'.input = r.input ∧
    r'.WF ∧ r'.inputLen = r.inputLen ∧ r'.position = r.position + n ∧ r'.shape = r.shape := by
  induction r generalizing s r' with
  | slice b p =>
    obtain ⟨hp, hb⟩ := h
    unfold Rdr.readSlice at hr
    simp only [hp, if_true] at hr
    split at hr
    · rename_i hlen
      cases ha : lenAdd p n with
      | error e => simp [ha, Bind.bind, Except.bind] at hr
      | ok m =>
        obtain ⟨hm, _⟩ := lenAdd_ok ha
        simp [ha, Bind.bind, Except.bind, Pure.pure, Except.pure] at hr
        obtain ⟨hs, hr'⟩ := hr
        subst hs hr' hm
        simp only [List.length_drop] at hlen
        refine ⟨rfl, ?_, rfl, rfl, ⟨by omega, hb⟩, rfl, rfl, rfl⟩
        simp [List.length_take, List.length_drop]; omega
    · cases ha : lenAdd p n <;> simp [ha, Bind.bind, Except.bind] at hr
  | nested i len p ih =>
    obtain ⟨hi, hp, hrem⟩ := h
    unfold Rdr.readSlice at hr
    cases ha : lenAdd p n with
    | error e => simp [ha, Bind.bind, Except.bind] at hr
    | ok np =>
      obtain ⟨hnp, _⟩ := lenAdd_ok ha
      simp only [ha, Bind.bind, Except.bind] at hr
      split at hr
      · rename_i hle
        cases hin : i.readSlice n with
        | error e => simp [hin] at hr
        | ok v =>
          obtain ⟨s0, i'⟩ := v
          simp [hin, Pure.pure, Except.pure] at hr
          obtain ⟨hs, hr'⟩ := hr
          subst hs hr'
          obtain ⟨h1, h2, h3, h4, h5, h6, h7, h8⟩ := ih hi hin
          refine ⟨h1, h2, h3, h4, ⟨h5, by omega, ?_⟩, rfl, by simp [Rdr.position, hnp], by simp [Rdr.shape, h8]⟩
          rw [h6, h7]; omega
      · -- error branch
        cases hx : lenAdd i.offset n with
        | error e => simp [hx] at hr
        | ok _ =>
          simp only [hx] at hr
          cases hy : (Rdr.nested i len p).remainingLen with
          | error e => simp [hy] at hr
          | ok rl =>
            simp only [hy] at hr
            cases hz : lenAdd i.offset rl <;> simp [hz] at hr


theorem readSlice_safe {r : Rdr} (h : r.WF) (n : Nat) : Safe (r.readSlice n) := by
  induction r with
  | slice b p =>
    unfold Rdr.readSlice
    simp only [h.1, if_true]
    split
    · exact Safe.bind (lenAdd_safe _ _) (fun _ _ => Safe.pure _)
    · exact Safe.bind (lenAdd_safe _ _) (fun _ _ => Safe.err (by decide))
  | nested i len p ih =>
    obtain ⟨hi, hp, hrem⟩ := h
    unfold Rdr.readSlice
    refine Safe.bind (lenAdd_safe _ _) (fun np _ => ?_)
    split
    · refine Safe.bind (ih hi) (fun v _ => ?_)
      obtain ⟨s, i'⟩ := v
      exact Safe.pure _
    · refine Safe.bind (lenAdd_safe _ _) (fun _ _ => ?_)
      have hwf : (Rdr.nested i len p).WF := ⟨hi, hp, hrem⟩
      rw [remainingLen_ok hwf]
      refine Safe.bind (Safe.ok _) (fun _ _ => ?_)
      exact Safe.bind (lenAdd_safe _ _) (fun _ _ => Safe.err (by decide))

theorem index_zero_of_length_one {s : List Nat} (h : s.length = 1) : ∃ b, s = [b] ∧ index s 0 = .ok b := by
  match s, h with
  | [b], _ => exact ⟨b, rfl, rfl⟩

/-- `read_byte`: the byte at the current offset -/
theorem readByte_spec {r : Rdr} (h : r.WF) {b : Nat} {r' : Rdr} (hr : r.readByte = .ok (b, r')) :
    r.input[r.offset]? = some b ∧ r'.offset = r.offset + 1 ∧ r'.input = r.input ∧ r'.WF ∧
    r'.inputLen = r.inputLen ∧ r'.position = r.position + 1 ∧ r'.shape = r.shape := by
  unfold Rdr.readByte at hr
  cases hs : r.readSlice 1 with
  | error e => simp [hs, Bind.bind, Except.bind] at hr
  | ok v =>
    obtain ⟨s, r1⟩ := v
    obtain ⟨h1, h2, h3, h4, h5, h6, h7, h8⟩ := readSlice_spec h hs
    obtain ⟨b0, hb0, hidx⟩ := index_zero_of_length_one h2
    simp [hs, Bind.bind, Except.bind, dassert, h2, hidx, Pure.pure, Except.pure] at hr
    obtain ⟨hb, hr'⟩ := hr
    subst hb hr'
    refine ⟨?_, h3, h4, h5, h6, h7, h8⟩
    rw [hb0] at h1
    have : (List.drop r.offset r.input).take 1 = [b0] := h1.symm
    cases hd : List.drop r.offset r.input with
    | nil => simp [hd] at this
    | cons x t =>
      simp [hd] at this
      subst this
      have := List.getElem?_drop (xs := r.input) (i := r.offset) (j := 0)
      simpa [hd] using this.symm

theorem readByte_safe {r : Rdr} (h : r.WF) : Safe r.readByte := by
  unfold Rdr.readByte
  refine Safe.bind (readSlice_safe h 1) (fun v hv => ?_)
  obtain ⟨s, r1⟩ := v
  obtain ⟨_, h2, _⟩ := readSlice_spec h hv
  obtain ⟨b0, _, hidx⟩ := index_zero_of_length_one h2
  simp only [dassert, h2, hidx]
  exact Safe.ok _


/-- `r'` is `r` with every frame's position moved forward by `k` (same input, same nesting, same frame lengths) -/
def Step : Rdr → Rdr → Nat → Prop
  | .slice b p, .slice b' p', k => b' = b ∧ p' = p + k
  | .nested i n p, .nested i' n' p', k => n' = n ∧ p' = p + k ∧ Step i i' k
  | .slice _ _, .nested _ _ _, _ => False
  | .nested _ _ _, .slice _ _, _ => False

theorem Step.refl (r : Rdr) : Step r r 0 := by
  induction r with
  | slice b p => exact ⟨rfl, rfl⟩
  | nested i n p ih => exact ⟨rfl, rfl, ih⟩

theorem Step.trans {a b c : Rdr} {j k : Nat} (h1 : Step a b j) (h2 : Step b c k) : Step a c (j + k) := by
  induction a generalizing b c with
  | slice ba pa =>
    cases b with
    | nested _ _ _ => exact absurd h1 (by simp [Step])
    | slice bb pb =>
      cases c with
      | nested _ _ _ => exact absurd h2 (by simp [Step])
      | slice bc pc =>
        simp only [Step] at *
        exact ⟨by rw [h2.1, h1.1], by rw [h2.2, h1.2]; omega⟩
  | nested ia na pa ih =>
    cases b with
    | slice _ _ => exact absurd h1 (by simp [Step])
    | nested ib nb pb =>
      cases c with
      | slice _ _ => exact absurd h2 (by simp [Step])
      | nested ic nc pc =>
        simp only [Step] at *
        exact ⟨by rw [h2.1, h1.1], by rw [h2.2.1, h1.2.1]; omega, ih h1.2.2 h2.2.2⟩

theorem readSlice_step {r : Rdr} (h : r.WF) {n : Nat} {s : List Nat} {r' : Rdr}
    (hr : r.readSlice n = .ok (s, r')) : Step r r' n := by
  induction r generalizing s r' with
  | slice b p =>
    unfold Rdr.readSlice at hr
    simp only [h.1, if_true] at hr
    split at hr
    · cases ha : lenAdd p n with
      | error e => simp [ha, Bind.bind, Except.bind] at hr
      | ok m =>
        obtain ⟨hm, _⟩ := lenAdd_ok ha
        simp [ha, Bind.bind, Except.bind, Pure.pure, Except.pure] at hr
        rw [← hr.2, hm]; exact ⟨rfl, rfl⟩
    · cases ha : lenAdd p n <;> simp [ha, Bind.bind, Except.bind] at hr
  | nested i len p ih =>
    unfold Rdr.readSlice at hr
    cases ha : lenAdd p n with
    | error e => simp [ha, Bind.bind, Except.bind] at hr
    | ok np =>
      obtain ⟨hnp, _⟩ := lenAdd_ok ha
      simp only [ha, Bind.bind, Except.bind] at hr
      split at hr
      · cases hin : i.readSlice n with
        | error e => simp [hin] at hr
        | ok v =>
          obtain ⟨s0, i'⟩ := v
          simp [hin, Pure.pure, Except.pure] at hr
          rw [← hr.2, hnp]
          exact ⟨rfl, rfl, ih h.1 hin⟩
      · cases hx : lenAdd i.offset n with
        | error e => simp [hx] at hr
        | ok _ =>
          simp only [hx] at hr
          cases hy : (Rdr.nested i len p).remainingLen with
          | error e => simp [hy] at hr
          | ok rl =>
            simp only [hy] at hr
            cases hz : lenAdd i.offset rl <;> simp [hz] at hr

theorem readByte_readSlice {r : Rdr} {b : Nat} {r' : Rdr} (hr : r.readByte = .ok (b, r')) :
    ∃ s, r.readSlice 1 = .ok (s, r') := by
  unfold Rdr.readByte at hr
  cases hs : r.readSlice 1 with
  | error e => simp [hs, Bind.bind, Except.bind] at hr
  | ok v =>
    obtain ⟨s, r1⟩ := v
    simp only [hs, Bind.bind, Except.bind] at hr
    cases hd : dassert (s.length == 1) with
    | error e => simp [hd] at hr
    | ok _ =>
      simp only [hd] at hr
      cases hi : index s 0 with
      | error e => simp [hi] at hr
      | ok x =>
        simp [hi, Pure.pure, Except.pure] at hr
        exact ⟨s, by rw [hr.2]⟩

/-- facts that every successful read preserves -/
structure Adv (r r' : Rdr) (k : Nat) : Prop where
  off : r'.offset = r.offset + k
  input : r'.input = r.input
  wf : r'.WF
  ilen : r'.inputLen = r.inputLen
  pos : r'.position = r.position + k
  shape : r'.shape = r.shape
  step : Step r r' k

theorem Adv.trans {a b c : Rdr} {j k : Nat} (h1 : Adv a b j) (h2 : Adv b c k) : Adv a c (j + k) :=
  ⟨by rw [h2.off, h1.off]; omega, by rw [h2.input, h1.input], h2.wf, by rw [h2.ilen, h1.ilen],
   by rw [h2.pos, h1.pos]; omega, by rw [h2.shape, h1.shape], h1.step.trans h2.step⟩

theorem readSlice_adv {r : Rdr} (h : r.WF) {n : Nat} {s : List Nat} {r' : Rdr}
    (hr : r.readSlice n = .ok (s, r')) : Adv r r' n := by
  obtain ⟨_, _, h3, h4, h5, h6, h7, h8⟩ := readSlice_spec h hr
  exact ⟨h3, h4, h5, h6, h7, h8, readSlice_step h hr⟩

theorem readByte_adv {r : Rdr} (h : r.WF) {b : Nat} {r' : Rdr} (hr : r.readByte = .ok (b, r')) : Adv r r' 1 := by
  obtain ⟨_, h3, h4, h5, h6, h7, h8⟩ := readByte_spec h hr
  obtain ⟨s, hs⟩ := readByte_readSlice hr
  exact ⟨h3, h4, h5, h6, h7, h8, readSlice_step h hs⟩

/-- the accumulation of `Length::decode` over a byte list -/
def beFold (acc : Nat) (bs : List Nat) : Nat := bs.foldl (fun a b => a * 256 % 4294967296 + b) acc

theorem lengthBytes_spec {r : Rdr} (h : r.WF) {n acc v : Nat} {r' : Rdr}
    (hr : lengthBytes n acc r = .ok (v, r')) :
    Adv r r' n ∧ ((r.input.drop r.offset).take n).length = n ∧ v = beFold acc ((r.input.drop r.offset).take n) := by
  induction n generalizing r acc with
  | zero =>
    simp [lengthBytes] at hr
    obtain ⟨hv, hr'⟩ := hr
    subst hv hr'
    exact ⟨⟨rfl, rfl, h, rfl, rfl, rfl, Step.refl _⟩, by simp, by simp [beFold]⟩
  | succ n ih =>
    unfold lengthBytes at hr
    cases hb : r.readByte with
    | error e => simp [hb, Bind.bind, Except.bind] at hr
    | ok x =>
      obtain ⟨b, r1⟩ := x
      simp only [hb, Bind.bind, Except.bind] at hr
      have hadv := readByte_adv h hb
      obtain ⟨hget, _⟩ := readByte_spec h hb
      obtain ⟨ha, hl, hv⟩ := ih hadv.wf hr
      rw [hadv.input, hadv.off] at hl hv
      have hdrop : r.input.drop r.offset = b :: r.input.drop (r.offset + 1) := by
        have hlt : r.offset < r.input.length := by
          rcases Nat.lt_or_ge r.offset r.input.length with h | h
          · exact h
          · simp [List.getElem?_eq_none h] at hget
        rw [List.drop_eq_getElem_cons hlt]
        simp [List.getElem?_eq_getElem hlt] at hget
        rw [hget]
      refine ⟨by simpa [Nat.add_comm] using hadv.trans ha, ?_, ?_⟩
      · rw [hdrop]; simp [hl]
      · rw [hdrop, hv]; simp [beFold]

theorem lengthBytes_safe {r : Rdr} (h : r.WF) (n acc : Nat) : Safe (lengthBytes n acc r) := by
  induction n generalizing r acc with
  | zero => exact Safe.ok _
  | succ n ih =>
    unfold lengthBytes
    refine Safe.bind (readByte_safe h) (fun x hx => ?_)
    obtain ⟨b, r1⟩ := x
    exact ih (readByte_adv h hx).wf _


theorem dassert_le {n k : Nat} (h : n ≤ k) : dassert (decide (n ≤ k)) = .ok () := by simp [dassert, h]
theorem csub_ok {a b : Nat} (h : b ≤ a) : csub a b = .ok (a - b) := by unfold csub; rw [if_pos h]
theorem encLen_1 {v : Nat} (h : v < 128) : encLen v = [v] := by unfold encLen; rw [if_pos h]
theorem encLen_2 {v : Nat} (h1 : 128 ≤ v) (h2 : v < 256) : encLen v = [0x81, v] := by
  unfold encLen; rw [if_neg (by omega), if_pos h2]
theorem encLen_3 {v : Nat} (h1 : 256 ≤ v) (h2 : v < 65536) : encLen v = [0x82, v / 256, v % 256] := by
  unfold encLen; rw [if_neg (by omega), if_neg (by omega), if_pos h2]
theorem encLen_4 {v : Nat} (h1 : 65536 ≤ v) (h2 : v < 16777216) :
    encLen v = [0x83, v / 65536, v / 256 % 256, v % 256] := by
  unfold encLen; rw [if_neg (by omega), if_neg (by omega), if_neg (by omega), if_pos h2]
theorem encLen_5 {v : Nat} (h1 : 16777216 ≤ v) :
    encLen v = [0x84, v / 16777216, v / 65536 % 256, v / 256 % 256, v % 256] := by
  unfold encLen; rw [if_neg (by omega), if_neg (by omega), if_neg (by omega), if_neg (by omega)]


theorem lengthDecode_safe {r : Rdr} (h : r.WF) : Safe (lengthDecode r) := by
  unfold lengthDecode
  refine Safe.bind (readByte_safe h) (fun x hx => ?_)
  obtain ⟨b, r1⟩ := x
  have hwf := (readByte_adv h hx).wf
  simp only
  split
  · exact Safe.pure _
  · split
    · exact Safe.err (by decide)
    · split
      · rename_i hb
        have h1 : csub b 0x80 = .ok (b - 0x80) := csub_ok (by omega)
        refine Safe.bind (by rw [h1]; exact Safe.ok _) (fun nb hnb => ?_)
        have hnb' : b - 0x80 = nb := by rw [h1] at hnb; exact Except.ok.inj hnb
        have hnb4 : nb ≤ 4 := by omega
        refine Safe.bind (by rw [dassert_le hnb4]; exact Safe.ok _) (fun _ _ => ?_)
        refine Safe.bind (lengthBytes_safe hwf _ 0) (fun x _ => ?_)
        obtain ⟨v, r2⟩ := x
        refine Safe.bind (lenNew_safe v) (fun l _ => ?_)
        split
        · exact Safe.pure _
        · exact Safe.err (by decide)
      · exact Safe.err (by decide)

/-- `Length::decode` accepts exactly the minimal encoding: the octets consumed are `encLen` of the result -/
theorem lengthDecode_spec {r : Rdr} (h : r.WF) (hbytes : ∀ b ∈ r.input, b < 256) {l : Nat} {r' : Rdr}
    (hr : lengthDecode r = .ok (l, r')) :
    l ≤ MAX_LEN ∧ Adv r r' (encLen l).length ∧ (r.input.drop r.offset).take (encLen l).length = encLen l := by
  unfold lengthDecode at hr
  cases hb : r.readByte with
  | error e => simp [hb, Bind.bind, Except.bind] at hr
  | ok x =>
    obtain ⟨b, r1⟩ := x
    have hadv := readByte_adv h hb
    obtain ⟨hget, _⟩ := readByte_spec h hb
    have hlt : r.offset < r.input.length := by
      rcases Nat.lt_or_ge r.offset r.input.length with h | h
      · exact h
      · simp [List.getElem?_eq_none h] at hget
    have hdrop : r.input.drop r.offset = b :: r.input.drop (r.offset + 1) := by
      rw [List.drop_eq_getElem_cons hlt]
      simp [List.getElem?_eq_getElem hlt] at hget
      rw [hget]
    simp only [hb, Bind.bind, Except.bind] at hr
    split at hr
    · rename_i hsmall
      simp [Pure.pure, Except.pure] at hr
      obtain ⟨hl, hr'⟩ := hr
      subst hl hr'
      have : encLen b = [b] := encLen_1 hsmall
      rw [this]
      refine ⟨by simp [MAX_LEN]; omega, hadv, ?_⟩
      rw [hdrop]; simp
    · split at hr
      · simp at hr
      · split at hr
        · rename_i hb1 hb2 hrange
          have h1 : csub b 0x80 = .ok (b - 0x80) := csub_ok (by omega)
          have h2 : dassert (decide (b - 0x80 ≤ 4)) = .ok () := dassert_le (by omega)
          simp only [h1, h2] at hr
          cases hl : lengthBytes (b - 0x80) 0 r1 with
          | error e => simp [hl] at hr
          | ok v =>
            obtain ⟨v, r2⟩ := v
            simp only [hl] at hr
            obtain ⟨ha2, hlen2, hv⟩ := lengthBytes_spec hadv.wf hl
            rw [hadv.input, hadv.off] at hlen2 hv
            cases hn : lenNew v with
            | error e => simp [hn] at hr
            | ok l0 =>
              obtain ⟨hl0, hmax⟩ := lenNew_ok hn
              have hl0' : v = l0 := hl0.symm
              subst hl0'
              simp only [hn] at hr
              split at hr
              · rename_i hinit
                simp [Pure.pure, Except.pure] at hr
                obtain ⟨hl, hr'⟩ := hr
                subst hl hr'
                -- the bytes after the initial octet
                generalize htl : (r.input.drop (r.offset + 1)).take (b - 0x80) = tl at hlen2 hv
                have htlb : ∀ x ∈ tl, x < 256 := by
                  intro x hx
                  rw [← htl] at hx
                  exact hbytes x (List.mem_of_mem_drop (List.mem_of_mem_take hx))
                have hk : (encLen v).length = 1 + (b - 0x80) ∧ encLen v = b :: tl := by
                  have hcases : b = 0x81 ∨ b = 0x82 ∨ b = 0x83 ∨ b = 0x84 := by omega
                  have hio : ∀ {x : Nat}, initialOctet v = some x →
                      (x = 0x81 ∧ 0x80 ≤ v ∧ v ≤ 0xFF) ∨ (x = 0x82 ∧ 0x100 ≤ v ∧ v ≤ 0xFFFF) ∨
                      (x = 0x83 ∧ 0x10000 ≤ v ∧ v ≤ 0xFFFFFF) ∨ (x = 0x84 ∧ 0x1000000 ≤ v) := by
                    intro x hx
                    unfold initialOctet at hx
                    split at hx
                    · left; simp at hx; omega
                    · split at hx
                      · right; left; simp at hx; omega
                      · split at hx
                        · right; right; left; simp at hx; omega
                        · split at hx
                          · right; right; right; simp at hx; omega
                          · simp at hx
                  have hi := hio hinit
                  rcases hcases with rfl | rfl | rfl | rfl
                  · match tl, hlen2, htlb with
                    | [b1], _, htlb =>
                      have := htlb b1 (by simp)
                      simp [beFold] at hv
                      subst hv
                      rw [encLen_2 (by omega) (by omega)]; simp
                  · match tl, hlen2, htlb with
                    | [b1, b2], _, htlb =>
                      have := htlb b1 (by simp)
                      have := htlb b2 (by simp)
                      simp [beFold] at hv
                      rw [encLen_3 (by omega) (by omega)]
                      refine ⟨by simp, ?_⟩
                      have e1 : v / 256 = b1 := by omega
                      have e2 : v % 256 = b2 := by omega
                      rw [e1, e2]
                  · match tl, hlen2, htlb with
                    | [b1, b2, b3], _, htlb =>
                      have := htlb b1 (by simp)
                      have := htlb b2 (by simp)
                      have := htlb b3 (by simp)
                      simp [beFold] at hv
                      rw [encLen_4 (by omega) (by omega)]
                      refine ⟨by simp, ?_⟩
                      have e1 : v / 65536 = b1 := by omega
                      have e2 : v / 256 % 256 = b2 := by omega
                      have e3 : v % 256 = b3 := by omega
                      rw [e1, e2, e3]
                  · match tl, hlen2, htlb with
                    | [b1, b2, b3, b4], _, htlb =>
                      have := htlb b1 (by simp)
                      have := htlb b2 (by simp)
                      have := htlb b3 (by simp)
                      have := htlb b4 (by simp)
                      simp [beFold] at hv
                      rw [encLen_5 (by omega)]
                      refine ⟨by simp, ?_⟩
                      have e1 : v / 16777216 = b1 := by omega
                      have e2 : v / 65536 % 256 = b2 := by omega
                      have e3 : v / 256 % 256 = b3 := by omega
                      have e4 : v % 256 = b4 := by omega
                      rw [e1, e2, e3, e4]
                refine ⟨hmax, ?_, ?_⟩
                · rw [hk.1]; exact hadv.trans ha2
                · rw [hk.1, hk.2, hdrop, ← htl]
                  rw [Nat.add_comm 1, List.take_succ_cons]
              · simp at hr
        · simp at hr


theorem tagOfByte_safe (b : Nat) : Safe (tagOfByte b) := by
  unfold tagOfByte
  repeat' split
  all_goals first | exact Safe.ok _ | exact Safe.err (by decide)

theorem tagOfByte_ok {b t : Nat} (h : tagOfByte b = .ok t) : t = b ∧ b < 255 := by
  unfold tagOfByte at h
  split at h
  · simp at h
  · split at h
    · simp at h; omega
    · split at h
      · simp at h; omega
      · split at h
        · simp at h; omega
        · split at h
          · simp at h; omega
          · simp at h

theorem headerDecode_safe {r : Rdr} (h : r.WF) : Safe (headerDecode r) := by
  unfold headerDecode
  refine Safe.bind (readByte_safe h) (fun x hx => ?_)
  obtain ⟨b, r1⟩ := x
  refine Safe.bind (tagOfByte_safe b) (fun tag _ => ?_)
  have := lengthDecode_safe (readByte_adv h hx).wf
  cases hl : lengthDecode r1 with
  | ok v => obtain ⟨l, r2⟩ := v; exact Safe.pure _
  | error e =>
    rw [hl] at this
    cases e <;> first | exact Safe.err (by decide) | exact this

theorem drop_cons_of_getElem? {l : List Nat} {i b : Nat} (h : l[i]? = some b) : l.drop i = b :: l.drop (i + 1) := by
  have hlt : i < l.length := by
    rcases Nat.lt_or_ge i l.length with h' | h'
    · exact h'
    · simp [List.getElem?_eq_none h'] at h
  rw [List.drop_eq_getElem_cons hlt]
  simp [List.getElem?_eq_getElem hlt] at h
  rw [h]

/-- `Header::decode`: identifier octet + minimal length octets, nothing else is accepted -/
theorem headerDecode_spec {r : Rdr} (h : r.WF) (hbytes : ∀ b ∈ r.input, b < 256) {tag len : Nat} {r' : Rdr}
    (hr : headerDecode r = .ok ((tag, len), r')) :
    tagOfByte tag = .ok tag ∧ len ≤ MAX_LEN ∧ Adv r r' (1 + (encLen len).length) ∧
    (r.input.drop r.offset).take (1 + (encLen len).length) = tag :: encLen len := by
  unfold headerDecode at hr
  cases hb : r.readByte with
  | error e => simp [hb, Bind.bind, Except.bind] at hr
  | ok x =>
    obtain ⟨b, r1⟩ := x
    have hadv := readByte_adv h hb
    obtain ⟨hget, _⟩ := readByte_spec h hb
    simp only [hb, Bind.bind, Except.bind] at hr
    cases ht : tagOfByte b with
    | error e => simp [ht] at hr
    | ok t =>
      obtain ⟨htb, _⟩ := tagOfByte_ok ht
      subst htb
      simp only [ht] at hr
      cases hl : lengthDecode r1 with
      | error e => cases e <;> simp [hl] at hr
      | ok v =>
        obtain ⟨l, r2⟩ := v
        simp [hl, Pure.pure, Except.pure] at hr
        obtain ⟨⟨h1, h2⟩, h3⟩ := hr
        subst h1 h2 h3
        obtain ⟨hmax, ha2, hbytes2⟩ := lengthDecode_spec hadv.wf (by rw [hadv.input]; exact hbytes) hl
        rw [hadv.input, hadv.off] at hbytes2
        refine ⟨ht, hmax, hadv.trans ha2, ?_⟩
        rw [drop_cons_of_getElem? hget, Nat.add_comm 1, List.take_succ_cons, hbytes2]

theorem encLen_length_pos (n : Nat) : 1 ≤ (encLen n).length := by
  unfold encLen; repeat' split
  all_goals simp

/-- progress of `Length::decode` (no assumption on the byte values) -/
theorem lengthDecode_adv {r : Rdr} (h : r.WF) {l : Nat} {r' : Rdr} (hr : lengthDecode r = .ok (l, r')) :
    ∃ k, 1 ≤ k ∧ Adv r r' k ∧ l ≤ MAX_LEN := by
  unfold lengthDecode at hr
  cases hb : r.readByte with
  | error e => simp [hb, Bind.bind, Except.bind] at hr
  | ok x =>
    obtain ⟨b, r1⟩ := x
    have hadv := readByte_adv h hb
    simp only [hb, Bind.bind, Except.bind] at hr
    split at hr
    · rename_i hsmall
      simp [Pure.pure, Except.pure] at hr
      obtain ⟨hl, hr'⟩ := hr
      subst hl hr'
      exact ⟨1, Nat.le_refl _, hadv, by simp [MAX_LEN]; omega⟩
    · split at hr
      · simp at hr
      · split at hr
        · rename_i _ _ hrange
          have h1 : csub b 0x80 = .ok (b - 0x80) := csub_ok (by omega)
          have h2 : dassert (decide (b - 0x80 ≤ 4)) = .ok () := dassert_le (by omega)
          simp only [h1, h2] at hr
          cases hl : lengthBytes (b - 0x80) 0 r1 with
          | error e => simp [hl] at hr
          | ok v =>
            obtain ⟨v, r2⟩ := v
            obtain ⟨ha2, _⟩ := lengthBytes_spec hadv.wf hl
            simp only [hl] at hr
            cases hn : lenNew v with
            | error e => simp [hn] at hr
            | ok l0 =>
              obtain ⟨hl0, hmax⟩ := lenNew_ok hn
              simp only [hn] at hr
              split at hr
              · simp [Pure.pure, Except.pure] at hr
                obtain ⟨hl', hr'⟩ := hr
                subst hl' hr'
                exact ⟨1 + (b - 0x80), by omega, hadv.trans ha2, by omega⟩
              · simp at hr
        · simp at hr

/-- progress of `Header::decode`: at least two octets -/
theorem headerDecode_adv {r : Rdr} (h : r.WF) {tag len : Nat} {r' : Rdr}
    (hr : headerDecode r = .ok ((tag, len), r')) : ∃ k, 2 ≤ k ∧ Adv r r' k ∧ len ≤ MAX_LEN := by
  unfold headerDecode at hr
  cases hb : r.readByte with
  | error e => simp [hb, Bind.bind, Except.bind] at hr
  | ok x =>
    obtain ⟨b, r1⟩ := x
    have hadv := readByte_adv h hb
    simp only [hb, Bind.bind, Except.bind] at hr
    cases ht : tagOfByte b with
    | error e => simp [ht] at hr
    | ok t =>
      simp only [ht] at hr
      cases hl : lengthDecode r1 with
      | error e => cases e <;> simp [hl] at hr
      | ok v =>
        obtain ⟨l, r2⟩ := v
        simp [hl, Pure.pure, Except.pure] at hr
        obtain ⟨⟨_, h2⟩, h3⟩ := hr
        subst h2 h3
        obtain ⟨k, hk, ha, hm⟩ := lengthDecode_adv hadv.wf hl
        exact ⟨1 + k, by omega, hadv.trans ha, hm⟩

theorem anyDecode_safe {r : Rdr} (h : r.WF) : Safe (anyDecode r) := by
  unfold anyDecode
  refine Safe.bind (headerDecode_safe h) (fun x hx => ?_)
  obtain ⟨⟨tag, len⟩, r1⟩ := x
  obtain ⟨k, _, ha, _⟩ := headerDecode_adv h hx
  refine Safe.bind (readSlice_safe ha.wf len) (fun y _ => ?_)
  obtain ⟨v, r2⟩ := y
  exact Safe.bind (lenNew_safe _) (fun _ _ => Safe.pure _)

/-- `AnyRef::decode`: the value is the range `[off, off + len)` of the input, which lies inside the
input and at least two octets behind the reader's offset; the reader moves to its end -/
theorem anyDecode_spec {r : Rdr} (h : r.WF) {tag : Nat} {v : List Nat} {r' : Rdr}
    (hr : anyDecode r = .ok ((tag, v), r')) :
    ∃ hl, 2 ≤ hl ∧ v = (r.input.drop (r.offset + hl)).take v.length ∧
      r.offset + hl + v.length ≤ r.input.length ∧ Adv r r' (hl + v.length) := by
  unfold anyDecode at hr
  cases hh : headerDecode r with
  | error e => simp [hh, Bind.bind, Except.bind] at hr
  | ok x =>
    obtain ⟨⟨t, len⟩, r1⟩ := x
    obtain ⟨k, hk, ha, _⟩ := headerDecode_adv h hh
    simp only [hh, Bind.bind, Except.bind] at hr
    cases hs : r1.readSlice len with
    | error e => simp [hs] at hr
    | ok y =>
      obtain ⟨s, r2⟩ := y
      obtain ⟨h1, h2, _⟩ := readSlice_spec ha.wf hs
      have ha2 := readSlice_adv ha.wf hs
      simp only [hs] at hr
      cases hn : lenNew s.length with
      | error e => simp [hn] at hr
      | ok m =>
        simp [hn, Pure.pure, Except.pure] at hr
        obtain ⟨⟨_, hv⟩, hr'⟩ := hr
        subst hv hr'
        rw [ha.input, ha.off] at h1
        refine ⟨k, hk, ?_, ?_, ?_⟩
        · rw [h2]; exact h1
        · have := ha2.wf.offset_le
          rw [ha2.off, ha2.input, ha.off, ha.input] at this
          omega
        · rw [h2]; exact ha.trans ha2

/-- together with the byte range: the octets consumed are exactly `encTlv tag v` (DER is canonical:
no other identifier / length octets are accepted for this tag and value) -/
theorem anyDecode_canonical {r : Rdr} (h : r.WF) (hbytes : ∀ b ∈ r.input, b < 256) {tag : Nat} {v : List Nat}
    {r' : Rdr} (hr : anyDecode r = .ok ((tag, v), r')) :
    (r.input.drop r.offset).take (encTlv tag v).length = encTlv tag v ∧ Adv r r' (encTlv tag v).length := by
  unfold anyDecode at hr
  cases hh : headerDecode r with
  | error e => simp [hh, Bind.bind, Except.bind] at hr
  | ok x =>
    obtain ⟨⟨t, len⟩, r1⟩ := x
    obtain ⟨_, _, ha, hb⟩ := headerDecode_spec h hbytes hh
    simp only [hh, Bind.bind, Except.bind] at hr
    cases hs : r1.readSlice len with
    | error e => simp [hs] at hr
    | ok y =>
      obtain ⟨s, r2⟩ := y
      obtain ⟨h1, h2, _⟩ := readSlice_spec ha.wf hs
      have ha2 := readSlice_adv ha.wf hs
      simp only [hs] at hr
      cases hn : lenNew s.length with
      | error e => simp [hn] at hr
      | ok m =>
        simp [hn, Pure.pure, Except.pure] at hr
        obtain ⟨⟨ht, hv⟩, hr'⟩ := hr
        subst ht hv hr'
        rw [ha.input, ha.off] at h1
        have hlen : (encTlv t s).length = (1 + (encLen len).length) + len := by
          simp [encTlv, h2]; omega
        refine ⟨?_, by rw [hlen]; exact ha.trans ha2⟩
        rw [hlen, List.take_add, hb] -- header ++ value
        have : List.drop (1 + (encLen len).length) (List.drop r.offset r.input)
            = List.drop (r.offset + (1 + (encLen len).length)) r.input := by
          simp only [List.drop_drop]
        rw [this, ← h1]
        simp [encTlv, h2]


/-- `v` is a range of `input` -/
def Within (input v : List Nat) : Prop := ∃ off, off + v.length ≤ input.length ∧ v = (input.drop off).take v.length

/-- the `while !is_finished() { AnyRef::decode }` loop: with fuel above what is left to read it never runs
out of fuel and never panics; on success everything was read and every item value is a range of the input -/
theorem items_spec {r : Rdr} (h : r.WF) {fuel : Nat} (hf : r.inputLen - r.position < fuel)
    (acc : List (Nat × List Nat)) :
    match items fuel r acc with
    | .error (e, _) => e ≠ .panic ∧ e ≠ .endless
    | .ok (l, r') => r'.WF ∧ r'.shape = r.shape ∧ r'.input = r.input ∧ r'.inputLen = r.inputLen ∧
        r'.position = r'.inputLen ∧
        ∀ it ∈ l, it ∈ acc ∨ Within r.input it.2 := by
  induction fuel generalizing r acc with
  | zero => omega
  | succ fuel ih =>
    unfold items
    rw [isFinished_ok h]
    by_cases hfin : r.inputLen - r.position = 0
    · simp only [hfin, beq_self_eq_true]
      have := h.pos_le
      refine ⟨h, trivial, trivial, trivial, by omega, ?_⟩
      intro it hit
      left; simpa using hit
    · have : (r.inputLen - r.position == 0) = false := by simp [hfin]
      simp only [this]
      have hs := anyDecode_safe h
      cases ha : anyDecode r with
      | error e =>
        rw [ha] at hs
        simp only
        exact (safe_iff _).1 hs |>.imp (fun h1 h2 => h1 (by rw [h2])) (fun h1 h2 => h1 (by rw [h2]))
      | ok x =>
        obtain ⟨⟨tag, v⟩, r1⟩ := x
        obtain ⟨hl, hhl, hv, hle, hadv⟩ := anyDecode_spec h ha
        simp only
        have hf' : r1.inputLen - r1.position < fuel := by
          rw [hadv.ilen, hadv.pos]; omega
        have := ih hadv.wf hf' ((tag, v) :: acc)
        cases hi : items fuel r1 ((tag, v) :: acc) with
        | error e => rw [hi] at this; exact this
        | ok y =>
          obtain ⟨l, r2⟩ := y
          rw [hi] at this
          obtain ⟨h1, h2, h3, h4, h5, h6⟩ := this
          refine ⟨h1, by rw [h2, hadv.shape], by rw [h3, hadv.input], by rw [h4, hadv.ilen], h5, ?_⟩
          intro it hit
          rcases h6 it hit with hmem | hw
          · rcases List.mem_cons.1 hmem with heq | hmem
            · right
              subst heq
              exact ⟨r.offset + hl, hle, hv⟩
            · left; exact hmem
          · right; rw [hadv.input] at hw; exact hw


theorem seqItems_spec (bytes : List Nat) :
    match seqItems bytes with
    | .error (e, _) => e ≠ .panic ∧ e ≠ .endless
    | .ok l => ∀ it ∈ l, Within bytes it.2 := by
  unfold seqItems
  have hs := new_safe bytes
  cases hn : Rdr.new bytes with
  | error e =>
    rw [hn] at hs
    exact (safe_iff _).1 hs |>.imp (fun h1 h2 => h1 (by rw [h2])) (fun h1 h2 => h1 (by rw [h2]))
  | ok r =>
    obtain ⟨hr, hwf⟩ := new_ok hn
    subst hr
    have := items_spec hwf (fuel := bytes.length + 1) (by simp [Rdr.inputLen, Rdr.position]) []
    simp only
    cases hi : items (bytes.length + 1) (Rdr.slice bytes 0) [] with
    | error e => rw [hi] at this; exact this
    | ok y =>
      obtain ⟨l, r'⟩ := y
      rw [hi] at this
      intro it hit
      rcases this.2.2.2.2.2 it hit with h | h
      · simp at h
      · exact h

theorem nestedNew_ok {inner : Rdr} (h : inner.WF) {len : Nat} {n : Rdr} (hn : nestedNew inner len = .ok n) :
    n = .nested inner len 0 ∧ n.WF := by
  unfold nestedNew at hn
  rw [remainingLen_ok h] at hn
  simp only [Bind.bind, Except.bind] at hn
  split at hn
  · rename_i hle
    simp [Pure.pure, Except.pure] at hn
    subst hn
    exact ⟨rfl, h, Nat.zero_le _, by simpa using hle⟩
  · cases h1 : lenAdd inner.offset len with
    | error e => simp [h1] at hn
    | ok _ =>
      simp only [h1] at hn
      cases h2 : lenAdd inner.offset (inner.inputLen - inner.position) <;> simp [h2] at hn

theorem nestedNew_safe {inner : Rdr} (h : inner.WF) (len : Nat) : Safe (nestedNew inner len) := by
  unfold nestedNew
  rw [remainingLen_ok h]
  refine Safe.bind (Safe.ok _) (fun rl _ => ?_)
  split
  · exact Safe.pure _
  · exact Safe.bind (lenAdd_safe _ _) (fun _ _ => Safe.bind (lenAdd_safe _ _) (fun _ _ => Safe.err (by decide)))

theorem finish_safe {r : Rdr} (h : r.WF) : Safe r.finish := by
  unfold Rdr.finish
  rw [isFinished_ok h]
  refine Safe.bind (Safe.ok _) (fun fin _ => ?_)
  split
  · exact Safe.pure _
  · exact Safe.err (by decide)

theorem finish_ok {r : Rdr} (h : r.WF) (hr : r.finish = .ok ()) : r.position = r.inputLen := by
  unfold Rdr.finish at hr
  rw [isFinished_ok h] at hr
  simp only [Bind.bind, Except.bind] at hr
  split at hr
  · rename_i hf
    have := h.pos_le
    simp at hf; omega
  · simp at hr

/-- `reader.sequence(…)` + `finish`: never panics, never runs out of fuel; item values are ranges of the input -/
theorem sequenceItems_spec (bytes : List Nat) :
    match sequenceItems bytes with
    | .error e => e ≠ .panic ∧ e ≠ .endless
    | .ok l => ∀ it ∈ l, Within bytes it.2 := by
  have hsafe : ∀ {α : Type} {x : Except E α} {e : E}, Safe x → x = .error e → e ≠ .panic ∧ e ≠ .endless := by
    intro α x e hs hx
    rw [hx] at hs
    exact (safe_iff _).1 hs |>.imp (fun h1 h2 => h1 (by rw [h2])) (fun h1 h2 => h1 (by rw [h2]))
  unfold sequenceItems
  cases hn : Rdr.new bytes with
  | error e => exact hsafe (new_safe bytes) hn
  | ok r =>
    obtain ⟨hr, hwf⟩ := new_ok hn
    subst hr
    simp only [Bind.bind, Except.bind]
    cases hh : headerDecode (Rdr.slice bytes 0) with
    | error e => exact hsafe (headerDecode_safe hwf) hh
    | ok x =>
      obtain ⟨⟨tag, len⟩, r1⟩ := x
      obtain ⟨k, _, hadv, _⟩ := headerDecode_adv hwf hh
      simp only
      by_cases htag : tag ≠ TAG_SEQUENCE
      · rw [if_pos htag]; simp
      · rw [if_neg htag]
        cases hnn : nestedNew r1 len with
          | error e => exact hsafe (nestedNew_safe hadv.wf len) hnn
          | ok n =>
            obtain ⟨hneq, hnwf⟩ := nestedNew_ok hadv.wf hnn
            subst hneq
            simp only
            have hfuel : (Rdr.nested r1 len 0).inputLen - (Rdr.nested r1 len 0).position < bytes.length + 1 := by
              have h1 := hnwf.rem_le
              have h2 : (Rdr.nested r1 len 0).input = bytes := by
                simp [Rdr.input, hadv.input]
              rw [h2] at h1
              omega
            have := items_spec hnwf hfuel []
            cases hi : items (bytes.length + 1) (Rdr.nested r1 len 0) [] with
            | error e => rw [hi] at this; obtain ⟨e, c⟩ := e; exact this
            | ok y =>
              obtain ⟨l, n'⟩ := y
              rw [hi] at this
              obtain ⟨hw', hshape, hinput, _, _, hitems⟩ := this
              simp only
              cases hfin : n'.finish with
              | error e => exact hsafe (finish_safe hw') hfin
              | ok _ =>
                simp only
                match n', hw', hshape with
                | .nested inner il p, hw', _ =>
                  simp only
                  cases hfin2 : inner.finish with
                  | error e => exact hsafe (finish_safe hw'.1) hfin2
                  | ok _ =>
                    simp only [Pure.pure, Except.pure]
                    intro it hit
                    rcases hitems it hit with h | h
                    · simp at h
                    · simpa [Rdr.input, hadv.input] using h
                | .slice _ _, _, hshape => simp [Rdr.shape] at hshape


/-! ## decoding what the model encoder produced (slice readers) -/

theorem drop_length_le {l : List Nat} {p : Nat} {x : List Nat} (h : l.drop p = x) (hx : x ≠ []) : p ≤ l.length := by
  rcases Nat.le_total p l.length with h' | h'
  · exact h'
  · rw [List.drop_eq_nil_of_le h'] at h; exact absurd h.symm hx

theorem readSlice_slice {bytes : List Nat} {pos : Nat} (v rest : List Nat) (hd : bytes.drop pos = v ++ rest)
    (hp : pos ≤ bytes.length) (hmax : bytes.length ≤ MAX_LEN) :
    (Rdr.slice bytes pos).readSlice v.length = .ok (v, .slice bytes (pos + v.length)) := by
  have hlen : v.length ≤ (bytes.drop pos).length := by rw [hd]; simp
  have hlen' := hlen
  rw [List.length_drop] at hlen'
  unfold Rdr.readSlice
  rw [if_pos hp, if_pos hlen, lenAdd_of_le (by omega)]
  simp [Bind.bind, Except.bind, Pure.pure, Except.pure, hd]

theorem readByte_slice {bytes : List Nat} {pos b : Nat} {rest : List Nat} (hd : bytes.drop pos = b :: rest)
    (hmax : bytes.length ≤ MAX_LEN) :
    (Rdr.slice bytes pos).readByte = .ok (b, .slice bytes (pos + 1)) := by
  have hp : pos ≤ bytes.length := drop_length_le hd (by simp)
  have := readSlice_slice [b] rest (by simpa using hd) hp hmax
  unfold Rdr.readByte
  simp only [List.length_singleton] at this
  rw [this]
  simp [Bind.bind, Except.bind, dassert, index, Pure.pure, Except.pure]

theorem initialOctet_81 {n : Nat} (h1 : 0x80 ≤ n) (h2 : n ≤ 0xFF) : initialOctet n = some 0x81 := by
  unfold initialOctet; rw [if_pos ⟨h1, h2⟩]
theorem initialOctet_82 {n : Nat} (h1 : 0x100 ≤ n) (h2 : n ≤ 0xFFFF) : initialOctet n = some 0x82 := by
  unfold initialOctet; rw [if_neg (by omega), if_pos ⟨h1, h2⟩]
theorem initialOctet_83 {n : Nat} (h1 : 0x10000 ≤ n) (h2 : n ≤ 0xFFFFFF) : initialOctet n = some 0x83 := by
  unfold initialOctet; rw [if_neg (by omega), if_neg (by omega), if_pos ⟨h1, h2⟩]
theorem initialOctet_84 {n : Nat} (h1 : 0x1000000 ≤ n) (h2 : n ≤ MAX_LEN) : initialOctet n = some 0x84 := by
  unfold initialOctet; rw [if_neg (by omega), if_neg (by omega), if_neg (by omega), if_pos ⟨h1, h2⟩]

/-- `lengthBytes` on known bytes -/
theorem lengthBytes_slice {bytes : List Nat} (hmax : bytes.length ≤ MAX_LEN) :
    ∀ (bs : List Nat) (pos acc : Nat) (rest : List Nat), bytes.drop pos = bs ++ rest →
      lengthBytes bs.length acc (.slice bytes pos) = .ok (beFold acc bs, .slice bytes (pos + bs.length))
  | [], pos, acc, rest, _ => by simp [lengthBytes, beFold]
  | b :: bs, pos, acc, rest, hd => by
    have hd1 : bytes.drop (pos + 1) = bs ++ rest := by
      have := congrArg (List.drop 1) hd
      simpa [List.drop_drop, Nat.add_comm] using this
    simp only [List.length_cons, lengthBytes]
    rw [readByte_slice (rest := bs ++ rest) (by simpa using hd) hmax]
    simp only [Bind.bind, Except.bind]
    rw [lengthBytes_slice hmax bs (pos + 1) _ rest hd1]
    simp [beFold, Nat.add_assoc, Nat.add_comm 1]

/-- `Length::decode` inverts the minimal length encoding -/
theorem lengthDecode_encLen {bytes : List Nat} {pos n : Nat} {rest : List Nat}
    (hd : bytes.drop pos = encLen n ++ rest) (hn : n ≤ MAX_LEN) (hmax : bytes.length ≤ MAX_LEN) :
    lengthDecode (.slice bytes pos) = .ok (n, .slice bytes (pos + (encLen n).length)) := by
  have hMAX : MAX_LEN = 268435455 := rfl
  unfold lengthDecode
  by_cases h1 : n < 128
  · rw [encLen_1 h1] at hd ⊢
    rw [readByte_slice (by simpa using hd) hmax]
    simp [Bind.bind, Except.bind, h1, Pure.pure, Except.pure]
  · by_cases h2 : n < 256
    · rw [encLen_2 (by omega) h2] at hd ⊢
      rw [readByte_slice (rest := n :: rest) (by simpa using hd) hmax]
      simp only [Bind.bind, Except.bind]
      rw [if_neg (by omega), if_neg (by omega), if_pos (by omega), csub_ok (by omega)]
      have hd1 : bytes.drop (pos + 1) = [n] ++ rest := by
        have := congrArg (List.drop 1) hd
        simpa [List.drop_drop, Nat.add_comm] using this
      have := lengthBytes_slice hmax [n] (pos + 1) 0 rest hd1
      simp only [List.length_singleton] at this
      simp only [show (0x81 : Nat) - 0x80 = 1 from rfl, show dassert (decide (1 ≤ 4)) = Except.ok () from rfl, this]
      have hv : beFold 0 [n] = n := by simp [beFold]
      rw [hv, lenNew_of_le hn]
      simp only [initialOctet_81 (by omega : 0x80 ≤ n) (by omega : n ≤ 0xFF), if_true, Pure.pure, Except.pure]
      simp [Nat.add_assoc]
    · by_cases h3 : n < 65536
      · rw [encLen_3 (by omega) h3] at hd ⊢
        rw [readByte_slice (rest := n / 256 :: n % 256 :: rest) (by simpa using hd) hmax]
        simp only [Bind.bind, Except.bind]
        rw [if_neg (by omega), if_neg (by omega), if_pos (by omega), csub_ok (by omega)]
        have hd1 : bytes.drop (pos + 1) = [n / 256, n % 256] ++ rest := by
          have := congrArg (List.drop 1) hd
          simpa [List.drop_drop, Nat.add_comm] using this
        have := lengthBytes_slice hmax [n / 256, n % 256] (pos + 1) 0 rest hd1
        simp only [List.length_cons, List.length_nil] at this
        simp only [show (0x82 : Nat) - 0x80 = 0 + 1 + 1 from rfl, show dassert (decide (0 + 1 + 1 ≤ 4)) = Except.ok () from rfl, this]
        have hv : beFold 0 [n / 256, n % 256] = n := by simp [beFold]; omega
        rw [hv, lenNew_of_le hn]
        simp only [initialOctet_82 (by omega : 0x100 ≤ n) (by omega : n ≤ 0xFFFF), if_true, Pure.pure, Except.pure]
        simp [Nat.add_assoc]
      · by_cases h4 : n < 16777216
        · rw [encLen_4 (by omega) h4] at hd ⊢
          rw [readByte_slice (rest := n / 65536 :: n / 256 % 256 :: n % 256 :: rest) (by simpa using hd) hmax]
          simp only [Bind.bind, Except.bind]
          rw [if_neg (by omega), if_neg (by omega), if_pos (by omega), csub_ok (by omega)]
          have hd1 : bytes.drop (pos + 1) = [n / 65536, n / 256 % 256, n % 256] ++ rest := by
            have := congrArg (List.drop 1) hd
            simpa [List.drop_drop, Nat.add_comm] using this
          have := lengthBytes_slice hmax [n / 65536, n / 256 % 256, n % 256] (pos + 1) 0 rest hd1
          simp only [List.length_cons, List.length_nil] at this
          simp only [show (0x83 : Nat) - 0x80 = 0 + 1 + 1 + 1 from rfl, show dassert (decide (0 + 1 + 1 + 1 ≤ 4)) = Except.ok () from rfl, this]
          have hv : beFold 0 [n / 65536, n / 256 % 256, n % 256] = n := by simp [beFold]; omega
          rw [hv, lenNew_of_le hn]
          simp only [initialOctet_83 (by omega : 0x10000 ≤ n) (by omega : n ≤ 0xFFFFFF), if_true, Pure.pure, Except.pure]
          simp [Nat.add_assoc]
        · rw [encLen_5 (by omega)] at hd ⊢
          rw [readByte_slice (rest := n / 16777216 :: n / 65536 % 256 :: n / 256 % 256 :: n % 256 :: rest)
            (by simpa using hd) hmax]
          simp only [Bind.bind, Except.bind]
          rw [if_neg (by omega), if_neg (by omega), if_pos (by omega), csub_ok (by omega)]
          have hd1 : bytes.drop (pos + 1) = [n / 16777216, n / 65536 % 256, n / 256 % 256, n % 256] ++ rest := by
            have := congrArg (List.drop 1) hd
            simpa [List.drop_drop, Nat.add_comm] using this
          have := lengthBytes_slice hmax [n / 16777216, n / 65536 % 256, n / 256 % 256, n % 256] (pos + 1) 0 rest hd1
          simp only [List.length_cons, List.length_nil] at this
          simp only [show (0x84 : Nat) - 0x80 = 0 + 1 + 1 + 1 + 1 from rfl, show dassert (decide (0 + 1 + 1 + 1 + 1 ≤ 4)) = Except.ok () from rfl, this]
          have hv : beFold 0 [n / 16777216, n / 65536 % 256, n / 256 % 256, n % 256] = n := by
            simp [beFold]; omega
          rw [hv, lenNew_of_le hn]
          simp only [initialOctet_84 (by omega : 0x1000000 ≤ n) hn, if_true, Pure.pure, Except.pure]
          simp [Nat.add_assoc]


theorem encTlv_length (tag : Nat) (v : List Nat) : (encTlv tag v).length = 1 + (encLen v.length).length + v.length := by
  simp [encTlv]; omega

/-- `Header::decode` on `tag :: encLen n ++ rest` -/
theorem headerDecode_enc {bytes : List Nat} {pos tag n : Nat} {rest : List Nat}
    (hd : bytes.drop pos = tag :: encLen n ++ rest) (ht : tagOfByte tag = .ok tag) (hn : n ≤ MAX_LEN)
    (hmax : bytes.length ≤ MAX_LEN) :
    headerDecode (.slice bytes pos) = .ok ((tag, n), .slice bytes (pos + 1 + (encLen n).length)) := by
  unfold headerDecode
  rw [readByte_slice (rest := encLen n ++ rest) (by simpa using hd) hmax]
  simp only [Bind.bind, Except.bind, ht]
  have hd1 : bytes.drop (pos + 1) = encLen n ++ rest := by
    have := congrArg (List.drop 1) hd
    simpa [List.drop_drop, Nat.add_comm] using this
  rw [lengthDecode_encLen hd1 hn hmax]
  simp [Pure.pure, Except.pure]

/-- `AnyRef::decode` inverts `encTlv` -/
theorem anyDecode_enc {bytes : List Nat} {pos tag : Nat} {v rest : List Nat}
    (hd : bytes.drop pos = encTlv tag v ++ rest) (ht : tagOfByte tag = .ok tag) (hmax : bytes.length ≤ MAX_LEN) :
    anyDecode (.slice bytes pos) = .ok ((tag, v), .slice bytes (pos + (encTlv tag v).length)) := by
  have hp : pos ≤ bytes.length := drop_length_le hd (by simp [encTlv])
  have hvl : v.length ≤ MAX_LEN := by
    have : (encTlv tag v ++ rest).length ≤ bytes.length := by rw [← hd]; simp
    simp [encTlv] at this; omega
  unfold anyDecode
  have hd0 : bytes.drop pos = tag :: encLen v.length ++ (v ++ rest) := by simpa [encTlv] using hd
  rw [headerDecode_enc hd0 ht hvl hmax]
  simp only [Bind.bind, Except.bind]
  have hd1 : bytes.drop (pos + 1 + (encLen v.length).length) = v ++ rest := by
    have := congrArg (List.drop (1 + (encLen v.length).length)) hd0
    rw [List.drop_drop] at this
    rw [show pos + 1 + (encLen v.length).length = pos + (1 + (encLen v.length).length) by omega, this]
    rw [show tag :: encLen v.length ++ (v ++ rest) = (tag :: encLen v.length) ++ (v ++ rest) by simp]
    rw [List.drop_left' (by simp; omega)]
  have hp1 : pos + 1 + (encLen v.length).length ≤ bytes.length := by
    have := congrArg List.length hd0
    simp at this; omega
  rw [readSlice_slice v rest hd1 hp1 hmax]
  simp only [lenNew_of_le hvl, Pure.pure, Except.pure]
  rw [encTlv_length]
  congr 3; omega


/-- `AnyRef::from_der (encTlv tag v) = (tag, v)` -/
theorem fromDerAny_enc {tag : Nat} {v : List Nat} (ht : tagOfByte tag = .ok tag)
    (hmax : (encTlv tag v).length ≤ MAX_LEN) : fromDerAny (encTlv tag v) = .ok (tag, v) := by
  unfold fromDerAny Rdr.new
  rw [lenNew_of_le hmax]
  simp only [Bind.bind, Except.bind, Pure.pure, Except.pure]
  rw [anyDecode_enc (bytes := encTlv tag v) (pos := 0) (tag := tag) (v := v) (rest := []) (by simp) ht hmax]
  simp only [Nat.zero_add]
  have hwf : (Rdr.slice (encTlv tag v) (encTlv tag v).length).WF := ⟨Nat.le_refl _, hmax⟩
  simp [Rdr.finish, isFinished_ok hwf, Rdr.inputLen, Rdr.position, Bind.bind, Except.bind, Pure.pure, Except.pure]

/-- whatever `AnyRef::from_der` accepts is exactly the canonical encoding of what it returns -/
theorem fromDerAny_canonical {bytes : List Nat} (hbytes : ∀ b ∈ bytes, b < 256) {tag : Nat} {v : List Nat}
    (h : fromDerAny bytes = .ok (tag, v)) : bytes = encTlv tag v := by
  unfold fromDerAny at h
  cases hn : Rdr.new bytes with
  | error e => simp [hn, Bind.bind, Except.bind] at h
  | ok r =>
    obtain ⟨hr, hwf⟩ := new_ok hn
    subst hr
    simp only [hn, Bind.bind, Except.bind] at h
    cases ha : anyDecode (Rdr.slice bytes 0) with
    | error e => simp [ha] at h
    | ok x =>
      obtain ⟨⟨t, w⟩, r'⟩ := x
      simp only [ha] at h
      cases hf : r'.finish with
      | error e => simp [hf] at h
      | ok _ =>
        simp [hf, Pure.pure, Except.pure] at h
        obtain ⟨h1, h2⟩ := h
        subst h1 h2
        obtain ⟨htake, hadv⟩ := anyDecode_canonical hwf hbytes ha
        have hpos := finish_ok hadv.wf hf
        rw [hadv.pos, hadv.ilen] at hpos
        simp only [Rdr.position, Rdr.inputLen, Rdr.input, Rdr.offset, List.drop_zero, Nat.zero_add] at hpos htake
        rw [hpos, List.take_length] at htake
        exact htake

/-- a strict prefix of an element is refused (`Incomplete`), whatever the cut -/
theorem fromDerAny_truncated {tag : Nat} {v : List Nat} (hbytes : ∀ b ∈ encTlv tag v, b < 256) (k : Nat)
    (hk : k < (encTlv tag v).length) : ∃ e, fromDerAny ((encTlv tag v).take k) = .error e ∧ e ≠ .panic := by
  have hsafe : Safe (fromDerAny ((encTlv tag v).take k)) := by
    unfold fromDerAny
    refine Safe.bind (new_safe _) (fun r hr => ?_)
    obtain ⟨hreq, hwf⟩ := new_ok hr
    refine Safe.bind (anyDecode_safe hwf) (fun x hx => ?_)
    obtain ⟨a, r'⟩ := x
    obtain ⟨_, _, _, _, hadv⟩ := anyDecode_spec hwf hx
    exact Safe.bind (finish_safe hadv.wf) (fun _ _ => Safe.pure _)
  cases hres : fromDerAny ((encTlv tag v).take k) with
  | error e =>
    refine ⟨e, rfl, ?_⟩
    rw [hres] at hsafe
    exact ((safe_iff _).1 hsafe).1 ∘ (fun h => by rw [h])
  | ok x =>
    exfalso
    obtain ⟨t, w⟩ := x
    have hb' : ∀ b ∈ (encTlv tag v).take k, b < 256 := fun b hb => hbytes b (List.mem_of_mem_take hb)
    have hcanon := fromDerAny_canonical hb' hres
    -- the prefix would itself be an element: same tag, same length octets, hence the same length
    have hlen : ((encTlv tag v).take k).length = k := by simp; omega
    have h0 : 0 < k := by
      rcases Nat.eq_zero_or_pos k with h | h
      · subst h; simp [encTlv] at hcanon
      · exact h
    -- compare the headers: `take k (tag :: encLen |v| ++ v) = t :: encLen |w| ++ w`
    have hpre : (encTlv t w) <+: (encTlv tag v) := by rw [← hcanon]; exact List.take_prefix _ _
    have hwl : (encTlv t w).length = k := by rw [← hcanon, hlen]
    obtain ⟨suffix, hs⟩ := hpre
    have hlens : w.length = v.length := by
      have h1 : t :: (encLen w.length ++ (w ++ suffix)) = tag :: (encLen v.length ++ v) := by
        simpa [encTlv, List.append_assoc] using hs
      injection h1 with _ h1
      exact encLen_prefix_inj h1
    have : (encTlv t w).length = (encTlv tag v).length := by
      rw [encTlv_length, encTlv_length, hlens]
    omega
where
  /-- the length octets are prefix-free: they determine the length -/
  encLen_prefix_inj {a b : Nat} {x y : List Nat} (h : encLen a ++ x = encLen b ++ y) : a = b := by
    unfold encLen at h
    repeat' split at h
    all_goals simp at h
    all_goals omega


/-! ## `cert/der_utils.rs` -/

/-- leading zero bytes removed, but never the last byte -/
def stripZeros : List Nat → List Nat
  | [] => []
  | a :: t =>
    match t with
    | [] => [a]
    | _ :: _ => if a = 0 then stripZeros t else a :: t

theorem stripZeros_length_le (l : List Nat) : (stripZeros l).length ≤ l.length := by
  induction l with
  | nil => simp [stripZeros]
  | cons a t ih =>
    cases t with
    | nil => simp [stripZeros]
    | cons b t' =>
      simp only [stripZeros]
      split
      · exact Nat.le_succ_of_le ih
      · exact Nat.le_refl _

theorem stripLoop_eq (fuel : Nat) (src : List Nat) (h : src.length < fuel) : stripLoop fuel src = .ok (stripZeros src) := by
  induction fuel generalizing src with
  | zero => omega
  | succ fuel ih =>
    unfold stripLoop
    match src, h with
    | [], _ => simp [stripZeros, Pure.pure, Except.pure]
    | [a], _ => simp [stripZeros, Pure.pure, Except.pure]
    | a :: b :: t, h =>
      have hl : (a :: b :: t).length > 1 := by simp
      rw [if_pos hl]
      simp only [index, List.getElem?_cons_zero, Bind.bind, Except.bind, sliceFrom, List.length_cons]
      by_cases ha : a = 0
      · rw [if_pos ha, if_pos (by omega)]
        simp only [List.drop_succ_cons, List.drop_zero]
        rw [ih (b :: t) (by simp at h ⊢; omega)]
        simp [stripZeros, ha]
      · rw [if_neg ha]
        simp [stripZeros, ha, Pure.pure, Except.pure]

/-- `copy_integer_to_fixed`: `Invalid` when the stripped integer does not fit, else the integer right-aligned -/
theorem copyIntegerToFixed_eq (n : Nat) (integer : List Nat) :
    copyIntegerToFixed n integer =
      if (stripZeros integer).length > n then .error .invalid else .ok (padLeft n (stripZeros integer)) := by
  unfold copyIntegerToFixed
  rw [stripLoop_eq _ _ (Nat.lt_succ_self _)]
  simp only [Bind.bind, Except.bind]
  split
  · rfl
  · rename_i hle
    have hle : (stripZeros integer).length ≤ n := by omega
    have : (n - (n - (stripZeros integer).length) == (stripZeros integer).length) = true := by
      simp; omega
    simp only [csub_ok hle, dassert_le (Nat.sub_le _ _), csub_ok (Nat.sub_le _ _)]
    simp [this, dassert, padLeft, Pure.pure, Except.pure]

theorem copyIntegerToFixed_safe (n : Nat) (integer : List Nat) : Safe (copyIntegerToFixed n integer) := by
  rw [copyIntegerToFixed_eq]; split
  · exact Safe.err (by decide)
  · exact Safe.ok _

theorem copyIntegerToFixed_length {n : Nat} {integer out : List Nat} (h : copyIntegerToFixed n integer = .ok out) :
    out.length = n := by
  rw [copyIntegerToFixed_eq] at h
  split at h
  · simp at h
  · rename_i hle
    simp at h; subst h
    simp [padLeft]; omega

theorem mapInvalid_safe {α : Type} {x : Except E α} (h : Safe x) : Safe (mapInvalid x) := by
  cases x with
  | ok y => exact Safe.ok _
  | error e =>
    have := (safe_iff _).1 h
    unfold mapInvalid
    simp only
    rw [if_neg (fun he => this.1 (by rw [he])), if_neg (fun he => this.2 (by rw [he]))]
    exact Safe.err (by decide)

theorem mapInvalid_ok {α : Type} {x : Except E α} {y : α} (h : mapInvalid x = .ok y) : x = .ok y := by
  cases x with
  | ok z => simpa [mapInvalid] using h
  | error e =>
    unfold mapInvalid at h
    simp only at h
    split at h
    · simp at h
    · split at h <;> simp at h

theorem ecdsaDerToRaw_safe (der : List Nat) : Safe (ecdsaDerToRaw der) := by
  unfold ecdsaDerToRaw
  refine Safe.bind (mapInvalid_safe (new_safe der)) (fun r hr => ?_)
  obtain ⟨_, hwf⟩ := new_ok (mapInvalid_ok hr)
  refine Safe.bind (mapInvalid_safe (headerDecode_safe hwf)) (fun x hx => ?_)
  obtain ⟨⟨tag, len⟩, r1⟩ := x
  obtain ⟨_, _, hadv1, _⟩ := headerDecode_adv hwf (mapInvalid_ok hx)
  simp only
  split
  · exact Safe.err (by decide)
  · refine Safe.bind (mapInvalid_safe (anyDecode_safe hadv1.wf)) (fun y hy => ?_)
    obtain ⟨⟨rt, rv⟩, r2⟩ := y
    obtain ⟨_, _, _, _, hadv2⟩ := anyDecode_spec hadv1.wf (mapInvalid_ok hy)
    simp only
    split
    · exact Safe.err (by decide)
    · refine Safe.bind (mapInvalid_safe (anyDecode_safe hadv2.wf)) (fun z _ => ?_)
      obtain ⟨⟨st, sv⟩, r3⟩ := z
      simp only
      split
      · exact Safe.err (by decide)
      · exact Safe.bind (copyIntegerToFixed_safe _ _) (fun _ _ =>
          Safe.bind (copyIntegerToFixed_safe _ _) (fun _ _ => Safe.pure _))


/-- minimal big-endian magnitude of at most `n` bytes (`[]` = zero) -/
def Canon (n : Nat) (m : List Nat) : Prop := (∀ b ∈ m, b < 256) ∧ m.length ≤ n ∧ m.head? ≠ some 0

/-- contents of the INTEGER that `encUint` writes -/
def uintContent (m : List Nat) : List Nat :=
  match m with
  | [] => [0]
  | b :: _ => if b ≥ 128 then 0 :: m else m

theorem encUint_eq (m : List Nat) : encUint m = encTlv TAG_INTEGER (uintContent m) := by
  cases m with
  | nil => rfl
  | cons b t => simp only [encUint, uintContent]; split <;> rfl

theorem stripZeros_of_head {m : List Nat} (h : m.head? ≠ some 0) : stripZeros m = m := by
  match m, h with
  | [], _ => rfl
  | [a], _ => rfl
  | a :: b :: t, h =>
    have : a ≠ 0 := by simpa using h
    simp [stripZeros, this]

theorem padLeft_uintContent {m : List Nat} (h : Canon 32 m) :
    padLeft 32 (stripZeros (uintContent m)) = padLeft 32 m ∧ (stripZeros (uintContent m)).length ≤ 32 := by
  obtain ⟨_, hlen, hhead⟩ := h
  cases m with
  | nil => exact ⟨rfl, by decide⟩
  | cons b t =>
    simp only [uintContent]
    split
    · rename_i hb
      have hb0 : b ≠ 0 := by omega
      have : stripZeros (0 :: b :: t) = b :: t := by
        simp only [stripZeros, if_true]
        exact stripZeros_of_head (m := b :: t) (by simp [hb0])
      rw [this]; exact ⟨rfl, hlen⟩
    · rw [stripZeros_of_head hhead]; exact ⟨rfl, hlen⟩

theorem uintContent_length (m : List Nat) : (uintContent m).length ≤ m.length + 1 := by
  cases m with
  | nil => simp [uintContent]
  | cons b t => simp only [uintContent]; split <;> simp

theorem tagOfByte_int : tagOfByte TAG_INTEGER = .ok TAG_INTEGER := by simp [tagOfByte, TAG_INTEGER]
theorem tagOfByte_seq : tagOfByte TAG_SEQUENCE = .ok TAG_SEQUENCE := by simp [tagOfByte, TAG_SEQUENCE]

theorem encTlv_short_length {tag : Nat} {v : List Nat} (h : v.length < 128) : (encTlv tag v).length = 2 + v.length := by
  rw [encTlv_length, encLen_1 h]; simp

/-- **`ecdsa_der_to_raw (SEQUENCE { INTEGER r, INTEGER s }) = r‖s`**, each half left-padded to 32 bytes -/
theorem ecdsaDerToRaw_encSig {r s : List Nat} (hr : Canon 32 r) (hs : Canon 32 s) :
    ecdsaDerToRaw (encSig r s) = .ok (padLeft 32 r ++ padLeft 32 s) := by
  have hrl := uintContent_length r
  have hsl := uintContent_length s
  have hr32 := hr.2.1
  have hs32 := hs.2.1
  have e1 : (encUint r).length = 2 + (uintContent r).length := by
    rw [encUint_eq]; exact encTlv_short_length (by omega)
  have e2 : (encUint s).length = 2 + (uintContent s).length := by
    rw [encUint_eq]; exact encTlv_short_length (by omega)
  have hcl : (encUint r ++ encUint s).length < 128 := by simp [e1, e2]; omega
  have htot : (encSig r s).length = 2 + (encUint r ++ encUint s).length := encTlv_short_length hcl
  have hmax : (encSig r s).length ≤ MAX_LEN := by rw [htot]; simp [MAX_LEN] at *; omega
  have hel : (encLen (encUint r ++ encUint s).length).length = 1 := by rw [encLen_1 hcl]; rfl
  unfold ecdsaDerToRaw
  have hnew : Rdr.new (encSig r s) = .ok (.slice (encSig r s) 0) := by
    simp [Rdr.new, lenNew_of_le hmax, Bind.bind, Except.bind, Pure.pure, Except.pure]
  have hhdr := headerDecode_enc (bytes := encSig r s) (pos := 0) (tag := TAG_SEQUENCE)
    (n := (encUint r ++ encUint s).length) (rest := encUint r ++ encUint s)
    (by simp [encSig, encTlv]) tagOfByte_seq (by simp [MAX_LEN] at *; omega) hmax
  rw [hel] at hhdr
  have hd1 : (encSig r s).drop (0 + 1 + 1) = encTlv TAG_INTEGER (uintContent r) ++ encUint s := by
    rw [← encUint_eq]
    have hcl' : (encUint r).length + (encUint s).length < 128 := by simpa using hcl
    simp [encSig, encTlv, encLen_1 hcl']
  have hany1 := anyDecode_enc hd1 tagOfByte_int hmax
  have hd2 : (encSig r s).drop (0 + 1 + 1 + (encTlv TAG_INTEGER (uintContent r)).length)
      = encTlv TAG_INTEGER (uintContent s) ++ [] := by
    rw [← encUint_eq, ← encUint_eq, ← List.drop_drop]
    simp only [Nat.zero_add] at hd1
    rw [show (0 + 1 + 1 : Nat) = 1 + 1 from rfl, hd1, ← encUint_eq]
    simp
  have hany2 := anyDecode_enc hd2 tagOfByte_int hmax
  obtain ⟨hp1, hq1⟩ := padLeft_uintContent hr
  obtain ⟨hp2, hq2⟩ := padLeft_uintContent hs
  simp only [hnew, hhdr, hany1, hany2, mapInvalid, Bind.bind, Except.bind, copyIntegerToFixed_eq, P256_FE_LEN]
  rw [if_neg (by simp), if_neg (by simp), if_neg (by simp), if_neg (by omega), if_neg (by omega)]
  simp [hp1, hp2, Pure.pure, Except.pure]

example : Canon 32 [0x43, 0xa6, 0x3f] ∧ Canon 32 [] ∧ Canon 32 (List.replicate 32 0xff) := by
  refine ⟨⟨by decide, by decide, by decide⟩, ⟨by decide, by decide, by decide⟩, ⟨by decide, by decide, by decide⟩⟩

/-- an integer that needs more than 32 bytes is refused -/
theorem ecdsaDerToRaw_too_long {n : Nat} {integer : List Nat} (h : (stripZeros integer).length > n) :
    copyIntegerToFixed n integer = .error .invalid := by
  rw [copyIntegerToFixed_eq, if_pos h]

end Codec.DerRd
