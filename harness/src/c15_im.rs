//! C15 system-level wire tap over the REAL Interaction Model (`sysim` cases): the retransmissions of the IM's own
//! encoders - priming reports (chunked), subscription reports of the reporter task, read responses (chunked),
//! SubscribeResponse, status responses - while the reported attribute CHANGES between the first transmission and
//! the retransmission.
//!
//! `Exchange::send_with` produces a retransmission by calling the message builder AGAIN (same counter = same nonce);
//! a builder that re-read the live attribute would put a different plaintext under the same nonce. The IM encodes
//! into a retained buffer and its builder only copies it; this stream checks that on the wire.
//!
//!  * node 0: a real device: `Matter` + `InteractionModel` (reporter task running) + `Responder` (IM + secure channel),
//!    harness cluster on endpoint 1: integer attributes 0,1,3 and 700-byte octet strings 2,4 (a wildcard needs chunks);
//!  * node 1: a real controller: `Matter` + `InteractionModel::new_with_reports` + `Responder`; subscribes / reads
//!    through `ImClient` on the CASE session a real handshake established; reports arrive in a `ReportDataHandler`.
//!
//! ops (sequential; `sched=` as in `c15_sys.rs`: verdicts for the op's datagrams in send order;
//!      `mid=<ms>:<attr>:<val>[,…]`: `<ms>` after the op started the attribute is set + `notify_attr_changed`):
//!   `hs sched=…`                      real CASE handshake controller -> device
//!   `sub min=<s> max=<s> sel=w|l sched=… mid=…`   subscribe (wildcard on the cluster | attributes 0,1,3)
//!   `chg a=<attr> v=<val> wait=<ms> sched=… mid=…` change + notify, then let the reporter work for `<ms>`
//!   `read sel=w|l sched=… mid=…`     read transaction
//!   `tap`                             => the complete wire log (as `c15_sys.rs`)
//! result of `sub` / `read` / `chg`: `ok|err:<code> <what the controller decoded: attr=value,…>`
use std::cell::RefCell;
use std::collections::VecDeque;
use std::future::Future;
use std::pin::Pin;
use std::rc::Rc;

use embassy_futures::join::join;
use embassy_futures::select::{select, select3, Either};
use embassy_time::{Duration, MockDriver, Timer};

use rs_matter::acl::{AclEntry, AuthMode};
use rs_matter::crypto::test_only_crypto;
use rs_matter::dm::clusters::net_comm::{DummyNetworks, NetworkType};
use rs_matter::dm::devices::test::{TEST_DEV_ATT, TEST_DEV_COMM, TEST_DEV_DET};
use rs_matter::dm::devices::DEV_TYPE_ON_OFF_LIGHT;
use rs_matter::dm::networks::wireless::NoopWirelessNetCtl;
use rs_matter::dm::{
    Access, Async, AttrChangeNotifier, Attribute, Cluster, Dataver, EmptyHandler, Endpoint, Handler, InvokeContext, InvokeReply,
    MatchContext, Node, NonBlockingHandler, Privilege, Quality, ReadContext, ReadReply, Reply, ReportContext as RepCtx,
    ReportDataHandler, WriteContext,
};
use rs_matter::error::{Error, ErrorCode};
use rs_matter::im::client::{ImClient, SubscribeOutcome, TxOutcome};
use rs_matter::im::encoding::ReportDataResp;
use rs_matter::im::{AttrPath, AttrResp, GenericPath, IMStatusCode, InteractionModel, InteractionModelState};
use rs_matter::persist::DummyKvBlobStore;
use rs_matter::respond::Responder;
use rs_matter::tlv::TLVWrite;
use rs_matter::transport::exchange::{Exchange, MatterBuffers};
use rs_matter::transport::network::NoNetwork;
use rs_matter::{attributes, clusters, commands, events, with, Matter};

use super::sys::{drive, err_code, install_fabric, kvs, newest_secure_session, num, perform, session_ids, Tasks, DEV_NODE, DEV_PW};
use super::wiretap::{parse_sched, Sched};
use crate::c19::Keys;
use crate::proto::Out;
use crate::simnet::{addr_of, SimNet, Verdict};

const EP: u16 = 1;
const CLUSTER_ID: u32 = 0xFFF1_FC31;
const BALLAST: usize = 700;
const INTS: [u32; 3] = [0, 1, 3];
const BALLASTS: [u32; 2] = [2, 4];
const CTL_NODE: u64 = 100;

macro_rules! attr {
    ($id:expr) => {
        Attribute::new($id, Access::RV, Quality::NONE)
    };
}

const CLUSTER: Cluster<'static> = Cluster {
    id: CLUSTER_ID,
    revision: 1,
    feature_map: 0,
    attributes: attributes!(attr!(0), attr!(1), attr!(2), attr!(3), attr!(4),),
    commands: commands!(),
    events: events!(),
    with_attrs: with!(all),
    with_cmds: with!(all),
    with_events: with!(all),
};

const NODE: Node<'static> = Node { endpoints: &[Endpoint::new(EP, &[DEV_TYPE_ON_OFF_LIGHT], clusters!(CLUSTER))] };

type Vals = Rc<RefCell<[u32; 5]>>;

/// the device's cluster: every read returns the LIVE value
struct ImHandler {
    dataver: Dataver,
    vals: Vals,
    reads: Rc<std::cell::Cell<u64>>,
}

impl Handler for ImHandler {
    fn read(&self, ctx: impl ReadContext, reply: impl ReadReply) -> Result<(), Error> {
        let attr = ctx.attr();
        if let Some(mut writer) = reply.with_dataver(self.dataver.get())? {
            if attr.is_system() {
                return CLUSTER.read(attr, writer);
            }
            let id = attr.attr_id;
            let tag = writer.tag();
            self.reads.set(self.reads.get() + 1);
            if INTS.contains(&id) {
                let v = self.vals.borrow()[id as usize];
                writer.writer().u32(tag, v)?;
                writer.complete()
            } else if BALLASTS.contains(&id) {
                // the ballast follows attribute 0: a re-read chunk would differ in 700 bytes
                let v = vec![(self.vals.borrow()[0] as u8) ^ (id as u8); BALLAST];
                writer.writer().str(tag, &v)?;
                writer.complete()
            } else {
                Err(ErrorCode::AttributeNotFound.into())
            }
        } else {
            Ok(())
        }
    }
    fn write(&self, _ctx: impl WriteContext) -> Result<(), Error> {
        Err(ErrorCode::AttributeNotFound.into())
    }
    fn invoke(&self, _ctx: impl InvokeContext, _reply: impl InvokeReply) -> Result<(), Error> {
        Err(ErrorCode::CommandNotFound.into())
    }
    fn bump_dataver(&self, _ctx: impl MatchContext) {
        self.dataver.changed();
    }
}

impl NonBlockingHandler for ImHandler {}

fn items_of(report: &ReportDataResp<'_>) -> String {
    let mut items = Vec::new();
    if let Some(reports) = &report.attr_reports {
        for (k, r) in reports.iter().enumerate() {
            if k >= 64 {
                items.push("cap".to_string());
                break;
            }
            match r {
                Ok(AttrResp::Data(d)) => {
                    let id = d.path.attr.unwrap_or(0xffff);
                    if d.path.cluster != Some(CLUSTER_ID) {
                        continue;
                    }
                    if INTS.contains(&id) {
                        items.push(match d.data.u32() {
                            Ok(v) => format!("{}={}", id, v),
                            Err(_) => format!("{}=?", id),
                        });
                    } else if BALLASTS.contains(&id) {
                        items.push(match d.data.str() {
                            Ok(s) => format!("{}=b{}", id, s.first().copied().unwrap_or(0)),
                            Err(_) => format!("{}=?", id),
                        });
                    }
                }
                Ok(AttrResp::Status(_)) => items.push("s".into()),
                Err(_) => {
                    items.push("err".into());
                    break;
                }
            }
        }
    }
    if items.is_empty() {
        "-".into()
    } else {
        items.join(",")
    }
}

/// the controller's report handler: records what the reporter sent
struct Reports(RefCell<Vec<String>>);
impl ReportDataHandler for Reports {
    async fn handle_report(&self, _ctx: impl RepCtx, report: &ReportDataResp<'_>) -> Result<(), IMStatusCode> {
        self.0.borrow_mut().push(items_of(report));
        Ok(())
    }
}

fn paths_of(sel: &str) -> Vec<AttrPath> {
    if sel == "l" {
        INTS.iter().map(|a| AttrPath::from_gp(&GenericPath::new(Some(EP), Some(CLUSTER_ID), Some(*a)))).collect()
    } else {
        vec![AttrPath::from_gp(&GenericPath::new(Some(EP), Some(CLUSTER_ID), None))]
    }
}

async fn subscribe_flow(exchange: Exchange<'_>, min: u16, max: u16, sel: &str, seen: &RefCell<Vec<String>>) -> Result<(), Error> {
    let mut sender = exchange.subscribe_sender().await?;
    let paths = paths_of(sel);
    let mut chunk = loop {
        match sender.tx().await? {
            TxOutcome::BuildRequest(builder) => {
                sender = builder.keep_subs(false)?.min_int_floor(min)?.max_int_ceil(max)?.attr_requests_from(&paths)?.fabric_filtered(false)?.end()?;
            }
            TxOutcome::GotResponse(c) => break c,
        }
    };
    let mut n = 0;
    loop {
        seen.borrow_mut().push(items_of(&chunk.response()?));
        n += 1;
        if n > 40 {
            return Err(ErrorCode::Invalid.into());
        }
        match chunk.complete().await? {
            SubscribeOutcome::NextChunk(next) => chunk = next,
            SubscribeOutcome::Established(_) => return Ok(()),
        }
    }
}

async fn read_flow(exchange: Exchange<'_>, sel: &str, seen: &RefCell<Vec<String>>) -> Result<(), Error> {
    let mut sender = exchange.read_sender().await?;
    let paths = paths_of(sel);
    let mut chunk = loop {
        match sender.tx().await? {
            TxOutcome::BuildRequest(builder) => {
                sender = builder.attr_requests_from(&paths)?.fabric_filtered(false)?.end()?;
            }
            TxOutcome::GotResponse(c) => break c,
        }
    };
    let mut n = 0;
    loop {
        seen.borrow_mut().push(items_of(&chunk.response()?));
        n += 1;
        if n > 40 {
            return Err(ErrorCode::Invalid.into());
        }
        match chunk.complete().await? {
            Some(next) => chunk = next,
            None => return Ok(()),
        }
    }
}

fn parse_mid(s: Option<&String>) -> Vec<(u64, u32, u32)> {
    let mut v: Vec<(u64, u32, u32)> = s
        .map(|s| {
            s.split(',')
                .filter_map(|t| {
                    let p: Vec<&str> = t.split(':').collect();
                    Some((p.first()?.parse().ok()?, p.get(1)?.parse().ok()?, p.get(2)?.parse().ok()?))
                })
                .take(8)
                .collect()
        })
        .unwrap_or_default();
    v.sort();
    v
}

pub fn run_case(kind: &str, ops: &[String]) -> Vec<String> {
    MockDriver::get().reset();
    MockDriver::get().advance(Duration::from_millis(1000));
    let km = kvs(kind);
    let lat = num(&km, "lat").unwrap_or(5).min(100);
    let sched: Rc<RefCell<VecDeque<Verdict>>> = Rc::new(RefCell::new(VecDeque::new()));
    let net = SimNet::new(2, Box::new(Sched(sched.clone(), lat)));
    let crypto = test_only_crypto();
    let keys = Keys::new(&crypto);
    let dev = Box::new(Matter::new(&TEST_DEV_DET, TEST_DEV_COMM, &TEST_DEV_ATT, 0));
    let ctl = Box::new(Matter::new(&TEST_DEV_DET, TEST_DEV_COMM, &TEST_DEV_ATT, 0));
    let _ = install_fabric(&crypto, &keys, &dev, DEV_NODE);
    let ctl_fab = install_fabric(&crypto, &keys, &ctl, CTL_NODE);
    // the controller administers the device
    dev.with_state(|st| {
        let mut acl = AclEntry::new(None, Privilege::ADMIN, AuthMode::Case);
        let _ = acl.add_subject(CTL_NODE);
        if let Ok(f) = st.fabrics.fabric_mut(core::num::NonZeroU8::new(1).unwrap()) {
            let _ = f.acl_add(acl);
        }
    });
    let socks: Vec<_> = (0..2).map(|i| net.socket(i)).collect();
    let vals: Vals = Rc::new(RefCell::new([10, 11, 0, 13, 0]));
    let reads = Rc::new(std::cell::Cell::new(0u64));

    // device stack
    let dev_state: Box<InteractionModelState<DummyNetworks, 4, 1024>> = Box::new(InteractionModelState::new(DummyNetworks));
    dev_state.suppress_start_up_event();
    let dev_bufs: Box<MatterBuffers> = Box::new(MatterBuffers::new());
    let dev_kv = dev.kv(DummyKvBlobStore);
    let handler = (NODE, Async(ImHandler { dataver: Dataver::new(7), vals: vals.clone(), reads: reads.clone() }));
    let dm = InteractionModel::new(&*dev, &crypto, &*dev_bufs, handler, &dev_kv, &*dev_state);
    {
        let mut f = core::pin::pin!(dm.startup());
        let _ = futures_lite::future::block_on(futures_lite::future::poll_once(f.as_mut()));
    }
    let dev_resp = Responder::new_default(&dm);

    // controller stack
    let reports = Reports(RefCell::new(Vec::new()));
    let ctl_state: Box<InteractionModelState<DummyNetworks, 1, 64>> = Box::new(InteractionModelState::new(DummyNetworks));
    ctl_state.suppress_start_up_event();
    let ctl_bufs: Box<MatterBuffers> = Box::new(MatterBuffers::new());
    let ctl_kv = ctl.kv(DummyKvBlobStore);
    let ctl_dm = InteractionModel::new_with_reports(
        &*ctl,
        test_only_crypto(),
        &*ctl_bufs,
        (Node::new(&[]), EmptyHandler),
        &ctl_kv,
        NoopWirelessNetCtl::new(NetworkType::Ethernet),
        &reports,
        &*ctl_state,
    );
    let ctl_resp = Responder::new_default(&ctl_dm);

    let mut tasks: Vec<Option<Pin<Box<dyn Future<Output = ()> + '_>>>> = Vec::new();
    {
        let (dev, ctl, crypto, dm, dev_resp, ctl_resp) = (&*dev, &*ctl, &crypto, &dm, &dev_resp, &ctl_resp);
        let (s0, s1) = (&socks[0], &socks[1]);
        tasks.push(Some(Box::pin(async move {
            let _ = select3(dev.run(crypto, s0, s0, NoNetwork), dev_resp.run::<4>(), dm.run()).await;
        })));
        tasks.push(Some(Box::pin(async move {
            let _ = select(ctl.run(crypto, s1, s1, NoNetwork), ctl_resp.run::<4>()).await;
        })));
    }
    let results: RefCell<Vec<String>> = RefCell::new(Vec::new());
    {
        let script = async {
            let mut cur: Option<u32> = None;
            for op in ops {
                let w: Vec<&str> = op.split_whitespace().collect();
                let m = kvs(op);
                *sched.borrow_mut() = parse_sched(m.get("sched").map(|s| s.as_str()).unwrap_or(""));
                let mids = parse_mid(m.get("mid"));
                // the concurrent change(s) of the attribute
                let changer = async {
                    let mut t = 0u64;
                    for (ms, a, v) in mids.iter() {
                        Timer::after(Duration::from_millis(ms.saturating_sub(t))).await;
                        t = *ms;
                        if INTS.contains(a) {
                            vals.borrow_mut()[*a as usize] = *v;
                            dm.notify_attr_changed(EP, CLUSTER_ID, *a);
                            if *a == 0 {
                                // (the ballast follows attribute 0)
                                dm.notify_attr_changed(EP, CLUSTER_ID, 2);
                                dm.notify_attr_changed(EP, CLUSTER_ID, 4);
                            }
                        }
                    }
                };
                let seen: RefCell<Vec<String>> = RefCell::new(Vec::new());
                let sel = m.get("sel").map(|s| s.as_str()).unwrap_or("w");
                let r: String = match w.first().copied().unwrap_or("") {
                    "hs" => {
                        let bc = session_ids(&ctl);
                        let r = async {
                            let ex = Exchange::initiate_plaintext(&ctl, &crypto, addr_of(0)).await?;
                            perform("case", &ctl, &crypto, ctl_fab, DEV_PW, ex).await
                        }
                        .await;
                        Timer::after(Duration::from_millis(3_000)).await;
                        match r {
                            Ok(()) => match newest_secure_session(&ctl, &bc) {
                                Some(c) => {
                                    cur = Some(c);
                                    "ok".into()
                                }
                                None => "err:nosession".into(),
                            },
                            Err(e) => format!("err:{}", err_code(&e)),
                        }
                    }
                    "sub" | "read" => match cur {
                        None => "skip".into(),
                        Some(c) => {
                            let min = num(&m, "min").unwrap_or(0).min(60) as u16;
                            let max = num(&m, "max").unwrap_or(60).clamp(1, 600) as u16;
                            let flow = async {
                                let ex = Exchange::initiate_for_session(&ctl, &crypto, c)?;
                                let f = async {
                                    if w[0] == "sub" {
                                        subscribe_flow(ex, min, max, sel, &seen).await
                                    } else {
                                        read_flow(ex, sel, &seen).await
                                    }
                                };
                                match select(core::pin::pin!(f), core::pin::pin!(Timer::after(Duration::from_secs(60)))).await {
                                    Either::First(r) => r,
                                    Either::Second(_) => Err(ErrorCode::RxTimeout.into()),
                                }
                            };
                            let (r, _) = join(flow, changer).await;
                            // stragglers: retransmissions still in flight, acknowledgements of duplicates, the report of the change
                            Timer::after(Duration::from_millis(4_000)).await;
                            let s = seen.borrow().join("|");
                            match r {
                                Ok(()) => format!("ok {}", if s.is_empty() { "-" } else { &s }),
                                Err(e) => format!("err:{} {}", err_code(&e), if s.is_empty() { "-" } else { &s }),
                            }
                        }
                    },
                    "chg" => {
                        let a = num(&m, "a").unwrap_or(0) as u32;
                        let v = num(&m, "v").unwrap_or(0) as u32;
                        let wait = num(&m, "wait").unwrap_or(3000).min(30_000);
                        let before = reports.0.borrow().len();
                        let first = async {
                            if INTS.contains(&a) {
                                vals.borrow_mut()[a as usize] = v;
                                dm.notify_attr_changed(EP, CLUSTER_ID, a);
                                if a == 0 {
                                    dm.notify_attr_changed(EP, CLUSTER_ID, 2);
                                    dm.notify_attr_changed(EP, CLUSTER_ID, 4);
                                }
                            }
                            Timer::after(Duration::from_millis(wait)).await;
                        };
                        let _ = join(first, changer).await;
                        let got: Vec<String> = reports.0.borrow()[before..].to_vec();
                        format!("ok {}", if got.is_empty() { "-".to_string() } else { got.join("|") })
                    }
                    "tap" => "-".into(),
                    _ => "bad".into(),
                };
                results.borrow_mut().push(r);
            }
        };
        let all = Tasks(tasks);
        let both = core::pin::pin!(select(all, script));
        let _ = drive(&net, both, 900_000);
    }
    let mut out = results.into_inner();
    while out.len() < ops.len() {
        out.push("hang".into());
    }
    let wire: Vec<String> = net
        .log()
        .iter()
        .map(|l| {
            let v = match l.verdict {
                Verdict::Deliver => "d".to_string(),
                Verdict::Drop => "x".to_string(),
                Verdict::Dup => "u".to_string(),
                Verdict::Delay(ms) => format!("l{}", ms),
            };
            format!("{}:{}:{}:{}", l.t_ms, l.from, v, crate::proto::hex(&l.bytes))
        })
        .collect();
    for (i, op) in ops.iter().enumerate() {
        if op.starts_with("tap") {
            out[i] = format!("{} {}", wire.len(), wire.join(","));
        }
    }
    // how often the device's handler was asked for a value (statistics)
    out.push(format!("reads={}", reads.get()));
    out
}

pub fn run_sys(out: &mut Out, kind: &str, ops: &[String]) {
    let mut r = match std::panic::catch_unwind(std::panic::AssertUnwindSafe(|| run_case(kind, ops))) {
        Ok(r) => r,
        Err(_) => ops.iter().map(|_| "panic".to_string()).collect(),
    };
    if r.len() > ops.len() {
        if let Some(n) = r.pop().and_then(|s| s.strip_prefix("reads=").and_then(|n| n.parse::<u64>().ok())) {
            out.stat("sysim_handler_reads", n);
        }
    }
    for (op, res) in ops.iter().zip(r.iter()) {
        let head = op.split_whitespace().next().unwrap_or("?");
        out.stat(&format!("sysim_op_{}", head), 1);
        if head != "tap" {
            out.stat(&format!("sysim_{}_{}", head, res.split([':', ' ']).next().unwrap_or("?")), 1);
            if head == "chg" && res.contains('|') {
                out.stat("sysim_chg_with_several_reports", 1);
            }
        } else {
            out.stat("sysim_datagrams", res.split_whitespace().next().and_then(|n| n.parse().ok()).unwrap_or(0));
        }
        out.op(op, res);
    }
}
