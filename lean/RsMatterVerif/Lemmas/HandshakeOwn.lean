import RsMatterVerif.Lemmas.Handshake
import RsMatterVerif.Lemmas.RxPath
/-!
# Owned exchange slots and live `Exchange` handles correspond — over all histories (C20)

`HInv`: in every reachable state of `Model/Handshake.lean` an exchange slot of a session of the table
is owned by a task (`Initiator(Owned)` / `Responder(Owned)`) exactly if a live `Exchange` handle points
to it. Proved by following the owned slots through every table function the steps are composed of
(`OwnFrame`). Consequences (in `Props/C20.lean`): a session a live handle points to is never the
eviction victim, and at quiescence no slot is owned.
-/
namespace Handshake
open Transport

/-- every session of `t'` is (a changed copy of) a session of `t` with the same uid whose owned slots
are those of the original, except the coordinates in `rem` (no longer owned) and `add` (newly owned) -/
def OwnFrame (t t' : Table) (add rem : List (Nat × Nat)) : Prop :=
  ∀ y ∈ t'.sessions, ∃ x ∈ t.sessions, x.uid = y.uid ∧
    ∀ i, (ownedSlot (y.slot i) = true ↔
      ((ownedSlot (x.slot i) = true ∧ (y.uid, i) ∉ rem) ∨ (y.uid, i) ∈ add))

theorem ownFrame_same {t t' : Table}
    (h : ∀ y ∈ t'.sessions, ∃ x ∈ t.sessions, x.uid = y.uid ∧ ∀ i, ownedSlot (y.slot i) = ownedSlot (x.slot i)) :
    OwnFrame t t' [] [] := by
  intro y hy
  obtain ⟨x, hx, hu, hs⟩ := h y hy
  refine ⟨x, hx, hu, fun i => ?_⟩
  rw [hs i]
  simp

theorem ownFrame_refl (t : Table) : OwnFrame t t [] [] :=
  ownFrame_same (fun y hy => ⟨y, hy, rfl, fun _ => rfl⟩)

theorem ownFrame_sub {t t' : Table} (h : ∀ y ∈ t'.sessions, y ∈ t.sessions) : OwnFrame t t' [] [] :=
  ownFrame_same (fun y hy => ⟨y, h y hy, rfl, fun _ => rfl⟩)

/-- an identity frame in front -/
theorem OwnFrame.after {a b c : Table} {add rem : List (Nat × Nat)} (h1 : OwnFrame a b [] [])
    (h2 : OwnFrame b c add rem) : OwnFrame a c add rem := by
  intro y hy
  obtain ⟨x, hx, hu, hs⟩ := h2 y hy
  obtain ⟨w, hw, hu', hs'⟩ := h1 x hx
  refine ⟨w, hw, hu'.trans hu, fun i => ?_⟩
  rw [hs i]
  have := hs' i
  simp only [List.not_mem_nil, not_false_eq_true, and_true, or_false] at this
  rw [this]

/-- an identity frame behind -/
theorem OwnFrame.before {a b c : Table} {add rem : List (Nat × Nat)} (h1 : OwnFrame a b add rem)
    (h2 : OwnFrame b c [] []) : OwnFrame a c add rem := by
  intro y hy
  obtain ⟨x, hx, hu, hs⟩ := h2 y hy
  obtain ⟨w, hw, hu', hs'⟩ := h1 x hx
  refine ⟨w, hw, hu'.trans hu, fun i => ?_⟩
  have := hs i
  simp only [List.not_mem_nil, not_false_eq_true, and_true, or_false] at this
  rw [this, hs' i, hu]

theorem ownFrame_congr {t t1 t2 : Table} {add rem : List (Nat × Nat)} (h : OwnFrame t t1 add rem)
    (hs : t2.sessions = t1.sessions) : OwnFrame t t2 add rem := by
  intro y hy; rw [hs] at hy; exact h y hy

theorem ownFrame_remove (t : Table) (hn : UidNodup t) (uid : Nat) : OwnFrame t (t.remove uid).1 [] [] :=
  ownFrame_sub (fun y hy => ((mem_remove t hn uid y).1 hy).1)

theorem ownFrame_get (t : Table) (hn : UidNodup t) (uid now : Nat) : OwnFrame t (t.get uid now).1 [] [] := by
  rcases get_spec t hn uid now with ⟨_, h, _⟩ | ⟨s0, hm, hu, _, h⟩
  · rw [h]; exact ownFrame_refl t
  · rw [h]
    apply ownFrame_same
    intro y hy
    rcases (mem_setSess t hn ({ s0 with lastUse := now } : Sess) ⟨s0, hm, rfl⟩ y).1 hy with h1 | ⟨h1, _⟩
    · rw [h1]; exact ⟨s0, hm, rfl, fun _ => rfl⟩
    · exact ⟨y, h1, rfl, fun _ => rfl⟩

/-- look up, change the slots of that one session, write back -/
theorem ownFrame_getSet (t : Table) (hn : UidNodup t) (uid now : Nat) (x0 y : Sess) (add rem : List (Nat × Nat))
    (hg : (t.get uid now).2 = some x0) (hy : y.uid = uid)
    (hsl : ∀ i, (ownedSlot (y.slot i) = true ↔ ((ownedSlot (x0.slot i) = true ∧ (uid, i) ∉ rem) ∨ (uid, i) ∈ add)))
    (hloc : ∀ p, p ∈ add ∨ p ∈ rem → p.1 = uid) :
    OwnFrame t ((t.get uid now).1.setSess y) add rem := by
  obtain ⟨s0, hm, hu, h0, _, _, _, hmem⟩ := getSet_spec t hn uid now x0 y hg hy
  intro z hz
  rcases (hmem z).1 hz with h | ⟨h, hne⟩
  · subst h
    refine ⟨s0, hm, by rw [hu, hy], fun i => ?_⟩
    rw [hsl i, hy, h0]
    rfl
  · refine ⟨z, h, rfl, fun i => ?_⟩
    have h1 : (z.uid, i) ∉ rem := fun hin => hne (hloc _ (Or.inr hin))
    have h2 : (z.uid, i) ∉ add := fun hin => hne (hloc _ (Or.inl hin))
    simp [h1, h2]

theorem ownFrame_getSet_same (t : Table) (hn : UidNodup t) (uid now : Nat) (x0 y : Sess)
    (hg : (t.get uid now).2 = some x0) (hy : y.uid = uid)
    (hsl : ∀ i, ownedSlot (y.slot i) = ownedSlot (x0.slot i)) :
    OwnFrame t ((t.get uid now).1.setSess y) [] [] :=
  ownFrame_getSet t hn uid now x0 y [] [] hg hy (fun i => by rw [hsl i]; simp) (fun p hp => by simp at hp)

/-! ## the table functions -/

theorem ownedSlot_mrp (e : Exch) (m : Mrp) : ownedSlot (some { e with mrp := m }) = ownedSlot (some e) := rfl

theorem postRecv_owned (s : Sess) (h : RxHdr) (now : Nat) (i : Nat) :
    ownedSlot ((s.postRecv h now).1.slot i) = ownedSlot (s.slot i) := by
  have hspec := postRecv_effect s h now
  unfold RecvSpec at hspec
  cases hr : (s.postRecv h now).2 with
  | error er => rw [hspec.2.2 er hr i]
  | ok b =>
    cases b with
    | false =>
      obtain ⟨k, e, m, _, hs, hs', hrest⟩ := hspec.1 hr
      by_cases hik : i = k
      · subst hik; rw [hs', hs]; rfl
      · rw [hrest i hik]
    | true =>
      obtain ⟨_, _, _, _, k, m, hfree, hnew, hrest⟩ := hspec.2.1 hr
      by_cases hik : i = k
      · subst hik; rw [hnew, hfree]; rfl
      · rw [hrest i hik]

theorem ownFrame_recv (t : Table) (hn : UidNodup t) (uid now : Nat) (h : RxHdr) (x0 : Sess)
    (hg : (t.get uid now).2 = some x0) :
    OwnFrame t ((t.get uid now).1.setSess (x0.postRecv h now).1) [] [] :=
  ownFrame_getSet_same t hn uid now x0 _ hg ((postRecv_flags x0 h now).1.trans (get_some_uid t hn uid now x0 hg))
    (postRecv_owned x0 h now)

theorem ownFrame_expire (t : Table) (hn : UidNodup t) (uid now : Nat) (x0 : Sess)
    (hg : (t.get uid now).2 = some x0) :
    OwnFrame t ((t.get uid now).1.setSess { x0 with expired := true }) [] [] :=
  ownFrame_getSet_same t hn uid now x0 _ hg (get_some_uid t hn uid now x0 hg) (fun _ => rfl)

theorem ownFrame_reservedUpdate (t : Table) (hn : UidNodup t) (uid l p : Nat) (m : Mode) (now : Nat) :
    OwnFrame t (t.reservedUpdate uid l p m now).1 [] [] := by
  rw [reservedUpdate_fst]
  cases hg : (t.get uid now).2 with
  | none => exact ownFrame_get t hn uid now
  | some x0 => exact ownFrame_getSet_same t hn uid now x0 _ hg (get_some_uid t hn uid now x0 hg) (fun _ => rfl)

theorem ownFrame_reservedComplete (t : Table) (hn : UidNodup t) (uid now : Nat) :
    OwnFrame t (t.reservedComplete uid now).1 [] [] := by
  rw [reservedComplete_fst]
  cases hg : (t.get uid now).2 with
  | none => exact ownFrame_get t hn uid now
  | some x0 => exact ownFrame_getSet_same t hn uid now x0 _ hg (get_some_uid t hn uid now x0 hg) (fun _ => rfl)

/-- the handle `initiate_for_session` returns -/
def initAdd (uid : Nat) : Except Err (Nat × Nat) → List (Nat × Nat)
  | .ok (_, i) => [(uid, i)]
  | .error _ => []

theorem ownFrame_initiate (t : Table) (hn : UidNodup t) (uid now : Nat) :
    OwnFrame t (t.initiate uid now).1 (initAdd uid (t.initiate uid now).2) [] := by
  unfold Table.initiate
  rcases hq : t.get uid now with ⟨t1, so⟩
  have h1 : (t.get uid now).1 = t1 := by rw [hq]
  have h2 : (t.get uid now).2 = so := by rw [hq]
  have hget : OwnFrame t t1 [] [] := by rw [← h1]; exact ownFrame_get t hn uid now
  cases so with
  | none => exact hget
  | some x0 =>
    simp only
    split
    · exact hget
    · simp only [Table.nextExchId]
      split
      · rename_i s' i hadd
        have hfl := addExch_flags _ _ _ _ _ hadd
        have hx := get_some_uid t hn uid now x0 h2
        have hsl := addExch_slot _ _ _ _ _ hadd
        have hb := ownFrame_getSet t hn uid now x0 s' [(uid, i)] [] h2 (hfl.1.trans hx) (fun k => by
          rw [hsl.2.2 k]
          by_cases hki : k = i
          · subst hki; simp [ownedSlot]
          · simp [hki]) (fun p hp => by simp at hp; rw [hp])
        rw [h1] at hb
        exact ownFrame_congr hb (setSess_nextExch t1 _ s').1
      · exact ownFrame_congr hget rfl

/-- the handle `accept_if` returns -/
def acceptAdd (uid i : Nat) (ok : Bool) : List (Nat × Nat) := if ok then [(uid, i)] else []

theorem ownFrame_accept (t : Table) (hn : UidNodup t) (uid i now : Nat) :
    OwnFrame t (t.accept uid i now).1 (acceptAdd uid i (t.accept uid i now).2) [] := by
  unfold Table.accept
  rcases hq : t.get uid now with ⟨t1, so⟩
  have h1 : (t.get uid now).1 = t1 := by rw [hq]
  have h2 : (t.get uid now).2 = so := by rw [hq]
  have hget : OwnFrame t t1 [] [] := by rw [← h1]; exact ownFrame_get t hn uid now
  cases so with
  | none => exact hget
  | some x0 =>
    simp only
    split
    · rename_i e he
      split
      · have hx := get_some_uid t hn uid now x0 h2
        have hlt := slot_lt x0 i e he
        rw [← h1]
        refine ownFrame_getSet t hn uid now x0 _ [(uid, i)] [] h2 hx (fun k => ?_) (fun p hp => by simp [acceptAdd] at hp; rw [hp])
        rw [slot_set]
        by_cases hki : i = k
        · subst hki; simp [hlt, ownedSlot]
        · have : k ≠ i := fun h => hki h.symm
          simp [hki, this]
      · exact hget
    · exact hget

theorem ownFrame_dropExchange (t : Table) (hn : UidNodup t) (uid i now : Nat) :
    OwnFrame t (t.dropExchange uid i now).1 [] [(uid, i)] := by
  unfold Table.dropExchange
  rcases hq : t.get uid now with ⟨t1, so⟩
  have h1 : (t.get uid now).1 = t1 := by rw [hq]
  have h2 : (t.get uid now).2 = so := by rw [hq]
  cases so with
  | none =>
    -- no such session: nothing changes, and no session has that uid
    rcases get_spec t hn uid now with ⟨_, hsame, hnone⟩ | ⟨s0, _, _, h2', _⟩
    · simp only
      rw [← h1, hsame]
      intro y hy
      refine ⟨y, hy, rfl, fun k => ?_⟩
      have : (y.uid, k) ∉ [(uid, i)] := by
        intro hin; simp at hin; exact hnone y hy hin.1
      simp [this]
    · rw [h2'] at h2; cases h2
  | some x0 =>
    simp only
    have hx := get_some_uid t hn uid now x0 h2
    have hfl := removeExch_flags x0 i
    have hb := ownFrame_getSet t hn uid now x0 (x0.removeExch i).1 [] [(uid, i)] h2 (hfl.1.trans hx) (fun k => ?_)
      (fun p hp => by simp at hp; rw [hp])
    · rw [h1] at hb; exact hb
    · cases he : x0.slot i with
      | none =>
        have : (x0.removeExch i).1 = x0 := by unfold Sess.removeExch; rw [he]
        rw [this]
        by_cases hki : k = i
        · subst hki; simp [he, ownedSlot]
        · simp [hki]
      | some e =>
        obtain ⟨_, _, k3⟩ := RxPath.removeExch_shape x0 i e he
        rw [k3 k]
        by_cases hki : i = k
        · subst hki
          simp only [↓reduceIte, List.mem_singleton, not_true_eq_false, and_false, List.not_mem_nil, or_self, iff_false]
          split
          · cases e.role <;> simp [ownedSlot, RoleSt.setDropped]
          · simp [ownedSlot]
        · have : k ≠ i := fun h => hki h.symm
          simp [hki, this]

theorem ownFrame_sweepAccept (t : Table) (hn : UidNodup t) (port sid : Nat) (h : RxHdr) (now : Nat) :
    OwnFrame t (t.sweepAccept port sid h now).1 [] [] := by
  unfold Table.sweepAccept Table.getForRx
  split
  · rename_i t1 so hq
    split at hq
    · rename_i s1 _
      have h1 : (t.get s1.uid now).1 = t1 := by rw [hq]
      have h2 : (t.get s1.uid now).2 = so := by rw [hq]
      have hget : OwnFrame t t1 [] [] := by rw [← h1]; exact ownFrame_get t hn s1.uid now
      cases so with
      | none => exact hget
      | some x0 =>
        simp only
        split
        · exact hget
        · split
          · exact hget
          · rename_i i _ _ e he
            split
            · rename_i hc
              have hrp : e.role = .rp := by
                simp only [Bool.and_eq_true, decide_eq_true_eq] at hc; exact hc.1
              have hx := get_some_uid t hn s1.uid now x0 h2
              have hlt := slot_lt x0 i e he
              rw [← h1]
              refine ownFrame_getSet_same t hn s1.uid now x0 _ h2 hx (fun k => ?_)
              rw [slot_set]
              by_cases hki : i = k
              · subst hki
                simp only [↓reduceIte, hlt, he]
                simp only [ownedSlot, hrp]
                rfl
              · simp [hki]
            · exact hget
    · cases hq
      exact ownFrame_refl t

theorem ownedSlot_dropped {e : Exch} (h : e.role.isDropped = true) : ownedSlot (some e) = false := by
  cases hr : e.role <;> simp [hr, RoleSt.isDropped, ownedSlot] at h ⊢

theorem ownFrame_sweepDropped (t : Table) (hn : UidNodup t) (now : Nat) :
    OwnFrame t (t.sweepDropped now).1 [] [] := by
  unfold Table.sweepDropped
  split
  · rename_i uid _ _
    simp only [Table.nextExchId]
    have hget := ownFrame_get t hn uid now
    have hg2 : OwnFrame t ({ (t.get uid now).1 with nextExch := (allocLoop (t.get uid now).1.liveInitExchIds 65536 (t.get uid now).1.nextExch).2 } : Table) [] [] :=
      ownFrame_congr hget rfl
    have hn2 : UidNodup ({ (t.get uid now).1 with nextExch := (allocLoop (t.get uid now).1.liveInitExchIds 65536 (t.get uid now).1.nextExch).2 } : Table) :=
      (flagSub_get t hn uid now).nodup
    split
    · exact hg2.after (ownFrame_remove _ hn2 uid)
    · exact hg2
  · split
    · rename_i uid i hfd
      obtain ⟨s, hs, hsu, e', he', hd', _⟩ := RxPath.findDropped_some false _ _ _ hfd
      rcases hq : t.get uid now with ⟨t1, so⟩
      have h1 : (t.get uid now).1 = t1 := by rw [hq]
      have h2 : (t.get uid now).2 = so := by rw [hq]
      have hget : OwnFrame t t1 [] [] := by rw [← h1]; exact ownFrame_get t hn uid now
      cases so with
      | none => exact hget
      | some x0 =>
        simp only
        have hx := get_some_uid t hn uid now x0 h2
        -- the slot the closer frees is the dropped one it found
        have hx0 : ∀ k, x0.slot k = s.slot k := by
          rcases get_spec t hn uid now with ⟨hh, _, _⟩ | ⟨s0, hm0, hu0, hh2, _⟩
          · rw [hh] at h2; cases h2
          · rw [hh2] at h2
            cases h2
            have : s0 = s := nodup_map_inj (fun (z : Sess) => z.uid) t.sessions hn s0 hm0 s hs (by rw [hu0, hsu])
            intro k; rw [← this]; rfl
        split
        · rename_i e he
          have hee : e = e' := by
            have := hx0 i; rw [he, he'] at this; exact Option.some.inj this
          have hnot : ownedSlot (x0.slot i) = false := by rw [he, hee]; exact ownedSlot_dropped hd'
          have hlt := slot_lt x0 i e he
          split
          · obtain ⟨m, k1, k2, k3⟩ := RxPath.preSend_shape x0 i e he false none none
            have hfin : OwnFrame t ((t.get uid now).1.setSess
                { (x0.preSend (some i) false none none).1 with
                  exchs := (x0.preSend (some i) false none none).1.exchs.set i none }) [] [] := by
              refine ownFrame_getSet_same t hn uid now x0 _ h2 (k1.uid.trans hx) (fun k => ?_)
              rw [slot_set]
              by_cases hki : i = k
              · subst hki
                simp only [↓reduceIte, k2, hlt]
                rw [hnot]; rfl
              · simp only [hki, ↓reduceIte]
                rw [k3 k]
                simp [hki]
            rw [h1] at hfin
            split <;> exact hfin
          · rw [← h1]
            refine ownFrame_getSet_same t hn uid now x0 _ h2 hx (fun k => ?_)
            rw [slot_set]
            by_cases hki : i = k
            · subst hki
              simp only [↓reduceIte, hlt]
              rw [hnot]; rfl
            · simp [hki]
        · exact hget
    · exact ownFrame_refl t

/-! ## the invariant -/

structure HInv (s : Sys) : Prop where
  hbelow : ∀ h ∈ s.handles, h.1 < s.t.nextUid
  /-- an owned slot has a live handle -/
  ownedHave : ∀ x ∈ s.t.sessions, ∀ i, ownedSlot (x.slot i) = true → (x.uid, i) ∈ s.handles
  /-- a live handle whose session is still in the table points to an owned slot -/
  haveOwned : ∀ h ∈ s.handles, ∀ x ∈ s.t.sessions, x.uid = h.1 → ownedSlot (x.slot h.2) = true

theorem hinv_init : HInv init :=
  ⟨fun _ h => (by cases h), fun _ h => (by cases h), fun _ h => (by cases h)⟩

/-- a step described by an `OwnFrame` whose handle list changes accordingly keeps `HInv` -/
theorem hinv_of_frame (s : Sys) (hi : Inv s) (hs : HInv s) (t' : Table) (hs' : List (Nat × Nat))
    (add rem : List (Nat × Nat)) (hf : OwnFrame s.t t' add rem) (hnext : t'.nextUid = s.t.nextUid)
    (hh : ∀ p, p ∈ hs' ↔ (p ∈ add ∨ (p ∈ s.handles ∧ p ∉ rem)))
    (hadd : ∀ p ∈ add, ∃ x ∈ s.t.sessions, x.uid = p.1) : HInv { s with t := t', handles := hs' } := by
  refine ⟨?_, ?_, ?_⟩
  · intro h hh'
    show h.1 < t'.nextUid
    rw [hnext]
    rcases (hh h).1 hh' with h1 | ⟨h1, _⟩
    · obtain ⟨x, hx, hu⟩ := hadd h h1
      rw [← hu]; exact hi.below x hx
    · exact hs.hbelow h h1
  · intro y hy i ho
    show (y.uid, i) ∈ hs'
    obtain ⟨x, hx, hu, hsl⟩ := hf y hy
    rcases (hsl i).1 ho with ⟨h1, h2⟩ | h1
    · exact (hh _).2 (Or.inr ⟨by rw [← hu]; exact hs.ownedHave x hx i h1, h2⟩)
    · exact (hh _).2 (Or.inl h1)
  · intro h hh' y hy hyu
    show ownedSlot (y.slot h.2) = true
    obtain ⟨x, hx, hu, hsl⟩ := hf y hy
    rw [hsl h.2]
    have hp : (y.uid, h.2) = h := by rw [hyu]
    rcases (hh h).1 hh' with h1 | ⟨h1, h2⟩
    · right; rw [hp]; exact h1
    · left
      exact ⟨hs.haveOwned h h1 x hx (hu.trans hyu), by rw [hp]; exact h2⟩

/-- the common case: handles untouched -/
theorem hinv_quiet (s : Sys) (hi : Inv s) (hs : HInv s) (t' : Table) (hf : OwnFrame s.t t' [] [])
    (hnext : t'.nextUid = s.t.nextUid) : HInv { s with t := t' } :=
  hinv_of_frame s hi hs t' s.handles [] [] hf hnext (fun p => by simp) (fun p hp => by cases hp)

theorem freshSess_noSlots (uid ctr now port : Nat) (r : Bool) (i : Nat) :
    ownedSlot (({ uid := uid, ctr := ctr % (Consts.msgCtrRange + 1), reserved := r, lastUse := now, port := port } : Sess).slot i) = false := by
  simp [Sess.slot, ownedSlot]

/-- `Sessions::add`: the new session has no exchange, and no live handle carries its (fresh) uid -/
theorem hinv_add (s : Sys) (hi : Inv s) (hs : HInv s) (hw : noWrap s) (ctr : Nat) (r : Bool) (port : Nat) (g : List Guard) :
    HInv { s with t := (s.t.add ctr r s.now port).1, guards := g } := by
  have hnext := add_next s.t ctr r s.now port hw
  cases hr : (s.t.add ctr r s.now port).2 with
  | error e =>
    have hss := add_err_sessions s.t ctr r s.now port e hr
    refine ⟨?_, ?_, ?_⟩
    · intro h hh; show h.1 < (s.t.add ctr r s.now port).1.nextUid; rw [hnext]; exact Nat.lt_succ_of_lt (hs.hbelow h hh)
    · intro y hy i ho
      have hy' : y ∈ (s.t.add ctr r s.now port).1.sessions := hy
      rw [hss] at hy'
      exact hs.ownedHave y hy' i ho
    · intro h hh y hy hyu
      have hy' : y ∈ (s.t.add ctr r s.now port).1.sessions := hy
      rw [hss] at hy'
      exact hs.haveOwned h hh y hy' hyu
  | ok uid =>
    obtain ⟨hu, _, hss⟩ := add_ok_sessions s.t ctr r s.now port uid hr
    refine ⟨?_, ?_, ?_⟩
    · intro h hh; show h.1 < (s.t.add ctr r s.now port).1.nextUid; rw [hnext]; exact Nat.lt_succ_of_lt (hs.hbelow h hh)
    · intro y hy i ho
      have hy' : y ∈ (s.t.add ctr r s.now port).1.sessions := hy
      rw [hss, List.mem_append] at hy'
      rcases hy' with h1 | h1
      · exact hs.ownedHave y h1 i ho
      · simp only [List.mem_singleton] at h1
        rw [h1, freshSess_noSlots] at ho
        cases ho
    · intro h hh y hy hyu
      have hy' : y ∈ (s.t.add ctr r s.now port).1.sessions := hy
      rw [hss, List.mem_append] at hy'
      rcases hy' with h1 | h1
      · exact hs.haveOwned h hh y h1 hyu
      · simp only [List.mem_singleton] at h1
        exfalso
        have := hs.hbelow h hh
        rw [← hyu, h1, hu] at this
        exact Nat.lt_irrefl _ this

theorem hinv_step (s : Sys) (o : Op) (hi : Inv s) (hs : HInv s) (hw : noWrap s) : HInv (step s o) := by
  cases o with
  | add ctr port => exact hinv_add s hi hs hw ctr false port s.guards
  | reserve ctr =>
    simp only [step, opReserve]
    split
    · exact hinv_add s hi hs hw ctr true 0 _
    · exact hinv_add s hi hs hw ctr true 0 _
  | update uid l p m =>
    simp only [step, opUpdate]
    split
    · exact hinv_quiet s hi hs _ (ownFrame_reservedUpdate s.t hi.nodup uid l p m s.now)
        (flagSub_reservedUpdate s.t hi.nodup uid l p m s.now).next
    · exact hs
  | complete uid =>
    simp only [step, opComplete]
    split
    · have := hinv_quiet s hi hs _ (ownFrame_reservedComplete s.t hi.nodup uid s.now)
        (reservedComplete_spec s.t hi.nodup uid s.now).1
      exact ⟨this.hbelow, this.ownedHave, this.haveOwned⟩
    · exact hs
  | dropGuard uid =>
    simp only [step, opDropGuard]
    split
    · exact hs
    · split
      · have := hinv_quiet s hi hs _ (ownFrame_reservedComplete s.t hi.nodup uid s.now)
          (reservedComplete_spec s.t hi.nodup uid s.now).1
        exact ⟨this.hbelow, this.ownedHave, this.haveOwned⟩
      · have := hinv_quiet s hi hs _ (ownFrame_remove s.t hi.nodup uid) (remove_nextUid s.t uid)
        exact ⟨this.hbelow, this.ownedHave, this.haveOwned⟩
  | remove uid =>
    exact hinv_quiet s hi hs _ (ownFrame_remove s.t hi.nodup uid) (remove_nextUid s.t uid)
  | evict =>
    simp only [step, opEvict]
    split
    · exact hinv_quiet s hi hs _ (ownFrame_remove s.t hi.nodup _) (remove_nextUid s.t _)
    · exact hs
  | expire uid =>
    simp only [step, opExpire]
    split
    · rename_i x hg
      exact hinv_quiet s hi hs _ (ownFrame_expire s.t hi.nodup uid s.now x hg)
        (flagSub_expire s.t hi.nodup uid s.now x hg).next
    · exact hs
  | initiate uid =>
    simp only [step, opInitiate]
    have hf := ownFrame_initiate s.t hi.nodup uid s.now
    have hnext := (flagSub_initiate s.t hi.nodup uid s.now).next
    split
    · rename_i xid i hok
      rw [hok] at hf
      refine hinv_of_frame s hi hs _ _ [(uid, i)] [] hf hnext (fun p => by simp) ?_
      intro p hp
      simp only [List.mem_singleton] at hp
      subst hp
      -- the session exists, or `initiate` would not have answered `Ok`
      cases hsess : s.t.sess uid with
      | some x => exact ⟨x, (sess_some_mem s.t uid x hsess).1, (sess_some_mem s.t uid x hsess).2⟩
      | none =>
        exfalso
        have hga := RxPath.get_absent hsess s.now
        unfold Table.initiate at hok
        rw [hga] at hok
        simp at hok
    · rename_i e herr
      rw [herr] at hf
      exact hinv_quiet s hi hs _ hf hnext
  | recv uid h =>
    simp only [step, opRecv]
    split
    · exact hs
    · split
      · exact hs
      · split
        · rename_i x hg
          exact hinv_quiet s hi hs _ (ownFrame_recv s.t hi.nodup uid s.now h x hg)
            (flagSub_recv s.t hi.nodup uid s.now h x hg).next
        · exact hs
  | accept uid i =>
    simp only [step, opAccept]
    have hf := ownFrame_accept s.t hi.nodup uid i s.now
    have hnext := (flagSub_accept s.t hi.nodup uid i s.now).next
    split
    · rename_i hok
      rw [hok] at hf
      refine hinv_of_frame s hi hs _ _ [(uid, i)] [] hf hnext (fun p => by simp) ?_
      intro p hp
      simp only [List.mem_singleton] at hp
      subst hp
      cases hsess : s.t.sess uid with
      | some x => exact ⟨x, (sess_some_mem s.t uid x hsess).1, (sess_some_mem s.t uid x hsess).2⟩
      | none =>
        exfalso
        have hga := RxPath.get_absent hsess s.now
        unfold Table.accept at hok
        rw [hga] at hok
        simp at hok
    · rename_i hno
      have : (s.t.accept uid i s.now).2 = false := by simpa using hno
      rw [this] at hf
      exact hinv_quiet s hi hs _ hf hnext
  | dropHandle uid i =>
    simp only [step, opDropHandle]
    split
    · refine hinv_of_frame s hi hs _ _ [] [(uid, i)] (ownFrame_dropExchange s.t hi.nodup uid i s.now)
        (flagSub_dropExchange s.t hi.nodup uid i s.now).next (fun p => ?_) (fun p hp => by cases hp)
      simp [List.mem_filter]
    · exact hs
  | sweep =>
    exact hinv_quiet s hi hs _ (ownFrame_sweepDropped s.t hi.nodup s.now) (flagSub_sweepDropped s.t hi.nodup s.now).next
  | sweepAccept port sid h =>
    exact hinv_quiet s hi hs _ (ownFrame_sweepAccept s.t hi.nodup port sid h s.now) (flagSub_sweepAccept s.t hi.nodup port sid h s.now).next
  | tick ms => exact ⟨hs.hbelow, hs.ownedHave, hs.haveOwned⟩

/-- in every reachable state owned slots and live handles correspond -/
theorem hinv_reach (s : Sys) (h : Reach s) : HInv s := by
  induction h with
  | init => exact hinv_init
  | step s o hr hw ih => exact hinv_step s o (inv_reach s hr) ih hw

end Handshake
