import RsMatterVerif.Model.Admin
import RsMatterVerif.Model.AdminReset
import Driver.Util
/-!
Shared driver of C07 / C08 / C11: replays administrative histories on `Model/Admin` (the model's
status + canonical dump must equal the implementation's line) and evaluates the three properties'
specifications on the IMPLEMENTATION's own outputs.  The oracle below never looks at the model: it
parses the dumps the real code produced and keeps its own small bookkeeping
(fabric incarnations, what was acknowledged as committed, the fail-safe context).
-/
namespace Driver.Adm
open _root_.Admin

/-! ## parsing -/

def nat (s : String) : Nat := s.toNat?.getD 0

def parseOp (ws : List String) : Option Op :=
  match ws with
  | ["boot"] => some .boot
  | ["pase"] => some .pase
  | ["cest", f, n, r] => some (.caseEst (nat f) (nat n) (nat r))
  | ["resume", r, r'] => some (.resume (nat r) (nat r'))
  | ["open", s] => some (.openW (nat s))
  | ["arm", s, t] => some (.arm (nat s) (nat t))
  | ["csr", s, u] => some (.csr (nat s) (nat u == 1))
  | ["root", s, c] => some (.root (nat s) (min (max (nat c) 1) 3))
  | ["addnoc", s, c, f, n, a, r] => some (.addnoc (nat s) (min (max (nat c) 1) 3) (nat f) (nat n) (nat a) (nat r))
  | ["updnoc", s, n, r] => some (.updnoc (nat s) (nat n) (nat r))
  | ["acl", s, v] => some (.acl (nat s) (nat v))
  | ["grp", s, v] => some (.grp (nat s) (nat v))
  | ["label", s, v] => some (.label (nat s) (nat v))
  | ["net", s, v] => some (.net (nat s) (nat v))
  | ["rmnet", s, v] => some (.rmnet (nat s) (nat v))
  | ["complete", s] => some (.complete (nat s))
  | ["rmfab", s, i] => some (.rmfab (nat s) (nat i))
  | ["revoke", s] => some (.revoke (nat s))
  | ["bcw", s, v] => some (.bcw (nat s) (nat v))
  | ["gkm", s, _] => some (.fwrite (nat s))
  -- SetVIDVerificationStatement (vendor id field alone; the fields are outside the model)
  | ["vvs", s, _] => some (.vvs (nat s))
  -- handler level: KeySetWrite (a fabric-scoped write whose content the model does not track) and the
  -- AddGroup command of the Groups cluster (the model's group table write)
  | ["ksw", s, _, _] => some (.fwrite (nat s))
  | ["addgrp", s, g, _] => some (.grp (nat s) (nat g))
  | ["nlabel", s, _] => some (.ext (nat s))
  | ["ulabel", s, _] => some (.ext (nat s))
  | ["bind", s, _] => some (.ext (nat s))
  | ["sub", s] => some (.ext (nat s))
  | ["tick", t] => some (.tick (nat t))
  -- handler level: `tick <secs> <sid>...` - while the time passed the subscription reporter gave up on
  -- a report and dropped these sessions (see `step`)
  | "tick" :: t :: _ => some (.tick (nat t))
  | ["sdrop", s] => some (.sdrop (nat s))
  | ["poll"] => some .poll
  | ["flush"] => some .flush
  | ["restart"] => some .restart
  | ["crash", n] => some (.crash (nat n))
  | ["kvfail", n] => some (.kvfail (nat n))
  | "corrupt" :: _ => some .corrupt
  | ["freset"] => some .freset
  -- the factory reset with the fault on its k-th store call: for the oracle it is a factory reset, the
  -- model runs `factoryResetAt` (see `resetAt`, `step`)
  | ["fresetk", _] => some .freset
  | ["hs", f, n, r] => some (.hs (nat f) (nat n) (nat r))
  | ["hsdone", s] => some (.hsdone (nat s))
  | ["rt", _, _] => some .nop
  | ["coldreset"] => some .coldreset
  | ["fabrecover", i] => some (.fabrecover (nat i))
  | _ => none

/-- `fresetk <k>`: the position of the failing store call -/
def resetAt (ws : List String) : Option Nat :=
  match ws with
  | ["fresetk", k] => some (nat k)
  | _ => none

structure FabV where
  idx : Nat
  ident : String
  canon : String
deriving Inhabited

structure SessV where
  id : Nat
  kind : String
  fab : Nat
  peer : Nat
  expired : Bool
  reserved : Bool := false
deriving Inhabited

structure ResV where
  fab : Nat
  peer : Nat
  rid : Nat
deriving Inhabited

structure View where
  status : String := ""
  fabs : List FabV := []
  sess : List SessV := []
  res : List ResV := []
  armed : Option Nat := none
  nets : String := "-:0"
  kvFabs : List FabV := []
  kvNets : String := "none"
  kvRes : String := "none"
  kvOther : String := ""
  k : Nat := 0
  /-- handler-level extension `X{…}`: memory and stored sections by name (empty at state level) -/
  x : List (String × String) := []
deriving Inhabited

/-- text between the first `tag` and the next `]` -/
def sect (s tag : String) : String :=
  match s.splitOn tag with
  | _ :: r :: _ => (r.splitOn "]").headD ""
  | _ => ""

def items (s : String) : List String := (s.splitOn ";").filter (fun x => x ≠ "")

def parseFab (e : String) : FabV :=
  match e.splitOn ":" with
  | i :: rest =>
    let body := ":".intercalate rest
    let fs := body.splitOn "."
    { idx := nat i, ident := s!"{fs.headD ""}.{(fs.drop 1).headD ""}", canon := e }
  | [] => { idx := 0, ident := "", canon := e }

def parseSess (e : String) : SessV :=
  match e.splitOn ":" with
  | i :: m :: p :: rest =>
    { id := nat i, kind := (m.take 1).toString, fab := nat (m.drop 1).toString, peer := nat p, expired := rest.contains "x", reserved := rest.contains "r" }
  | _ => { id := 0, kind := "?", fab := 0, peer := 0, expired := false }

def parseRes (e : String) : ResV :=
  match e.splitOn "." with
  | [f, p, r] => { fab := nat f, peer := nat p, rid := nat r }
  | _ => { fab := 0, peer := 0, rid := 0 }

/-- the sections `NAME[...]` of the extension part ` X{ ... }` -/
def parseX (rest : String) : List (String × String) :=
  match rest.splitOn " X{" with
  | _ :: x :: _ =>
    let body := (x.splitOn "}").headD ""
    (body.splitOn " ").filterMap (fun w =>
      match w.splitOn "[" with
      | [name, v] => some (name, (v.splitOn "]").headD "")
      | _ => none)
  | _ => []

def xget (v : List (String × String)) (name : String) : String :=
  match v.find? (fun p => p.1 = name) with
  | some p => p.2
  | none => ""

/-- the line without the extension part (what the model is compared with) -/
def stripX (out : String) : String := (out.splitOn " X{").headD out

def parseView (out : String) : Option View :=
  match (stripX out).splitOn " | " with
  | [status, rest0] =>
    let rest := rest0 ++ (match out.splitOn " X{" with | _ :: x :: _ => " X{" ++ x | _ => "")
    match rest0.splitOn " KV{" with
    | [mem, kv] =>
      let fsS := sect mem " FS["
      let armed := if fsS = "idle" then none else some (nat ((fsS.splitOn ".").headD "0"))
      let kvR := match kv.splitOn " R" with
        | _ :: r :: _ => (r.splitOn " O[").headD ""
        | _ => ""
      let k := match kv.splitOn "} k=" with
        | _ :: r :: _ => nat ((r.splitOn " ").headD "0")
        | _ => 0
      some { status := status
             fabs := (items (sect mem "F[")).map parseFab
             sess := (items (sect mem " S[")).map parseSess
             res := (items (sect mem " R[")).map parseRes
             armed := armed
             nets := sect mem " N["
             kvFabs := (items (sect kv "F[")).map parseFab
             kvNets := sect kv " N["
             kvRes := kvR
             kvOther := sect kv " O["
             k := k
             x := parseX rest }
    | _ => none
  | _ => none

/-! ## oracle bookkeeping (implementation outputs only) -/

abbrev Cmt := List (Nat × String) × String

structure OSt where
  prev : View := {}
  /-- incarnation counter per fabric index -/
  inc : List (Nat × Nat) := []
  /-- session id, fabric index, incarnation it was authenticated for -/
  sessBind : List (Nat × Nat × Nat) := []
  /-- resumption record (fab, peer, rid, incarnation) in memory -/
  resBind : List (Nat × Nat × Nat × Nat) := []
  /-- every record ever flushed to the store -/
  kvResBind : List (Nat × Nat × Nat × Nat) := []
  cmtF : List (Nat × String) := []
  cmtN : String := "-:0"
  cmtUnknown : Bool := false
  dirty : List Nat := []
  /-- (store mutation count, committed view) after every op, newest first -/
  hist : List (Nat × Cmt × Bool) := [(0, ([], "-:0"), false)]
  now : Nat := 0
  deadline : Nat := 0
  csr0 : Bool := false
  csr1 : Bool := false
  rootC : Bool := false
  nocC : Bool := false
  /-- a factory reset ran and the node has not restarted yet (state level only: the bindings /
  subscriptions of the handler-level extension are not reset by `Matter::factory_reset`) -/
  wiped : Bool := false
  /-- handler-level extension: committed values by name (`B`, `UL`, `NL`, `K:<fab>`) -/
  cmtX : List (String × String) := []
  /-- bindings / subscriptions with the incarnation of the fabric they were made for -/
  xBind : List (String × Nat) := []
  /-- the committed group key maps (`K:<fab>` entries of `cmtX`, they live in the fabric blobs) by the
  number of store mutations, newest first: a `crash n` comes up with those of mutation `n` -/
  histX : List (Nat × List (String × String)) := []
deriving Inhabited

def lookupD (l : List (Nat × α)) (k : Nat) (d : α) : α :=
  match l.find? (fun x => x.1 = k) with
  | some x => x.2
  | none => d

def setKV (l : List (Nat × α)) (k : Nat) (v : α) : List (Nat × α) :=
  (k, v) :: l.filter (fun x => x.1 ≠ k)

def fabCanon (l : List FabV) (idx : Nat) : String :=
  match l.find? (fun f => f.idx = idx) with
  | some f => f.canon
  | none => "absent"

def cmtCanon (l : List (Nat × String)) (idx : Nat) : String := lookupD l idx "absent"

def isOk (s : String) : Bool :=
  s = "ok" || (s.startsWith "ok" && ((s.drop 2).toString.toNat?).isSome)

def isSessNew (s : String) : Bool := s.startsWith "s" && ((s.drop 1).toString.toNat?).isSome

/-- compare a memory/restart view with a committed view; returns the first difference -/
def diffView (fabs : List FabV) (nets : String) (c : Cmt) (skip : List Nat) : Option String :=
  let idxs := (fabs.map (·.idx)) ++ (c.1.map (·.1))
  match idxs.find? (fun i => !skip.contains i && fabCanon fabs i ≠ cmtCanon c.1 i) with
  | some i => some s!"fabric {i} is [{fabCanon fabs i}] but committed [{cmtCanon c.1 i}]"
  | none => if nets ≠ c.2 then some s!"networks are [{nets}] but committed [{c.2}]" else none

def viewCmt (v : View) : List (Nat × String) := v.fabs.map (fun (f : FabV) => (f.idx, f.canon))

def restartLike : Op → Bool
  | .restart | .crash _ | .corrupt | .coldreset | .fabrecover _ => true
  | _ => false

/-- the oracle: returns the new bookkeeping and the violations, each tagged with its property -/
def setS (l : List (String × String)) (k v : String) : List (String × String) := (k, v) :: l.filter (fun x => x.1 ≠ k)

def getS (l : List (String × String)) (k d : String) : String :=
  match l.find? (fun x => x.1 = k) with
  | some x => x.2
  | none => d

/-- the entry `<fab>:<value>` of a per-fabric section such as `K[1:5+6;2:-]` -/
def fabEntry (sec : String) (fab : Nat) : String :=
  match (items sec).find? (fun e => (e.splitOn ":").headD "" = toString fab) with
  | some e => ":".intercalate ((e.splitOn ":").drop 1)
  | none => "-"

/-- the per-fabric sections of the extension that live in the fabric blob: (memory, store) - the group
key map, the group table WITH the group names, the group key sets, the vendor id (SetVIDVerificationStatement) -/
def fabSecs : List (String × String) := [("K", "KK"), ("G", "KG"), ("KS", "KKS"), ("V", "KV")]

/-- a committed-view key `<section>:<fab>` of one of them -/
def isFabKey (k : String) : Bool := fabSecs.any (fun p => k.startsWith (p.1 ++ ":"))

/-- fabric index of an entry `<fab>.<x>` -/
def entryFab (e : String) : Nat := nat ((e.splitOn ".").headD "0")

def oracle (st : OSt) (op : Op) (v : View) (kind : String) (dropped : List Nat := []) : OSt × List String :=
  let p := st.prev
  let okS := isOk v.status
  let opSess : Option SessV := (isSessOp op).bind (fun sid => p.sess.find? (fun s => s.id = sid))
  let opFab := (opSess.map (·.fab)).getD 0
  let now := match op with
    | .tick t => st.now + t
    | _ => st.now
  -- the prologue of a session-borne command (and `poll`) runs the fail-safe timer
  -- (a reserved session takes no message: no prologue)
  let timerRuns : Bool := (isSessOp op).isSome && (opSess.map (fun s => !s.reserved)).getD false || op == .poll
  let expiredByTimer : Bool := p.armed.isSome && timerRuns && st.now ≥ st.deadline
  -- a crash point in the past rewinds the store: what comes up is what had been there (same
  -- incarnations), and the later history of this case never happened
  let rewind : Bool := match op with
    | .crash n => n < p.k
    | _ => false
  let pfabs := if rewind then v.fabs else p.fabs
  -- 1. fabric incarnations
  let inc := v.fabs.foldl (fun acc f =>
      match pfabs.find? (fun g => g.idx = f.idx) with
      | some g => if g.ident = f.ident then acc else setKV acc f.idx (lookupD acc f.idx 0 + 1)
      | none => setKV acc f.idx (lookupD acc f.idx 0 + 1)) st.inc
  -- 2. resumption records
  let resBind : List (Nat × Nat × Nat × Nat) := v.res.map (fun r =>
      let fresh : Bool := match op with
        | .caseEst f n _ => isSessNew v.status && r.fab = f && r.peer = n
        | _ => false
      if fresh || rewind then (r.fab, r.peer, r.rid, lookupD inc r.fab 0)
      else match st.resBind.find? (fun b => b.1 = r.fab && b.2.1 = r.peer) with
        | some b => (r.fab, r.peer, r.rid, b.2.2.2)
        | none =>
          match st.kvResBind.find? (fun b => b.1 = r.fab && b.2.1 = r.peer && b.2.2.1 = r.rid) with
          | some b => (r.fab, r.peer, r.rid, b.2.2.2)
          | none => (r.fab, r.peer, r.rid, lookupD inc r.fab 0))
  let kvResBind := match op with
    | .flush => if okS then resBind ++ st.kvResBind else st.kvResBind
    | _ => if rewind then [] else st.kvResBind
  -- 3. sessions
  let sessBind : List (Nat × Nat × Nat) := (v.sess.filter (fun s => s.fab ≠ 0)).map (fun s =>
      match (if restartLike op then none else st.sessBind.find? (fun b => b.1 = s.id && b.2.1 = s.fab)) with
      | some b => b
      | none =>
        match op with
        | .resume rid _ =>
          match p.res.find? (fun r => r.rid = rid) with
          | some r =>
            match st.resBind.find? (fun b => b.1 = r.fab && b.2.1 = r.peer) with
            | some b => (s.id, s.fab, b.2.2.2)
            | none => (s.id, s.fab, lookupD inc s.fab 0)
          | none => (s.id, s.fab, lookupD inc s.fab 0)
        | _ => (s.id, s.fab, lookupD inc s.fab 0))
  -- 4. C07: nothing bound to a gone fabric reaches a later fabric; other fabrics' sessions untouched
  let present (i : Nat) : Bool := v.fabs.any (fun f => f.idx = i)
  let v07a := (v.sess.filter (fun s => !s.expired && s.fab ≠ 0 && present s.fab)).filterMap (fun s =>
      match sessBind.find? (fun b => b.1 = s.id) with
      | some b => if b.2.2 ≠ lookupD inc s.fab 0 then
          some s!"C07 stale-session: session {s.id} ({s.kind}{s.fab}, peer {s.peer}) was established on incarnation {b.2.2} of fabric index {s.fab} and is still usable on incarnation {lookupD inc s.fab 0}"
        else none
      | none => none)
  let v07b := (v.res.filter (fun r => present r.fab)).filterMap (fun r =>
      match resBind.find? (fun b => b.1 = r.fab && b.2.1 = r.peer) with
      | some b => if b.2.2.2 ≠ lookupD inc r.fab 0 then
          some s!"C07 stale-resumption: record {r.fab}.{r.peer}.{r.rid} of incarnation {b.2.2.2} resumes onto incarnation {lookupD inc r.fab 0} of fabric index {r.fab}"
        else none
      | none => none)
  let removed := (p.fabs.filter (fun f => !present f.idx)).map (·.idx)
  let v07c := if restartLike op || removed.isEmpty then [] else
    -- (sessions of fabrics that are THERE before the op; a session left over from a fabric that went
    -- away earlier - e.g. the expired own session of a RemoveFabric - belongs to no other fabric)
    -- (nor is a session judged that the subscription reporter dropped meanwhile)
    (p.sess.filter (fun s => s.kind = "c" && !removed.contains s.fab && p.fabs.any (fun f => f.idx = s.fab)
        && !dropped.contains s.id)).filterMap (fun s =>
      match v.sess.find? (fun t => t.id = s.id) with
      | some t => if t.expired ≠ s.expired then some s!"C07 other-fabric-session: session {s.id} of fabric {s.fab} changed while fabric {removed} went away" else none
      | none => some s!"C07 other-fabric-session: session {s.id} of fabric {s.fab} disappeared while fabric {removed} went away")
  -- a session that is usable (not expired, not a handshake still in flight) while its fabric is gone
  -- (also after a factory reset: since the repair of `C07-factory-reset-keeps-sessions` it drops them)
  let wiped : Bool := if restartLike op then false else (st.wiped || op == .freset)
  let v07d :=
    (v.sess.filter (fun s => !s.expired && !s.reserved && s.fab ≠ 0 && !present s.fab)).map (fun s =>
      s!"C07 session-outlives-fabric: session {s.id} ({s.kind}{s.fab}, peer {s.peer}) is usable but fabric index {s.fab} is gone")
  -- 5. C08: the fail-safe context
  let isArmOk : Bool := match op with
    | .arm _ secs => secs ≠ 0 && okS
    | _ => false
  let armSecs : Nat := match op with
    | .arm _ secs => secs
    | _ => 0
  -- a new context starts when the fail-safe was idle (or had just expired by timer) and is armed now
  let newCtx : Bool := v.armed.isSome && (p.armed.isNone || (isArmOk && expiredByTimer))
  let ended : Bool := p.armed.isSome && (v.armed.isNone || newCtx)
  let deadline := if isArmOk then now + armSecs else st.deadline
  -- credential command gating, from the statuses only
  let cred : Bool := match op with
    | .csr .. | .root .. | .addnoc .. | .updnoc .. => okS
    | _ => false
  let ctxLive : Bool := p.armed.isSome && !expiredByTimer
  let (csr0, csr1, rootC, nocC) := if newCtx || v.armed.isNone then (false, false, false, false) else (st.csr0, st.csr1, st.rootC, st.nocC)
  let v08g : List String := if !cred then [] else
    (if !ctxLive then [s!"C08 gating: {v.status} without an armed fail-safe"] else []) ++
    (if ctxLive && p.armed ≠ some opFab then [s!"C08 gating: accepted from a session of fabric {opFab} while the fail-safe belongs to {p.armed}"] else []) ++
    (match op with
     | .csr .. => if st.csr0 || st.csr1 then ["C08 gating: second CSRRequest accepted"] else []
     | .root .. => if st.rootC then ["C08 gating: second AddTrustedRootCertificate accepted"] else []
     | .addnoc .. => if !(st.csr0 && st.rootC) || st.nocC then ["C08 gating: AddNOC accepted out of order"] else []
     | .updnoc .. => if !st.csr1 || st.nocC || (opSess.map (·.kind)) ≠ some "c" then ["C08 gating: UpdateNOC accepted out of order"] else []
     | _ => [])
  let (csr0, csr1, rootC, nocC) := if !cred then (csr0, csr1, rootC, nocC) else
    match op with
    | .csr _ upd => if upd then (csr0, true, rootC, nocC) else (true, csr1, rootC, nocC)
    | .root .. => (csr0, csr1, true, nocC)
    | .addnoc .. | .updnoc .. => (csr0, csr1, rootC, true)
    | _ => (csr0, csr1, rootC, nocC)
  -- what the acknowledgements committed
  let underFs : Bool := p.armed = some opFab && !expiredByTimer
  let isWrite : Bool := match op with
    | .acl .. | .grp .. | .label .. | .fwrite _ | .vvs _ => true
    | _ => false
  -- SetVIDVerificationStatement: outside a fail-safe of its fabric it is a fabric-scoped write like the
  -- others (acknowledged = the record is stored). Under the fail-safe of its fabric the PROPERTY is
  -- silent about the command's own fields (Matter: stored at once unless a NOC command is pending; the
  -- repaired code lets them also ride along with deferred writes) - the committed vendor id follows
  -- what the store holds; everything ELSE staged under the fail-safe stays uncommitted, so a record
  -- flushed by this command shows up as `rollback-mismatch` when the fail-safe ends without completion
  let isVvs : Bool := match op with
    | .vvs _ => true
    | _ => false
  let isComplete : Bool := match op with
    | .complete _ => true
    | _ => false
  let cmtF0 : List (Nat × String) := st.cmtF
  let cmtF : List (Nat × String) := if isWrite && okS && !underFs then setKV cmtF0 opFab (fabCanon v.fabs opFab) else cmtF0
  let dirty : List Nat := if isWrite && v.status = "NoSpace" then opFab :: st.dirty else st.dirty
  let (cmtF, dirty) : List (Nat × String) × List Nat := match op with
    | .rmfab _ idx =>
      if okS then (cmtF.filter (fun (x : Nat × String) => x.1 ≠ idx), dirty.filter (· ≠ idx))
      else if v.status = "NoSpace" then (cmtF, idx :: dirty) else (cmtF, dirty)
    | _ => (cmtF, dirty)
  let v11w : List String :=
    if isWrite && okS && !underFs && fabCanon v.kvFabs opFab ≠ fabCanon v.fabs opFab then
      [s!"C11 acked-write-not-stored: fabric {opFab} is [{fabCanon v.fabs opFab}] in memory but [{fabCanon v.kvFabs opFab}] in the store after an acknowledged write outside a fail-safe"]
    else []
  let (cmtF, cmtN) : List (Nat × String) × String := if isComplete && okS then (setKV cmtF opFab (fabCanon v.fabs opFab), v.nets) else (cmtF, st.cmtN)
  let v08c : List String :=
    if isComplete && okS && (fabCanon v.kvFabs opFab ≠ fabCanon v.fabs opFab || v.kvNets ≠ v.nets) then
      [s!"C08 commit-not-joint: after an acknowledged CommissioningComplete the store holds [{fabCanon v.kvFabs opFab}] / [{v.kvNets}] but the node has [{fabCanon v.fabs opFab}] / [{v.nets}]"]
    else []
  let v08r : List String :=
    if !ended || restartLike op then []
    else if isComplete && okS then []
    else if isComplete && v.status = "NoSpace" then
      [s!"C08 complete-failed-disarmed: CommissioningComplete answered {v.status} but the fail-safe is disarmed; node [{fabCanon v.fabs opFab}] / [{v.nets}], store [{fabCanon v.kvFabs opFab}] / [{v.kvNets}], committed [{cmtCanon cmtF opFab}] / [{cmtN}]"]
    else match diffView v.fabs v.nets (cmtF, cmtN) dirty with
      | some d => [s!"C08 rollback-mismatch: after the fail-safe ended without completion {d}"]
      | none => []
  -- after a reported failed completion the bookkeeping follows the node (no cascade of reports)
  let (cmtF, cmtN) : List (Nat × String) × String :=
    if ended && isComplete && v.status = "NoSpace" then (viewCmt v, v.nets) else (cmtF, cmtN)
  let v08e : List String :=
    if expiredByTimer && v.armed.isSome && !newCtx then
      [s!"C08 expiry-failed: the fail-safe timer ran out (deadline {st.deadline}, now {st.now}) but the fail-safe is still armed; status {v.status}"]
    else []
  -- 6. C11: restart / crash / reset
  let (v11r, cmtF, cmtN, hist, cmtUnknown, dirty) : List String × List (Nat × String) × String × List (Nat × Cmt × Bool) × Bool × List Nat :=
    match op with
    | .restart | .corrupt =>
      if v.status ≠ "ok" then ([s!"C11 startup-failed: {v.status}"], cmtF, cmtN, st.hist, st.cmtUnknown, [])
      else if st.cmtUnknown then ([], viewCmt v, v.nets, st.hist, false, [])
      else match diffView v.fabs v.nets (cmtF, cmtN) [] with
        | some d => ([s!"C11 restart-mismatch: after the restart {d}"], viewCmt v, v.nets, st.hist, false, [])
        | none => ([], cmtF, cmtN, st.hist, false, [])
    | .crash n =>
      if v.status ≠ "ok" then ([s!"C11 startup-failed: {v.status}"], cmtF, cmtN, st.hist, st.cmtUnknown, [])
      else
        -- hist is newest first; entries with k ≤ n, newest first
        let le := st.hist.filter (fun e => e.1 ≤ n)
        let gt := (st.hist.filter (fun e => e.1 > n)).reverse
        let a : Cmt := match le with
          | e :: _ => e.2.1
          | [] => ([], "-:0")
        -- a crash in the middle of a factory reset: the reset is simply not finished (not judged)
        let inReset : Bool := match gt with
          | e :: _ => e.2.2
          | [] => false
        let exact : Bool := match le with
          | e :: _ => e.1 = n
          | [] => n = 0
        -- strictly inside the writes of one op: that op's committed view is allowed as well
        let alts : List Cmt := if exact then [a] else match gt with
          | e :: _ => [a, e.2.1]
          | [] => [a]
        let hist' := if le.isEmpty then [(0, (([] : List (Nat × String)), "-:0"), false)] else le
        if st.cmtUnknown || (inReset && !exact) then ([], viewCmt v, v.nets, hist', false, [])
        else match alts.find? (fun c => (diffView v.fabs v.nets c []).isNone) with
          | some c => ([], c.1, c.2, hist', false, [])
          | none =>
            ([s!"C11 crash-mismatch: restart from the store after mutation {n}: {(diffView v.fabs v.nets a []).getD ""}"],
             viewCmt v, v.nets, hist', false, [])
    | .coldreset | .fabrecover _ =>
      -- a factory reset before / instead of a successful start-up: nothing may be left, whatever the
      -- node had in memory, and the node must come up (empty)
      let left := !v.kvFabs.isEmpty || v.kvNets ≠ "none" || v.kvRes ≠ "none" || v.kvOther ≠ "" || !v.fabs.isEmpty
      ((if left then [s!"C11 factory-reset-leftover: store F{v.kvFabs.map (·.canon)} N[{v.kvNets}] R{v.kvRes} O[{v.kvOther}] node F{v.fabs.map (·.canon)} status {v.status}"]
        else if v.status ≠ "ok" then [s!"C11 reset-recovery-failed: {v.status}"] else []),
       [], "-:0", [], false, [])
    | .freset =>
      if okS then
        let left := !v.kvFabs.isEmpty || v.kvNets ≠ "none" || v.kvRes ≠ "none" || v.kvOther ≠ "" || !v.fabs.isEmpty
        ((if left then [s!"C11 factory-reset-leftover: store F{v.kvFabs.map (·.canon)} N[{v.kvNets}] R{v.kvRes} O[{v.kvOther}] node F{v.fabs.map (·.canon)}"] else []),
         [], "-:0", st.hist, false, [])
      else ([], cmtF, cmtN, st.hist, true, dirty)
    | _ => ([], cmtF, cmtN, st.hist, st.cmtUnknown, dirty)
  -- 7. handler-level extension (real Write / Subscribe interactions): group key map, bindings, user
  -- labels, node label, subscriptions
  let hasX := !v.x.isEmpty
  let xm (name : String) : String := xget v.x name
  let isExtWrite := okS && (kind == "bind" || kind == "ulabel" || kind == "nlabel")
  let secOf : String := if kind == "bind" then "B" else if kind == "ulabel" then "UL" else "NL"
  let vx1 : List String :=
    if hasX && isExtWrite && xm secOf ≠ xm ("K" ++ secOf) then
      [s!"C11 acked-ext-not-stored: {kind} acknowledged, node has {secOf}[{xm secOf}] but a node restarted from the store would load [{xm ("K" ++ secOf)}]"]
    else if hasX && okS && isWrite && !underFs then
      -- an acknowledged fabric-scoped write outside a fail-safe has stored the fabric: everything that
      -- lives in its blob (key map, group names, key sets) is in the store as the node has it
      match fabSecs.find? (fun p => fabEntry (xm p.1) opFab ≠ fabEntry (xm p.2) opFab) with
      | some p => [s!"C11 acked-ext-not-stored: {p.1} of fabric {opFab} is [{fabEntry (xm p.1) opFab}] in memory but [{fabEntry (xm p.2) opFab}] in the store after an acknowledged write ({kind}) outside a fail-safe"]
      | none => []
    else []
  -- committed view of the extension
  let cx0 := st.cmtX
  let cx1 := if isExtWrite then setS cx0 secOf (xm secOf) else cx0
  let setFab (c : List (String × String)) : List (String × String) :=
    fabSecs.foldl (fun c p => setS c s!"{p.1}:{opFab}" (fabEntry (xm p.1) opFab)) c
  let cx2 := if hasX && okS && isWrite && !underFs then setFab cx1 else cx1
  let cx2 := if hasX && okS && isVvs && underFs then setS cx2 s!"V:{opFab}" (fabEntry (xm "KV") opFab) else cx2
  let cx3 := if hasX && isComplete && okS then setFab cx2 else cx2
  -- a fabric that goes away takes its bindings with it (`LifecycleOp::FabricRemoval`, stored at once)
  let cx4 := if removed.isEmpty || restartLike op then cx3 else
    setS (cx3.filter (fun e => !(removed.any (fun i => fabSecs.any (fun p => e.1 == s!"{p.1}:{i}")))))
      "B" (";".intercalate ((items (getS cx3 "B" "")).filter (fun e => !removed.contains (entryFab e))))
  let kOnly (l : List (String × String)) : List (String × String) := l.filter (fun e => isFabKey e.1)
  -- the group key maps a restart may come up with: the committed ones; after `crash n` those of
  -- mutation `n` (inside the writes of one op: that op's as well)
  let (kWants, histX0) : List (List (String × String)) × List (Nat × List (String × String)) :=
    match op with
    | .crash n =>
      let le := st.histX.filter (fun e => e.1 ≤ n)
      let gt := (st.histX.filter (fun e => e.1 > n)).reverse
      let base : List (String × String) := match le with
        | e :: _ => e.2
        | [] => []
      let exact : Bool := match le with
        | e :: _ => e.1 = n
        | [] => n = 0
      ((if exact then [base] else match gt with
          | e :: _ => [base, e.2]
          | [] => [base]), le)
    | .coldreset | .fabrecover _ => ([[]], [])
    | _ => ([kOnly cx4], st.histX)
  let vx2 : List String :=
    if !hasX then []
    else match op with
      | .coldreset | .fabrecover _ =>
        if xm "B" ≠ "" || xm "UL" ≠ "" || (xm "NL" ≠ "-" && xm "NL" ≠ "") || xm "SUB" ≠ "" || xm "KB" ≠ "" || xm "KUL" ≠ "" || xm "KSUB" ≠ "" then
          [s!"C11 factory-reset-leftover: extension B[{xm "B"}] UL[{xm "UL"}] NL[{xm "NL"}] SUB[{xm "SUB"}] stored B[{xm "KB"}] UL[{xm "KUL"}] SUB[{xm "KSUB"}]"]
        else []
      | .restart | .crash _ | .corrupt =>
        (["B", "UL", "NL"].filterMap (fun name =>
          -- (a binding of a fabric that was never committed goes with it)
          let want0 := getS cx4 name (if name == "NL" then "-" else "")
          let want := if name == "B" then ";".intercalate ((items want0).filter (fun e => present (entryFab e))) else want0
          if xm name ≠ want then some s!"C11 restart-mismatch: after the restart {name}[{xm name}] but acknowledged [{want}]" else none)) ++
        ((v.fabs.flatMap (fun f => fabSecs.map (fun p => (f, p.1)))).filterMap (fun (f, sec) =>
          let wants := kWants.map (fun w => getS w s!"{sec}:{f.idx}" "-")
          if !wants.contains (fabEntry (xm sec) f.idx) then
            some s!"C11 restart-mismatch: after the restart {sec} of fabric {f.idx} is [{fabEntry (xm sec) f.idx}] but committed {wants}"
          else none))
      | _ => []
  let cx5 := match op with
    | .coldreset | .fabrecover _ => []
    | .restart | .crash _ | .corrupt =>
      if hasX then
        let c := setS cx4 "B" (";".intercalate ((items (getS cx4 "B" "")).filter (fun e => present (entryFab e))))
        -- after a crash the key maps that came up are the committed ones from here on
        match op with
        | .crash _ => (c.filter (fun e => !isFabKey e.1)) ++
            v.fabs.flatMap (fun f => fabSecs.map (fun p => (s!"{p.1}:{f.idx}", fabEntry (xm p.1) f.idx)))
        | _ => c
      else cx4
    | _ => cx4
  let histX := (v.k, kOnly cx5) :: histX0
  -- C08: the deferred group key map is undone with the fail-safe
  let vx3 : List String :=
    if !hasX || !ended || restartLike op || isComplete then []
    else (v.fabs.flatMap (fun f => fabSecs.map (fun p => (f, p.1)))).filterMap (fun (f, sec) =>
      let want := getS cx5 s!"{sec}:{f.idx}" "-"
      if !dirty.contains f.idx && fabEntry (xm sec) f.idx ≠ want then
        some s!"C08 rollback-mismatch: after the fail-safe ended without completion {sec} of fabric {f.idx} is [{fabEntry (xm sec) f.idx}] but committed [{want}]"
      else none)
  -- C07: bindings / subscriptions of a fabric that is gone, or of another incarnation of the index
  let xents : List String := (items (xm "B")).map (fun e => "B " ++ e) ++ (items (xm "SUB")).map (fun e => "SUB " ++ e)
  let xBind : List (String × Nat) := if restartLike op && !hasX then [] else xents.map (fun e =>
    match st.xBind.find? (fun b => b.1 = e) with
    | some b => b
    | none => (e, lookupD inc (entryFab ((e.splitOn " ").getLastD "")) 0))
  let vx4 : List String := if !hasX || wiped then [] else
    xents.filterMap (fun e =>
      let fab := entryFab ((e.splitOn " ").getLastD "")
      -- (a subscription of a gone fabric is dropped lazily by the reporter and cannot be used meanwhile;
      -- a binding is dropped synchronously by the FabricRemoval broadcast)
      if !present fab then (if e.startsWith "SUB" then none else some s!"C07 ext-outlives-fabric: [{e}] refers to fabric index {fab}, which is gone")
      else match xBind.find? (fun b => b.1 = e) with
        | some b => if b.2 ≠ lookupD inc fab 0 then
            some s!"C07 stale-ext: [{e}] was made for incarnation {b.2} of fabric index {fab} and is still there on incarnation {lookupD inc fab 0}"
          else none
        | none => none)
  -- 8. TLV round trip of a persisted structure (store -> load -> store): the implementation reports a mismatch
  let vrt : List String :=
    if kind == "rt" && v.status ≠ "ok" then [s!"C11 roundtrip-mismatch: {v.status}"] else []
  let hist := (v.k, (cmtF, cmtN), op == .freset) :: hist
  ({ prev := v, inc := inc, sessBind := sessBind, resBind := resBind, kvResBind := kvResBind,
     cmtF := cmtF, cmtN := cmtN, cmtUnknown := cmtUnknown, dirty := dirty, hist := hist,
     now := now, deadline := deadline, csr0 := csr0, csr1 := csr1, rootC := rootC, nocC := nocC, wiped := wiped,
     cmtX := cx5, xBind := xBind, histX := histX },
   v07a ++ v07b ++ v07c ++ v07d ++ vx4 ++ vx3 ++ vx1 ++ vx2 ++ vrt ++ v08g ++ v08c ++ v08r ++ v08e ++ v11w ++ v11r)

/-! ## the driver loop -/

structure St where
  prop : String
  cfg : Cfg := {}
  node : Node := {}
  ost : OSt := {}
  cfgOk : Bool := true
  /-- handler-level case (`h=1`): statuses are accepted / rejected only, `tick` lets the real
  1-second poll run -/
  hmode : Bool := false

def kvNum (ws : List String) (key : String) : Option Nat :=
  (ws.find? (fun w => w.startsWith (key ++ "="))).bind (fun w => (w.drop (key.length + 1)).toString.toNat?)

def step (st : St) (line : String) : St × String :=
  let (opS, out) := splitArrow line
  let ws := words opS
  match ws with
  | "case" :: _ :: rest =>
    -- capacities compiled into the implementation come with the case header
    match kvNum rest "mf", kvNum rest "ms", kvNum rest "mr", kvNum rest "ma" with
    | some mf, some ms, some mr, some ma =>
      ({ prop := st.prop, cfg := { maxFabrics := mf, maxSessions := ms, maxResum := mr, maxAcl := ma },
         hmode := rest.contains "h=1" }, "case")
    | _, _, _, _ => ({ prop := st.prop, cfgOk := false }, "case")
  | _ =>
    if !st.cfgOk then (st, "BAD case header without capacities") else
    match parseOp ws with
    | none => (st, "BAD op")
    | some op =>
      if out = "panic" then (st, s!"ORA {st.prop} panic: the implementation panicked") else
      match parseView out with
      | none => (st, "BAD output")
      | some v =>
        let dropped : List Nat := match ws with
          | "tick" :: _ :: rest => rest.filterMap (fun w => w.toNat?)
          | _ => []
        -- handler level: AddGroup is refused (UnsupportedAccess) when the group key map of the fabric has
        -- no entry for the group, KeySetWrite when the key set table is full - neither is in the model:
        -- a refusal is followed (only the IM prologue ran), an acceptance must be the model's write
        let kind := ws.headD ""
        let op : Op := if st.hmode && v.status = "rej" && (kind == "addgrp" || kind == "ksw") then .ext ((isSessOp op).getD 0) else op
        let (node', status) : Node × Status :=
          match st.hmode, op with
          | true, .tick _ =>
            -- the real poll of the interaction model runs while the time passes; so does the
            -- subscription reporter: the sessions it dropped are named after the seconds
            let (n1, _) := Admin.step st.cfg st.node op
            let n1' := dropped.foldl (fun n sid => (Admin.step st.cfg n (.sdrop sid)).1) n1
            let (n2, _) := Admin.step st.cfg n1' .poll
            (n2, .ok)
          | _, _ =>
            match resetAt ws with
            | some k => Admin.factoryResetAt st.node k
            | none => Admin.step st.cfg st.node op
        let isExt : Bool := match op with
          | .ext _ => true
          | _ => false
        let statusS : String :=
          if isExt && status.accepted then v.status
          else if st.hmode && v.status = "rej" then (if status.accepted then status.render else "rej") else status.render
        let modelOut := s!"{statusS} | {node'.dump}"
        let (ost', viols) := oracle st.ost op v (ws.headD "") dropped
        let mine := viols.filter (fun m => m.startsWith st.prop)
        let st' := { st with node := node', ost := ost' }
        match mine with
        | m :: _ => (st', s!"ORA {m}")
        | [] => if modelOut = stripX out then (st', "ok") else (st', s!"DIS {modelOut}")

def run (prop : String) : IO UInt32 := Driver.runLoop ({ prop := prop } : St) step

end Driver.Adm
