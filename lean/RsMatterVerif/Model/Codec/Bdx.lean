import RsMatterVerif.Generated.Consts
import RsMatterVerif.Model.Codec.Buf
/-!
# Model of `bdx.rs`: `TransferInit`, `TransferAccept`, `Block`, `BlockQuery`, `BlockQueryWithSkip`
-/
namespace Codec.Bdx
open Codec

structure TransferControl where
  version : Nat
  senderDrive : Bool
  receiverDrive : Bool
  asyncMode : Bool
deriving DecidableEq, Repr

def bit (b n : Nat) : Bool := b / 2 ^ n % 2 == 1

/-- `TransferControl::from_byte` -/
def TransferControl.fromByte (b : Nat) : TransferControl :=
  { version := b % 16, senderDrive := bit b Consts.c17BdxSenderDriveBit, receiverDrive := bit b Consts.c17BdxReceiverDriveBit
    asyncMode := bit b Consts.c17BdxAsyncBit }
/-- `TransferControl::to_byte` -/
def TransferControl.toByte (t : TransferControl) : Nat :=
  t.version % 16 + (if t.senderDrive then 2 ^ Consts.c17BdxSenderDriveBit else 0)
    + (if t.receiverDrive then 2 ^ Consts.c17BdxReceiverDriveBit else 0) + (if t.asyncMode then 2 ^ Consts.c17BdxAsyncBit else 0)

structure RangeControl where
  defLen : Bool := false
  startOffset : Bool := false
  wideRange : Bool := false
deriving DecidableEq, Repr

def RangeControl.fromByte (b : Nat) : RangeControl :=
  { defLen := bit b Consts.c17BdxDefLenBit, startOffset := bit b Consts.c17BdxStartOffsetBit, wideRange := bit b Consts.c17BdxWideRangeBit }
def RangeControl.toByte (r : RangeControl) : Nat :=
  (if r.defLen then 2 ^ Consts.c17BdxDefLenBit else 0) + (if r.startOffset then 2 ^ Consts.c17BdxStartOffsetBit else 0)
    + (if r.wideRange then 2 ^ Consts.c17BdxWideRangeBit else 0)

/-- `if wide { le_u64 } else { le_u32 as u64 }` -/
def rdRange (wide : Bool) (l : List Nat) : Except Err (Nat × List Nat) :=
  if wide then Rd.u64 l else Rd.u32 l

def wrRange (wide : Bool) (x : Nat) : List Nat := if wide then le64 x else le32 (x % 4294967296)

structure TransferInit where
  tc : TransferControl
  rc : RangeControl
  maxBlockSize : Nat
  startOffset : Nat
  length : Nat
  fileDesignator : List Nat
  metadata : List Nat
deriving DecidableEq, Repr

/-- `TransferInit::parse`. `payload.get(off..end)` fails (TruncatedPacket) if fewer than `fdl` bytes
remain; `&payload[end..]` is then in range. -/
def TransferInit.parse (l : List Nat) : Except Err TransferInit := do
  let (tcb, l) ← Rd.u8 l
  let (rcb, l) ← Rd.u8 l
  let rc := RangeControl.fromByte rcb
  let (mbs, l) ← Rd.u16 l
  let (so, l) ← if rc.startOffset then rdRange rc.wideRange l else pure (0, l)
  let (len, l) ← if rc.defLen then rdRange rc.wideRange l else pure (0, l)
  let (fdl, l) ← Rd.u16 l
  if fdl ≤ l.length then
    pure { tc := TransferControl.fromByte tcb, rc := rc, maxBlockSize := mbs, startOffset := so, length := len
           fileDesignator := l.take fdl, metadata := l.drop fdl }
  else .error .truncated

def TransferInit.writeBytes (t : TransferInit) : List Nat :=
  [t.tc.toByte, t.rc.toByte] ++ le16 t.maxBlockSize
  ++ (if t.rc.startOffset then wrRange t.rc.wideRange t.startOffset else [])
  ++ (if t.rc.defLen then wrRange t.rc.wideRange t.length else [])
  ++ le16 (t.fileDesignator.length % 65536) ++ t.fileDesignator ++ t.metadata

def rangeWF (present wide : Bool) (x : Nat) : Prop :=
  (present = false → x = 0) ∧ (wide = false → x < 4294967296) ∧ x < 18446744073709551616

def TransferInit.WF (t : TransferInit) : Prop :=
  t.tc.version < 16 ∧ t.maxBlockSize < 65536 ∧
  rangeWF t.rc.startOffset t.rc.wideRange t.startOffset ∧ rangeWF t.rc.defLen t.rc.wideRange t.length ∧
  t.fileDesignator.length < 65536

structure TransferAccept where
  receive : Bool
  tc : TransferControl
  rc : RangeControl
  maxBlockSize : Nat
  length : Nat
  metadata : List Nat
deriving DecidableEq, Repr

def TransferAccept.parse (receive : Bool) (l : List Nat) : Except Err TransferAccept := do
  let (tcb, l) ← Rd.u8 l
  let tc := TransferControl.fromByte tcb
  if receive then do
    let (rcb, l) ← Rd.u8 l
    let rc := RangeControl.fromByte rcb
    let (mbs, l) ← Rd.u16 l
    let (len, l) ← if rc.defLen then rdRange rc.wideRange l else pure (0, l)
    pure { receive := receive, tc := tc, rc := rc, maxBlockSize := mbs, length := len, metadata := l }
  else do
    let (mbs, l) ← Rd.u16 l
    pure { receive := receive, tc := tc, rc := {}, maxBlockSize := mbs, length := 0, metadata := l }

def TransferAccept.writeBytes (t : TransferAccept) : List Nat :=
  [t.tc.toByte]
  ++ (if t.receive then
        [t.rc.toByte] ++ le16 t.maxBlockSize ++ (if t.rc.defLen then wrRange t.rc.wideRange t.length else [])
      else le16 t.maxBlockSize)
  ++ t.metadata

def TransferAccept.WF (t : TransferAccept) : Prop :=
  t.tc.version < 16 ∧ t.maxBlockSize < 65536 ∧
  (if t.receive then rangeWF t.rc.defLen t.rc.wideRange t.length ∧ t.rc.startOffset = false
   else t.rc = {} ∧ t.length = 0)

structure Block where
  counter : Nat
  data : List Nat
deriving DecidableEq, Repr

def Block.parse (l : List Nat) : Except Err Block := do
  let (c, l) ← Rd.u32 l
  pure { counter := c, data := l }
def Block.writeBytes (b : Block) : List Nat := le32 b.counter ++ b.data

/-- `BlockQuery::parse` (trailing bytes are ignored) -/
def blockQueryParse (l : List Nat) : Except Err Nat := do
  let (c, _) ← Rd.u32 l
  pure c

/-- `BlockQueryWithSkip::parse` -/
def blockQuerySkipParse (l : List Nat) : Except Err (Nat × Nat) := do
  let (c, l) ← Rd.u32 l
  let (s, _) ← Rd.u64 l
  pure (c, s)

end Codec.Bdx
