import RsMatterVerif.Model.Codec.BleAdv
import RsMatterVerif.Lemmas.CodecBuf
/-! # Lemmas about the BLE advertisement payload (`Model/Codec/BleAdv.lean`) -/
namespace Codec.BleAdv
open Codec

/-- **BLE advertisement: `parse_service_data (service_payload a) = a` and `parse_adv (iter a) = a`** -/
theorem parse_encode (a : Adv) (hwf : WF a) :
    parseServiceData (servicePayload a) = .ok (some a) ∧ parseAdv (encode a) = .ok (some a) := by
  obtain ⟨vid, pid, disc, ad⟩ := a
  obtain ⟨hv, hp, hd⟩ := hwf
  simp only at hv hp hd
  have e1 : (disc % 256 + 256 * (disc / 256 % 256)) % 4096 = disc := by omega
  have e2 : vid % 256 + 256 * (vid / 256 % 256) = vid := by omega
  have e3 : pid % 256 + 256 * (pid / 256 % 256) = pid := by omega
  have hs : parseServiceData (servicePayload ⟨vid, pid, disc, ad⟩) = .ok (some ⟨vid, pid, disc, ad⟩) := by
    cases ad <;> simp [parseServiceData, servicePayload, e1, e2, e3]
  refine ⟨hs, ?_⟩
  have hm : matterServiceData ((encode ⟨vid, pid, disc, ad⟩).length + 1) (encode ⟨vid, pid, disc, ad⟩)
      = some (servicePayload ⟨vid, pid, disc, ad⟩) := by
    simp [encode, servicePayload, matterServiceData, AD_TYPE_SERVICE_DATA_UUID16, MATTER_UUID16_LO, MATTER_UUID16_HI]
  simp only [parseAdv, hm, hs]

/-- **BLE advertisement: the parsers are total and never panic** -/
theorem parseServiceData_np (p : List Nat) : NoPanic (parseServiceData p) := by
  unfold parseServiceData
  split
  · exact NoPanic.ok _
  · rename_i hl
    split
    · split <;> exact NoPanic.ok _
    · rename_i hne
      exfalso
      match p, hl, hne with
      | [], hl, _ | [_], hl, _ | [_, _], hl, _ | [_, _, _], hl, _ | [_, _, _, _], hl, _ | [_, _, _, _, _], hl, _
      | [_, _, _, _, _, _], hl, _ | [_, _, _, _, _, _, _], hl, _ => simp at hl
      | a :: b :: c :: d :: e :: f :: g :: h :: r, _, hne => exact hne a b c d e f g h r rfl

theorem parseAdv_np (adv : List Nat) : NoPanic (parseAdv adv) := by
  unfold parseAdv
  split
  · exact NoPanic.ok _
  · exact parseServiceData_np _

example : WF { vid := 0xFFF1, pid := 0x8000, disc := 0xF00, additional := false } := by
  refine ⟨by decide, by decide, by decide⟩

end Codec.BleAdv
