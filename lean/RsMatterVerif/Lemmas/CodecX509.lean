import RsMatterVerif.Model.Codec.X509
import RsMatterVerif.Lemmas.CodecCmsRound
/-!
# Lemmas about the decoder monad `Dec` of `Model/Codec/X509.lean`

Two program logics over `Dec = StateT Rdr (Except E)`:

* `DPost inp p Q` (totality / frame): on every well-formed reader over the input `inp` the action `p` answers a value
  or a proper error — never `panic`, never `endless` —, a value leaves a reader that is the old one advanced inside
  the same input, and the value satisfies `Q`.
* `Run p l Q l'` (what is decoded): on every reader whose remaining bytes are exactly `l` the action `p` succeeds
  with a value satisfying `Q`, having consumed a prefix of `l` and leaving `l'`.
-/
namespace Codec.DerRd

/-! ## the monad -/

theorem Dec.bind_run {α β : Type} (p : Dec α) (f : α → Dec β) (r : Rdr) :
    (p >>= f) r = (match p r with | .ok (a, r') => f a r' | .error e => .error e) := by
  show StateT.bind p f r = _
  unfold StateT.bind
  show (p r >>= _) = _
  cases h : p r with
  | error e => rfl
  | ok x => obtain ⟨a, r'⟩ := x; rfl

theorem Dec.pure_run {α : Type} (a : α) (r : Rdr) : (pure a : Dec α) r = .ok (a, r) := rfl

/-! ## totality -/

theorem Safe.err_cast {α β : Type} {e : E} (h : Safe (.error e : Except E α)) : Safe (.error e : Except E β) := by
  have h1 := (safe_iff _).1 h
  refine Safe.err ⟨fun he => ?_, fun he => ?_⟩
  · subst he; exact h1.1 rfl
  · subst he; exact h1.2 rfl

/-- see the file header; `m` = a lower bound on the number of bytes a successful run consumes -/
def DPostK (m : Nat) (inp : List Nat) {α : Type} (p : Dec α) (Q : α → Prop) : Prop :=
  ∀ r : Rdr, r.WF → r.input = inp → Post (p r) (fun x => (∃ k, m ≤ k ∧ Adv r x.2 k) ∧ Q x.1)

abbrev DPost (inp : List Nat) {α : Type} (p : Dec α) (Q : α → Prop) : Prop := DPostK 0 inp p Q

theorem Adv.refl {r : Rdr} (h : r.WF) : Adv r r 0 :=
  ⟨rfl, rfl, h, rfl, rfl, rfl, Step.refl r⟩

namespace DPostK
variable {α β : Type} {inp : List Nat}

theorem pure {a : α} {Q : α → Prop} (h : Q a) : DPostK 0 inp (Pure.pure a : Dec α) Q :=
  fun _ hr _ => Post.ok ⟨⟨0, Nat.le_refl _, Adv.refl hr⟩, h⟩

theorem fail {e : E} {Q : α → Prop} (h : e ≠ .panic ∧ e ≠ .endless) : DPostK 0 inp (Dec.fail e : Dec α) Q :=
  fun _ _ _ => Post.err h

theorem mono {m m' : Nat} {p : Dec α} {Q Q' : α → Prop} (h : DPostK m inp p Q) (hm : m' ≤ m) (hq : ∀ a, Q a → Q' a) :
    DPostK m' inp p Q' :=
  fun r hr hi => Post.weaken (h r hr hi) (fun x hx => by
    obtain ⟨⟨k, hk, ha⟩, hq'⟩ := hx
    exact ⟨⟨k, Nat.le_trans hm hk, ha⟩, hq _ hq'⟩)

theorem weaken {m : Nat} {p : Dec α} {Q Q' : α → Prop} (h : DPostK m inp p Q) (hq : ∀ a, Q a → Q' a) :
    DPostK m inp p Q' := h.mono (Nat.le_refl _) hq

theorem bind {m1 m2 : Nat} {p : Dec α} {f : α → Dec β} {Q : α → Prop} {R : β → Prop}
    (hp : DPostK m1 inp p Q) (hf : ∀ a, Q a → DPostK m2 inp (f a) R) : DPostK (m1 + m2) inp (p >>= f) R := by
  intro r hr hi
  rw [Dec.bind_run]
  have h1 := hp r hr hi
  cases hpr : p r with
  | error e =>
    rw [hpr] at h1
    exact ⟨Safe.err_cast h1.1, fun _ hb => by simp at hb⟩
  | ok x =>
    obtain ⟨a, r1⟩ := x
    obtain ⟨⟨k1, hk1, ha1⟩, hq⟩ := h1.2 _ hpr
    have h2 := hf a hq r1 ha1.wf (by rw [ha1.input, hi])
    simp only
    exact Post.weaken h2 (fun y hy => by
      obtain ⟨⟨k2, hk2, ha2⟩, hr2⟩ := hy
      exact ⟨⟨k1 + k2, Nat.add_le_add hk1 hk2, ha1.trans ha2⟩, hr2⟩)

/-- the usual case: no claim about the number of bytes -/
theorem bind0 {p : Dec α} {f : α → Dec β} {Q : α → Prop} {R : β → Prop}
    (hp : DPostK 0 inp p Q) (hf : ∀ a, Q a → DPostK 0 inp (f a) R) : DPostK 0 inp (p >>= f) R :=
  DPostK.bind hp hf

/-- progress of the first action is progress of the whole -/
theorem bindL {m : Nat} {p : Dec α} {f : α → Dec β} {Q : α → Prop} {R : β → Prop}
    (hp : DPostK m inp p Q) (hf : ∀ a, Q a → DPostK 0 inp (f a) R) : DPostK m inp (p >>= f) R :=
  DPostK.bind (m2 := 0) hp hf

theorem lift {x : Except E α} {Q : α → Prop} (hx : Post x Q) : DPostK 0 inp (Dec.lift x) Q := by
  intro r hr _
  unfold Dec.lift
  cases x with
  | ok a => exact Post.ok ⟨⟨0, Nat.le_refl _, Adv.refl hr⟩, hx.2 a rfl⟩
  | error e => exact ⟨Safe.err_cast hx.1, fun _ hb => by simp at hb⟩

theorem ite {m : Nat} {c : Prop} [Decidable c] {p q : Dec α} {Q : α → Prop}
    (hp : c → DPostK m inp p Q) (hq : ¬c → DPostK m inp q Q) : DPostK m inp (if c then p else q) Q := by
  split
  · exact hp ‹_›
  · exact hq ‹_›

end DPostK

/-- a slice of the input (with its offset), no longer than the input -/
theorem At.length_le {inp : List Nat} {p : List Nat × Nat} (h : At inp p) : p.1.length ≤ inp.length := by
  have := h.1; omega

/-! ### primitives -/

theorem dHeader_post (inp : List Nat) : DPostK 2 inp dHeader (fun _ => True) := by
  intro r hr _
  refine ⟨headerDecode_safe hr, fun x hx => ?_⟩
  obtain ⟨⟨tag, len⟩, r1⟩ := x
  obtain ⟨k, hk, ha, _⟩ := headerDecode_adv hr hx
  exact ⟨⟨k, hk, ha⟩, trivial⟩

theorem dAny_post (inp : List Nat) : DPostK 2 inp dAny (fun x => x.2.length ≤ inp.length) := by
  intro r hr hi
  refine ⟨anyDecode_safe hr, fun x hx => ?_⟩
  obtain ⟨⟨tag, v⟩, r1⟩ := x
  obtain ⟨hl, h2, _, hle, ha⟩ := anyDecode_spec hr hx
  exact ⟨⟨_, by omega, ha⟩, by rw [← hi]; show v.length ≤ _; omega⟩

theorem dSlice_post (inp : List Nat) (n : Nat) : DPostK 0 inp (dSlice n) (fun s => s.length = n ∧ s.length ≤ inp.length) := by
  intro r hr hi
  refine Post.weaken (readSlice_post hr n) (fun x hx => ?_)
  obtain ⟨ha, hat, hl⟩ := hx
  have := hat.length_le
  exact ⟨⟨n, Nat.zero_le _, ha⟩, hl, by rw [← hi]; exact this⟩

theorem dSliceAt_post (inp : List Nat) (n : Nat) : DPostK 0 inp (dSliceAt n) (fun x => At inp x ∧ x.1.length = n) := by
  intro r hr hi
  refine Post.weaken (readSliceAt_post hr n) (fun x hx => ?_)
  obtain ⟨ha, hat, hl⟩ := hx
  exact ⟨⟨n, Nat.zero_le _, ha⟩, by rw [← hi]; exact hat, hl⟩

theorem dByte_post (inp : List Nat) : DPostK 1 inp dByte (fun _ => True) := by
  intro r hr _
  refine ⟨readByte_safe hr, fun x hx => ?_⟩
  obtain ⟨b, r1⟩ := x
  exact ⟨⟨1, Nat.le_refl _, readByte_adv hr hx⟩, trivial⟩

theorem dFinished_post (inp : List Nat) : DPostK 0 inp dFinished (fun _ => True) := by
  intro r hr _
  unfold dFinished
  rw [isFinished_ok hr]
  exact Post.ok ⟨⟨0, Nat.le_refl _, Adv.refl hr⟩, trivial⟩

theorem dPeek_post (inp : List Nat) : DPostK 0 inp dPeek (fun _ => True) := by
  intro r hr _
  unfold dPeek
  have h := peekByte_safe hr
  cases hp : r.peekByte with
  | ok b => exact Post.ok ⟨⟨0, Nat.le_refl _, Adv.refl hr⟩, trivial⟩
  | error e => rw [hp] at h; exact ⟨Safe.err_cast h, fun _ hb => by simp at hb⟩

theorem dPosition_post (inp : List Nat) : DPostK 0 inp dPosition (fun _ => True) :=
  fun _ hr _ => Post.ok ⟨⟨0, Nat.le_refl _, Adv.refl hr⟩, trivial⟩

theorem dNested_post {α : Type} {inp : List Nat} {p : Dec α} {Q : α → Prop} (len : Nat) (hp : DPostK 0 inp p Q) :
    DPostK 0 inp (dNested len p) Q := by
  intro r hr hi
  unfold dNested
  refine Post.weaken (readNested_post (P := Q) hr len (fun n hn hin => ?_)) (fun x hx => ?_)
  · refine Post.weaken (hp n hn (by rw [hin, hi])) (fun y hy => ?_)
    obtain ⟨⟨k, _, ha⟩, hq⟩ := hy
    exact ⟨⟨k, ha⟩, hq⟩
  · obtain ⟨⟨k, ha⟩, hq⟩ := hx
    exact ⟨⟨k, Nat.zero_le _, ha⟩, hq⟩

/-- a fresh reader over `bytes` -/
theorem runNew_post {α : Type} {bytes : List Nat} {p : Dec α} {Q : α → Prop} (hp : DPostK 0 bytes p Q) :
    Post (runNew bytes p) Q := by
  unfold runNew
  have hs := new_safe bytes
  cases hn : Rdr.new bytes with
  | error e => rw [hn] at hs; exact ⟨Safe.err_cast hs, fun _ hb => by simp at hb⟩
  | ok r =>
    obtain ⟨hreq, hwf⟩ := new_ok hn
    have h := hp r hwf (by rw [hreq]; rfl)
    simp only
    cases hpr : p r with
    | error e => rw [hpr] at h; exact ⟨Safe.err_cast h.1, fun _ hb => by simp at hb⟩
    | ok x =>
      obtain ⟨a, r'⟩ := x
      exact Post.ok (h.2 _ hpr).2

theorem fromDer_post {α : Type} {bytes : List Nat} {p : Dec α} {Q : α → Prop} (hp : DPostK 0 bytes p Q) :
    Post (fromDer bytes p) Q := by
  unfold fromDer
  have hs := new_safe bytes
  cases hn : Rdr.new bytes with
  | error e => rw [hn] at hs; exact ⟨Safe.err_cast hs, fun _ hb => by simp at hb⟩
  | ok r =>
    obtain ⟨hreq, hwf⟩ := new_ok hn
    have h := hp r hwf (by rw [hreq]; rfl)
    simp only
    cases hpr : p r with
    | error e => rw [hpr] at h; exact ⟨Safe.err_cast h.1, fun _ hb => by simp at hb⟩
    | ok x =>
      obtain ⟨a, r'⟩ := x
      obtain ⟨⟨k, _, ha⟩, hq⟩ := h.2 _ hpr
      simp only
      have hf := finish_safe ha.wf
      cases hfin : r'.finish with
      | ok u => exact Post.ok hq
      | error e => rw [hfin] at hf; exact ⟨Safe.err_cast hf, fun _ hb => by simp at hb⟩

/-! ### composite decoders of the `der` crate -/

macro "dfail" : tactic => `(tactic| exact DPostK.fail (by decide))

theorem dHeaderOf_post (inp : List Nat) (tag : Nat) : DPostK 2 inp (dHeaderOf tag) (fun _ => True) := by
  unfold dHeaderOf
  refine DPostK.bindL (dHeader_post inp) (fun x _ => ?_)
  obtain ⟨t, len⟩ := x
  exact DPostK.ite (fun _ => by dfail) (fun _ => DPostK.pure trivial)

theorem dBytesAt_post (inp : List Nat) (len : Nat) :
    DPostK 0 inp (dBytesAt len) (fun x => At inp x ∧ x.1.length = len) := by
  unfold dBytesAt
  refine DPostK.bind0 (dSliceAt_post inp len) (fun x hx => ?_)
  obtain ⟨v, off⟩ := x
  refine DPostK.bind0 (DPostK.lift (Post.of_safe (lenNew_safe _))) (fun _ _ => ?_)
  exact DPostK.pure hx

theorem dAnyAt_post (inp : List Nat) : DPostK 2 inp dAnyAt (fun x => At inp x.2) := by
  unfold dAnyAt
  refine DPostK.bindL (dHeader_post inp) (fun x _ => ?_)
  obtain ⟨t, len⟩ := x
  refine DPostK.bind0 (dBytesAt_post inp len) (fun v hv => ?_)
  exact DPostK.pure hv.1

theorem dReadInto_post (inp : List Nat) (n : Nat) :
    DPostK 0 inp (dReadInto n) (fun s => s.length = n ∧ s.length ≤ inp.length) := by
  unfold dReadInto
  refine DPostK.bind0 (dSlice_post inp n) (fun s hs => ?_)
  rw [if_pos hs.1]
  exact DPostK.pure hs

theorem dOid_post (inp : List Nat) : DPostK 2 inp dOid (fun _ => True) := by
  unfold dOid
  refine DPostK.bindL (dHeaderOf_post inp _) (fun len _ => ?_)
  refine DPostK.ite (fun _ => by dfail) (fun _ => ?_)
  refine DPostK.bind0 (dReadInto_post inp len) (fun v _ => ?_)
  exact DPostK.ite (fun _ => DPostK.pure trivial) (fun _ => by dfail)

theorem decodeToSlice_safe (l : List Nat) : Safe (decodeToSlice l) := by
  unfold decodeToSlice
  split
  · exact Safe.err (by decide)
  · split
    · exact Safe.err (by decide)
    · exact Safe.ok _
  · split
    · split
      · exact Safe.err (by decide)
      · exact Safe.ok _
    · split
      · exact Safe.err (by decide)
      · exact Safe.ok _

theorem dUintRef_post (inp : List Nat) : DPostK 2 inp dUintRef (fun _ => True) := by
  unfold dUintRef
  refine DPostK.bindL (dHeaderOf_post inp _) (fun len _ => ?_)
  refine DPostK.bind0 (dBytesAt_post inp len) (fun x _ => ?_)
  obtain ⟨bytes, off⟩ := x
  refine DPostK.bind0 (DPostK.lift (Post.of_safe (decodeToSlice_safe _))) (fun s _ => ?_)
  exact DPostK.ite (fun _ => by dfail) (fun _ => DPostK.pure trivial)

theorem dU8_post (inp : List Nat) : DPostK 2 inp dU8 (fun _ => True) := by
  unfold dU8
  refine DPostK.bindL (dHeaderOf_post inp _) (fun len _ => ?_)
  refine DPostK.ite (fun _ => by dfail) (fun _ => ?_)
  refine DPostK.bind0 (dReadInto_post inp len) (fun bytes _ => ?_)
  refine DPostK.bind0 (DPostK.lift (Post.of_safe (decodeToSlice_safe _))) (fun s _ => ?_)
  refine DPostK.ite (fun _ => by dfail) (fun _ => ?_)
  exact DPostK.ite (fun _ => by dfail) (fun _ => DPostK.pure trivial)

theorem dBool_post (inp : List Nat) : DPostK 2 inp dBool (fun _ => True) := by
  unfold dBool
  refine DPostK.bindL (dHeaderOf_post inp _) (fun len _ => ?_)
  refine DPostK.ite (fun _ => by dfail) (fun _ => ?_)
  refine DPostK.bind0 ((dByte_post inp).mono (Nat.zero_le _) (fun _ h => h)) (fun b _ => ?_)
  refine DPostK.ite (fun _ => DPostK.pure trivial) (fun _ => ?_)
  exact DPostK.ite (fun _ => DPostK.pure trivial) (fun _ => by dfail)

theorem dBitString_post (inp : List Nat) : DPostK 2 inp dBitString (fun b => At inp (b.bytes, b.off)) := by
  unfold dBitString
  refine DPostK.bindL (dHeaderOf_post inp _) (fun len _ => ?_)
  refine DPostK.ite (fun _ => by dfail) (fun _ => ?_)
  refine DPostK.bind0 ((dByte_post inp).mono (Nat.zero_le _) (fun _ h => h)) (fun unused _ => ?_)
  refine DPostK.bind0 (dBytesAt_post inp _) (fun x hx => ?_)
  obtain ⟨bytes, off⟩ := x
  exact DPostK.ite (fun _ => by dfail) (fun _ => DPostK.pure hx.1)

theorem octetString_post (inp : List Nat) : DPostK 2 inp octetStringDecode (fun x => At inp x) := by
  intro r hr hi
  refine ⟨(octetStringDecode_post hr).1, fun x hx => ?_⟩
  obtain ⟨⟨⟨k, ha⟩, hat⟩, _⟩ := (Post.and_eq (octetStringDecode_post hr)).2 x hx
  -- progress: the header alone is two octets
  unfold octetStringDecode at hx
  cases hh : headerDecode r with
  | error e => simp [hh, Bind.bind, Except.bind] at hx
  | ok y =>
    obtain ⟨⟨tag, len⟩, r1⟩ := y
    obtain ⟨k1, hk1, ha1, _⟩ := headerDecode_adv hr hh
    simp only [hh, Bind.bind, Except.bind] at hx
    split at hx
    · simp at hx
    · have h2 := (readSliceAt_post ha1.wf len).2 _ hx
      exact ⟨⟨k1 + len, by omega, ha1.trans h2.1⟩, by rw [← hi]; exact hat⟩

theorem dOpt_post {α : Type} {inp : List Nat} (tag : Nat) {p : Dec α} {Q : α → Prop} (hp : DPostK 0 inp p Q) :
    DPostK 0 inp (dOpt tag p) (fun o => ∀ a, o = some a → Q a) := by
  unfold dOpt
  refine DPostK.bind0 (dPeek_post inp) (fun o _ => ?_)
  cases o with
  | none => exact DPostK.pure (fun a h => by simp at h)
  | some b =>
    simp only
    refine DPostK.bind0 (DPostK.lift (Post.of_safe (tagOfByte_safe b))) (fun t _ => ?_)
    refine DPostK.ite (fun _ => ?_) (fun _ => DPostK.pure (fun a h => by simp at h))
    refine DPostK.bind0 hp (fun a ha => ?_)
    exact DPostK.pure (fun a' h => by injection h with h; exact h ▸ ha)

theorem dOptAny_post (inp : List Nat) : DPostK 0 inp dOptAny (fun _ => True) := by
  unfold dOptAny
  refine DPostK.bind0 (dPeek_post inp) (fun o _ => ?_)
  cases o with
  | none => exact DPostK.pure trivial
  | some b =>
    simp only
    refine DPostK.bind0 (DPostK.lift (Post.of_safe (tagOfByte_safe b))) (fun t _ => ?_)
    refine DPostK.bind0 ((dAny_post inp).mono (Nat.zero_le _) (fun _ _ => trivial)) (fun a _ => ?_)
    exact DPostK.pure trivial

theorem dAlgId_post (inp : List Nat) : DPostK 2 inp dAlgId (fun _ => True) := by
  unfold dAlgId
  refine DPostK.bindL (dHeaderOf_post inp _) (fun len _ => ?_)
  refine dNested_post len ?_
  refine DPostK.bind0 ((dOid_post inp).mono (Nat.zero_le _) (fun _ h => h)) (fun oid _ => ?_)
  refine DPostK.bind0 (dOptAny_post inp) (fun params _ => ?_)
  exact DPostK.pure trivial

/-! ### loops: `Post` on a given reader -/

/-- what a successful run on `r` leaves: a reader advanced inside the same input, and `Q` of the value -/
def Fr {α : Type} (r : Rdr) (Q : α → Prop) (x : α × Rdr) : Prop := (∃ k, Adv r x.2 k) ∧ Q x.1

theorem DPostK.at {α : Type} {m : Nat} {inp : List Nat} {p : Dec α} {Q : α → Prop} (h : DPostK m inp p Q)
    {r : Rdr} (hr : r.WF) (hi : r.input = inp) : Post (p r) (fun x => (∃ k, m ≤ k ∧ Adv r x.2 k) ∧ Q x.1) := h r hr hi

theorem Post.dbind {α β : Type} {p : Dec α} {f : α → Dec β} {r : Rdr} {Q : α × Rdr → Prop} {R : β × Rdr → Prop}
    (hp : Post (p r) Q) (hf : ∀ a r1, Q (a, r1) → Post (f a r1) R) : Post ((p >>= f) r) R := by
  rw [Dec.bind_run]
  cases hpr : p r with
  | error e => rw [hpr] at hp; exact ⟨Safe.err_cast hp.1, fun _ hb => by simp at hb⟩
  | ok x =>
    obtain ⟨a, r1⟩ := x
    exact hf a r1 (hp.2 _ hpr)

theorem dFinished_at {r : Rdr} (hr : r.WF) : dFinished r = .ok (r.inputLen - r.position == 0, r) := by
  unfold dFinished; rw [isFinished_ok hr]

theorem dPeek_at {r : Rdr} (hr : r.WF) : Post (dPeek r) (fun x => x.2 = r) := by
  unfold dPeek
  have h := peekByte_safe hr
  cases hp : r.peekByte with
  | ok b => exact Post.ok rfl
  | error e => rw [hp] at h; exact ⟨Safe.err_cast h, fun _ hb => by simp at hb⟩

theorem Rdr.rem_le_input {r : Rdr} (hr : r.WF) : r.inputLen - r.position ≤ r.input.length := by
  have := hr.rem_le; omega

/-- `ContextSpecific::decode_with` terminates within `remaining + 1` rounds -/
theorem ctxWith_at {α : Type} {inp : List Nat} {n : Nat} {f : Dec α} {Q : α → Prop} (hf : DPostK 0 inp f Q) :
    ∀ (fuel : Nat) (r : Rdr), r.WF → r.input = inp → r.inputLen - r.position < fuel →
      Post (ctxWith n f fuel r) (Fr r (fun o => ∀ a, o = some a → Q a))
  | 0, _, _, _, h => absurd h (Nat.not_lt_zero _)
  | fuel + 1, r, hr, hi, h => by
    unfold ctxWith
    refine Post.dbind (dPeek_at hr) (fun o r1 h1 => ?_)
    simp only at h1
    subst h1
    cases o with
    | none => exact Post.ok ⟨⟨0, Adv.refl hr⟩, fun a h => by simp at h⟩
    | some b =>
      simp only
      refine Post.dbind ((DPostK.lift (inp := inp) (Post.of_safe (tagOfByte_safe b))).at hr hi) (fun t r2 h2 => ?_)
      obtain ⟨⟨k2, _, ha2⟩, _⟩ := h2
      split
      · exact Post.ok ⟨⟨k2, ha2⟩, fun a h => by simp at h⟩
      · split
        · refine Post.dbind (hf.at ha2.wf (by rw [ha2.input, hi])) (fun a r3 h3 => ?_)
          obtain ⟨⟨k3, _, ha3⟩, hq⟩ := h3
          exact Post.ok ⟨⟨_, ha2.trans ha3⟩, fun a' h => by injection h with h; exact h ▸ hq⟩
        · refine Post.dbind ((dAny_post inp).at ha2.wf (by rw [ha2.input, hi])) (fun a r3 h3 => ?_)
          obtain ⟨⟨k3, hk3, ha3⟩, _⟩ := h3
          have hlt : r3.inputLen - r3.position < fuel := by
            have e1 := ha2.ilen; have e2 := ha2.pos; have e3 := ha3.ilen; have e4 := ha3.pos
            have e5 := Rdr.WF.pos_le ha3.wf
            dsimp only at e1 e2 e3 e4 e5
            omega
          refine Post.weaken (ctxWith_at hf fuel r3 ha3.wf (by rw [ha3.input, ha2.input, hi]) hlt) (fun y hy => ?_)
          obtain ⟨⟨k4, ha4⟩, hq⟩ := hy
          exact ⟨⟨_, (ha2.trans ha3).trans ha4⟩, hq⟩

theorem ctxWith_post {α : Type} {inp : List Nat} {n : Nat} {f : Dec α} {Q : α → Prop} (hf : DPostK 0 inp f Q)
    {fuel : Nat} (hfuel : inp.length < fuel) : DPostK 0 inp (ctxWith n f fuel) (fun o => ∀ a, o = some a → Q a) := by
  intro r hr hi
  have := Rdr.rem_le_input hr
  refine Post.weaken (ctxWith_at hf fuel r hr hi (by rw [hi] at this; omega)) (fun x hx => ?_)
  obtain ⟨⟨k, ha⟩, hq⟩ := hx
  exact ⟨⟨k, Nat.zero_le _, ha⟩, hq⟩

theorem ctxExplicit_post {α : Type} {inp : List Nat} {p : Dec α} {Q : α → Prop} (hp : DPostK 0 inp p Q) :
    DPostK 0 inp (ctxExplicit p) Q := by
  unfold ctxExplicit
  refine DPostK.bind0 ((dHeader_post inp).mono (Nat.zero_le _) (fun _ h => h)) (fun x _ => ?_)
  obtain ⟨t, len⟩ := x
  exact DPostK.ite (fun _ => dNested_post len hp) (fun _ => by dfail)

theorem ctxImplicitOctets_post (inp : List Nat) : DPostK 0 inp ctxImplicitOctets (fun x => At inp x) := by
  unfold ctxImplicitOctets
  refine DPostK.bind0 ((dHeader_post inp).mono (Nat.zero_le _) (fun _ h => h)) (fun x _ => ?_)
  obtain ⟨t, len⟩ := x
  refine DPostK.bind0 (dBytesAt_post inp len) (fun v hv => ?_)
  exact DPostK.ite (fun _ => by dfail) (fun _ => DPostK.pure hv.1)

theorem ctxImplicitAny_post (inp : List Nat) : DPostK 0 inp ctxImplicitAny (fun _ => True) := by
  unfold ctxImplicitAny
  refine DPostK.bind0 ((dHeader_post inp).mono (Nat.zero_le _) (fun _ h => h)) (fun x _ => ?_)
  obtain ⟨t, len⟩ := x
  refine DPostK.bind0 (dBytesAt_post inp len) (fun v _ => ?_)
  exact DPostK.pure trivial

/-! ### time -/

theorem dateTimeNew_safe (y mo d h mi s : Nat) : Safe (dateTimeNew y mo d h mi s) := by
  unfold dateTimeNew
  split
  · exact Safe.err (by decide)
  · split
    · exact Safe.err (by decide)
    · split
      · exact Safe.err (by decide)
      · split
        · exact Safe.err (by decide)
        · exact Safe.ok _

theorem dateTimeFromUnix_safe (secs : Nat) : Safe (dateTimeFromUnix secs) := by
  unfold dateTimeFromUnix
  split
  · exact Safe.err (by decide)
  · split
    · exact Safe.err (by decide)
    · exact dateTimeNew_safe _ _ _ _ _ _

theorem timeOfFields_safe (y mo d h mi s : Nat) : Safe (timeOfFields y mo d h mi s) := by
  unfold timeOfFields
  split
  · exact Safe.err (by decide)
  · exact dateTimeFromUnix_safe _

theorem decodeDecimal_safe (a b : Nat) : Safe (decodeDecimal a b) := by
  unfold decodeDecimal
  split
  · exact Safe.ok _
  · exact Safe.err (by decide)

theorem utcOfBytes_safe (b : List Nat) : Safe (utcOfBytes b) := by
  unfold utcOfBytes
  split
  · split
    · exact Safe.err (by decide)
    · refine Safe.bind (decodeDecimal_safe _ _) (fun _ _ => ?_)
      refine Safe.bind (decodeDecimal_safe _ _) (fun _ _ => ?_)
      refine Safe.bind (decodeDecimal_safe _ _) (fun _ _ => ?_)
      refine Safe.bind (decodeDecimal_safe _ _) (fun _ _ => ?_)
      refine Safe.bind (decodeDecimal_safe _ _) (fun _ _ => ?_)
      refine Safe.bind (decodeDecimal_safe _ _) (fun _ _ => ?_)
      refine Safe.bind (timeOfFields_safe _ _ _ _ _ _) (fun _ _ => ?_)
      split
      · exact Safe.pure _
      · exact Safe.err (by decide)
  · exact Safe.err (by decide)

theorem generalizedOfBytes_safe (b : List Nat) : Safe (generalizedOfBytes b) := by
  unfold generalizedOfBytes
  split
  · split
    · exact Safe.err (by decide)
    · refine Safe.bind (decodeDecimal_safe _ _) (fun _ _ => ?_)
      refine Safe.bind (decodeDecimal_safe _ _) (fun _ _ => ?_)
      refine Safe.bind (decodeDecimal_safe _ _) (fun _ _ => ?_)
      refine Safe.bind (decodeDecimal_safe _ _) (fun _ _ => ?_)
      refine Safe.bind (decodeDecimal_safe _ _) (fun _ _ => ?_)
      refine Safe.bind (decodeDecimal_safe _ _) (fun _ _ => ?_)
      refine Safe.bind (decodeDecimal_safe _ _) (fun _ _ => ?_)
      exact timeOfFields_safe _ _ _ _ _ _
  · exact Safe.err (by decide)

theorem dUtcTime_post (inp : List Nat) : DPostK 2 inp dUtcTime (fun _ => True) := by
  unfold dUtcTime
  refine DPostK.bindL (dHeaderOf_post inp _) (fun len _ => ?_)
  refine DPostK.ite (fun _ => by dfail) (fun _ => ?_)
  refine DPostK.bind0 (dReadInto_post inp 13) (fun bytes _ => ?_)
  exact DPostK.lift (Post.of_safe (utcOfBytes_safe _))

theorem dGeneralizedTime_post (inp : List Nat) : DPostK 2 inp dGeneralizedTime (fun _ => True) := by
  unfold dGeneralizedTime
  refine DPostK.bindL (dHeaderOf_post inp _) (fun len _ => ?_)
  refine DPostK.ite (fun _ => by dfail) (fun _ => ?_)
  refine DPostK.bind0 (dReadInto_post inp 15) (fun bytes _ => ?_)
  exact DPostK.lift (Post.of_safe (generalizedOfBytes_safe _))

theorem dTime_post (inp : List Nat) : DPostK 0 inp dTime (fun _ => True) := by
  unfold dTime
  refine DPostK.bind0 (dPeek_post inp) (fun o _ => ?_)
  cases o with
  | none => dfail
  | some b =>
    simp only
    refine DPostK.bind0 (DPostK.lift (Post.of_safe (tagOfByte_safe b))) (fun t _ => ?_)
    refine DPostK.ite (fun _ => (dUtcTime_post inp).mono (Nat.zero_le _) (fun _ h => h)) (fun _ => ?_)
    exact DPostK.ite (fun _ => (dGeneralizedTime_post inp).mono (Nat.zero_le _) (fun _ h => h)) (fun _ => by dfail)

theorem dValidity_post (inp : List Nat) : DPostK 2 inp dValidity (fun _ => True) := by
  unfold dValidity
  refine DPostK.bindL (dHeaderOf_post inp _) (fun len _ => ?_)
  refine dNested_post len ?_
  refine DPostK.bind0 (dTime_post inp) (fun nb _ => ?_)
  refine DPostK.bind0 (dTime_post inp) (fun na _ => ?_)
  exact DPostK.pure trivial

/-! ### distinguished names -/

theorem dnApply_safe (acc : DnAttrs) (atv : List Nat × (Nat × List Nat)) : Safe (dnApply acc atv) := by
  unfold dnApply
  split
  · split
    · exact Safe.ok _
    · exact Safe.err (by decide)
  · split
    · split
      · exact Safe.ok _
      · exact Safe.err (by decide)
    · exact Safe.ok _

theorem dAtv_post (inp : List Nat) : DPostK 2 inp dAtv (fun _ => True) := by
  unfold dAtv
  refine DPostK.bindL (dHeaderOf_post inp _) (fun len _ => ?_)
  refine dNested_post len ?_
  refine DPostK.bind0 ((dOid_post inp).mono (Nat.zero_le _) (fun _ h => h)) (fun oid _ => ?_)
  refine DPostK.bind0 ((dAny_post inp).mono (Nat.zero_le _) (fun _ _ => trivial)) (fun v _ => ?_)
  exact DPostK.pure trivial

/-- remaining bytes after a step that consumed at least one -/
theorem Adv.rem_lt {r r' : Rdr} {k fuel : Nat} (ha : Adv r r' k) (hk : 1 ≤ k) (h : r.inputLen - r.position < fuel + 1) :
    r'.inputLen - r'.position < fuel := by
  have e1 := ha.ilen; have e2 := ha.pos; have e3 := Rdr.WF.pos_le ha.wf
  omega

theorem atvLoop_at {inp : List Nat} : ∀ (fuel : Nat) (acc : DnAttrs) (r : Rdr), r.WF → r.input = inp →
    r.inputLen - r.position < fuel → Post (atvLoop fuel acc r) (Fr r (fun _ => True))
  | 0, _, _, _, _, h => absurd h (Nat.not_lt_zero _)
  | fuel + 1, acc, r, hr, hi, h => by
    unfold atvLoop
    rw [Dec.bind_run, dFinished_at hr]
    simp only
    split
    · exact Post.ok ⟨⟨0, Adv.refl hr⟩, trivial⟩
    · refine Post.dbind ((dAtv_post inp).at hr hi) (fun atv r1 h1 => ?_)
      obtain ⟨⟨k1, hk1, ha1⟩, _⟩ := h1
      refine Post.dbind ((DPostK.lift (inp := inp) (Post.of_safe (dnApply_safe acc atv))).at ha1.wf (by rw [ha1.input, hi]))
        (fun acc' r2 h2 => ?_)
      obtain ⟨⟨k2, _, ha2⟩, _⟩ := h2
      have ha := ha1.trans ha2
      refine Post.weaken (atvLoop_at fuel acc' r2 ha.wf (by rw [ha.input, hi]) (ha.rem_lt (by omega) h)) (fun y hy => ?_)
      obtain ⟨⟨k3, ha3⟩, _⟩ := hy
      exact ⟨⟨_, ha.trans ha3⟩, trivial⟩

theorem atvLoop_post {inp : List Nat} {fuel : Nat} (hfuel : inp.length < fuel) (acc : DnAttrs) :
    DPostK 0 inp (atvLoop fuel acc) (fun _ => True) := by
  intro r hr hi
  have := Rdr.rem_le_input hr
  refine Post.weaken (atvLoop_at fuel acc r hr hi (by rw [hi] at this; omega)) (fun x hx => ?_)
  obtain ⟨⟨k, ha⟩, hq⟩ := hx
  exact ⟨⟨k, Nat.zero_le _, ha⟩, hq⟩

theorem rdnLoop_at {inp : List Nat} {fuel : Nat} (hfuel : inp.length < fuel) : ∀ (n : Nat) (acc : DnAttrs) (r : Rdr),
    r.WF → r.input = inp → r.inputLen - r.position < n → Post (rdnLoop fuel n acc r) (Fr r (fun _ => True))
  | 0, _, _, _, _, h => absurd h (Nat.not_lt_zero _)
  | n + 1, acc, r, hr, hi, h => by
    unfold rdnLoop
    rw [Dec.bind_run, dFinished_at hr]
    simp only
    split
    · exact Post.ok ⟨⟨0, Adv.refl hr⟩, trivial⟩
    · refine Post.dbind ((dAny_post inp).at hr hi) (fun x r1 h1 => ?_)
      obtain ⟨tag, v⟩ := x
      obtain ⟨⟨k1, hk1, ha1⟩, hv⟩ := h1
      simp only at hv
      have hsub : Post (runNew v (atvLoop fuel acc)) (fun _ => True) := runNew_post (atvLoop_post (by omega) acc)
      refine Post.dbind ((DPostK.lift (inp := inp) hsub).at ha1.wf (by rw [ha1.input, hi])) (fun acc' r2 h2 => ?_)
      obtain ⟨⟨k2, _, ha2⟩, _⟩ := h2
      have ha := ha1.trans ha2
      refine Post.weaken (rdnLoop_at hfuel n acc' r2 ha.wf (by rw [ha.input, hi]) (ha.rem_lt (by omega) h)) (fun y hy => ?_)
      obtain ⟨⟨k3, ha3⟩, _⟩ := hy
      exact ⟨⟨_, ha.trans ha3⟩, trivial⟩

theorem dnParse_safe {fuel : Nat} {raw : List Nat} (hfuel : raw.length < fuel) : Safe (dnParse fuel raw) := by
  unfold dnParse
  refine (runNew_post (Q := fun _ => True) ?_).1
  intro r hr hi
  have := Rdr.rem_le_input hr
  refine Post.weaken (rdnLoop_at hfuel fuel _ r hr hi (by rw [hi] at this; omega)) (fun x hx => ?_)
  obtain ⟨⟨k, ha⟩, hq⟩ := hx
  exact ⟨⟨k, Nat.zero_le _, ha⟩, hq⟩

theorem dName_post {inp : List Nat} {fuel : Nat} (hfuel : inp.length < fuel) : DPostK 2 inp (dName fuel) (fun _ => True) := by
  unfold dName
  refine DPostK.bindL (dHeaderOf_post inp _) (fun len _ => ?_)
  refine DPostK.bind0 (dSlice_post inp len) (fun raw hraw => ?_)
  refine DPostK.bind0 (DPostK.lift (Post.of_safe (dnParse_safe (by omega)))) (fun attrs _ => ?_)
  exact DPostK.pure trivial

/-! ### SubjectPublicKeyInfo -/

theorem dSpki_post (inp : List Nat) :
    DPostK 2 inp dSpki (fun x => At inp (x.2.bytes, x.2.off) ∧ x.2.bytes.length = P256_PUBLIC_KEY_LEN) := by
  unfold dSpki
  refine DPostK.bindL (dHeaderOf_post inp _) (fun len _ => ?_)
  refine dNested_post len ?_
  refine DPostK.bind0 ((dAlgId_post inp).mono (Nat.zero_le _) (fun _ h => h)) (fun x _ => ?_)
  obtain ⟨alg, params⟩ := x
  refine DPostK.ite (fun _ => by dfail) (fun _ => ?_)
  refine DPostK.ite (fun _ => by dfail) (fun _ => ?_)
  refine DPostK.bind0 ((dBitString_post inp).mono (Nat.zero_le _) (fun _ h => h)) (fun key hkey => ?_)
  refine DPostK.ite (fun _ => by dfail) (fun _ => ?_)
  refine DPostK.ite (fun _ => by dfail) (fun hl => ?_)
  refine DPostK.ite (fun _ => by dfail) (fun _ => ?_)
  exact DPostK.pure ⟨hkey, by simpa using hl⟩

/-! ### extensions -/

theorem dBasicConstraints_post (inp : List Nat) : DPostK 2 inp dBasicConstraints (fun _ => True) := by
  unfold dBasicConstraints
  refine DPostK.bindL (dHeaderOf_post inp _) (fun len _ => ?_)
  refine dNested_post len ?_
  refine DPostK.bind0 (dOpt_post _ ((dBool_post inp).mono (Nat.zero_le _) (fun _ h => h))) (fun ca _ => ?_)
  refine DPostK.bind0 (dOpt_post _ ((dU8_post inp).mono (Nat.zero_le _) (fun _ h => h))) (fun pl _ => ?_)
  exact DPostK.pure trivial

theorem dAkid_post {inp : List Nat} {fuel : Nat} (hfuel : inp.length < fuel) :
    DPostK 2 inp (dAkid fuel) (fun x => At inp x) := by
  unfold dAkid
  refine DPostK.bindL (dHeaderOf_post inp _) (fun len _ => ?_)
  refine dNested_post len ?_
  refine DPostK.bind0 (ctxWith_post (ctxImplicitOctets_post inp) hfuel) (fun o ho => ?_)
  cases o with
  | none => dfail
  | some v => exact DPostK.pure (ho v rfl)

/-- the byte strings kept in the accumulator are ranges of the certificate -/
def ExtFields.Inv (inp : List Nat) (f : ExtFields) : Prop :=
  (∀ c k, f.skid = some (c, k) → At inp k) ∧ (∀ c k, f.akid = some (c, k) → At inp k)

theorem ExtFields.empty_inv (inp : List Nat) : ExtFields.empty.Inv inp :=
  ⟨fun _ _ h => by simp [ExtFields.empty] at h, fun _ _ h => by simp [ExtFields.empty] at h⟩

theorem dExtHead_post (inp : List Nat) : DPostK 0 inp dExtHead (fun x => At inp x.2.2) := by
  unfold dExtHead
  refine DPostK.bind0 ((dOid_post inp).mono (Nat.zero_le _) (fun _ h => h)) (fun oid _ => ?_)
  refine DPostK.bind0 (dFinished_post inp) (fun fin _ => ?_)
  refine DPostK.bind0 (Q := fun _ => True) ?_ (fun isBool _ => ?_)
  · refine DPostK.ite (fun _ => DPostK.pure trivial) (fun _ => ?_)
    refine DPostK.bind0 (dPeek_post inp) (fun o _ => ?_)
    cases o with
    | none => dfail
    | some b =>
      simp only
      refine DPostK.bind0 (DPostK.lift (Post.of_safe (tagOfByte_safe b))) (fun t _ => ?_)
      exact DPostK.pure trivial
  · refine DPostK.bind0 (Q := fun _ => True) ?_ (fun critical _ => ?_)
    · exact DPostK.ite (fun _ => (dBool_post inp).mono (Nat.zero_le _) (fun _ h => h)) (fun _ => DPostK.pure trivial)
    · refine DPostK.bind0 ((octetString_post inp).mono (Nat.zero_le _) (fun _ h => h)) (fun v hv => ?_)
      exact DPostK.pure hv

theorem Post.err_of {α β : Type} {x : Except E α} {e : E} {Q : α → Prop} {R : β → Prop} (h : Post x Q) (hx : x = .error e) :
    Post (.error e : Except E β) R := by
  rw [hx] at h
  exact ⟨Safe.err_cast h.1, fun _ hb => by simp at hb⟩

theorem extApply_post {inp : List Nat} {fuel : Nat} {acc : ExtFields} {oid : List Nat} {critical : Bool}
    {value : List Nat} {base : Nat} (hacc : acc.Inv inp) (hv : At inp (value, base)) (hfuel : value.length < fuel) :
    Post (extApply fuel acc oid critical value base) (ExtFields.Inv inp) := by
  unfold extApply
  split
  · have h := fromDer_post ((dBasicConstraints_post value).mono (Nat.zero_le _) (fun _ h => h))
    split
    · exact Post.ok ⟨hacc.1, hacc.2⟩
    · rename_i e heq; exact h.err_of heq
  · split
    · have h := fromDer_post ((dBitString_post value).mono (Nat.zero_le _) (fun _ _ => trivial))
      split
      · exact Post.ok ⟨hacc.1, hacc.2⟩
      · rename_i e heq; exact h.err_of heq
    · split
      · have h := fromDer_post ((octetString_post value).mono (Nat.zero_le _) (fun _ h => h))
        split
        · rename_i k off heq
          refine Post.ok ⟨fun c k' hk => ?_, hacc.2⟩
          simp only [Option.some.injEq, Prod.mk.injEq] at hk
          rw [← hk.2]
          exact hv.trans (h.2 _ heq)
        · rename_i e heq; exact h.err_of heq
      · split
        · have h := fromDer_post ((dAkid_post (inp := value) hfuel).mono (Nat.zero_le _) (fun _ h => h))
          split
          · rename_i k off heq
            refine Post.ok ⟨hacc.1, fun c k' hk => ?_⟩
            simp only [Option.some.injEq, Prod.mk.injEq] at hk
            rw [← hk.2]
            exact hv.trans (h.2 _ heq)
          · rename_i e heq; exact h.err_of heq
        · split
          · exact Post.err (by decide)
          · exact Post.ok hacc

theorem extLoop_at {inp : List Nat} {fuel : Nat} (hfuel : inp.length < fuel) : ∀ (n : Nat) (acc : ExtFields) (r : Rdr),
    acc.Inv inp → r.WF → r.input = inp → r.inputLen - r.position < n →
      Post (extLoop fuel n acc r) (Fr r (ExtFields.Inv inp))
  | 0, _, _, _, _, _, h => absurd h (Nat.not_lt_zero _)
  | n + 1, acc, r, hacc, hr, hi, h => by
    unfold extLoop
    rw [Dec.bind_run, dFinished_at hr]
    simp only
    split
    · exact Post.ok ⟨⟨0, Adv.refl hr⟩, hacc⟩
    · refine Post.dbind ((dAnyAt_post inp).at hr hi) (fun x r1 h1 => ?_)
      obtain ⟨tag, ev, eoff⟩ := x
      obtain ⟨⟨k1, hk1, ha1⟩, hev⟩ := h1
      simp only at hev
      have hevl := hev.length_le
      have hsub : Post (runNew ev dExtHead) (fun x => At ev x.2.2) := runNew_post (dExtHead_post ev)
      refine Post.dbind ((DPostK.lift (inp := inp) hsub).at ha1.wf (by rw [ha1.input, hi])) (fun y r2 h2 => ?_)
      obtain ⟨oid, critical, value, voff⟩ := y
      obtain ⟨⟨k2, _, ha2⟩, hval⟩ := h2
      simp only at hval hevl
      have hvl := hval.length_le
      simp only at hvl
      have hap : Post (extApply fuel acc oid critical value (eoff + voff)) (ExtFields.Inv inp) :=
        extApply_post hacc (hev.trans hval) (by omega)
      have ha12 := ha1.trans ha2
      refine Post.dbind ((DPostK.lift (inp := inp) hap).at ha12.wf (by rw [ha12.input, hi])) (fun acc' r3 h3 => ?_)
      obtain ⟨⟨k3, _, ha3⟩, hacc'⟩ := h3
      have ha := ha12.trans ha3
      refine Post.weaken (extLoop_at hfuel n acc' r3 hacc' ha.wf (by rw [ha.input, hi]) (ha.rem_lt (by omega) h)) (fun y hy => ?_)
      obtain ⟨⟨k4, ha4⟩, hq⟩ := hy
      exact ⟨⟨_, ha.trans ha4⟩, hq⟩

def Exts.Inv (inp : List Nat) (e : Exts) : Prop := At inp e.skid ∧ ∀ a, e.akid = some a → At inp a

theorem extCheck_post {inp : List Nat} {k : CertKind} {f : ExtFields} (hf : f.Inv inp) :
    Post (extCheck k f) (Exts.Inv inp) := by
  unfold extCheck
  split
  · rename_i bcCrit ca pl kuCrit bits sc skid hbc hku hsk
    have hskid := hf.1 _ _ hsk
    split
    · refine Post.ok ⟨hskid, fun a h => ?_⟩
      cases hak : f.akid with
      | none => simp [hak] at h
      | some x =>
        obtain ⟨c, a'⟩ := x
        simp only [hak, Option.map_some, Option.some.injEq] at h
        exact h ▸ hf.2 _ _ hak
    · exact Post.err (by decide)
  · exact Post.err (by decide)

theorem dExtensions_post {inp : List Nat} {fuel : Nat} (hfuel : inp.length < fuel) (k : CertKind) :
    DPostK 2 inp (dExtensions k fuel) (Exts.Inv inp) := by
  unfold dExtensions
  refine DPostK.bindL (dHeaderOf_post inp _) (fun len _ => ?_)
  refine dNested_post len ?_
  refine DPostK.bind0 (Q := ExtFields.Inv inp) ?_ (fun f hf => DPostK.lift (extCheck_post hf))
  intro r hr hi
  have := Rdr.rem_le_input hr
  refine Post.weaken (extLoop_at hfuel fuel _ r (ExtFields.empty_inv inp) hr hi (by rw [hi] at this; omega)) (fun x hx => ?_)
  obtain ⟨⟨k, ha⟩, hq⟩ := hx
  exact ⟨⟨k, Nat.zero_le _, ha⟩, hq⟩

theorem validateIssuerSubject_safe (k : CertKind) (i s : DnAttrs) (ir sr : List Nat) :
    Safe (validateIssuerSubject k i s ir sr) := by
  unfold validateIssuerSubject
  cases k <;> simp only <;> repeat' (first | exact Safe.err (by decide) | exact Safe.ok _ | split)

/-! ### `TbsCertificate`, `Certificate`, `X509Cert::new` -/

/-- the slices a parsed certificate hands out are ranges of the input; the key has 65 octets -/
def Cert.Inv (inp : List Nat) (c : Cert) : Prop :=
  At inp c.skid ∧ (∀ a, c.akid = some a → At inp a) ∧ At inp c.pk ∧ c.pk.1.length = P256_PUBLIC_KEY_LEN

theorem oidOfAny_safe (a : Nat × List Nat) : Safe (oidOfAny a) := by
  unfold oidOfAny
  split
  · exact Safe.err (by decide)
  · split
    · exact Safe.ok _
    · exact Safe.err (by decide)

theorem dTbs_post {inp : List Nat} {fuel : Nat} (hfuel : inp.length < fuel) (k : CertKind) :
    DPostK 2 inp (dTbs k fuel) (Cert.Inv inp) := by
  unfold dTbs
  refine DPostK.bindL (dHeaderOf_post inp _) (fun len _ => ?_)
  refine dNested_post len ?_
  refine DPostK.bind0 (ctxWith_post (ctxExplicit_post ((dUintRef_post inp).mono (Nat.zero_le _) (fun _ h => h))) hfuel)
    (fun o _ => ?_)
  cases o with
  | none => dfail
  | some version =>
    simp only
    refine DPostK.ite (fun _ => by dfail) (fun _ => ?_)
    refine DPostK.bind0 ((dAny_post inp).mono (Nat.zero_le _) (fun _ _ => trivial)) (fun serial _ => ?_)
    refine DPostK.bind0 ((dAlgId_post inp).mono (Nat.zero_le _) (fun _ h => h)) (fun x _ => ?_)
    obtain ⟨sigAlg, sp⟩ := x
    refine DPostK.ite (fun _ => by dfail) (fun _ => ?_)
    refine DPostK.bind0 ((dName_post hfuel).mono (Nat.zero_le _) (fun _ h => h)) (fun x _ => ?_)
    obtain ⟨issuerRaw, issuer⟩ := x
    refine DPostK.bind0 ((dValidity_post inp).mono (Nat.zero_le _) (fun _ h => h)) (fun x _ => ?_)
    obtain ⟨nb, na⟩ := x
    refine DPostK.bind0 ((dName_post hfuel).mono (Nat.zero_le _) (fun _ h => h)) (fun x _ => ?_)
    obtain ⟨subjectRaw, subject⟩ := x
    refine DPostK.bind0 ((dSpki_post inp).mono (Nat.zero_le _) (fun _ h => h)) (fun x hkey => ?_)
    obtain ⟨params, key⟩ := x
    refine DPostK.ite (fun _ => by dfail) (fun _ => ?_)
    cases params with
    | none => dfail
    | some p =>
      simp only
      have hs := oidOfAny_safe p
      cases ho : oidOfAny p with
      | error e =>
        simp only
        rw [ho] at hs
        exact DPostK.fail ((safe_iff _).1 hs |> fun h => ⟨fun he => h.1 (by rw [he]), fun he => h.2 (by rw [he])⟩)
      | ok curve =>
        simp only
        refine DPostK.ite (fun _ => by dfail) (fun _ => ?_)
        refine DPostK.bind0 (ctxWith_post (ctxExplicit_post ((dExtensions_post hfuel k).mono (Nat.zero_le _) (fun _ h => h))) hfuel)
          (fun o ho => ?_)
        cases o with
        | none => dfail
        | some exts =>
          simp only
          have he := ho exts rfl
          refine DPostK.bind0 (DPostK.lift (Post.of_safe (validateIssuerSubject_safe k issuer subject issuerRaw subjectRaw)))
            (fun _ _ => ?_)
          exact DPostK.pure ⟨he.1, he.2, hkey.1, hkey.2⟩

theorem dCertificate_post {inp : List Nat} {fuel : Nat} (hfuel : inp.length < fuel) (k : CertKind) :
    DPostK 2 inp (dCertificate k fuel) (Cert.Inv inp) := by
  unfold dCertificate
  refine DPostK.bindL (dHeaderOf_post inp _) (fun len _ => ?_)
  refine dNested_post len ?_
  refine DPostK.bind0 ((dTbs_post hfuel k).mono (Nat.zero_le _) (fun _ h => h)) (fun tbs htbs => ?_)
  refine DPostK.bind0 ((dAlgId_post inp).mono (Nat.zero_le _) (fun _ h => h)) (fun _ _ => ?_)
  refine DPostK.bind0 ((dBitString_post inp).mono (Nat.zero_le _) (fun _ _ => trivial)) (fun _ _ => ?_)
  exact DPostK.pure htbs

theorem mapInvalidData_post {α : Type} {x : Except E α} {Q : α → Prop} (h : Post x Q) : Post (mapInvalidData x) Q := by
  cases x with
  | ok y => exact Post.ok (h.2 y rfl)
  | error e =>
    have := (safe_iff _).1 h.1
    unfold mapInvalidData
    simp only
    rw [if_neg (fun he => this.1 (by rw [he])), if_neg (fun he => this.2 (by rw [he]))]
    exact Post.err (by decide)

/-- **`X509Cert::new` is total** on arbitrary bytes, for each of the three certificate types, and the slices its
accessors return are ranges of the input -/
theorem x509New_post (k : CertKind) (data : List Nat) : Post (x509New k data) (Cert.Inv data) := by
  unfold x509New
  exact mapInvalidData_post (fromDer_post ((dCertificate_post (Nat.lt_succ_self _) k).mono (Nat.zero_le _) (fun _ h => h)))

/-- the only error `X509Cert::new` answers is `InvalidData` -/
theorem x509New_error (k : CertKind) (data : List Nat) {e : E} (h : x509New k data = .error e) : e = .invalidData := by
  have hs := (safe_iff _).1 (x509New_post k data).1
  unfold x509New mapInvalidData at h hs
  split at h
  · simp at h
  · rename_i e' heq
    rw [heq] at hs
    simp only at hs
    split at h
    · rename_i hp; rw [if_pos hp] at hs; exact absurd rfl hs.1
    · rename_i hp
      rw [if_neg hp] at hs
      split at h
      · rename_i hq; rw [if_pos hq] at hs; exact absurd rfl hs.2
      · injection h with h; exact h.symm

/-! ### CSR -/

theorem dCsrInfo_post {inp : List Nat} {fuel : Nat} (hfuel : inp.length < fuel) :
    DPostK 2 inp (dCsrInfo fuel) (fun key => At inp (key.bytes, key.off) ∧ key.bytes.length = P256_PUBLIC_KEY_LEN) := by
  unfold dCsrInfo
  refine DPostK.bindL (dHeaderOf_post inp _) (fun len _ => ?_)
  refine dNested_post len ?_
  refine DPostK.bind0 ((dUintRef_post inp).mono (Nat.zero_le _) (fun _ h => h)) (fun _ _ => ?_)
  refine DPostK.bind0 ((dAny_post inp).mono (Nat.zero_le _) (fun _ _ => trivial)) (fun _ _ => ?_)
  refine DPostK.bind0 ((dSpki_post inp).mono (Nat.zero_le _) (fun _ h => h)) (fun x hkey => ?_)
  obtain ⟨params, key⟩ := x
  refine DPostK.bind0 (ctxWith_post (ctxImplicitAny_post inp) hfuel) (fun o _ => ?_)
  cases o with
  | none => dfail
  | some _ => exact DPostK.pure hkey

theorem dCsr_post {inp : List Nat} {fuel : Nat} (hfuel : inp.length < fuel) :
    DPostK 2 inp (dCsr fuel) (fun x => At inp (x.1.bytes, x.1.off) ∧ x.1.bytes.length = P256_PUBLIC_KEY_LEN) := by
  unfold dCsr
  refine DPostK.bindL (dHeaderOf_post inp _) (fun len _ => ?_)
  refine dNested_post len ?_
  refine DPostK.bind0 ((dCsrInfo_post hfuel).mono (Nat.zero_le _) (fun _ h => h)) (fun key hkey => ?_)
  refine DPostK.bind0 ((dAlgId_post inp).mono (Nat.zero_le _) (fun _ h => h)) (fun x _ => ?_)
  obtain ⟨alg, ps⟩ := x
  refine DPostK.ite (fun _ => by dfail) (fun _ => ?_)
  refine DPostK.bind0 ((dBitString_post inp).mono (Nat.zero_le _) (fun _ _ => trivial)) (fun sig _ => ?_)
  exact DPostK.pure hkey

theorem dCsrInfoRange_at {der : List Nat} {fuel : Nat} (hfuel : der.length < fuel) {r : Rdr} (hr : r.WF) (hi : r.input = der)
    (hlen : r.inputLen = der.length) :
    Post (dCsrInfoRange fuel r) (fun x => x.1.1 ≤ x.1.2 ∧ x.1.2 ≤ der.length) := by
  unfold dCsrInfoRange
  refine Post.dbind ((dHeader_post der).at hr hi) (fun h r1 h1 => ?_)
  obtain ⟨⟨k1, _, ha1⟩, _⟩ := h1
  refine Post.dbind (Q := fun x => x.1 = r1.position ∧ x.2 = r1) (Post.ok ⟨rfl, rfl⟩) (fun start r1' h1' => ?_)
  obtain ⟨hs, hr1⟩ := h1'
  simp only at hs hr1
  subst hr1 hs
  refine Post.dbind ((dCsrInfo_post hfuel).at ha1.wf (by rw [ha1.input, hi])) (fun key r2 h2 => ?_)
  obtain ⟨⟨k2, _, ha2⟩, _⟩ := h2
  refine Post.dbind (Q := fun x => x.1 = r2.position ∧ x.2 = r2) (Post.ok ⟨rfl, rfl⟩) (fun stop r2' h2' => ?_)
  obtain ⟨hs, hr2⟩ := h2'
  simp only at hs hr2
  subst hr2 hs
  refine Post.ok ⟨?_, ?_⟩
  · have := ha2.pos; simp only at this ⊢; omega
  · have e1 := ha2.ilen; have e2 := ha1.ilen; have e3 := Rdr.WF.pos_le ha2.wf
    simp only at e1 e2 e3 ⊢; omega

/-- what `CsrRef::new` hands out: the key (65 octets) is a range of the input, the signed range lies inside the
input, the raw signature - when the BIT STRING holds a DER ECDSA signature - has 64 octets -/
def Csr.Inv (der : List Nat) (c : Csr) : Prop :=
  At der c.pk ∧ c.pk.1.length = P256_PUBLIC_KEY_LEN ∧ c.tbsStart ≤ c.tbsEnd ∧ c.tbsEnd ≤ der.length ∧
  Safe c.sig ∧ ∀ s, c.sig = .ok s → s.length = 64

/-- **`CsrRef::new` is total** on arbitrary bytes -/
theorem csrNew_post (der : List Nat) : Post (csrNew der) (Csr.Inv der) := by
  unfold csrNew
  have h1 := mapInvalidData_post (fromDer_post ((dCsr_post (inp := der) (Nat.lt_succ_self _)).mono (Nat.zero_le _) (fun _ h => h)))
  split
  · rename_i e heq; exact h1.err_of heq
  · rename_i key sig heq
    have hk := h1.2 _ heq
    have h2 : Post (mapInvalidData (runNew der (dCsrInfoRange (der.length + 1))))
        (fun x => x.1 ≤ x.2 ∧ x.2 ≤ der.length) := by
      refine mapInvalidData_post ?_
      unfold runNew
      have hs := new_safe der
      cases hn : Rdr.new der with
      | error e => rw [hn] at hs; exact ⟨Safe.err_cast hs, fun _ hb => by simp at hb⟩
      | ok r =>
        obtain ⟨hreq, hwf⟩ := new_ok hn
        have h := dCsrInfoRange_at (der := der) (Nat.lt_succ_self _) hwf (by rw [hreq]; rfl) (by rw [hreq]; rfl)
        simp only
        cases hpr : dCsrInfoRange (der.length + 1) r with
        | error e => rw [hpr] at h; exact ⟨Safe.err_cast h.1, fun _ hb => by simp at hb⟩
        | ok x => obtain ⟨a, r'⟩ := x; exact Post.ok (h.2 _ hpr)
    split
    · rename_i e heq2; exact h2.err_of heq2
    · rename_i start stop heq2
      have hr := h2.2 _ heq2
      simp only at hr
      rw [if_pos hr]
      exact Post.ok ⟨hk.1, hk.2, hr.1, hr.2, ecdsaDerToRaw_safe _, fun s hs => ecdsaDerToRaw_length hs⟩

end Codec.DerRd
