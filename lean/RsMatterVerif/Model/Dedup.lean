import RsMatterVerif.Generated.Consts
/-!
# Model of `rs-matter/src/transport/dedup.rs`

`RxCtrState::post_recv` and `GroupCtrStore::post_recv`, transliterated.
`u32`/`u16` are `Nat` with the explicit wrap the Rust performs
(`wrapping_sub` = `(a + 2^32 - b) % 2^32`, `u16 << n` for `n < 16` keeps the low 16 bits).
Import-free (apart from the generated constants) so that the driver links as an executable.
-/
namespace Dedup

def U32 : Nat := 4294967296
def I32MAX : Nat := 2147483647
/-- `MSG_RX_STATE_BITMAP_LEN` -/
def L : Nat := Consts.bitmapLen

structure RxState where
  /-- `false` until the first message of a unicast session has been seen -/
  synced : Bool
  max : Nat
  bitmap : Nat
deriving Repr, DecidableEq, Inhabited

/-- `RxCtrState::new(max_ctr)`: synchronised, everything before `max_ctr` assumed seen (group trust-first). -/
def RxState.new (m : Nat) : RxState := { synced := true, max := m, bitmap := 0xffff }
/-- `RxCtrState::new_unsynced()`: a fresh unicast session. -/
def RxState.unsynced : RxState := { synced := false, max := 0, bitmap := 0 }

/-- forward step shared by both comparison modes: new max, window shifted by `d ≥ 1`. -/
def forward (s : RxState) (c d : Nat) : RxState :=
  if d ≤ L then
    { s with max := c, bitmap := ((s.bitmap <<< d) % 65536) ||| (1 <<< (d - 1)) }
  else
    { s with max := c, bitmap := 0 }

/-- behind-and-inside-the-window step: index `d - 1` of the bitmap. -/
def inWindow (s : RxState) (d : Nat) : RxState × Bool :=
  if s.bitmap.testBit (d - 1) then (s, false)
  else ({ s with bitmap := s.bitmap ||| (1 <<< (d - 1)) }, true)

/-- `post_recv(msg_ctr, is_encrypted, with_rollover = false)` -/
def postRecvPlain (s : RxState) (c : Nat) (enc : Bool) : RxState × Bool :=
  if s.synced = false then ({ synced := true, max := c, bitmap := 0 }, true)
  else if c = s.max then (s, false)
  else if c > s.max then (forward s c (c - s.max), true)
  else if s.max - c ≤ L then inWindow s (s.max - c)
  else if enc = false then ({ s with max := c, bitmap := 0 }, true)
  else (s, false)

/-- `post_recv(msg_ctr, true, with_rollover = true)` (group senders; always encrypted) -/
def postRecvRoll (s : RxState) (c : Nat) : RxState × Bool :=
  if s.synced = false then ({ synced := true, max := c, bitmap := 0 }, true)
  else if c = s.max then (s, false)
  else
    let fwd := (c + U32 - s.max) % U32
    if fwd ≤ I32MAX then (forward s c fwd, true)
    else
      let back := (s.max + U32 - c) % U32
      if back ≤ L then inWindow s back else (s, false)

def postRecv (s : RxState) (c : Nat) (enc roll : Bool) : RxState × Bool :=
  if roll then postRecvRoll s c else postRecvPlain s c enc

/-! ## Group counter store -/

structure GEntry where
  fab : Nat
  node : Nat
  rx : RxState
  lastUsed : Nat
deriving Repr, DecidableEq, Inhabited

structure GStore where
  entries : List GEntry
  clock : Nat
deriving Repr, DecidableEq, Inhabited

def GStore.empty : GStore := { entries := [], clock := 0 }

/-- look the sender up; on a hit touch `last_used` and run the window -/
def lookupUpdate (clk fab node c : Nat) : List GEntry → Option (List GEntry × Bool)
  | [] => none
  | e :: es =>
    if e.fab = fab ∧ e.node = node then
      let r := postRecvRoll e.rx c
      some ({ e with rx := r.1, lastUsed := clk } :: es, r.2)
    else
      match lookupUpdate clk fab node c es with
      | none => none
      | some (es', b) => some (e :: es', b)

/-- index of the first entry with minimal `lastUsed` (`Iterator::min_by_key` returns the first minimum) -/
def lruIdx : List GEntry → Nat
  | [] => 0
  | [_] => 0
  | e :: es =>
    let j := lruIdx es
    match es[j]? with
    | some m => if e.lastUsed ≤ m.lastUsed then 0 else j + 1
    | none => 0

def GStore.postRecv (g : GStore) (fab node c : Nat) : GStore × Bool :=
  let clk := (g.clock + 1) % U32
  match lookupUpdate clk fab node c g.entries with
  | some (es, b) => ({ entries := es, clock := clk }, b)
  | none =>
    let ne : GEntry := { fab := fab, node := node, rx := RxState.new c, lastUsed := clk }
    if g.entries.length < Consts.maxGroupCtrEntries then
      ({ entries := g.entries ++ [ne], clock := clk }, true)
    else
      ({ entries := g.entries.set (lruIdx g.entries) ne, clock := clk }, true)

/-! ## Set-based specification (written from the property text, not from the code) -/

/-- Unicast secure session: a counter is accepted iff it was not accepted before and is not
older than the window below the largest counter accepted so far. -/
def specAccept (acc : List Nat) (c : Nat) : Bool :=
  !acc.contains c && acc.all (fun a => a ≤ c + L)

/-! ### Unsecured sessions: the same, plus the restart rule

Written from the property text: between two restarts of the peer's counter a value is accepted at
most once; a newer value and an in-window value not accepted yet (since the last restart) are
accepted; a value that lies more than the window below a value accepted since the last restart IS a
restart: it is accepted and starts a new epoch, in which nothing has been accepted yet but the
restart value itself -- so a message the restarted peer sent just before the first one that arrived
(overtaken on the way) is still accepted once instead of being acknowledged as a duplicate and
discarded. The state is just the list of values accepted in the current epoch. -/

structure PSpec where
  /-- values accepted in the current epoch, newest first -/
  acc : List Nat
deriving Repr, DecidableEq, Inhabited

def PSpec.init : PSpec := { acc := [] }

/-- `c` is a restart: more than the window below a value accepted in this epoch -/
def PSpec.isRestart (p : PSpec) (c : Nat) : Bool := p.acc.any (fun a => decide (c + L < a))

/-- accepted iff first message of the session, a restart, or not accepted yet in this epoch -/
def specPlainAccept (p : PSpec) (c : Nat) : Bool :=
  p.acc.isEmpty || p.isRestart c || !p.acc.contains c

/-- epoch bookkeeping, given the verdict that was observed -/
def specPlainNext (p : PSpec) (c : Nat) (accepted : Bool) : PSpec :=
  if !accepted then p
  else if p.acc.isEmpty then { acc := [c] }
  else if p.isRestart c then { acc := [c] }
  else { acc := c :: p.acc }

end Dedup
