//! Generators of the `cd` / `x509` / `csr` / `dersig` / `der` streams (see c17_x509.rs): valid vectors and
//! encoder outputs, DER-aware structured mutations, arbitrary bytes and DER-shaped random trees.
use super::derb;
use super::tlvcerts::CERTS;
use super::vectors::VECTORS;
use crate::proto::{hex, unhex, Out};
use crate::rng::Rng;
use std::collections::BTreeMap;

// ------------------------------------------------------------------ DER walker

#[derive(Clone, Debug)]
pub struct Node {
    pub tag: u8,
    pub off: usize,
    pub hlen: usize,
    pub vlen: usize,
    /// (bytes of the value in front of the nested elements, nested elements)
    pub kids: Option<(usize, Vec<Node>)>,
}

impl Node {
    fn end(&self) -> usize {
        self.off + self.hlen + self.vlen
    }
}

fn parse_hdr(b: &[u8], pos: usize, end: usize) -> Option<(u8, usize, usize)> {
    if pos + 2 > end {
        return None;
    }
    let tag = b[pos];
    if tag & 0x1f == 0x1f {
        return None;
    }
    let l0 = b[pos + 1] as usize;
    let (len, hlen) = if l0 < 0x80 {
        (l0, 2)
    } else {
        let n = l0 & 0x7f;
        if n == 0 || n > 4 || pos + 2 + n > end {
            return None;
        }
        let mut v = 0usize;
        for i in 0..n {
            v = (v << 8) | b[pos + 2 + i] as usize;
        }
        (v, 2 + n)
    };
    if pos + hlen + len > end {
        return None;
    }
    Some((tag, hlen, len))
}

pub fn parse_nodes(b: &[u8], start: usize, end: usize, depth: usize) -> Option<Vec<Node>> {
    let mut pos = start;
    let mut v = Vec::new();
    while pos < end {
        let (tag, hlen, vlen) = parse_hdr(b, pos, end)?;
        let vs = pos + hlen;
        let mut kids = None;
        if depth < 24 && vlen > 0 {
            if tag & 0x20 != 0 || tag == 0x04 {
                if let Some(k) = parse_nodes(b, vs, vs + vlen, depth + 1) {
                    kids = Some((0, k));
                }
            } else if tag == 0x03 && b[vs] == 0 && vlen > 2 {
                if let Some(k) = parse_nodes(b, vs + 1, vs + vlen, depth + 1) {
                    kids = Some((1, k));
                }
            }
        }
        v.push(Node { tag, off: pos, hlen, vlen, kids });
        pos = vs + vlen;
    }
    Some(v)
}

pub fn flatten(nodes: &[Node], out: &mut Vec<Node>) {
    for n in nodes {
        out.push(n.clone());
        if let Some((_, k)) = &n.kids {
            flatten(k, out);
        }
    }
}

/// all elements of `b` in preorder (empty when `b` is not a DER element sequence)
pub fn walk(b: &[u8]) -> (Vec<Node>, Vec<Node>) {
    let roots = parse_nodes(b, 0, b.len(), 0).unwrap_or_default();
    let mut flat = Vec::new();
    flatten(&roots, &mut flat);
    (roots, flat)
}

/// re-serialises with minimal lengths, replacing the elements whose offset is in `repl` (ancestors' lengths follow)
fn rebuild(b: &[u8], nodes: &[Node], repl: &BTreeMap<usize, Vec<u8>>) -> Vec<u8> {
    let mut out = Vec::new();
    for n in nodes {
        if let Some(r) = repl.get(&n.off) {
            out.extend_from_slice(r);
            continue;
        }
        let touches = repl.keys().any(|o| *o > n.off && *o < n.end());
        match (&n.kids, touches) {
            (Some((pre, kids)), true) => {
                let vs = n.off + n.hlen;
                let mut val = b[vs..vs + pre].to_vec();
                val.extend(rebuild(b, kids, repl));
                out.extend(derb::tlv(n.tag, &val));
            }
            _ => out.extend_from_slice(&b[n.off..n.end()]),
        }
    }
    out
}

fn replace(b: &[u8], roots: &[Node], n: &Node, with: Vec<u8>) -> Vec<u8> {
    let mut m = BTreeMap::new();
    m.insert(n.off, with);
    rebuild(b, roots, &m)
}

// ------------------------------------------------------------------ edits

pub const N_LEN_EDITS: usize = 17;
pub const TAG_EDITS: &[u8] = &[
    0x00, 0x1f, 0x3f, 0x5f, 0x9f, 0xbf, 0xff, 0x30, 0x31, 0x05, 0x04, 0x03, 0x02, 0x06, 0x0c, 0x17, 0x18, 0xa0, 0xa3, 0x80, 0x60, 0xe0, 0x40, 0xc0, 0x01,
];
pub const N_TAG_EDITS: usize = 25 + 5;
pub const N_STRUCT_EDITS: usize = 12;

/// raw (inconsistent) replacement of the length octets of element `n`
pub fn len_edit(b: &[u8], n: &Node, k: usize) -> Vec<u8> {
    let l = n.vlen;
    let rest = b.len() - (n.off + n.hlen);
    let new: Vec<u8> = match k {
        0 => vec![0x00],
        1 => derb::dlen(l.saturating_sub(1)),
        2 => derb::dlen(l + 1),
        3 => vec![0x7f],
        4 => vec![0x80],
        5 => vec![0x81, l as u8],
        6 => vec![0x82, (l >> 8) as u8, l as u8],
        7 => vec![0x84, 0xff, 0xff, 0xff, 0xff],
        8 => vec![0x88, 0xff, 0xff, 0xff, 0xff, 0xff, 0xff, 0xff, 0xff],
        9 => vec![0x84, 0x0f, 0xff, 0xff, 0xff],
        10 => vec![0x84, 0x10, 0x00, 0x00, 0x00],
        11 => vec![0x83, 0, (l >> 8) as u8, l as u8],
        12 => vec![0xff],
        13 => vec![0x85, 0, 0, 0, (l >> 8) as u8, l as u8],
        14 => derb::dlen(rest),
        15 => derb::dlen(rest + 1),
        _ => vec![0x84, 0, 0, (l >> 8) as u8, l as u8],
    };
    let mut v = b[..n.off + 1].to_vec();
    v.extend(new);
    v.extend_from_slice(&b[n.off + n.hlen..]);
    v
}

pub fn tag_edit(b: &[u8], n: &Node, k: usize) -> Vec<u8> {
    let mut v = b.to_vec();
    v[n.off] = match k {
        k if k < TAG_EDITS.len() => TAG_EDITS[k],
        k if k == TAG_EDITS.len() => n.tag ^ 0x20,
        k if k == TAG_EDITS.len() + 1 => n.tag ^ 0x01,
        k if k == TAG_EDITS.len() + 2 => n.tag | 0x40,
        k if k == TAG_EDITS.len() + 3 => n.tag | 0x80,
        _ => n.tag | 0xc0,
    };
    v
}

fn nest(inner: &[u8], tag: u8, depth: usize) -> Vec<u8> {
    let mut v = inner.to_vec();
    for _ in 0..depth {
        v = derb::tlv(tag, &v);
    }
    v
}

/// consistent structural edits (lengths of the ancestors are re-encoded)
pub fn struct_edit(b: &[u8], roots: &[Node], flat: &[Node], i: usize, k: usize) -> Vec<u8> {
    let n = &flat[i];
    let e = b[n.off..n.end()].to_vec();
    match k {
        0 => replace(b, roots, n, vec![]),
        1 => replace(b, roots, n, [e.clone(), e].concat()),
        2 => replace(b, roots, n, vec![n.tag, 0]),
        3 => {
            // swap with the element that follows it (if it is a sibling)
            if let Some(s) = flat.iter().find(|s| s.off == n.end()) {
                let mut m = BTreeMap::new();
                m.insert(n.off, b[s.off..s.end()].to_vec());
                m.insert(s.off, e);
                rebuild(b, roots, &m)
            } else {
                replace(b, roots, n, [vec![0x05, 0x00], e].concat())
            }
        }
        4 => replace(b, roots, n, [e, vec![0x05, 0x00]].concat()),
        5 => replace(b, roots, n, [vec![0x0c, 0x01, 0x41], e].concat()),
        6 => replace(b, roots, n, nest(&e, 0x30, 1)),
        7 => replace(b, roots, n, nest(&e, 0x30, 40)),
        8 => replace(b, roots, n, nest(&e, 0xa0, 300)),
        9 => replace(b, roots, n, nest(&e, 0x31, 3)),
        10 => replace(b, roots, n, derb::tlv(n.tag, &nest(&[], 0x30, 200))),
        _ => replace(b, roots, n, derb::tlv(n.tag, &[b[n.off + n.hlen..n.end()].to_vec(), vec![0x00]].concat())),
    }
}

/// edge-form values for a primitive element of the given universal tag
pub fn value_forms(tag: u8) -> Vec<Vec<u8>> {
    let s = |x: &str| x.as_bytes().to_vec();
    match tag {
        0x02 => vec![
            vec![],
            vec![0x00],
            vec![0x00, 0x00],
            vec![0x00, 0x01],
            vec![0x00, 0x7f],
            vec![0x00, 0x80],
            vec![0x80],
            vec![0xff],
            vec![0xff, 0xff],
            vec![0x01, 0x00],
            vec![0x03],
            vec![0x02],
            vec![0x7f; 33],
            vec![0xff; 40],
            [vec![0x00], vec![0xff; 32]].concat(),
            [vec![0x00, 0x00], vec![0xff; 32]].concat(),
            vec![0x00; 70],
        ],
        0x03 => vec![
            vec![],
            vec![0x00],
            vec![0x07],
            vec![0x08],
            vec![0xff],
            vec![0x08, 0x80],
            vec![0x07, 0x80],
            vec![0x07, 0xff],
            vec![0x00, 0x80, 0x80],
            vec![0x07, 0x80, 0x80],
            vec![0x01, 0x06],
            vec![0x00, 0x04, 0x00],
            vec![0x00, 0x80, 0x00, 0xff],
            vec![0x09, 0x01, 0x02],
            [vec![0x00], vec![0x04; 64]].concat(),
            [vec![0x00], vec![0x04; 66]].concat(),
            [vec![0x01], vec![0x04; 65]].concat(),
            [vec![0x00, 0x02], vec![0x04; 64]].concat(),
        ],
        0x06 => vec![
            vec![],
            vec![0x80],
            vec![0x2a, 0x80, 0x01],
            vec![0x2a, 0x86],
            vec![0x2a, 0xff, 0xff, 0xff, 0xff, 0x7f],
            vec![0x2a, 0xff, 0xff, 0xff, 0xff, 0xff, 0xff, 0xff, 0xff, 0xff, 0x7f],
            vec![0xff, 0xff, 0xff, 0xff, 0x7f],
            vec![0x78],
            vec![0x2a; 39],
            vec![0x2a; 40],
            vec![0x2a; 200],
            derb::OID_MATTER_VID.to_vec(),
            derb::OID_MATTER_PID.to_vec(),
            derb::OID_SKID.to_vec(),
            derb::OID_AKID.to_vec(),
            derb::OID_BC.to_vec(),
            derb::OID_KU.to_vec(),
            derb::OID_ECDSA_SHA256.to_vec(),
            derb::OID_SHA256.to_vec(),
            derb::OID_DATA.to_vec(),
        ],
        0x17 => vec![
            vec![],
            s("Z"),
            s("000101000000Z"),
            s("491231235959Z"),
            s("500101000000Z"),
            s("691231235959Z"),
            s("700101000000Z"),
            s("991231235959Z"),
            s("991331000000Z"),
            s("990230000000Z"),
            s("240229000000Z"),
            s("230229000000Z"),
            s("990132000000Z"),
            s("990100000000Z"),
            s("990001000000Z"),
            s("990101240000Z"),
            s("990101006000Z"),
            s("990101000060Z"),
            s("9901010000Z"),
            s("990101000000"),
            s("990101000000+0000"),
            s("99010100000000Z"),
            s("9901010000.0Z"),
            s("ab0101000000Z"),
            s("-10101000000Z"),
            vec![0xff; 13],
            vec![0x00; 13],
            s("20220205000000Z"),
        ],
        0x18 => vec![
            vec![],
            s("Z"),
            s("99991231235959Z"),
            s("99991231235960Z"),
            s("99991231245959Z"),
            s("99991232235959Z"),
            s("99991331235959Z"),
            s("00000101000000Z"),
            s("19691231235959Z"),
            s("19700101000000Z"),
            s("20380119031408Z"),
            s("21060207062816Z"),
            s("20240229000000Z"),
            s("21000229000000Z"),
            s("20000229000000Z"),
            s("20220205000000.5Z"),
            s("20220205000000"),
            s("2022020500Z"),
            s("202202050000Z"),
            s("20220205000000+0100"),
            s("220205000000Z"),
            s("2022020500000ZZ"),
            s("+0220205000000Z"),
            vec![0xff; 15],
            vec![0x30; 15],
            vec![0x39; 15],
        ],
        0x01 => vec![vec![], vec![0x00], vec![0x01], vec![0xff], vec![0xfe], vec![0xff, 0xff], vec![0x00, 0x00]],
        0x0c | 0x13 | 0x16 => vec![
            vec![],
            s("FFF1"),
            s("fff1"),
            s("FFF"),
            s("FFFF1"),
            s("GGGG"),
            s("0x01"),
            s("    "),
            s("+123"),
            s("-123"),
            vec![0xff, 0xfe, 0xfd, 0xfc],
            vec![0x00; 4],
            vec![0xc3, 0x28, 0x41, 0x41],
            vec![0x46; 300],
        ],
        0x04 | 0x80 => vec![vec![], vec![0x00], vec![0x04, 0x00], vec![0x30, 0x00], vec![0xaa; 19], vec![0xaa; 20], vec![0xaa; 21], vec![0xaa; 300]],
        0x05 => vec![vec![0x00], vec![0x05, 0x00]],
        _ => vec![vec![], vec![0x00], vec![0xff; 3]],
    }
}

/// random DER-shaped tree
pub fn rand_tree(r: &mut Rng, depth: usize) -> Vec<u8> {
    const CONS: &[u8] = &[0x30, 0x30, 0x30, 0x31, 0xa0, 0xa3, 0xa1, 0x60, 0xe0];
    const PRIM: &[u8] = &[0x02, 0x02, 0x03, 0x04, 0x05, 0x06, 0x06, 0x01, 0x0c, 0x13, 0x17, 0x18, 0x80, 0x81, 0x0a, 0x09, 0x16, 0x1e, 0x14];
    if depth > 0 && r.chance(3, 5) {
        let n = r.below(5) as usize;
        let kids: Vec<Vec<u8>> = (0..n).map(|_| rand_tree(r, depth - 1)).collect();
        derb::tlv(*r.pick(CONS), &kids.concat())
    } else {
        let tag = *r.pick(PRIM);
        let forms = value_forms(tag);
        let val = if r.chance(2, 3) {
            r.pick(&forms).clone()
        } else {
            let n = *r.pick(&[0usize, 1, 2, 4, 8, 20, 32, 33, 65, 66, 127, 128, 129, 255, 256, 300]);
            r.bytes(n)
        };
        if tag == 0x04 && depth > 0 && r.chance(1, 3) {
            derb::tlv(tag, &rand_tree(r, depth - 1))
        } else {
            derb::tlv(tag, &val)
        }
    }
}

/// one random structured mutant of `b` (DER-aware where `b` walks, byte-level otherwise)
pub fn mutant(r: &mut Rng, b: &[u8], out: &mut Out) -> Vec<u8> {
    let (roots, flat) = walk(b);
    if flat.is_empty() || r.chance(1, 10) {
        return byte_mutant(r, b, out);
    }
    let i = r.below(flat.len() as u64) as usize;
    let n = &flat[i];
    match r.below(10) {
        0..=2 => {
            out.stat("x509_mut_len", 1);
            len_edit(b, n, r.below(N_LEN_EDITS as u64) as usize)
        }
        3..=4 => {
            out.stat("x509_mut_tag", 1);
            tag_edit(b, n, r.below(N_TAG_EDITS as u64) as usize)
        }
        5..=6 => {
            out.stat("x509_mut_struct", 1);
            struct_edit(b, &roots, &flat, i, r.below(N_STRUCT_EDITS as u64) as usize)
        }
        7 => {
            out.stat("x509_mut_value", 1);
            // prefer a primitive element
            let prims: Vec<&Node> = flat.iter().filter(|n| n.kids.is_none()).collect();
            let n = if prims.is_empty() { n } else { *r.pick(&prims) };
            let forms = value_forms(n.tag);
            let f: &Vec<u8> = r.pick(&forms);
            replace(b, &roots, n, derb::tlv(n.tag, f))
        }
        8 => {
            out.stat("x509_mut_graft", 1);
            let t = rand_tree(r, 3);
            replace(b, &roots, n, t)
        }
        _ => {
            out.stat("x509_mut_truncate", 1);
            let k = r.below(b.len() as u64 + 1) as usize;
            b[..k].to_vec()
        }
    }
}

pub fn byte_mutant(r: &mut Rng, b: &[u8], out: &mut Out) -> Vec<u8> {
    super::super::mutate(r, b, out)
}

/// every structured mutant of `b` (thorough tier); `cap` bounds the number per kind of edit
pub fn all_mutants(b: &[u8]) -> Vec<Vec<u8>> {
    let (roots, flat) = walk(b);
    let mut v = Vec::new();
    for (i, n) in flat.iter().enumerate() {
        for k in 0..N_LEN_EDITS {
            v.push(len_edit(b, n, k));
        }
        for k in 0..N_TAG_EDITS {
            v.push(tag_edit(b, n, k));
        }
        for k in 0..N_STRUCT_EDITS {
            v.push(struct_edit(b, &roots, &flat, i, k));
        }
        if n.kids.is_none() {
            for f in value_forms(n.tag) {
                v.push(replace(b, &roots, n, derb::tlv(n.tag, &f)));
            }
        }
    }
    for k in 0..=b.len() {
        v.push(b[..k].to_vec());
    }
    v
}

/// depth bombs and other whole-input shapes
pub fn bombs(r: &mut Rng, base: &[u8], thorough: bool) -> Vec<Vec<u8>> {
    let mut v = Vec::new();
    let n = if thorough { *r.pick(&[2000usize, 10000]) } else { *r.pick(&[50usize, 400, 1500]) };
    v.push([0x30u8, 0x80].repeat(n));
    v.push([0x30u8, 0x84, 0x0f, 0xff, 0xff, 0xff].repeat(n));
    v.push([0xa0u8, 0x82, 0xff, 0xff].repeat(n));
    v.push([0x24u8, 0x80].repeat(n));
    v.push(nest(base, 0x30, n.min(3000)));
    v.push(nest(&[], 0x30, n.min(3000)));
    v.push(nest(&[0x05, 0x00], 0xa0, n.min(3000)));
    // a valid input followed by / preceded by garbage
    v.push([base.to_vec(), vec![0x00]].concat());
    v.push([base.to_vec(), base.to_vec()].concat());
    v.push([vec![0x30, 0x00], base.to_vec()].concat());
    v
}

// ------------------------------------------------------------------ stream generators

fn vectors(group: &str) -> Vec<Vec<u8>> {
    VECTORS.iter().filter(|v| v.0 == group).map(|v| unhex(v.3)).collect()
}

fn asciihex(r: &mut Rng) -> String {
    match r.below(12) {
        0 => "FFF1".into(),
        1 => "8000".into(),
        2 => "0000".into(),
        3 => "FFFF".into(),
        4 => "abcd".into(),
        _ => format!("{:04X}", r.below(65536)),
    }
}

fn pk65(r: &mut Rng) -> String {
    let mut k = vec![0x04u8];
    k.extend(r.bytes(64));
    hex(&k)
}

/// mostly legal DAC / PAI / PAA field sets; one field in three cases is made illegal / unusual
fn gen_x509_rt(r: &mut Rng, out: &mut Out) -> String {
    let ty = *r.pick(&["dac", "pai", "paa"]);
    let vid = asciihex(r);
    let pid = asciihex(r);
    let mut f: BTreeMap<&str, String> = BTreeMap::new();
    let cn = hex(format!("Matter Test {} {}", ty, r.below(1000)).as_bytes());
    f.insert("scn", cn.clone());
    f.insert("icn", if ty == "paa" { cn } else { hex(b"Matter Test Issuer") });
    let sl = *r.pick(&[1usize, 8, 20]);
    f.insert("ser", hex(&r.bytes(sl)));
    f.insert("pk", pk65(r));
    f.insert("skid", hex(&r.bytes(20)));
    f.insert("akid", hex(&r.bytes(20)));
    f.insert("bcc", "1".into());
    f.insert("kuc", "1".into());
    f.insert("unk", if r.chance(1, 4) { "1".into() } else { "0".into() });
    f.insert("rot", r.below(6).to_string());
    f.insert("tf", if r.chance(3, 4) { "u".into() } else { "g".into() });
    let nb = match r.below(6) {
        0 => 0,
        1 => 946684800,
        2 => 4102444799,
        3 => 4102444800,
        4 => r.below(253402300799),
        _ => r.range(946684800, 2000000000),
    };
    f.insert("nb", nb.to_string());
    f.insert(
        "na",
        match r.below(4) {
            0 => "inf".into(),
            1 => nb.to_string(),
            2 => r.below(253402300799).to_string(),
            _ => (nb + r.below(1000000000)).min(253402300799).to_string(),
        },
    );
    match ty {
        "dac" => {
            f.insert("ca", "0".into());
            f.insert("pl", "-".into());
            f.insert("ku", "8000".into());
            f.insert("ivid", vid.clone());
            f.insert("ipid", if r.chance(1, 2) { pid.clone() } else { "-".into() });
            f.insert("svid", vid);
            f.insert("spid", pid);
        }
        "pai" => {
            f.insert("ca", "1".into());
            f.insert("pl", "0".into());
            f.insert("ku", (*r.pick(&["0600", "8600"])).into());
            f.insert("ivid", if r.chance(1, 2) { vid.clone() } else { "-".into() });
            f.insert("ipid", "-".into());
            f.insert("svid", vid);
            f.insert("spid", if r.chance(1, 2) { pid } else { "-".into() });
        }
        _ => {
            f.insert("ca", "1".into());
            f.insert("pl", (*r.pick(&["-", "1"])).into());
            f.insert("ku", (*r.pick(&["0600", "8600"])).into());
            let v = if r.chance(1, 2) { vid } else { "-".into() };
            f.insert("ivid", v.clone());
            f.insert("svid", v);
            f.insert("ipid", "-".into());
            f.insert("spid", "-".into());
            if r.chance(1, 3) {
                f.insert("akid", "-".into());
            }
        }
    }
    if r.chance(1, 3) {
        out.stat("x509_rt_perturbed", 1);
        let (k, v): (&str, String) = match r.below(16) {
            0 => ("bcc", "0".into()),
            1 => ("kuc", "0".into()),
            2 => ("ca", (*r.pick(&["0", "1", "-"])).into()),
            3 => ("pl", (*r.pick(&["-", "0", "1", "2", "255"])).into()),
            4 => ("ku", (*r.pick(&["0000", "8000", "0600", "8600", "0400", "0200", "0680", "8080", "ffff", "0601", "4600"])).into()),
            5 => ("skid", (*r.pick(&["-", "e", "00", "aabbccdd"])).into()),
            6 => ("akid", (*r.pick(&["-", "e", "00"])).into()),
            7 => ("unk", "2".into()),
            8 => ("svid", (*r.pick(&["-", "FFF", "FFFFF", "GHIJ", "0x12"])).into()),
            9 => ("ivid", (*r.pick(&["-", "FFF2", "FFF1", "zzzz"])).into()),
            10 => ("spid", (*r.pick(&["-", "8001", "800", "80000"])).into()),
            11 => ("ipid", (*r.pick(&["-", "8001", "8000"])).into()),
            12 => ("icn", hex(b"Other")),
            13 => {
                let n = *r.pick(&[0usize, 1, 33, 64, 66]);
                ("pk", hex(&r.bytes(n)))
            }
            14 => ("ser", (*r.pick(&["e", "00", "80", "ffffffffffffffffffffffffffffffffffffffffff"])).into()),
            _ => ("nb", (*r.pick(&["253402300799", "253402300800", "18446744073709551615"])).into()),
        };
        f.insert(k, v);
    } else {
        out.stat("x509_rt_legal_shape", 1);
    }
    // one structural variant of the encoding (see `x509::build`): forms the parser has its own branch for
    if r.chance(1, 3) {
        let x = *r.pick(&[
            "caf", "uid", "akx", "aka", "akn", "kun", "ku3", "kup", "ku0", "vlc", "vps", "dup", "mrd", "ext0", "ver1", "ver0",
            "nover", "sa5", "e4", "noext",
        ]);
        out.stat(&format!("x509_rt_variant_{}", x), 1);
        f.insert("x", x.into());
    } else if r.chance(1, 6) {
        // raw time elements: UTCTime 1950..1969, leap days, month / day / hour overflow, missing `Z`, GeneralizedTime
        // before 2050 and with fractions, wrong lengths
        let t = *r.pick(&[
            "17:3530303130313030303030305a", "17:3639313233313233353935395a", "17:3730303130313030303030305a",
            "17:3234303232393233353935395a", "17:3233303232393030303030305a", "17:3234313333313030303030305a",
            "17:3234303433313030303030305a", "17:3234303130313234303030305a", "17:32343031303130303030303030",
            "17:323430313031303030303030", "18:32303234303232393233353935395a", "18:31393730303130313030303030305a",
            "18:31393639313233313233353935395a", "18:32303234303232393233353935392e305a", "18:39393939313233313233353935395a",
            "18:30303030303130313030303030305a", "17:32ff303130313030303030305a", "0c:3234303130313030303030305a",
        ]);
        out.stat("x509_rt_raw_time", 1);
        f.insert(if r.chance(1, 2) { "nbraw" } else { "naraw" }, t.into());
    }
    let toks: Vec<String> = f.iter().map(|(k, v)| format!("{}={}", k, v)).collect();
    format!("rt {} {}", ty, toks.join(" "))
}

fn gen_crt(r: &mut Rng, out: &mut Out) -> String {
    let mut f: BTreeMap<&str, String> = BTreeMap::new();
    let npid = *r.pick(&[1usize, 1, 2, 3, 99, 100]);
    f.insert("fv", "1".into());
    f.insert("vid", super::super::edge(r, 16).to_string());
    f.insert("dt", super::super::edge(r, 32).to_string());
    f.insert("cid", hex(format!("ZIG{:016}", r.below(10_000_000_000_000_000)).as_bytes()));
    f.insert("sl", super::super::edge(r, 8).to_string());
    f.insert("si", super::super::edge(r, 16).to_string());
    f.insert("vn", super::super::edge(r, 16).to_string());
    f.insert("ct", r.below(3).to_string());
    f.insert("dac", if r.chance(1, 2) { format!("{},{}", super::super::edge(r, 16), super::super::edge(r, 16)) } else { "-".into() });
    let npaa = *r.pick(&[0usize, 0, 1, 2, 10]);
    f.insert(
        "paa",
        if npaa == 0 {
            (*r.pick(&["-", "-", "e"])).into()
        } else {
            (0..npaa).map(|_| hex(&r.bytes(20))).collect::<Vec<_>>().join(",")
        },
    );
    f.insert("kid", hex(&r.bytes(20)));
    let int = |r: &mut Rng| -> String {
        match r.below(6) {
            0 => hex(&r.bytes(31)),
            1 => hex(&[vec![0x00], r.bytes(31)].concat()),
            2 => hex(&[vec![0x80], r.bytes(31)].concat()),
            3 => hex(&[r.below(256) as u8]),
            4 => "00".into(),
            _ => hex(&r.bytes(32)),
        }
    };
    f.insert("r", int(r));
    f.insert("s", int(r));
    let mut np = npid;
    if r.chance(1, 3) {
        out.stat("cd_crt_perturbed", 1);
        match r.below(9) {
            0 => {
                f.insert("fv", (*r.pick(&["0", "2", "65535"])).into());
            }
            1 => np = *r.pick(&[0usize, 101, 150]),
            2 => {
                f.insert("cid", hex(&vec![0x41u8; *r.pick(&[0usize, 18, 20, 40])]));
            }
            3 => {
                f.insert("ct", (*r.pick(&["3", "255"])).into());
            }
            4 => {
                let n = *r.pick(&[1usize, 11, 12]);
                let l = *r.pick(&[19usize, 20, 21, 0]);
                f.insert("paa", (0..n).map(|_| if l == 0 { "e".to_string() } else { hex(&r.bytes(l)) }).collect::<Vec<_>>().join(","));
            }
            5 => {
                let n = *r.pick(&[0usize, 19, 21]);
                f.insert("kid", hex(&r.bytes(n)));
            }
            6 => {
                let n = *r.pick(&[33usize, 34, 64]);
                f.insert("r", hex(&r.bytes(n)));
            }
            7 => {
                f.insert("cid", hex(&[vec![0xc3u8, 0x28], vec![0x41u8; 17]].concat()));
            }
            _ => {
                f.insert("s", "e".into());
            }
        }
    } else {
        out.stat("cd_crt_legal_shape", 1);
    }
    f.insert("pids", if np == 0 { "-".into() } else { (0..np).map(|_| super::super::edge(r, 16).to_string()).collect::<Vec<_>>().join(",") });
    let toks: Vec<String> = f.iter().map(|(k, v)| format!("{}={}", k, v)).collect();
    format!("crt {}", toks.join(" "))
}

/// bytes printed by a `rt`-style op: the word at position `idx` of the output when it is hex
fn out_bytes(res: &str, idx: usize) -> Option<Vec<u8>> {
    let w = res.split_whitespace().nth(idx)?;
    if w.len() >= 2 && w.len() % 2 == 0 && w.bytes().all(|c| c.is_ascii_hexdigit()) {
        Some(unhex(w))
    } else {
        None
    }
}

/// DER of the ECDSA signature embedded in a certificate / CMS vector (last element, possibly inside a BIT STRING)
fn embedded_sigs() -> Vec<Vec<u8>> {
    let mut v = Vec::new();
    for (_, _, _, h) in VECTORS.iter() {
        let b = unhex(h);
        let (_, flat) = walk(&b);
        for n in flat.iter() {
            if n.tag == 0x30 && n.vlen >= 8 && n.vlen <= 72 {
                if let Some((_, k)) = &n.kids {
                    if k.len() == 2 && k.iter().all(|x| x.tag == 0x02 && x.vlen >= 20) {
                        v.push(b[n.off..n.end()].to_vec());
                    }
                }
            }
        }
    }
    v
}

pub fn gen(r: &mut Rng, out: &mut Out, thorough: bool, id: &mut u64) {
    let scale: u64 = if thorough { 8 } else { 1 };
    let emit = |out: &mut Out, id: &mut u64, kind: &str, ops: Vec<String>| {
        out.stat(&format!("kind_{}", kind), 1);
        super::super::emit_case(out, *id, kind, ops);
        *id += 1;
    };

    // ---------------- valid vectors, one case per vector (all entry points)
    for (g, _, _, h) in VECTORS.iter() {
        let ops: Vec<String> = match *g {
            "cms" => vec![format!("cms {}", h), format!("cver 1 {}", h), format!("cver 0 {}", h)],
            "cdc" => vec![format!("cdec {}", h)],
            "dac" | "pai" | "paa" => vec![format!("{} {}", g, h), format!("all {}", h)],
            _ => vec![format!("csr {}", h)],
        };
        let kind = match *g {
            "cms" | "cdc" => "cd",
            "csr" => "csr",
            _ => "x509",
        };
        emit(out, id, kind, ops);
        emit(out, id, "der", vec![format!("hdr {}", h), format!("any {}", h), format!("seq {}", h), format!("nest {}", h)]);
    }
    // Matter TLV certificates through the real converter
    for (_, tlv, _) in CERTS.iter() {
        emit(out, id, "x509", vec![format!("tlv {}", tlv)]);
    }

    // ---------------- thorough: every structured mutant of every vector
    if thorough {
        for (g, _, _, h) in VECTORS.iter() {
            let b = unhex(h);
            let (opname, kind) = match *g {
                "cms" => ("cms", "cd"),
                "cdc" => ("cdec", "cd"),
                "csr" => ("csr", "csr"),
                _ => ("all", "x509"),
            };
            let muts = if *g == "cdc" { (0..=b.len()).map(|k| b[..k].to_vec()).collect() } else { all_mutants(&b) };
            out.stat("x509_exhaustive_mutants", muts.len() as u64);
            // CSR verification costs an ECDSA check per accepted mutant: still cheap (most are refused)
            for chunk in muts.chunks(64) {
                emit(out, id, kind, chunk.iter().map(|m| format!("{} {}", opname, hex(m))).collect());
            }
            // the reading layer on the same mutants (model tie), sampled 1 in 4
            let sample: Vec<&Vec<u8>> = muts.iter().step_by(4).collect();
            for chunk in sample.chunks(64) {
                let mut ops = Vec::new();
                for m in chunk {
                    ops.push(format!("{} {}", r.pick(&["hdr", "any", "seq", "nest"]), hex(m)));
                }
                emit(out, id, "der", ops);
            }
        }
    }

    // ---------------- cd
    let cms_v = vectors("cms");
    let cdc_v = vectors("cdc");
    for _ in 0..150 * scale {
        let mut cr = r.fork();
        let rt = gen_crt(&mut cr, out);
        let res = super::cd::run(&rt);
        let mut ops = vec![rt];
        // mutate the CMS envelope that the op produced, and the TLV content
        let parts: Vec<&str> = res.split(" | ").collect();
        if let Some(msg) = parts.first().and_then(|p| out_bytes(p, 0)) {
            for _ in 0..4 {
                ops.push(format!("cms {}", hex(&mutant(&mut cr, &msg, out))));
            }
        }
        if let Some(c) = parts.get(1).and_then(|p| out_bytes(p, 0)) {
            for _ in 0..3 {
                ops.push(format!("cdec {}", hex(&byte_mutant(&mut cr, &c, out))));
            }
            // validate against a device identity derived from the fields (and perturbed)
            let op0 = ops[0].clone();
            let m = super::kvs(op0.split_whitespace().skip(1));
            let vid = super::get_num(&m, "vid");
            let pids: Vec<u64> = m.get("pids").copied().unwrap_or("-").split(',').filter_map(|x| x.parse().ok()).collect();
            let p0 = pids.first().copied().unwrap_or(0);
            let (ov, op) = match m.get("dac").copied() {
                Some(d) if d != "-" => {
                    let mut q = d.split(',');
                    (q.next().and_then(|x| x.parse().ok()).unwrap_or(0), q.next().and_then(|x| x.parse().ok()).unwrap_or(0))
                }
                _ => (vid, *cr.pick(&pids.iter().copied().chain([p0]).collect::<Vec<_>>())),
            };
            let paa0 = m.get("paa").copied().unwrap_or("-").split(',').next().unwrap_or("-").to_string();
            let skid = if paa0.len() == 40 && cr.chance(3, 4) { paa0 } else { hex(&cr.bytes(20)) };
            let mut f = [vid, *cr.pick(&pids.iter().copied().chain([p0]).collect::<Vec<_>>()), ov, op, ov, *cr.pick(&[0u64, op])];
            if cr.chance(1, 2) {
                let k = cr.below(6) as usize;
                f[k] = *cr.pick(&[0u64, 1, 0xfff1, 0x8000, f[k] ^ 1, 65535]);
            }
            let fields: Vec<&str> = op0.split_whitespace().skip(1).collect();
            ops.push(format!("cval {} {} {} {} {} {} {} {}", f[0], f[1], f[2], f[3], f[4], f[5], skid, fields.join(" ")));
        }
        emit(out, id, "cd", ops);
    }
    for _ in 0..120 * scale {
        let mut cr = r.fork();
        let mut ops = Vec::new();
        let base = cr.pick(&cms_v).clone();
        for _ in 0..10 {
            let m = mutant(&mut cr, &base, out);
            ops.push(format!("{} {}", if cr.chance(1, 6) { "cver 1" } else { "cms" }, hex(&m)));
        }
        let c = cr.pick(&cdc_v).clone();
        for _ in 0..6 {
            ops.push(format!("cdec {}", hex(&byte_mutant(&mut cr, &c, out))));
        }
        // CD content wrapped by the harness envelope with a known / unknown key id
        let kid = if cr.chance(1, 2) { unhex("62fa823359acfaa9963e1cfa140addf504f37160") } else { cr.bytes(20) };
        ops.push(format!("cver {} {}", cr.below(2), hex(&derb::cms(&c, &kid, &cr.bytes(32), &cr.bytes(32)))));
        let n = cr.range(0, 60) as usize;
        ops.push(format!("cms {}", hex(&cr.bytes(n))));
        let n = cr.range(0, 60) as usize;
        ops.push(format!("cdec {}", hex(&[vec![0x15u8], cr.bytes(n)].concat())));
        emit(out, id, "cd", ops);
    }

    // ---------------- x509
    let cert_v: Vec<Vec<u8>> = ["dac", "pai", "paa"].iter().flat_map(|g| vectors(g)).collect();
    for _ in 0..250 * scale {
        let mut cr = r.fork();
        let rt = gen_x509_rt(&mut cr, out);
        let res = super::x509::run(&rt);
        let mut ops = vec![rt];
        if let Some(der) = out_bytes(&res, 0) {
            ops.push(format!("all {}", hex(&der)));
            for _ in 0..5 {
                ops.push(format!("all {}", hex(&mutant(&mut cr, &der, out))));
            }
        }
        emit(out, id, "x509", ops);
    }
    for _ in 0..150 * scale {
        let mut cr = r.fork();
        let base = cr.pick(&cert_v).clone();
        let mut ops = Vec::new();
        for _ in 0..12 {
            ops.push(format!("all {}", hex(&mutant(&mut cr, &base, out))));
        }
        emit(out, id, "x509", ops);
    }
    // real generator -> real converter -> parser (ECDSA signing: few cases)
    for _ in 0..6 * scale {
        let mut cr = r.fork();
        let mut sk = cr.bytes(32);
        sk[0] = 0x10 | (sk[0] & 0x0f);
        let rnd = cr.below(4294967296);
        let nb = *cr.pick(&[1u64, 1000, 757382400, 4294967295, rnd]);
        let rnd = cr.below(1000000);
        let na = *cr.pick(&[0u64, nb, 4294967295, nb.saturating_add(rnd).min(4294967295)]);
        let ops = vec![format!("gen rcac sk={} nb={} na={} id={} fab={}", hex(&sk), nb, na, super::super::edge(&mut cr, 64), 1 + cr.below(1000))];
        emit(out, id, "x509", ops);
    }
    // Matter TLV vectors, mutated, through the converter into the parsers
    for _ in 0..40 * scale {
        let mut cr = r.fork();
        let base = unhex(cr.pick(CERTS).1);
        let mut ops = Vec::new();
        for _ in 0..5 {
            ops.push(format!("tlv {}", hex(&byte_mutant(&mut cr, &base, out))));
        }
        emit(out, id, "x509", ops);
    }

    // ---------------- csr
    let csr_v = vectors("csr");
    for _ in 0..5 * scale {
        let mut cr = r.fork();
        let mut sk = cr.bytes(32);
        sk[0] = 0x10 | (sk[0] & 0x0f);
        let rt = format!("rt {}", hex(&sk));
        let res = super::csr::run(&rt);
        let mut ops = vec![rt];
        if let Some(der) = out_bytes(&res, 1) {
            for _ in 0..6 {
                ops.push(format!("csr {}", hex(&mutant(&mut cr, &der, out))));
            }
        }
        emit(out, id, "csr", ops);
    }
    for _ in 0..150 * scale {
        let mut cr = r.fork();
        let base = cr.pick(&csr_v).clone();
        let mut ops = Vec::new();
        for _ in 0..12 {
            ops.push(format!("csr {}", hex(&mutant(&mut cr, &base, out))));
        }
        emit(out, id, "csr", ops);
    }

    // ---------------- dersig
    let sigs = embedded_sigs();
    out.stat("x509_embedded_signatures", sigs.len() as u64);
    for s in sigs.iter() {
        emit(out, id, "dersig", vec![format!("sig {}", hex(s))]);
    }
    for _ in 0..300 * scale {
        let mut cr = r.fork();
        let int = |r: &mut Rng| -> Vec<u8> {
            let n = *r.pick(&[0usize, 1, 2, 16, 31, 32, 32, 32, 33, 34, 40]);
            let mut v = r.bytes(n);
            match r.below(6) {
                0 if n > 0 => v[0] = 0,
                1 if n > 1 => {
                    v[0] = 0;
                    v[1] = 0
                }
                2 if n > 0 => v[0] |= 0x80,
                3 => v = vec![0; n],
                _ => {}
            }
            v
        };
        let rt = format!("rt {} {}", hex(&int(&mut cr)), hex(&int(&mut cr)));
        let res = super::dersig::run(&rt);
        let mut ops = vec![rt];
        if let Some(der) = out_bytes(&res, 0) {
            for _ in 0..5 {
                ops.push(format!("sig {}", hex(&mutant(&mut cr, &der, out))));
            }
        }
        if !sigs.is_empty() {
            let b = cr.pick(&sigs).clone();
            ops.push(format!("sig {}", hex(&mutant(&mut cr, &b, out))));
        }
        let n = *cr.pick(&[0usize, 1, 4, 32, 33, 64]);
        let v = int(&mut cr);
        ops.push(format!("cpy {} {}", n, hex(&v)));
        ops.push(format!("sig {}", hex(&rand_tree(&mut cr, 2))));
        emit(out, id, "dersig", ops);
    }

    // ---------------- der reading layer + shapes for every parser
    let all_v: Vec<Vec<u8>> = VECTORS.iter().map(|v| unhex(v.3)).collect();
    for _ in 0..400 * scale {
        let mut cr = r.fork();
        let mut ops = Vec::new();
        for _ in 0..8 {
            let b = match cr.below(5) {
                0 => rand_tree(&mut cr, 4),
                1 => {
                    let n = cr.range(0, 24) as usize;
                    cr.bytes(n)
                }
                2 => {
                    // header-shaped: tag, length octets of every form, a few content bytes
                    let mut v = vec![*cr.pick(&[0x30u8, 0x31, 0x02, 0x04, 0xa0, 0x80, 0x1f, 0x00, 0xff, 0x7e, 0xbe, 0xfe, 0x5f, 0x0c])];
                    let l = cr.below(300) as usize;
                    v.extend(match cr.below(9) {
                        0 => derb::dlen(l),
                        1 => vec![0x81, l as u8],
                        2 => vec![0x82, (l >> 8) as u8, l as u8],
                        3 => vec![0x83, 0, (l >> 8) as u8, l as u8],
                        4 => vec![0x84, 0, 0, (l >> 8) as u8, l as u8],
                        5 => vec![0x84, cr.below(256) as u8, 0xff, 0xff, 0xff],
                        6 => vec![0x80],
                        7 => vec![0x85 + cr.below(123) as u8, 1, 2, 3, 4, 5],
                        _ => vec![0x83, 1 + cr.below(255) as u8, 0, 0],
                    });
                    let k = *cr.pick(&[0usize, 1, l.saturating_sub(1), l, l + 1]);
                    v.extend(cr.bytes(k.min(400)));
                    v
                }
                _ => {
                    let base = cr.pick(&all_v).clone();
                    mutant(&mut cr, &base, out)
                }
            };
            ops.push(format!("{} {}", cr.pick(&["hdr", "any", "seq", "nest"]), hex(&b)));
        }
        emit(out, id, "der", ops);
    }
    // random trees and arbitrary bytes into every parser
    for _ in 0..120 * scale {
        let mut cr = r.fork();
        let t = if cr.chance(3, 4) {
            rand_tree(&mut cr, 5)
        } else {
            let n = cr.range(0, 64) as usize;
            cr.bytes(n)
        };
        let h = hex(&t);
        emit(out, id, "x509", vec![format!("all {}", h)]);
        emit(out, id, "cd", vec![format!("cms {}", h), format!("cdec {}", h)]);
        emit(out, id, "csr", vec![format!("csr {}", h)]);
    }
    // depth bombs
    for _ in 0..(if thorough { 6 } else { 2 }) {
        let mut cr = r.fork();
        let base = cr.pick(&all_v).clone();
        for b in bombs(&mut cr, &base, thorough) {
            let h = hex(&b);
            out.stat("x509_depth_bombs", 1);
            emit(out, id, "x509", vec![format!("all {}", h)]);
            emit(out, id, "cd", vec![format!("cms {}", h)]);
            emit(out, id, "csr", vec![format!("csr {}", h)]);
            emit(out, id, "dersig", vec![format!("sig {}", h)]);
            emit(out, id, "der", vec![format!("seq {}", h), format!("nest {}", h), format!("any {}", h)]);
        }
    }
}
