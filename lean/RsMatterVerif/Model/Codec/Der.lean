import RsMatterVerif.Model.Codec.Buf
import RsMatterVerif.Generated.Consts
/-!
# Model of the DER writer `ASN1Writer` (`rs-matter/src/cert/asn1_writer.rs`) and a DER reader

**Level 0** (`W`, `W.step`): the Rust structure field by field — the caller's buffer (`buf`, a list of
the buffer's length), the write offset, the stack `depth` of the content starts of the open compounds
and `current_depth`. Every index / slice / `usize` subtraction of the Rust code is a *checked*
operation here (`wr`, `RBuf.index`, `RBuf.slice`, `WBuf.blit`, `RBuf.csub`): out of range = `Err.panic`
= "the Rust code would panic here". Closures passed to `append_with` / `append_tlv` are functions on
the buffer. An operation answers `Except Err W`: the state after an *error* is not modelled (every
caller in rs-matter propagates the error with `?` and drops the writer).

`usize` overflow of `offset + size` is not modelled (lengths of real slices are `≤ isize::MAX`).

**Trees**: `Node` = what a balanced sequence of writer operations describes (`prim` = one
`append_tlv`, `cons` = `add_compound … end_compound`, `raw` = `raw`), `Der` = a parsed DER value.
`parseOne` / `parseAll` are the DER reader used as the oracle and in the round-trip theorems
(definite, minimal lengths of up to 4 length bytes; low tag numbers only).
-/
namespace Codec.Der
open Codec

def MAX_DEPTH : Nat := Consts.c17CertMaxDepth
def RESERVE_LEN_BYTES : Nat := Consts.c17Asn1ReserveLenBytes
def MATTER_EPOCH_SECS : Nat := Consts.c17MatterEpochSecs

/-- `ASN1Writer { buf, offset, depth, current_depth }` -/
structure W where
  buf : List Nat
  offset : Nat
  depth : List Nat
  cur : Nat
deriving Repr, DecidableEq

/-- `ASN1Writer::new(buf)` (the buffer keeps whatever the caller had in it) -/
def W.new (buf : List Nat) : W := { buf := buf, offset := 0, depth := List.replicate MAX_DEPTH 0, cur := 0 }

/-- checked `buf[i] = v` -/
def wr (buf : List Nat) (i v : Nat) : Except Err (List Nat) :=
  if i < buf.length then .ok (buf.set i v) else .error .panic

/-- `bytes_to_encode_len` -/
def bytesToEncodeLen (len : Nat) : Except Err Nat :=
  if len < 128 then .ok 1
  else if len < 256 then .ok 2
  else if len < 65536 then .ok 3
  else .error .bufferTooSmall

/-- the `loop` of `encode_len`: `buf[at_offset] = (len >> (octet_number * 8)) & 0xff`, highest octet first -/
def encLoop (len : Nat) : Nat → List Nat → Nat → Except Err (List Nat × Nat)
  | 0, buf, pos => do
    let b ← wr buf pos (len % 256)
    pure (b, pos + 1)
  | o + 1, buf, pos => do
    let b ← wr buf pos (len / 2 ^ ((o + 1) * 8) % 256)
    encLoop len o b (pos + 1)

/-- `encode_len(at_offset, len)`; returns the buffer and the offset behind the length bytes -/
def encodeLen (buf : List Nat) (pos len : Nat) : Except Err (List Nat × Nat) := do
  let n ← bytesToEncodeLen len
  let (buf, pos, n) ← (if n > 1 then do
      let b ← wr buf pos (0x80 ||| (n - 1))
      pure (b, pos + 1, n - 1)
    else pure (buf, pos, n) : Except Err (List Nat × Nat × Nat))
  let octet ← RBuf.csub n 1
  encLoop len octet buf pos

/-- `append_with(size, f)`: `f` may write to the buffer (it sees the writer before the offset moves) -/
def W.appendWith (w : W) (size : Nat) (f : W → Except Err (List Nat)) : Except Err W :=
  if w.offset + size ≤ w.buf.length then do
    let b ← f w
    pure { w with buf := b, offset := w.offset + size }
  else .error .bufferTooSmall

/-- `append_tlv(tag, len, f)`: `f buf offset` writes the content -/
def W.appendTlv (w : W) (tag len : Nat) (f : List Nat → Nat → Except Err (List Nat)) : Except Err W := do
  let n ← bytesToEncodeLen len
  let total := 1 + n + len
  if w.offset + total ≤ w.buf.length then do
    let b ← wr w.buf w.offset tag
    let off := w.offset + 1
    let (b, off) ← encodeLen b off len
    let b ← f b off
    pure { w with buf := b, offset := off + len }
  else .error .bufferTooSmall

/-- `add_compound(val)` -/
def W.addCompound (w : W) (val : Nat) : Except Err W := do
  let w ← w.appendWith (1 + RESERVE_LEN_BYTES) (fun t => wr t.buf t.offset val)
  let d ← wr w.depth w.cur w.offset
  let w := { w with depth := d, cur := w.cur + 1 }
  if w.cur ≥ MAX_DEPTH then .error .bufferTooSmall else pure w

/-- the shifting loop of `end_compound`: `for _ in 0..seq_len { buf[wo] = buf[wo + shift]; wo += 1 }` -/
def shiftLoop (shift : Nat) : Nat → List Nat → Nat → Except Err (List Nat)
  | 0, b, _ => pure b
  | n + 1, b, wo => do
    let v ← RBuf.index b (wo + shift)
    let b ← wr b wo v
    shiftLoop shift n b (wo + 1)

/-! The loop above costs `O(seq_len * offset)` on lists. The driver runs the closed form instead; the
replacement is *proved* equal for every input (`@[csimp]`), so nothing is trusted here. -/

theorem index_eq (d : List Nat) (i : Nat) (h : i < d.length) : RBuf.index d i = .ok d[i] := by
  simp [RBuf.index, List.getElem?_eq_getElem h]

theorem shiftLoop_eq (shift : Nat) : ∀ (n : Nat) (b : List Nat) (wo : Nat), wo + shift + n ≤ b.length →
    shiftLoop shift n b wo = .ok (b.take wo ++ (b.drop (wo + shift)).take n ++ b.drop (wo + n)) := by
  intro n
  induction n with
  | zero => intro b wo _; simp [shiftLoop, pure, Except.pure]
  | succ n ih =>
    intro b wo h
    have h1 : wo + shift < b.length := by omega
    have h2 : wo < b.length := by omega
    simp only [shiftLoop, index_eq b _ h1, bind, Except.bind, wr, h2, if_true]
    rw [ih _ _ (by simp; omega)]
    congr 1
    have e1 : List.take (wo + 1) (b.set wo b[wo + shift]) = List.take wo b ++ [b[wo + shift]] := by
      rw [List.set_eq_take_append_cons_drop]
      simp only [h2, if_true]
      have : wo + 1 = (List.take wo b ++ [b[wo + shift]]).length := by simp; omega
      rw [show List.take wo b ++ b[wo + shift] :: List.drop (wo + 1) b = (List.take wo b ++ [b[wo + shift]]) ++ List.drop (wo + 1) b by simp]
      rw [this, List.take_append_length]
    have e2 : List.drop (wo + 1 + shift) (b.set wo b[wo + shift]) = List.drop (wo + 1 + shift) b :=
      List.drop_set_of_lt (by omega)
    have e3 : List.drop (wo + 1 + n) (b.set wo b[wo + shift]) = List.drop (wo + 1 + n) b :=
      List.drop_set_of_lt (by omega)
    rw [e1, e2, e3]
    have e4 : List.take (n + 1) (List.drop (wo + shift) b) = b[wo + shift] :: List.take n (List.drop (wo + 1 + shift) b) := by
      rw [List.drop_eq_getElem_cons h1, List.take_succ_cons]
      congr 3; omega
    rw [e4, show wo + (n + 1) = wo + 1 + n by omega]
    simp


/-- `shiftLoop` in one step (falls back to the loop where the loop would panic) -/
def shiftLoopFast (shift n : Nat) (b : List Nat) (wo : Nat) : Except Err (List Nat) :=
  if wo + shift + n ≤ b.length then .ok (b.take wo ++ (b.drop (wo + shift)).take n ++ b.drop (wo + n))
  else shiftLoop shift n b wo

@[csimp] theorem shiftLoop_eq_fast : @shiftLoop = @shiftLoopFast := by
  funext shift n b wo
  unfold shiftLoopFast
  split
  · rename_i h; exact shiftLoop_eq shift n b wo h
  · rfl

/-- `end_compound()` -/
def W.endCompound (w : W) : Except Err W :=
  if w.cur = 0 then .error .invalid
  else do
    -- get_compound_len(): self.offset - self.depth[self.current_depth - 1]
    let i ← RBuf.csub w.cur 1
    let top ← RBuf.index w.depth i
    let seqLen ← RBuf.csub w.offset top
    -- get_length_encoding_offset()
    let wo ← RBuf.csub top RESERVE_LEN_BYTES
    let (b, wo) ← encodeLen w.buf wo seqLen
    let shift ← RBuf.csub top wo
    let b ← (if shift > 0 then shiftLoop shift seqLen b wo else pure b)
    let off ← RBuf.csub w.offset shift
    pure { w with buf := b, cur := i, offset := off }

/-- `as_slice()` -/
def W.asSlice (w : W) : Except Err (List Nat) := RBuf.slice w.buf 0 w.offset

/-- `write_str(vtype, s)` -/
def W.writeStr (w : W) (vtype : Nat) (s : List Nat) : Except Err W :=
  w.appendTlv vtype s.length (fun b off => WBuf.blit b off s)

/-- `while len > 0 && s[len - 1] == 0 { len -= 1 }` -/
def stripLen (s : List Nat) : Nat → Except Err Nat
  | 0 => pure 0
  | n + 1 => do
    let x ← RBuf.index s n
    if x = 0 then stripLen s n else pure (n + 1)

/-- `u8::trailing_zeros` (`tz 8 x`) -/
def tz : Nat → Nat → Nat
  | 0, _ => 0
  | k + 1, x => if x % 2 = 1 then 0 else 1 + tz k (x / 2)

/-- the head of `bitstr`: the kept prefix of `s` and the unused-bits byte -/
def bitstrParts (truncate : Bool) (s : List Nat) : Except Err (List Nat × Nat) := do
  let (len, nz) ← (if truncate then do
      let len ← stripLen s s.length
      if len > 0 then do
        let i ← RBuf.csub len 1
        let x ← RBuf.index s i
        pure (len, tz 8 x)
      else pure (len, 0)
    else pure (s.length, 0) : Except Err (Nat × Nat))
  let s' ← RBuf.slice s 0 len
  pure (s', nz)

/-- `bitstr(truncate, s)` -/
def W.bitstr (w : W) (truncate : Bool) (s : List Nat) : Except Err W := do
  let (s', nz) ← bitstrParts truncate s
  w.appendTlv 0x03 (s'.length + 1) (fun b off => do
    let b ← wr b off nz
    WBuf.blit b (off + 1) s')

/-! ### `utctime`: Unix time → calendar date (what `OffsetDateTime::from_unix_timestamp` of the
`time` crate computes for non-negative timestamps: the proleptic Gregorian calendar) -/

structure Civil where
  year : Nat
  month : Nat
  day : Nat
  hour : Nat
  minute : Nat
  second : Nat
deriving Repr, DecidableEq

/-- days since 1970-01-01 → (year, month, day) -/
def civilFromDays (days : Nat) : Nat × Nat × Nat :=
  let z := days + 719468
  let era := z / 146097
  let doe := z % 146097
  let yoe := (doe - doe / 1460 + doe / 36524 - doe / 146096) / 365
  let y := yoe + era * 400
  let doy := doe - (365 * yoe + yoe / 4 - yoe / 100)
  let mp := (5 * doy + 2) / 153
  let d := doy - (153 * mp + 2) / 5 + 1
  let m := if mp < 10 then mp + 3 else mp - 9
  (if m ≤ 2 then y + 1 else y, m, d)

def civilOfUnix (t : Nat) : Civil :=
  let (y, m, d) := civilFromDays (t / 86400)
  let r := t % 86400
  { year := y, month := m, day := d, hour := r / 3600, minute := r % 3600 / 60, second := r % 60 }

/-- largest timestamp `from_unix_timestamp` accepts without the `large-dates` feature: 9999-12-31T23:59:59Z -/
def MAX_UNIX : Nat := 253402300799

def digit (n : Nat) : Nat := 48 + n % 10
/-- `{:02}` of a number `< 100` (wider numbers print all their digits; not needed here) -/
def dec2 (n : Nat) : List Nat := [digit (n / 10), digit n]
/-- `{:04}` of a number `< 10000` -/
def dec4 (n : Nat) : List Nat := [digit (n / 1000), digit (n / 100), digit (n / 10), digit n]

/-- the (tag, text) `utctime` writes for a Matter-epoch value; `none` = `unwrap!` of a `DateTimeError`
(timestamp beyond year 9999). Domain of the model: `MATTER_EPOCH_SECS + epoch < 2^63` (no `u64` overflow,
no wrap-around of the `as i64` cast). -/
def timeStr (epoch : Nat) : Option (Nat × List Nat) :=
  let t := MATTER_EPOCH_SECS + epoch
  if t > MAX_UNIX then none
  else
    let c := civilOfUnix t
    let tail := dec2 c.month ++ dec2 c.day ++ dec2 c.hour ++ dec2 c.minute ++ dec2 c.second ++ [90]
    if c.year ≥ 2050 then some (0x18, dec4 c.year ++ tail)
    else some (0x17, dec2 (c.year % 100) ++ tail)

/-- `utctime(epoch)` -/
def W.utctime (w : W) (epoch : Nat) : Except Err W :=
  match timeStr epoch with
  | none => .error .panic
  | some (tag, s) => w.writeStr tag s

/-! ### the `CertConsumer` operations -/

inductive Op
  | startSeq | endSeq
  | integer (i : List Nat)
  | printstr (s : List Nat)
  | utf8str (s : List Nat)
  | bitstr (truncate : Bool) (s : List Nat)
  | ostr (s : List Nat)
  | startOstr | endOstr
  | bool (b : Bool)
  | startSet | endSet
  | ctx (id : Nat) (val : List Nat)
  | startCtx (id : Nat) | endCtx
  | oid (o : List Nat)
  | utctime (epoch : Nat)
  | raw (data : List Nat)
deriving Repr, DecidableEq

/-- `impl CertConsumer for ASN1Writer` -/
def W.step (w : W) : Op → Except Err W
  | .startSeq => w.addCompound 0x30
  | .endSeq => w.endCompound
  | .integer i => w.writeStr 0x02 i
  | .printstr s => w.writeStr 0x13 s
  | .utf8str s => w.writeStr 0x0c s
  | .bitstr t s => w.bitstr t s
  | .ostr s => w.writeStr 0x04 s
  | .startOstr => w.addCompound 0x04
  | .endOstr => w.endCompound
  | .bool b => w.appendTlv 0x01 1 (fun buf off => wr buf off (if b then 0xFF else 0x00))
  | .startSet => w.addCompound 0x31
  | .endSet => w.endCompound
  | .ctx id val => w.writeStr (0x80 ||| id) val
  | .startCtx id => w.addCompound (0xA0 ||| id)
  | .endCtx => w.endCompound
  | .oid o => w.writeStr 0x06 o
  | .utctime e => w.utctime e
  | .raw data => w.appendWith data.length (fun t => WBuf.blit t.buf t.offset data)

/-- a caller that propagates errors with `?` -/
def W.run (w : W) : List Op → Except Err W
  | [] => pure w
  | op :: r => do
    let w ← w.step op
    w.run r

/-! ## Level 1: what an operation does, in closed form -/

/-- the bytes `encode_len` writes -/
def lenBytes (n : Nat) : List Nat :=
  if n < 128 then [n] else if n < 256 then [0x81, n] else [0x82, n / 256 % 256, n % 256]

/-- overwrite `bytes.length` bytes of `buf` at `pos` -/
def splice (buf : List Nat) (pos : Nat) (bytes : List Nat) : List Nat :=
  buf.take pos ++ bytes ++ buf.drop (pos + bytes.length)

/-- low-level view of an operation -/
inductive Low
  | tlv (tag : Nat) (content : List Nat)   -- `append_tlv` with this content
  | start (tag : Nat)                      -- `add_compound`
  | stop                                   -- `end_compound`
  | raw (data : List Nat)
  | panic                                  -- `utctime` beyond year 9999
deriving Repr, DecidableEq

def bitstrContent (truncate : Bool) (s : List Nat) : List Nat :=
  match bitstrParts truncate s with
  | .ok (s', nz) => nz :: s'
  | .error _ => []

def Op.low : Op → Low
  | .startSeq => .start 0x30
  | .endSeq => .stop
  | .integer i => .tlv 0x02 i
  | .printstr s => .tlv 0x13 s
  | .utf8str s => .tlv 0x0c s
  | .bitstr t s => .tlv 0x03 (bitstrContent t s)
  | .ostr s => .tlv 0x04 s
  | .startOstr => .start 0x04
  | .endOstr => .stop
  | .bool b => .tlv 0x01 [if b then 0xFF else 0x00]
  | .startSet => .start 0x31
  | .endSet => .stop
  | .ctx id val => .tlv (0x80 ||| id) val
  | .startCtx id => .start (0xA0 ||| id)
  | .endCtx => .stop
  | .oid o => .tlv 0x06 o
  | .utctime e =>
    match timeStr e with
    | none => .panic
    | some (tag, s) => .tlv tag s
  | .raw data => .raw data

/-! ## Trees -/

/-- what a balanced sequence of writer operations describes -/
inductive Node
  | prim (tag : Nat) (content : List Nat)
  | cons (tag : Nat) (children : List Node)
  | raw (bytes : List Nat)
deriving Repr

mutual
/-- the low-level operations of a tree -/
def Node.lows : Node → List Low
  | .prim t c => [.tlv t c]
  | .cons t cs => .start t :: (Node.lowsL cs ++ [.stop])
  | .raw b => [.raw b]
def Node.lowsL : List Node → List Low
  | [] => []
  | n :: r => n.lows ++ Node.lowsL r
end

mutual
/-- the DER encoding of a tree (lengths as the writer encodes them) -/
def Node.enc : Node → List Nat
  | .prim t c => t :: (lenBytes c.length ++ c)
  | .cons t cs => t :: (lenBytes (Node.encL cs).length ++ Node.encL cs)
  | .raw b => b
def Node.encL : List Node → List Nat
  | [] => []
  | n :: r => n.enc ++ Node.encL r
end

mutual
/-- buffer space (from the start of the node) the writer needs while it writes the node: an open
compound occupies `1 + RESERVE_LEN_BYTES` header bytes until it is closed -/
def Node.need : Node → Nat
  | .prim t c => (Node.prim t c).enc.length
  | .cons _ cs => 1 + RESERVE_LEN_BYTES + Node.needL cs
  | .raw b => b.length
def Node.needL : List Node → Nat
  | [] => 0
  | n :: r => max n.need (n.enc.length + Node.needL r)
end

mutual
/-- nesting of compounds -/
def Node.height : Node → Nat
  | .prim _ _ => 0
  | .cons _ cs => 1 + Node.heightL cs
  | .raw _ => 0
def Node.heightL : List Node → Nat
  | [] => 0
  | n :: r => max n.height (Node.heightL r)
end

mutual
/-- every content / body length is one the writer can encode -/
def Node.lenOk : Node → Prop
  | .prim _ c => c.length < 65536
  | .cons _ cs => (Node.encL cs).length < 65536 ∧ Node.lenOkL cs
  | .raw _ => True
def Node.lenOkL : List Node → Prop
  | [] => True
  | n :: r => n.lenOk ∧ Node.lenOkL r
end

/-- a balanced list of low-level operations → the forest it describes (`none`: not balanced, or a
`utctime` that panics); `st` = the open compounds (tag, the siblings before it), `acc` = the nodes of the
innermost open compound so far, reversed -/
def forestAux : List Low → List (Nat × List Node) → List Node → Option (List Node)
  | [], [], acc => some acc.reverse
  | [], _ :: _, _ => none
  | .tlv t c :: r, st, acc => forestAux r st (.prim t c :: acc)
  | .raw b :: r, st, acc => forestAux r st (.raw b :: acc)
  | .start t :: r, st, acc => forestAux r ((t, acc) :: st) []
  | .stop :: r, (t, outer) :: st, acc => forestAux r st (.cons t acc.reverse :: outer)
  | .stop :: _, [], _ => none
  | .panic :: _, _, _ => none

/-- the forest of a balanced sequence of `CertConsumer` operations -/
def forest (ops : List Op) : Option (List Node) := forestAux (ops.map Op.low) [] []

/-- a parsed DER value -/
inductive Der
  | prim (tag : Nat) (content : List Nat)
  | cons (tag : Nat) (children : List Der)
deriving Repr

/-- DER definite length, minimal, for every `n < 2^32` -/
def encLen (n : Nat) : List Nat :=
  if n < 128 then [n]
  else if n < 256 then [0x81, n]
  else if n < 65536 then [0x82, n / 256, n % 256]
  else if n < 16777216 then [0x83, n / 65536, n / 256 % 256, n % 256]
  else [0x84, n / 16777216 % 256, n / 65536 % 256, n / 256 % 256, n % 256]

mutual
def Der.enc : Der → List Nat
  | .prim t c => t :: (encLen c.length ++ c)
  | .cons t cs => t :: (encLen (Der.encL cs).length ++ Der.encL cs)
def Der.encL : List Der → List Nat
  | [] => []
  | d :: r => d.enc ++ Der.encL r
end

/-- big-endian value -/
def beVal : List Nat → Nat
  | [] => 0
  | b :: r => b * 256 ^ r.length + beVal r

/-- DER length octets → (length, rest); refuses the indefinite form, more than 4 length bytes and every
non-minimal encoding -/
def decLen : List Nat → Option (Nat × List Nat)
  | [] => none
  | b :: r =>
    if b < 128 then some (b, r)
    else if b ≥ 256 then none
    else
      let n := b - 128
      if n = 0 ∨ n > 4 ∨ r.length < n then none
      else
        let v := beVal (r.take n)
        if v < 128 ∨ v < 256 ^ (n - 1) then none else some (v, r.drop n)

def tagOk (tag : Nat) : Bool := tag < 256 && tag % 32 != 31
def tagConstructed (tag : Nat) : Bool := tag / 32 % 2 == 1

mutual
/-- one DER TLV from the front of the input -/
def parseOne : Nat → List Nat → Option (Der × List Nat)
  | 0, _ => none
  | _ + 1, [] => none
  | fuel + 1, tag :: r =>
    if !tagOk tag then none
    else match decLen r with
      | none => none
      | some (len, r) =>
        if r.length < len then none
        else if tagConstructed tag then
          match parseMany fuel (r.take len) with
          | some cs => some (.cons tag cs, r.drop len)
          | none => none
        else some (.prim tag (r.take len), r.drop len)
/-- a sequence of DER TLVs that fills the input exactly -/
def parseMany : Nat → List Nat → Option (List Der)
  | 0, _ => none
  | _ + 1, [] => some []
  | fuel + 1, b :: l =>
    match parseOne fuel (b :: l) with
    | none => none
    | some (d, rest) =>
      match parseMany fuel rest with
      | none => none
      | some ds => some (d :: ds)
end

/-- fuel that always suffices for an input of this length -/
def fuelFor (l : List Nat) : Nat := 2 * l.length + 2

/-- exactly one DER value -/
def parseDer (l : List Nat) : Option Der :=
  match parseOne (fuelFor l) l with
  | some (d, []) => some d
  | _ => none

def parseAll (l : List Nat) : Option (List Der) := parseMany (fuelFor l) l

mutual
/-- the DER value a tree of operations stands for: a compound with a primitive tag (the wrapping OCTET
STRING of an extension value) is a primitive whose content is the encoding of its children; `raw` bytes
stand for whatever DER values they contain -/
def Node.toDer : Node → Option (List Der)
  | .prim t c => some [.prim t c]
  | .cons t cs =>
    if tagConstructed t then
      match Node.toDerL cs with
      | some ds => some [.cons t ds]
      | none => none
    else some [.prim t (Node.encL cs)]
  | .raw b => parseAll b
def Node.toDerL : List Node → Option (List Der)
  | [] => some []
  | n :: r =>
    match n.toDer, Node.toDerL r with
    | some a, some b => some (a ++ b)
    | _, _ => none
end

end Codec.Der
