//! C10 system-level stream (`sys2` cases): a REAL device `Matter` whose exchanges are served by
//! harness-written application handlers, and real controller nodes that run several concurrent
//! exchanges on one PASE session and on unsecured sessions, on the simulated network under
//! virtual time.
//!
//! Case kind: `sys2 H=<generic handlers 0..3> lat=<ms>`. Ops (a static script, results at the end):
//!   `w gap=<ms>`            watchdog: an echo exchange on its own unsecured session from node 2, accepted by a
//!                           dedicated handler at t=0, pinged every `gap` ms for the whole run
//!   `b <k> <behaviour>`     what the device handler that accepts the exchange tagged `k` does:
//!                           `echo` (default) | `stall:<ms>` (answers the first message `ms` late) |
//!                           `dropat:<j>:<ms>` (its future is dropped by the executor `ms` after it received
//!                           message `j`, i.e. at that await point) | `mute` (never answers, keeps the exchange)
//!   `x <k> s=<p|u> at=<ms> n=<msgs> gap=<ms> [cancel=<ms>] [c=<1|2>] [xid=<id>]`
//!                           client exchange tagged `k` from node 1 on the PASE session (`p`) or on a fresh
//!                           unsecured session (`u`, from node `c`): n pings `[k, j, last]`, each answered by an echo;
//!                           `cancel` = the client task is dropped that many ms after its start;
//!                           `xid` = the exchange id the initiator uses (its allocator is positioned there), so
//!                           that exchanges of different sessions / peers can carry the same id
//!   `flood at=<ms> n=<k>`   k more exchanges at once on the PASE session (more than the exchange slots of a
//!                           session: the device closes the session while messages are in flight)
//!   `quiesce <ms>`          run; then read the REAL tables and the longest time one message sat in the RX slot
//!   `probe`                 a fresh exchange from node 2: time until its first message is answered
use std::cell::{Cell, RefCell};
use std::collections::HashMap;
use std::future::Future;
use std::pin::Pin;

use embassy_futures::select::{select, Either};
use embassy_time::{Duration, Instant, MockDriver, Timer};

use rs_matter::crypto::test_only_crypto;
use rs_matter::dm::devices::test::{TEST_DEV_ATT, TEST_DEV_COMM, TEST_DEV_DET};
use rs_matter::error::{Error, ErrorCode};
use rs_matter::respond::Responder;
use rs_matter::sc::SecureChannel;
use rs_matter::transport::exchange::{Exchange, MessageMeta};
use rs_matter::transport::network::NoNetwork;
use rs_matter::transport::session::SessionMode;
use rs_matter::Matter;

use super::sys::{drive, err_code, kvs, num, view, Tasks};
use crate::proto::Out;
use crate::simnet::{addr_of, now_ms, Policy, SimNet, Verdict};

const TAG_W: u8 = 255;
const TAG_PROBE: u8 = 250;

struct Lat(u64);
impl Policy for Lat {
    fn decide(&mut self, _: usize, _: usize, _: &[u8], seq: u64) -> Verdict {
        if seq > 6000 {
            Verdict::Drop
        } else if self.0 == 0 {
            Verdict::Deliver
        } else {
            Verdict::Delay(self.0)
        }
    }
}

/// the message kind of pings and echoes: an Interaction Model opcode on a secure session; on an
/// unsecured session only PBKDFParamRequest / CASESigma1 may open a session, so that opcode is used
fn app_meta(secure: bool, echo: bool) -> MessageMeta {
    if secure {
        MessageMeta::new(0x0001, if echo { 0x05 } else { 0x02 }, true)
    } else {
        // (an echo must not look like a session request itself: a node that no longer knows the
        // session would open a new unsecured session for it)
        MessageMeta::new(0x0000, if echo { 0x21 } else { 0x20 }, true)
    }
}

#[derive(Clone, Debug, Default)]
struct HandlerLog {
    accepted_at: Option<u64>,
    got: Vec<u8>,
    cross: u32,
    ended: String,
}

#[derive(Clone, Debug)]
enum Beh {
    Echo,
    Stall(u64),
    DropAt(u8, u64),
    Mute,
}

fn parse_beh(s: &str) -> Beh {
    let p: Vec<&str> = s.split(':').collect();
    match p.first().copied().unwrap_or("echo") {
        "stall" => Beh::Stall(p.get(1).and_then(|x| x.parse().ok()).unwrap_or(100)),
        "dropat" => Beh::DropAt(p.get(1).and_then(|x| x.parse().ok()).unwrap_or(0), p.get(2).and_then(|x| x.parse().ok()).unwrap_or(0)),
        "mute" => Beh::Mute,
        _ => Beh::Echo,
    }
}

/// serve one accepted exchange; `first` = (tag, number, last) of the message it was opened with
async fn serve(ex: &mut Exchange<'_>, k: u8, first: (u8, bool), secure: bool, beh: &Beh, logs: &RefCell<HashMap<u8, HandlerLog>>) -> Result<(), Error> {
    let (mut j, mut last) = first;
    let mut stalled = false;
    loop {
        logs.borrow_mut().entry(k).or_default().got.push(j);
        match beh {
            Beh::Mute => {
                // keep the exchange, never answer; further messages are consumed
            }
            Beh::Stall(ms) if !stalled => {
                stalled = true;
                Timer::after(Duration::from_millis(*ms)).await;
            }
            _ => {}
        }
        if !matches!(beh, Beh::Mute) {
            ex.send_with(|_, wb| {
                wb.append(&[k, j, 0xEE])?;
                Ok(Some(app_meta(secure, true)))
            })
            .await?;
            if last {
                return Ok(());
            }
        }
        let rx = ex.recv().await?;
        let p = rx.payload();
        if p.first().copied() != Some(k) {
            logs.borrow_mut().entry(k).or_default().cross += 1;
        }
        j = p.get(1).copied().unwrap_or(0xff);
        last = p.get(2).copied().unwrap_or(0) != 0;
    }
}

async fn handler_loop<'a>(dev: &'a Matter<'a>, only_w: bool, behs: &HashMap<u8, Beh>, logs: &RefCell<HashMap<u8, HandlerLog>>) {
    if !only_w {
        Timer::after(Duration::from_millis(50)).await;
    }
    loop {
        let Ok(mut ex) = Exchange::accept(dev).await else { continue };
        let (k, j, last, secure) = match ex.recv().await {
            Ok(rx) => {
                let p = rx.payload();
                (p.first().copied().unwrap_or(0), p.get(1).copied().unwrap_or(0), p.get(2).copied().unwrap_or(0) != 0, rx.meta().proto_id != 0)
            }
            Err(_) => continue,
        };
        logs.borrow_mut().entry(k).or_default().accepted_at = Some(now_ms());
        if std::env::var("VH_DBG").is_ok() {
            eprintln!("  [handler t={}] tag {} accepted", now_ms(), k);
        }
        let beh = behs.get(&k).cloned().unwrap_or(Beh::Echo);
        let r = match &beh {
            Beh::DropAt(at_j, ms) => {
                // the executor drops the handler future `ms` after it received message `at_j`
                let logs2 = logs;
                let body = core::pin::pin!(serve(&mut ex, k, (j, last), secure, &Beh::Echo, logs));
                let killer = core::pin::pin!(async {
                    loop {
                        if logs2.borrow().get(&k).map(|l| l.got.contains(at_j)).unwrap_or(false) {
                            break;
                        }
                        Timer::after(Duration::from_millis(1)).await;
                    }
                    Timer::after(Duration::from_millis(*ms)).await;
                });
                match select(body, killer).await {
                    Either::First(r) => r,
                    Either::Second(()) => Err(ErrorCode::Invalid.into()),
                }
            }
            b => serve(&mut ex, k, (j, last), secure, b, logs).await,
        };
        logs.borrow_mut().entry(k).or_default().ended = match r {
            Ok(()) => "done".into(),
            Err(e) => err_code(&e),
        };
        if std::env::var("VH_DBG").is_ok() {
            eprintln!("  [handler t={}] tag {} ended {}", now_ms(), k, logs.borrow().get(&k).map(|l| l.ended.clone()).unwrap_or_default());
        }
        drop(ex);
        if only_w {
            // the watchdog's handler serves nothing else
            core::future::pending::<()>().await;
        }
    }
}

/// client side of one exchange: `n` pings, each answered by an echo. Returns (result, cross deliveries, max latency)
async fn client<'a>(mut ex: Exchange<'a>, k: u8, n: u8, gap: u64, forever: bool, secure: bool, stats: &RefCell<(u32, u32, u64)>) -> String {
    let mut j: u8 = 0;
    let mut cross = 0;
    loop {
        let last = !forever && j + 1 >= n;
        let t0 = now_ms();
        if let Err(e) = ex
            .send_with(|_, wb| {
                wb.append(&[k, j, last as u8])?;
                Ok(Some(app_meta(secure, false)))
            })
            .await
        {
            stats.borrow_mut().1 += 1;
            return format!("fail@{}:tx:{}:t{} cross={}", j, err_code(&e), now_ms(), cross);
        }
        let r = {
            let rx = core::pin::pin!(ex.recv());
            let to = core::pin::pin!(Timer::after(Duration::from_millis(8_000)));
            match select(rx, to).await {
                Either::First(Ok(rx)) => {
                    let p = rx.payload();
                    if p.first().copied() != Some(k) || p.get(1).copied() != Some(j) {
                        cross += 1;
                    }
                    Ok(())
                }
                Either::First(Err(e)) => Err(err_code(&e)),
                Either::Second(_) => Err("silent".to_string()),
            }
        };
        if let Err(e) = r {
            stats.borrow_mut().1 += 1;
            return format!("fail@{}:rx:{}:t{} cross={}", j, e, now_ms(), cross);
        }
        {
            let mut s = stats.borrow_mut();
            s.0 += 1;
            s.2 = s.2.max(now_ms() - t0);
        }
        let _ = ex.acknowledge().await;
        if last {
            return format!("ok {} cross={}", n, cross);
        }
        j = j.wrapping_add(1);
        if forever && j >= 200 {
            j = 0;
        }
        Timer::after(Duration::from_millis(gap)).await;
    }
}

pub fn run_case(kind: &str, ops: &[String]) -> Vec<String> {
    MockDriver::get().reset();
    MockDriver::get().advance(Duration::from_millis(1000));
    let km = kvs(kind);
    let n_handlers = num(&km, "H").unwrap_or(2).min(3) as usize;
    let lat = num(&km, "lat").unwrap_or(5).min(100);
    let net = SimNet::new(3, Box::new(Lat(lat)));
    let crypto = test_only_crypto();
    let dev = Box::new(Matter::new(&TEST_DEV_DET, TEST_DEV_COMM, &TEST_DEV_ATT, 0));
    let ctl = Box::new(Matter::new(&TEST_DEV_DET, TEST_DEV_COMM, &TEST_DEV_ATT, 0));
    let ctl2 = Box::new(Matter::new(&TEST_DEV_DET, TEST_DEV_COMM, &TEST_DEV_ATT, 0));
    let socks: Vec<_> = (0..3).map(|i| net.socket(i)).collect();
    let results: Vec<RefCell<String>> = ops.iter().map(|_| RefCell::new(String::from("-"))).collect();
    let logs: RefCell<HashMap<u8, HandlerLog>> = RefCell::new(HashMap::new());
    let mut behs: HashMap<u8, Beh> = HashMap::new();
    for op in ops {
        let w: Vec<&str> = op.split_whitespace().collect();
        if w.first() == Some(&"b") {
            if let Some(k) = w.get(1).and_then(|t| t.parse::<u8>().ok()) {
                behs.insert(k, parse_beh(w.get(2).copied().unwrap_or("echo")));
            }
        }
    }
    let behs = behs;

    // the transports run for the whole case
    let mut transports: Vec<Option<Pin<Box<dyn Future<Output = ()> + '_>>>> = Vec::new();
    for (m, s) in [(&dev, &socks[0]), (&ctl, &socks[1]), (&ctl2, &socks[2])] {
        let crypto = &crypto;
        transports.push(Some(Box::pin(async move {
            let _ = m.run(crypto, s, s, NoNetwork).await;
        })));
    }
    let transports = Tasks(transports);
    let mut transports = core::pin::pin!(transports);

    // phase 1: a real PASE handshake node 1 -> device
    let mut pase_sid: Option<u32> = None;
    {
        let _ = dev.open_basic_comm_window(300, &crypto, &());
        let sc = SecureChannel::new(&crypto, &());
        let responder = Responder::new("device", sc, &dev, 0);
        let hs = async {
            let ex = Exchange::initiate_pase(&ctl, &crypto, addr_of(0), 20202021).await?;
            let sid = ex.verif_ids().0;
            drop(ex);
            Timer::after(Duration::from_millis(1500)).await;
            Ok::<u32, Error>(sid)
        };
        let all = core::pin::pin!(select(transports.as_mut(), select(responder.run::<2>(), hs)));
        if let Some(Either::Second(Either::Second(Ok(sid)))) = drive(&net, all, 60_000) {
            pase_sid = Some(sid);
        }
    }
    let t0 = now_ms();
    let dev_pase_uid = || dev.with_state(|st| st.verif_sessions().iter().find(|s| matches!(s.get_session_mode(), SessionMode::Pase { .. })).map(|s| s.id()));
    let pase_uid0 = dev_pase_uid();

    let mut tasks: Vec<Option<Pin<Box<dyn Future<Output = ()> + '_>>>> = Vec::new();
    // device handlers: the watchdog's own one first, then the generic ones
    {
        let (dev, behs, logs) = (&*dev, &behs, &logs);
        tasks.push(Some(Box::pin(handler_loop(dev, true, behs, logs))));
        for _ in 0..n_handlers {
            tasks.push(Some(Box::pin(handler_loop(dev, false, behs, logs))));
        }
    }
    // RX slot occupancy: the longest time one and the same message waited in the slot
    let rx_max = Cell::new(0u64);
    {
        let (dev, rx_max) = (&*dev, &rx_max);
        tasks.push(Some(Box::pin(async move {
            let mut cur: Option<((u16, u32, u16), u64)> = None;
            loop {
                let w = dev.transport().verif_rx_waiting().map(|(s, c, x, _)| (s, c, x));
                match (w, cur) {
                    (Some(id), Some((cid, since))) if id == cid => rx_max.set(rx_max.get().max(now_ms() - since)),
                    (Some(id), _) => cur = Some((id, now_ms())),
                    (None, _) => cur = None,
                }
                Timer::after(Duration::from_millis(5)).await;
            }
        })));
    }
    let w_stats: RefCell<(u32, u32, u64)> = RefCell::new((0, 0, 0));
    let x_stats: RefCell<(u32, u32, u64)> = RefCell::new((0, 0, 0));
    let session_closed_at: Cell<Option<u64>> = Cell::new(None);
    for (i, op) in ops.iter().enumerate() {
        let w: Vec<&str> = op.split_whitespace().collect();
        let m = kvs(op);
        match w.first().copied().unwrap_or("") {
            "w" => {
                let gap = num(&m, "gap").unwrap_or(300).max(20);
                let (ctl2, crypto, res, w_stats) = (&*ctl2, &crypto, &results[i], &w_stats);
                tasks.push(Some(Box::pin(async move {
                    *res.borrow_mut() = "running".into();
                    let r = match Exchange::initiate_plaintext(ctl2, crypto, addr_of(0)).await {
                        Ok(ex) => client(ex, TAG_W, 0, gap, true, false, w_stats).await,
                        Err(e) => format!("fail:init:{}", err_code(&e)),
                    };
                    *res.borrow_mut() = r;
                })));
            }
            "x" | "flood" => {
                let flood = w[0] == "flood";
                let count = if flood { num(&m, "n").unwrap_or(6).clamp(1, 8) } else { 1 };
                for f in 0..count {
                    let k: u8 = if flood { 200 + f as u8 } else { w.get(1).and_then(|t| t.parse().ok()).unwrap_or(1) };
                    let secure = flood || m.get("s").map(|s| s.as_str()) != Some("u");
                    let at = num(&m, "at").unwrap_or(0);
                    let n = if flood { 2 } else { num(&m, "n").unwrap_or(2).clamp(1, 20) as u8 };
                    let gap = num(&m, "gap").unwrap_or(50);
                    let cancel = num(&m, "cancel");
                    let xid = num(&m, "xid").map(|v| (v as u16).max(1));
                    let from2 = !secure && num(&m, "c") == Some(2);
                    let (ctl, crypto, x_stats) = (if from2 { &*ctl2 } else { &*ctl }, &crypto, &x_stats);
                    let res = &results[i];
                    let first_of_op = f == 0;
                    let body = async move {
                        Timer::at(Instant::from_millis(t0 + at)).await;
                        if let Some(x) = xid {
                            ctl.with_state(|st| st.verif_sessions_mut().verif_set_next_exch_id(x));
                        }
                        let ex = if secure {
                            match pase_sid {
                                Some(sid) => Exchange::initiate_for_session(ctl, crypto, sid),
                                None => Err(ErrorCode::NoSession.into()),
                            }
                        } else {
                            Exchange::initiate_plaintext(ctl, crypto, addr_of(0)).await
                        };
                        let r = match ex {
                            Ok(ex) => client(ex, k, n, gap, false, secure, x_stats).await,
                            Err(e) => format!("fail@0:init:{} cross=0", err_code(&e)),
                        };
                        if flood {
                            let mut g = res.borrow_mut();
                            if first_of_op || g.as_str() == "-" || g.as_str() == "running" {
                                *g = String::new();
                            }
                            if !g.is_empty() {
                                g.push('|');
                            }
                            g.push_str(&r.replace(' ', "_"));
                        } else {
                            *res.borrow_mut() = r;
                        }
                    };
                    let res2 = &results[i];
                    tasks.push(Some(Box::pin(async move {
                        if !flood {
                            *res2.borrow_mut() = "running".into();
                        }
                        match cancel {
                            Some(ms) => {
                                let b = core::pin::pin!(body);
                                let t = core::pin::pin!(Timer::at(Instant::from_millis(t0 + at + ms)));
                                if let Either::Second(_) = select(b, t).await {
                                    *res2.borrow_mut() = "cancelled cross=0".into();
                                }
                            }
                            None => body.await,
                        }
                    })));
                }
            }
            _ => {}
        }
    }
    // watch the device's PASE session: when does it disappear?
    {
        let (dev, closed) = (&*dev, &session_closed_at);
        tasks.push(Some(Box::pin(async move {
            loop {
                if closed.get().is_none() && pase_uid0.is_some() {
                    let still = dev.with_state(|st| st.verif_sessions().iter().any(|s| Some(s.id()) == pase_uid0));
                    if !still {
                        closed.set(Some(now_ms() - t0));
                    }
                }
                Timer::after(Duration::from_millis(5)).await;
            }
        })));
    }
    let all = Tasks(tasks);
    let mut all = core::pin::pin!(all);
    for (i, op) in ops.iter().enumerate() {
        let w: Vec<&str> = op.split_whitespace().collect();
        match w.first().copied().unwrap_or("") {
            "quiesce" => {
                let ms: u64 = w.get(1).and_then(|t| t.parse().ok()).unwrap_or(60_000).min(400_000);
                let both = core::pin::pin!(select(transports.as_mut(), all.as_mut()));
                let _ = drive(&net, both, ms);
                let v = view(&dev, &[]);
                if std::env::var("VH_DBG").is_ok() {
                    dev.with_state(|st| {
                        for s in st.verif_sessions().iter() {
                            eprintln!("  [dev t={}] {}", now_ms(), super::tc::snapshot_session(s));
                        }
                    });
                }
                let ws = *w_stats.borrow();
                *results[i].borrow_mut() = format!(
                    "sess={} xo={} xd={} xp={} rxmax={} wping={} wfail={} wlat={} closed={} wire={}",
                    v.sessions,
                    v.exch_owned,
                    v.exch_dropped,
                    v.exch_pending,
                    rx_max.get(),
                    ws.0,
                    ws.1,
                    ws.2,
                    session_closed_at.get().map(|t| t.to_string()).unwrap_or("-".into()),
                    net.log_len()
                );
            }
            "probe" => {
                let stats: RefCell<(u32, u32, u64)> = RefCell::new((0, 0, 0));
                let out: RefCell<String> = RefCell::new("hang".into());
                {
                    let probe = async {
                        let r = match Exchange::initiate_plaintext(&ctl2, &crypto, addr_of(0)).await {
                            Ok(ex) => client(ex, TAG_PROBE, 1, 10, false, false, &stats).await,
                            Err(e) => format!("fail:init:{}", err_code(&e)),
                        };
                        *out.borrow_mut() = r;
                    };
                    let both = core::pin::pin!(select(select(transports.as_mut(), all.as_mut()), probe));
                    let _ = drive(&net, both, 60_000);
                }
                if std::env::var("VH_DBG").is_ok() {
                    for (name, m) in [("dev", &dev), ("ctl2", &ctl2)] {
                        m.with_state(|st| {
                            for s in st.verif_sessions().iter() {
                                let mut t = String::new();
                                let _ = s.verif_snapshot(&mut t);
                                eprintln!("  [{} t={}] s{} {}", name, now_ms(), s.id(), &t[..t.find(" dec=").unwrap_or(t.len())]);
                            }
                        });
                    }
                }
                *results[i].borrow_mut() = format!("{} lat={}", out.borrow(), stats.borrow().2);
            }
            _ => {}
        }
    }
    drop(all);
    dump_wire(&net);
    // results of `b` ops: what the handler of that tag saw
    let logs = logs.borrow();
    for (i, op) in ops.iter().enumerate() {
        let w: Vec<&str> = op.split_whitespace().collect();
        if w.first() == Some(&"b") {
            let k: u8 = w.get(1).and_then(|t| t.parse().ok()).unwrap_or(0);
            let l = logs.get(&k).cloned().unwrap_or_default();
            *results[i].borrow_mut() = format!(
                "acc={} got={} cross={} end={}",
                l.accepted_at.map(|t| (t - t0).to_string()).unwrap_or("-".into()),
                if l.got.is_empty() { "-".to_string() } else { l.got.iter().map(|j| j.to_string()).collect::<Vec<_>>().join(".") },
                l.cross,
                if l.ended.is_empty() { "-" } else { l.ended.as_str() }
            );
        }
    }
    // every client result also says whether the device ever accepted its exchange and what it got
    let mut out: Vec<String> = Vec::new();
    for (i, op) in ops.iter().enumerate() {
        let w: Vec<&str> = op.split_whitespace().collect();
        let mut r = results[i].borrow().clone();
        if w.first() == Some(&"x") {
            let k: u8 = w.get(1).and_then(|t| t.parse().ok()).unwrap_or(0);
            let l = logs.get(&k).cloned().unwrap_or_default();
            r.push_str(&format!(
                " acc={} hcross={} closed={}",
                l.accepted_at.map(|t| (t - t0).to_string()).unwrap_or("-".into()),
                l.cross,
                session_closed_at.get().map(|t| t.to_string()).unwrap_or("-".into())
            ));
        }
        out.push(r);
    }
    out
}

pub fn dump_wire(net: &SimNet) {
    if std::env::var("VH_WIRE").is_ok() {
        for (i, l) in net.log().iter().enumerate() {
            let d = super::sys::Dg::parse(&l.bytes).unwrap_or_default();
            eprintln!("  #{} t={} {}->{} sess={} ctr={} op={:02x} x={:04x} ack={:?} st={:?} len={}", i, l.t_ms, l.from, l.to, d.sess, d.ctr, d.opcode, d.exch, d.ack, d.status(&l.bytes), l.bytes.len());
        }
    }
}

pub fn run_sys2(out: &mut Out, kind: &str, ops: &[String]) {
    let r = match std::panic::catch_unwind(std::panic::AssertUnwindSafe(|| run_case(kind, ops))) {
        Ok(r) => r,
        Err(_) => ops.iter().map(|_| "panic".to_string()).collect(),
    };
    for (op, res) in ops.iter().zip(r.iter()) {
        let head = op.split_whitespace().next().unwrap_or("?");
        out.stat(&format!("sys2_op_{}", head), 1);
        if head == "x" {
            out.stat(&format!("sys2_x_{}", res.split(|c| c == ' ' || c == '@').next().unwrap_or("?")), 1);
        }
        out.op(op, res);
    }
}
