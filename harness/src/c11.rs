//! C11: see admin_common.rs (shared state-level harness of C07 / C08 / C11).
use crate::Args;
use crate::c08::admin_gen;

pub fn gen(a: &Args) -> String {
    admin_gen::gen("C11", a)
}

pub fn replay(a: &Args) -> String {
    admin_gen::replay(a)
}
