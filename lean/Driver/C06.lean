import RsMatterVerif.Model.Expand
import Driver.C05
import Driver.Util
/-! Driver for C06: the access-control configuration lines are those of C05 (replayed on
`Model/Acl` by `Driver.C05.step`); `node` installs node metadata, `x` runs one request through the
cursor machine of `Model/Expand` (DIS) and compares the implementation's answer with the
declarative `Expand.expected` (ORA). -/
namespace Driver.C06
open Acl Expand

structure St where
  acl : Driver.C05.St := {}
  node : Node := []

def parseLeaf (fm : Nat) (withArray : Bool) (s : String) : Option Leaf :=
  match s.splitOn "." with
  | [i, a, arr] =>
    if withArray then
      match i.toNat?, a.toNat? with
      | some i, some a => some { id := i, access := a, array := arr = "1", enabled := fm.testBit (i % 32) }
      | _, _ => none
    else none
  | [i, a] =>
    if withArray then none else
    match i.toNat?, a.toNat? with
    | some i, some a => some { id := i, access := a, array := false, enabled := fm.testBit (i % 32) }
    | _, _ => none
  | _ => none

def parseCluster (s : String) : Option Cluster :=
  match s.splitOn "^" with
  | [i, fm, attrs, cmds] =>
    match i.toNat?, fm.toNat? with
    | some i, some fm => do
      let av ← if attrs = "-" then some [] else (attrs.splitOn ",").mapM (parseLeaf fm true)
      let cv ← if cmds = "-" then some [] else (cmds.splitOn ",").mapM (parseLeaf fm false)
      pure { id := i, attrs := av, cmds := cv }
    | _, _ => none
  | [i, fm, attrs, cmds, evs] =>
    match i.toNat?, fm.toNat? with
    | some i, some fm => do
      let av ← if attrs = "-" then some [] else (attrs.splitOn ",").mapM (parseLeaf fm true)
      let cv ← if cmds = "-" then some [] else (cmds.splitOn ",").mapM (parseLeaf fm false)
      let ev ← if evs = "-" then some [] else (evs.splitOn ",").mapM (parseLeaf fm false)
      pure { id := i, attrs := av, cmds := cv, events := ev }
    | _, _ => none
  | _ => none

def parseEndpoint (s : String) : Option Endpoint :=
  match s.splitOn "@" with
  | [i, dts, cls] =>
    match i.toNat? with
    | some i => do
      let dv ← if dts = "-" then some [] else (dts.splitOn "+").mapM (·.toNat?)
      let cv ← if cls = "-" then some [] else (cls.splitOn "|").mapM parseCluster
      pure { id := i, deviceTypes := dv, clusters := cv }
    | none => none
  | _ => none

def parseNode (s : String) : Option Node :=
  if s = "-" then some [] else (s.splitOn ";").mapM parseEndpoint

def parsePath (s : String) : Option Path :=
  match s.splitOn "/" with
  | [e, c, l] =>
    match Driver.C05.optNum e, Driver.C05.optNum c, Driver.C05.optNum l with
    | some e, some c, some l => some { endpoint := e, cluster := c, leaf := l }
    | _, _, _ => none
  | _ => none

def parseTriple (s : String) : Option (Nat × Nat × Nat) :=
  match s.splitOn "." with
  | [e, c, l] =>
    match e.toNat?, c.toNat?, l.toNat? with
    | some e, some c, some l => some (e, c, l)
    | _, _, _ => none
  | _ => none

def fmtOpt (o : Option Nat) : String := match o with | some n => toString n | none => "*"

def statusName : Status → String
  | .unsupportedEndpoint => "UnsupportedEndpoint"
  | .unsupportedCluster => "UnsupportedCluster"
  | .unsupportedAttribute => "UnsupportedAttribute"
  | .unsupportedCommand => "UnsupportedCommand"
  | .unsupportedRead => "UnsupportedRead"
  | .unsupportedWrite => "UnsupportedWrite"
  | .needsTimedInteraction => "NeedsTimedInteraction"
  | .unsupportedAccess => "UnsupportedAccess"
  | .unsupportedEvent => "UnsupportedEvent"

def b01 (b : Bool) : String := if b then "1" else "0"

/-- `CmdDetails` does not carry the wildcard flag of the path and has no array flag -/
def fmtOut (op : Operation) : Out → String
  | .item ep cl leaf w a =>
    if op = .invoke then s!"ok {ep} {cl} {leaf} w- a0" else s!"ok {ep} {cl} {leaf} w{b01 w} a{b01 a}"
  | .status p s => s!"st {fmtOpt p.endpoint}/{fmtOpt p.cluster}/{fmtOpt p.leaf} {statusName s}"

def fmtOuts (op : Operation) (l : List Out) : String :=
  if l.isEmpty then "-" else " | ".intercalate (l.map (fmtOut op))

/-- the triples of the items in an implementation answer (`ok ep cl leaf …`), one entry per output -/
def parseOuts (out : String) : List (Option (Nat × Nat × Nat)) :=
  if out = "-" then [] else
  (out.splitOn " | ").map fun o =>
    match words o with
    | "ok" :: e :: c :: l :: _ =>
      match e.toNat?, c.toNat?, l.toNat? with
      | some e, some c, some l => some (e, c, l)
      | _, _, _ => none
    | _ => none

/-- `node_swap_safe` evaluated on the implementation's answer; `nodes[i]` is what call `i` saw -/
def swapOracle (ctx : Ctx) (op : Operation) (sched : List Node) (paths : List Path) (out : String) : Option String :=
  let outs := parseOuts out
  let nodeAt (i : Nat) : Node := (sched[i]?).getD (sched.getLast?.getD [])
  -- clause 1 (any request): every item is permitted on the node of its call
  let bad1 := (List.range outs.length).filter fun i =>
    match outs[i]? with
    | some (some (e, c, l)) => !(itemPermittedOn ctx op (nodeAt i) paths e c l)
    | _ => false
  if !bad1.isEmpty then some s!"item of call {bad1.head!} not permitted on its node" else
  match paths with
  | [p] =>
    if isWildcard p && (op == .read || (p.cluster.isSome && p.leaf.isSome)) then
      let triples := outs.filterMap id
      -- clause 2: no leaf twice
      if !(decide triples.Nodup) then some "leaf yielded twice" else
      -- clause 3: the compositions seen are those of calls 0 .. |outs| (the last call returns None)
      let seen := (List.range (outs.length + 1)).map nodeAt
      let owed := owedThroughout ctx op seen p
      match owed.find? (fun t => !(triples.contains t)) with
      | some t => some s!"owed leaf {t.1}/{t.2.1}/{t.2.2} of an endpoint present throughout not yielded"
      | none => none
    else none
  | _ => none

def FUEL : Nat := 100000

/-! ### the end-to-end stream (`e2e` lines) -/

def fmtE2eOut : Out → String
  | .item ep cl leaf _ _ => s!"ok {ep} {cl} {leaf}"
  | .status p s => s!"st {fmtOpt p.endpoint}/{fmtOpt p.cluster}/{fmtOpt p.leaf} {statusName s}"

def fmtEvOut : EvOut → String
  | .data e => s!"ev {e.ep} {e.cl} {e.ev} n{e.num}"
  | .status p s => s!"st {fmtOpt p.endpoint}/{fmtOpt p.cluster}/{fmtOpt p.leaf} {statusName s}"

def joinOr (sep : String) (l : List String) : String := if l.isEmpty then "-" else sep.intercalate l

def fmtOutcome (letter : String) (o : Outcome) : String :=
  let top := match o.top with | none => "-" | some s => s!"status:{s}"
  let eff := joinOr "," (o.effects.map fun (e, c, l) => s!"{letter}.{e}.{c}.{l}")
  s!"{top} # {eff} # {joinOr " | " (o.resp.map fmtE2eOut)}"

/-- the `FabricIndex` field the harness put into the payload: `0` none, `k > 0` the fabric index `k`,
`z` the fabric index 0, `n` a null, `w` a 16-bit integer (not readable as `u8`) -/
def parseFab (s : String) : Option FabField :=
  if s = "z" then some (.idx 0) else if s = "n" ∨ s = "w" then some .unreadable else
  match s.toNat? with
  | some 0 => some .absent
  | some k => some (.idx k)
  | none => none

def parseOcc (i : Nat) (s : String) : Option EventOcc :=
  match s.splitOn "." with
  | [e, c, v, f] =>
    match e.toNat?, c.toNat?, v.toNat?, parseFab f with
    | some e, some c, some v, some f => some { ep := e, cl := c, ev := v, fab := f, num := i + 1 }
    | _, _, _, _ => none
  | _ => none

def parseTimed (s : String) : Option (Option (Nat × Nat)) :=
  if s = "-" then some none else
  match (s.splitOn ":").mapM (·.toNat?) with
  | some [t, d] => some (some (t, d))
  | _ => none

def e2eStep (st : St) (kind fab mode id cats treq flag paths emit out : String) : St × String :=
  let op : Operation := if kind = "w" then .write else if kind = "i" then .invoke else .read
  match fab.toNat?, id.toNat?, Driver.C05.natList cats, parseTimed treq,
      (((paths.splitOn ";").filter (fun s => s ≠ "" ∧ s ≠ "-")).mapM parsePath),
      (if emit = "-" then some [] else
        (((emit.splitOn ",").zipIdx).mapM fun (s, i) => parseOcc i s)) with
  | some fab, some id, some cats, some tr, some paths, some queue =>
    -- `Accessor::for_session`: PASE sessions have the subject 1 and the session's fabric index
    let acc : Accessor :=
      if mode = "p" then { fabIdx := fab, auxAclEnabled := false, subjects := subjectsNew 1, authMode := some .pase }
      else { fabIdx := fab, auxAclEnabled := false, subjects := cats.foldl addCatid (subjectsNew id), authMode := some .case }
    let flagB := flag = "1"
    let ctx : Ctx := { fabrics := st.acl.fabrics, accessor := acc, timed := (op ≠ .read) && flagB,
                       filter := fun _ _ _ => true }
    let sorted : Bool := decide ((st.node.map (·.id)).Pairwise (· < ·))
    let inScope := nodeWF st.node && eventsWF st.node &&
      st.acl.fabrics.all (fun f => f.acl.all (fun e => Driver.C05.canonicalPriv e.privilege))
    let bad := out.startsWith "panic" ∨ out.startsWith "hang" ∨ out.startsWith "err" ∨ out.startsWith "devend" ∨
      out.startsWith "setup" ∨ out.startsWith "undecodable" ∨ out.startsWith "timedfail" ∨ out.startsWith "opcode"
    if mode ≠ "p" ∧ fab = 0 then (st, "BAD e2e case session needs a fabric") else
    if bad then (if out.startsWith "panic" && !sorted then (st, "ok") else (st, s!"ORA {out}")) else
    if kind = "v" then
      -- for an event read the flag field carries the request's `isFabricFiltered`: `u` = false
      let ff := flag ≠ "u"
      let model := s!"- # - # {joinOr " | " ((reportEvents ctx st.node ff paths queue).map fmtEvOut)}"
      let specL := expectedEvents ctx st.node ff paths queue
      let spec := s!"- # - # {joinOr " | " (specL.map fmtEvOut)}"
      if inScope && spec ≠ out then (st, s!"ORA spec=[{spec}]")
      else if model = out then (st, "ok") else (st, s!"DIS {model}")
    else
      let letter := if kind = "w" then "W" else if kind = "i" then "I" else "R"
      let fuel := if sorted then fuelBound op st.node paths else FUEL
      let model := fmtOutcome letter (imRequest op flagB tr paths (expand ctx op st.node paths fuel))
      let spec := fmtOutcome letter (imRequest op flagB tr paths (expected ctx op st.node paths))
      if inScope && spec ≠ out then (st, s!"ORA spec=[{spec}]")
      else if model = out then (st, "ok") else (st, s!"DIS {model}")
  | _, _, _, _, _, _ => (st, "BAD e2e")

/-- chunked write: `treq` = `T:D0,D1,..` or `-`, `flags` = `f0+f1+..`, `paths` = chunk paths joined by `+` -/
def e2eChunked (st : St) (fab mode id cats treq flags paths out : String) : St × String :=
  let parseChunkPaths (s : String) : Option (List Path) :=
    ((s.splitOn ";").filter (fun s => s ≠ "" ∧ s ≠ "-")).mapM parsePath
  let timing : Option (Option Nat × List Nat) :=
    if treq = "-" then some (none, []) else
    match treq.splitOn ":" with
    | [t, ds] =>
      match t.toNat?, (ds.splitOn ",").mapM (·.toNat?) with
      | some t, some ds => some (some t, ds)
      | _, _ => none
    | _ => none
  match fab.toNat?, id.toNat?, Driver.C05.natList cats, timing, (paths.splitOn "+").mapM parseChunkPaths with
  | some fab, some id, some cats, some (timeout, delays), some chunkPaths =>
    let acc : Accessor :=
      if mode = "p" then { fabIdx := fab, auxAclEnabled := false, subjects := subjectsNew 1, authMode := some .pase }
      else { fabIdx := fab, auxAclEnabled := false, subjects := cats.foldl addCatid (subjectsNew id), authMode := some .case }
    if mode ≠ "p" ∧ fab = 0 then (st, "BAD e2e case session needs a fabric") else
    let fl : List Bool := (flags.splitOn "+").map (fun f => decide (f = "1"))
    let chunks : List Chunk := chunkPaths.zipIdx.map fun (ps, k) =>
      { flag := (fl[k]?).getD false, delay := (delays[k]?).getD 0, paths := ps }
    let ctxOf (flag : Bool) : Ctx := { fabrics := st.acl.fabrics, accessor := acc, timed := flag, filter := fun _ _ _ => true }
    let sorted : Bool := decide ((st.node.map (·.id)).Pairwise (· < ·))
    let inScope := nodeWF st.node &&
      st.acl.fabrics.all (fun f => f.acl.all (fun e => Driver.C05.canonicalPriv e.privilege))
    let bad := ["panic", "hang", "err", "devend", "setup", "undecodable", "timedfail", "opcode"].any fun w =>
      (out.splitOn w).length > 1
    if bad then (if (out.splitOn "panic").length > 1 && !sorted then (st, "ok") else (st, s!"ORA {out}")) else
    let render (os : List Outcome) : String := " ## ".intercalate (os.map (fmtOutcome "W"))
    let model := render (imWriteChunks
      (fun flag ps => expand (ctxOf flag) .write st.node ps (if sorted then fuelBound .write st.node ps else FUEL))
      timeout 0 chunks)
    let spec := render (imWriteChunks (fun flag ps => expected (ctxOf flag) .write st.node ps) timeout 0 chunks)
    if inScope && spec ≠ out then (st, s!"ORA spec=[{spec}]")
    else if model = out then (st, "ok") else (st, s!"DIS {model}")
  | _, _, _, _, _ => (st, "BAD e2e W")

/-- oracle of the `xa` op (`C06.acl_rewrite_cache`): every item of the implementation's answer is
permitted under the ACL its own call saw (`ctx0` for the first `k` calls, then `ctx1`), or repeats the
item answered immediately before it -/
def aclOracle (ctx0 ctx1 : Ctx) (k : Nat) (node : Node) (paths : List Path) :
    Nat → Option (Nat × Nat × Nat) → List (Option (Nat × Nat × Nat)) → Option String
  | _, _, [] => none
  | i, prev, none :: rest => aclOracle ctx0 ctx1 k node paths (i + 1) prev rest
  | i, prev, some t :: rest =>
    let ctx := if i < k then ctx0 else ctx1
    if itemPermittedOn ctx .write node paths t.1 t.2.1 t.2.2 || prev == some t then
      aclOracle ctx0 ctx1 k node paths (i + 1) (some t) rest
    else some s!"item {t.1}/{t.2.1}/{t.2.2} of call {i} is neither permitted under the ACL of its call nor a repeat of the item before it"

def step (st : St) (line : String) : St × String :=
  let (opText, out) := splitArrow line
  match words opText with
  | "case" :: _ => ({}, "case")
  | ["node", spec] =>
    match parseNode spec with
    | none => (st, "BAD node")
    | some n =>
      let m := s!"ok {n.length}"
      if out = m then ({ st with node := n }, "ok") else ({ st with node := n }, s!"DIS {m}")
  | ["x", kind, fab, mode, aux, id, cats, timed, excl, paths] =>
    let op : Operation := if kind = "r" then .read else if kind = "w" then .write else .invoke
    match fab.toNat?, Driver.C05.modeOf mode, id.toNat?, Driver.C05.natList cats,
        (if excl = "-" then some [] else (excl.splitOn ",").mapM parseTriple),
        (((paths.splitOn ";").filter (fun s => s ≠ "" ∧ s ≠ "-")).mapM parsePath) with
    | some fab, some mode, some id, some cats, some excl, some paths =>
      let subj := cats.foldl addCatid (subjectsNew id)
      let acc : Accessor := { fabIdx := fab, auxAclEnabled := aux = "1", subjects := subj, authMode := mode }
      -- only `expand_read` takes a caller-supplied filter
      let excl := if op = .read then excl else []
      let ctx : Ctx := { fabrics := st.acl.fabrics, accessor := acc, timed := (op ≠ .read) && timed = "1",
                         filter := fun e c l => !(excl.contains (e, c, l)) }
      -- `Props/C06.expand_terminates`: on a node with sorted endpoints the run has ended after
      -- `fuelBound` calls of `next` (more fuel changes nothing); the constant cap only guards nodes
      -- that violate the invariant (there the real code panics / the scan may revisit endpoints)
      let sorted : Bool := decide ((st.node.map (·.id)).Pairwise (· < ·))
      let fuel := if sorted then fuelBound op st.node paths else FUEL
      let model := fmtOuts op (expand ctx op st.node paths fuel)
      let inScope := nodeWF st.node &&
        st.acl.fabrics.all (fun f => f.acl.all (fun e => Driver.C05.canonicalPriv e.privilege))
      let spec := fmtOuts op (expected ctx op st.node paths)
      -- `resume_endpoint_index` debug-asserts `Node`'s documented invariant (endpoints strictly
      -- ascending); a panic on a node violating it is the stated precondition, not a finding
      if out.startsWith "panic" && !sorted then (st, "ok")
      else if out.startsWith "panic" ∨ (out.splitOn "HANG").length > 1 then (st, s!"ORA {out}")
      else if inScope && spec ≠ out then (st, s!"ORA spec=[{spec}]")
      else if model = out then (st, "ok") else (st, s!"DIS {model}")
    | _, _, _, _, _, _ => (st, "BAD x")
  | ["xa", _, fab, mode, aux, id, cats, timed, _, paths, k] =>
    -- a WriteRequest during which the ACL of the requester's fabric is emptied after `k` calls of `next`
    match fab.toNat?, Driver.C05.modeOf mode, id.toNat?, Driver.C05.natList cats, k.toNat?,
        (((paths.splitOn ";").filter (fun s => s ≠ "" ∧ s ≠ "-")).mapM parsePath) with
    | some fab, some mode, some id, some cats, some k, some paths =>
      let subj := cats.foldl addCatid (subjectsNew id)
      let acc : Accessor := { fabIdx := fab, auxAclEnabled := aux = "1", subjects := subj, authMode := mode }
      let wiped : List Fabric := st.acl.fabrics.map fun f => if f.fabIdx = fab then { f with acl := [] } else f
      let ctx0 : Ctx := { fabrics := st.acl.fabrics, accessor := acc, timed := timed = "1", filter := fun _ _ _ => true }
      let ctx1 : Ctx := { ctx0 with fabrics := wiped }
      let sorted : Bool := decide ((st.node.map (·.id)).Pairwise (· < ·))
      let tail := if sorted then fuelBound .write st.node paths else FUEL
      let ctxs := List.replicate k ctx0 ++ List.replicate tail ctx1
      let model := fmtOuts .write (runCtx .write st.node ctxs { items := paths })
      let st' : St := { st with acl := { st.acl with fabrics := wiped } }
      let inScope := nodeWF st.node &&
        st.acl.fabrics.all (fun f => f.acl.all (fun e => Driver.C05.canonicalPriv e.privilege))
      -- oracle (`acl_rewrite_cache`): every item of the implementation's answer is permitted under the
      -- ACL its own call saw, or repeats the item answered immediately before it
      if out.startsWith "panic" && !sorted then (st', "ok")
      else if out.startsWith "panic" ∨ (out.splitOn "HANG").length > 1 then (st', s!"ORA {out}")
      else match (if inScope then aclOracle ctx0 ctx1 k st.node paths 0 none (parseOuts out) else none) with
        | some why => (st', s!"ORA {why}")
        | none => if model = out then (st', "ok") else (st', s!"DIS {model}")
    | _, _, _, _, _, _ => (st, "BAD xa")
  | ["e2e", "W", fab, mode, id, cats, treq, flags, paths, _] =>
    e2eChunked st fab mode id cats treq flags paths out
  | ["e2e", kind, fab, mode, id, cats, treq, flag, paths, emit] =>
    e2eStep st kind fab mode id cats treq flag paths emit out
  | "sw" :: kind :: fab :: mode :: aux :: id :: cats :: timed :: excl :: paths :: specs =>
    let op : Operation := if kind = "r" then .read else if kind = "w" then .write else .invoke
    match fab.toNat?, Driver.C05.modeOf mode, id.toNat?, Driver.C05.natList cats,
        (if excl = "-" then some [] else (excl.splitOn ",").mapM parseTriple),
        (((paths.splitOn ";").filter (fun s => s ≠ "" ∧ s ≠ "-")).mapM parsePath),
        specs.mapM parseNode with
    | some fab, some mode, some id, some cats, some excl, some paths, some sched =>
      if sched.isEmpty then (st, "BAD sw") else
      let subj := cats.foldl addCatid (subjectsNew id)
      let acc : Accessor := { fabIdx := fab, auxAclEnabled := aux = "1", subjects := subj, authMode := mode }
      let excl := if op = .read then excl else []
      let ctx : Ctx := { fabrics := st.acl.fabrics, accessor := acc, timed := (op ≠ .read) && timed = "1",
                         filter := fun e c l => !(excl.contains (e, c, l)) }
      let last := sched.getLast?.getD []
      let allSorted := sched.all fun n => decide ((n.map (·.id)).Pairwise (· < ·))
      -- once the schedule is over the node is fixed: `expand_terminates` bounds the rest
      let tail := if allSorted then fuelBound op last paths else 2000
      let model := fmtOuts op (runSwap ctx op (sched ++ List.replicate tail last) { items := paths })
      let inScope := sched.all nodeWF && stableNodes sched &&
        st.acl.fabrics.all (fun f => f.acl.all (fun e => Driver.C05.canonicalPriv e.privilege))
      if out.startsWith "panic" && !allSorted then (st, "ok")
      else if out.startsWith "panic" ∨ (out.splitOn "HANG").length > 1 then (st, s!"ORA {out}")
      else
        match (if inScope then swapOracle ctx op sched paths out else none) with
        | some why => (st, s!"ORA {why}")
        | none => if model = out then (st, "ok") else (st, s!"DIS {model}")
    | _, _, _, _, _, _, _ => (st, "BAD sw")
  | _ =>
    let (a, o) := Driver.C05.step st.acl line
    ({ st with acl := a }, o)

def run : IO UInt32 := Driver.runLoop ({} : St) step

end Driver.C06
