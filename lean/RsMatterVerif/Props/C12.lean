import RsMatterVerif.Lemmas.Counters
/-!
# C12 — durable counters never hand out the same value twice, across restarts too

Theorems over `Model/Counters.lean`, for **every** history of operations (`List …Op`): power
losses (`crash` / `boot`) may stand before or after every individual store, in any number.

Shape, per counter:
* `…_invariant`       every reachable state satisfies the ghost invariant (`GInv` / `EInv` / `CInv`
                      of `Lemmas/Counters.lean`): each cyclic value is the image of an unbounded
                      position and the safety facts are inequalities between positions;
* `…_values_distinct` the values that reached the wire are pairwise distinct, as long as the
                      history consumed less than one cycle of the counter range — the bound is
                      explicit (`gCost`, `eCost`, `cCost`: one position per reservation, one epoch
                      per power loss, `delta` per jump). A cyclic counter necessarily repeats after
                      a full cycle, so this is the full strength available;
* `…_used_only_if_covered`  whenever a value is (or can be) used, a boundary is in storage and its
                      position is strictly past the value's position (Check-In: not before it,
                      because a restart resumes with `boundary + 1`);
* `…_restart_resumes_past_used`  the state after a power loss continues at a position past every
                      used position, and its first value is none of the used values;
* `…_boundary_reached` the `live == boundary` equality test cannot be stepped over.
-/
namespace C12
open Counters

/-! ## 1. Global group data message counter -/

/-- reachable states and their ghosts -/
def gReach (d0 : Option Nat) (ops : List GOp) : GSys × GGhost :=
  (gRun (GSys.boot d0) ops, gGhostRun (GSys.boot d0) (GGhost.boot d0) ops)

/-- Every history keeps the ghost invariant — histories include FAILING stores (`storeFail`) and
several `initiate_group` calls in progress at the same time (`held`). -/
theorem group_invariant (d0 : Option Nat) (h : GStart d0) (ops : List GOp) :
    GInv (gReach d0 ops).1 (gReach d0 ops).2 :=
  ginv_run ops (ginv_boot d0 h)

/-- the ghost consumes at most `gCost ops` positions -/
theorem group_spent_le (d0 : Option Nat) (ops : List GOp) : (gReach d0 ops).2.spent ≤ gCost ops := by
  have := gspent_run ops (GSys.boot d0) (GGhost.boot d0)
  have h0 : (GGhost.boot d0).spent = 0 := by cases d0 <;> rfl
  simp only [gReach]; omega

/-- **Wire values are pairwise distinct** (also against the values still held by `initiate_group`
calls in progress and those waiting in exchanges), for every history — with power losses and
failing stores anywhere — that consumes at most one cycle of the 28-bit range: `gCost ops ≤ mask`,
i.e. `#reservations + 1000 · #power-losses ≤ 2^28 − 1`. -/
theorem group_wire_values_distinct (d0 : Option Nat) (h : GStart d0) (ops : List GOp)
    (hb : gCost ops ≤ mask) :
    ((gReach d0 ops).1.held ++ (gReach d0 ops).1.ready ++ (gReach d0 ops).1.used).Nodup :=
  ginv_values_nodup (group_invariant d0 h ops) (Nat.le_trans (group_spent_le d0 ops) hb)

theorem group_used_values_distinct (d0 : Option Nat) (h : GStart d0) (ops : List GOp)
    (hb : gCost ops ≤ mask) : (gReach d0 ops).1.used.Nodup :=
  (List.nodup_append.mp (group_wire_values_distinct d0 h ops hb)).2.1

/-- **A value is used only when a durable boundary covers it** (ghost positions): in every
reachable state, every value that reached the wire and every value that can still reach it (held
by an `initiate_group` in progress, or stashed in an exchange) sits at a position strictly before
the position of the boundary held in storage — and such a boundary exists. Unconditional (no cycle
bound needed: it is a statement about positions); holds after failing stores too. The ghost-free
reading is `group_used_covered`. -/
theorem group_used_only_if_covered (d0 : Option Nat) (h : GStart d0) (ops : List GOp) :
    let s := (gReach d0 ops).1
    let g := (gReach d0 ops).2
    s.held = g.hpos.map gval ∧ s.ready = g.rpos.map gval ∧ s.used = g.upos.map gval ∧
    ∀ p ∈ g.hpos ++ g.rpos ++ g.upos, ∃ d, s.durable = some d ∧ gnorm d = gval g.dpos ∧ p < g.dpos := by
  intro s g
  have hi : GInv s g := group_invariant d0 h ops
  refine ⟨hi.held_eq, hi.ready_eq, hi.used_eq, ?_⟩
  intro p hp
  have hp' : p ∈ g.hpos ∨ p ∈ g.rpos ∨ p ∈ g.upos := by
    rcases List.mem_append.mp hp with h1 | h1
    · rcases List.mem_append.mp h1 with h2 | h2
      · exact Or.inl h2
      · exact Or.inr (Or.inl h2)
    · exact Or.inr (Or.inr h1)
  have hlt : p < g.dpos := by
    rcases hp' with h1 | h1 | h1
    · exact (hi.hrange p h1).2.2
    · exact (hi.rrange p h1).2.2
    · exact (hi.urange p h1).2.2
  cases hd : s.durable with
  | none =>
    obtain ⟨e1, e2, e3, _⟩ := hi.nodur hd
    rcases hp' with h1 | h1 | h1
    · rw [e1] at h1; exact absurd h1 (by simp)
    · rw [e2] at h1; exact absurd h1 (by simp)
    · rw [e3] at h1; exact absurd h1 (by simp)
  | some d => exact ⟨d, rfl, (hi.dur d hd).2.1, hlt⟩

/-- forward distance of two values of the cycle whose positions are less than a cycle apart -/
theorem fwd_gval {p q : Nat} (h1 : p ≤ q) (h2 : q < p + mask) :
    fwd mask (gval p - 1) (gval q - 1) = q - p := by
  simp only [fwd, gval, mask_eq] at *
  omega

theorem gnorm_eq_gResume (d : Nat) : gnorm d = gResume d := rfl

/-- **A value is used only when a durable boundary covers it** — GHOST-FREE, in the cyclic order
the driver's oracle uses (`Counters.gCovers`, written from the property text: the point a restart
resumes from is strictly ahead of the value, forward distance between 1 and half the range): in
every reachable state of a history that stays within HALF a cycle
(`gCost ops + 1000 ≤ (2^28−1)/2`; serial-number order is only meaningful up to half the range),
every value on the wire, waiting in an exchange, or held by an `initiate_group` in progress is
covered by the boundary that IS in storage. Histories include failing stores. -/
theorem group_used_covered (d0 : Option Nat) (h : GStart d0) (ops : List GOp)
    (hb : gCost ops + gEpoch ≤ mask / 2) :
    let s := (gReach d0 ops).1
    ∀ v ∈ s.held ++ s.ready ++ s.used, ∃ d, s.durable = some d ∧ gCovers v d = true := by
  intro s v hv
  have hi : GInv s (gReach d0 ops).2 := group_invariant d0 h ops
  have hsp := group_spent_le d0 ops
  obtain ⟨e1, e2, e3, hcov⟩ := group_used_only_if_covered d0 h ops
  have hv' : v ∈ ((gReach d0 ops).2.hpos ++ (gReach d0 ops).2.rpos ++ (gReach d0 ops).2.upos).map gval := by
    rw [List.map_append, List.map_append, ← e1, ← e2, ← e3]; exact hv
  obtain ⟨p, hp, hpv⟩ := List.mem_map.mp hv'
  obtain ⟨d, hd, hdv, hlt⟩ := hcov p hp
  refine ⟨d, hd, ?_⟩
  have hbase : (gReach d0 ops).2.base ≤ p := by
    rcases List.mem_append.mp hp with h1 | h1
    · rcases List.mem_append.mp h1 with h2 | h2
      · exact (hi.hrange p h2).1
      · exact (hi.rrange p h2).1
    · exact (hi.urange p h1).1
  obtain ⟨hl, _, hdb, _, _⟩ := hi.dur d hd
  obtain ⟨_, _, _, hbl⟩ := hi.vol hl
  have hw := hi.window
  have hM := mask_eq
  have hE := gEpoch_eq
  have hdist : (gReach d0 ops).2.dpos < p + mask := by omega
  have hf := fwd_gval (Nat.le_of_lt hlt) hdist
  have hvp := gval_pos p
  unfold gCovers ahead
  rw [← gnorm_eq_gResume, hdv, ← hpv, hf]
  simp only [Bool.and_eq_true, decide_eq_true_eq]
  refine ⟨hvp.1, by omega, by omega⟩

/-- the live counter never passes the stored boundary (except by the one value reserved inside the
critical section whose store is still open), and the stored boundary is never more than one epoch
ahead of it -/
theorem group_live_within_stored_boundary (d0 : Option Nat) (h : GStart d0) (ops : List GOp) (d : Nat)
    (hd : (gReach d0 ops).1.durable = some d) :
    let s := (gReach d0 ops).1
    let g := (gReach d0 ops).2
    g.lpos ≤ g.dpos + infl1 s ∧ g.dpos ≤ g.lpos + gEpoch := by
  intro s g
  have hi : GInv s g := group_invariant d0 h ops
  obtain ⟨hl, _, hdb, _, hdn⟩ := hi.dur d hd
  obtain ⟨_, _, hlb, hbl⟩ := hi.vol hl
  refine ⟨?_, by omega⟩
  cases hin : s.inflight with
  | none => have := hdn hin; omega
  | some x =>
    obtain ⟨v, b⟩ := x
    have h7 := (hi.infl v b hin).2.2.2.2.2.2 (by rw [hd]; simp)
    have h2 := (hi.infl v b hin).2.1
    simp only [infl1, hin]; omega

/-- **At the moment a reserved value leaves the critical section of `initiate_group`** (it becomes
`held`: the store succeeded, or none was needed) **the boundary in storage is between 1 and 1000
steps ahead of it in the cycle** — ghost-free, no cycle bound. Only from there can the value be
stashed and sent. -/
theorem group_release_within_epoch (d0 : Option Nat) (h : GStart d0) (ops : List GOp) (op : GOp) (v : Nat)
    (hrel : (gStep (gReach d0 ops).1 op).held = v :: (gReach d0 ops).1.held) :
    ∃ d, (gStep (gReach d0 ops).1 op).durable = some d ∧
      1 ≤ fwd mask (v - 1) (gResume d - 1) ∧ fwd mask (v - 1) (gResume d - 1) ≤ gEpoch := by
  have hi : GInv (gReach d0 ops).1 (gReach d0 ops).2 := group_invariant d0 h ops
  have hi' := ginv_step hi op
  generalize (gReach d0 ops).1 = s at *
  generalize (gReach d0 ops).2 = g at *
  have hM := mask_eq
  have hE := gEpoch_eq
  -- the released value sits at the head of the new ghost list
  have hhe' := hi'.held_eq
  rw [hrel] at hhe'
  cases hh : (gGhostStep s g op).hpos with
  | nil => rw [hh] at hhe'; simp at hhe'
  | cons p ps =>
    rw [hh, List.map_cons] at hhe'
    have hvp : v = gval p := (List.cons.inj hhe').1
    have hmem : p ∈ (gGhostStep s g op).hpos := by rw [hh]; exact List.mem_cons_self ..
    have hr := hi'.hrange p hmem
    cases hd : (gStep s op).durable with
    | none => have := (hi'.nodur hd).1; rw [this] at hmem; exact absurd hmem (by simp)
    | some d =>
      obtain ⟨hl, hdv, hdb, _, hdn⟩ := hi'.dur d hd
      obtain ⟨_, _, hlb, hbl⟩ := hi'.vol hl
      refine ⟨d, rfl, ?_⟩
      -- which step released it: only `reserve` (no store needed) and `store` grow `held`
      have hkey : (gGhostStep s g op).dpos ≤ p + gEpoch := by
        cases op with
        | reserve r =>
          cases hin : s.inflight with
          | some x => simp only [gStep, hin] at hrel; exact absurd hrel (by simp)
          | none =>
            simp only [gGhostStep, hin] at hh hdb hbl hlb ⊢
            by_cases h0 : s.vol.live = 0
            · simp only [if_pos h0] at hh
              have := (hi.nodur (hi.uninit h0).2.1).1
              rw [this] at hh; exact absurd hh (by simp)
            · simp only [if_neg h0] at hh hdb hbl hlb ⊢
              by_cases h1 : s.vol.live = s.vol.boundary
              · simp only [if_pos h1] at hh
                -- `held` did not grow in this branch
                have hS : (gStep s (.reserve r)).held = s.held := by
                  have hgo : s.vol.getOrInit r = s.vol := by simp [GVol.getOrInit, h0]
                  simp only [gStep, hin, GVol.reserve, hgo, if_pos h1]
                rw [hS] at hrel
                exact absurd hrel (by simp)
              · simp only [if_neg h1] at hh hdb hbl hlb ⊢
                have hp : p = g.lpos := (List.cons.inj hh).1.symm
                obtain ⟨_, _, hlb0, hbl0⟩ := hi.vol h0
                have : (gStep s (.reserve r)).durable = s.durable := by
                  have hgo : s.vol.getOrInit r = s.vol := by simp [GVol.getOrInit, h0]
                  simp only [gStep, hin, GVol.reserve, hgo, if_neg h1]
                rw [this] at hd
                have := (hi.dur d hd).2.2.1
                omega
        | store =>
          cases hin : s.inflight with
          | none => simp only [gStep, hin] at hrel; exact absurd hrel (by simp)
          | some x =>
            obtain ⟨v', b'⟩ := x
            obtain ⟨_, _, _, _, h5, h6, _⟩ := hi.infl v' b' hin
            simp only [gGhostStep, hin] at hh ⊢
            have hp : p = g.lpos - 1 := (List.cons.inj hh).1.symm
            omega
        | storeFail =>
          exfalso
          cases hin : s.inflight with
          | none => simp only [gStep, hin] at hrel; exact absurd hrel (by simp)
          | some x => simp only [gStep, hin] at hrel; exact absurd hrel (by simp)
        | stash i =>
          exfalso
          simp only [gStep] at hrel
          split at hrel
          · have := congrArg List.length hrel
            simp only [List.length_cons, List.length_eraseIdx] at this
            split at this <;> omega
          · exact absurd hrel (by simp)
        | use i =>
          exfalso
          simp only [gStep] at hrel
          split at hrel <;> exact absurd hrel (by simp)
        | abandon i =>
          exfalso
          simp only [gStep] at hrel
          have := congrArg List.length hrel
          simp only [List.length_cons, List.length_eraseIdx] at this
          split at this <;> omega
        | peek r => exfalso; simp only [gStep] at hrel; exact absurd hrel (by simp)
        | crash => exfalso; simp only [gStep] at hrel; exact absurd hrel (by simp)
      have hf := fwd_gval (Nat.le_of_lt hr.2.2) (by omega)
      rw [← gnorm_eq_gResume, hdv, hvp, hf]
      omega

/-- **A restart resumes strictly past every used value**: after a power loss in any reachable
state with a stored boundary, the live counter sits at the position of that boundary, which is
past the position of every value that reached the wire. -/
theorem group_restart_resumes_past_used (d0 : Option Nat) (h : GStart d0) (ops : List GOp) :
    let s' := (gReach d0 (ops ++ [.crash])).1
    let g' := (gReach d0 (ops ++ [.crash])).2
    (s'.vol.live ≠ 0 → s'.vol.live = gval g'.lpos) ∧ s'.used = g'.upos.map gval ∧
    ∀ p ∈ g'.upos, p < g'.lpos := by
  intro s' g'
  have hi : GInv s' g' := group_invariant d0 h (ops ++ [.crash])
  refine ⟨fun hl => (hi.vol hl).1, hi.used_eq, fun p hp => ?_⟩
  have := (hi.urange p hp).2.1
  omega

theorem gCost_append_crash : ∀ (ops : List GOp), gCost (ops ++ [.crash]) = gCost ops + gEpoch
  | [] => by simp [gCost]
  | o :: os => by
    rw [List.cons_append, gCost_cons, gCost_cons o os, gCost_append_crash os]; omega

/-- … and, within one cycle, the value the restarted node hands out first was never on the wire
(ghost-free). -/
theorem group_restart_value_fresh (d0 : Option Nat) (h : GStart d0) (ops : List GOp)
    (hb : gCost ops + gEpoch < mask) :
    let s' := (gReach d0 (ops ++ [.crash])).1
    s'.vol.live ∉ s'.used := by
  intro s'
  have hi : GInv s' (gReach d0 (ops ++ [.crash])).2 := group_invariant d0 h (ops ++ [.crash])
  have hsp := group_spent_le d0 (ops ++ [.crash])
  have hc := gCost_append_crash ops
  have hM := mask_eq
  intro hm
  by_cases hl : s'.vol.live = 0
  · -- an uninitialised counter has no storage, hence nothing was ever used
    have := (hi.nodur (hi.uninit hl).2.1).2.2.1
    rw [hi.used_eq, this] at hm; exact absurd hm (by simp)
  · have hv := (hi.vol hl).1
    rw [hi.used_eq] at hm
    obtain ⟨p, hp, hpv⟩ := List.mem_map.mp hm
    have hr := hi.urange p hp
    have hw := hi.window
    have : p = (gReach d0 (ops ++ [.crash])).2.lpos :=
      gval_inj (by omega) (by rw [hc] at hsp; omega) (by rw [hpv, ← hv])
    omega

theorem failed_store_aux {s : GSys} {g : GGhost} (hi : GInv s g) (v b rand : Nat)
    (hv : s.inflight = some (v, b)) :
    (gStep s .storeFail).held = s.held ∧ (gStep s .storeFail).durable = s.durable ∧
    (gStep s .storeFail).inflight = none ∧
    ∃ b', (gStep (gStep s .storeFail) (.reserve rand)).inflight = some (v, b') ∧
      (gStep (gStep s .storeFail) (.reserve rand)).held = s.held := by
  obtain ⟨_, _, hvv, _⟩ := hi.infl v b hv
  have hvp := gval_pos (g.lpos - 1)
  have hv0 : v ≠ 0 := by omega
  have hS : gStep s .storeFail = { s with vol := { live := v, boundary := v }, inflight := none } := by
    simp only [gStep, hv, GVol.unreserve, GVol.set]
  rw [hS]
  refine ⟨rfl, rfl, rfl, gAdvance v gEpoch, ?_, ?_⟩ <;>
    simp [gStep, GVol.reserve, GVol.getOrInit, hv0]

/-- **A failed store leaves nothing uncovered**: when `kv.store` fails inside `initiate_group`
(`storeFail` in any reachable state where a store is open), the reservation is undone — the very
next reservation hands out the same value again and demands the store again (it returns a boundary),
and until a store succeeds nothing new becomes `held`. This is the repaired behaviour
(finding C12-store-failure-group); before the repair the in-memory boundary stayed an epoch ahead
and up to 999 values went on the wire with nothing in storage covering them. -/
theorem group_failed_store_demands_store_again (d0 : Option Nat) (h : GStart d0) (ops : List GOp)
    (v b rand : Nat) (hv : (gReach d0 ops).1.inflight = some (v, b)) :
    (gStep (gReach d0 ops).1 .storeFail).held = (gReach d0 ops).1.held ∧
    (gStep (gReach d0 ops).1 .storeFail).durable = (gReach d0 ops).1.durable ∧
    (gStep (gReach d0 ops).1 .storeFail).inflight = none ∧
    ∃ b', (gStep (gStep (gReach d0 ops).1 .storeFail) (.reserve rand)).inflight = some (v, b') ∧
      (gStep (gStep (gReach d0 ops).1 .storeFail) (.reserve rand)).held = (gReach d0 ops).1.held :=
  failed_store_aux (group_invariant d0 h ops) v b rand hv

/-- **The `live == boundary` test cannot be stepped over**: the live position never passes the
boundary position, stays within one epoch of it, and the equality of the cyclic values holds
exactly when the positions coincide. -/
theorem group_boundary_reached (d0 : Option Nat) (h : GStart d0) (ops : List GOp)
    (hl : (gReach d0 ops).1.vol.live ≠ 0) :
    let s := (gReach d0 ops).1
    let g := (gReach d0 ops).2
    g.lpos ≤ g.bpos ∧ g.bpos ≤ g.lpos + gEpoch ∧ (s.vol.live = s.vol.boundary ↔ g.lpos = g.bpos) := by
  intro s g
  have hi : GInv s g := group_invariant d0 h ops
  obtain ⟨h1, h2, h3, h4⟩ := hi.vol hl
  refine ⟨h3, h4, ?_, ?_⟩
  · intro he
    have hE := gEpoch_eq
    have hM := mask_eq
    exact gval_inj h3 (by omega) (by rw [← h1, ← h2]; exact he)
  · intro he; rw [h1, h2, he]

/-- single steps from `v` -/
def gIter : Nat → Nat → Nat
  | 0, v => v
  | j + 1, v => gIter j (gAdvance v 1)

theorem gIter_val (j : Nat) : ∀ p, gIter j (gval p) = gval (p + j) := by
  induction j with
  | zero => intro p; rfl
  | succ j ih => intro p; simp only [gIter]; rw [gAdvance_one, ih]; congr 1; omega

/-- Arithmetic core of the same fact, stated on values only: stepping by one from any value `v` of
the range reaches the extended boundary `advance(v, EPOCH)` after exactly `gSpan v` ∈ {999, 1000}
steps and at no earlier step — also across the wrap, where the epoch covers 999 values because
0 is skipped. -/
theorem group_boundary_visited_exactly (v j : Nat) (h1 : 1 ≤ v) (h2 : v ≤ mask) (hj : j ≤ gEpoch) :
    gIter j v = gAdvance v gEpoch ↔ j = gSpan v := by
  have hv := gval_pred h1 h2
  have hE := gEpoch_eq
  have hM := mask_eq
  have hs := gSpan_bounds v
  rw [← hv, gIter_val, gAdvance_epoch, hv]
  constructor
  · intro he
    rcases Nat.le_total j (gSpan v) with hle | hle
    · have := gval_inj (p := v - 1 + j) (q := v - 1 + gSpan v) (by omega) (by omega) he; omega
    · have := gval_inj (p := v - 1 + gSpan v) (q := v - 1 + j) (by omega) (by omega) he.symm; omega
  · intro he; rw [he]

/-- every boundary the code hands to the store is a value of the range (never the 0 marker) -/
theorem group_stored_boundary_in_range (d0 : Option Nat) (h : GStart d0) (ops : List GOp) (v b : Nat)
    (hv : (gReach d0 ops).1.inflight = some (v, b)) : 1 ≤ b ∧ b ≤ mask := by
  obtain ⟨_, _, _, h3, _⟩ := (group_invariant d0 h ops).infl v b hv
  rw [h3]; exact gval_pos _

/-! ### non-vacuity of the hypotheses and a few concrete runs (tests, not theorems) -/

example : GStart none := fun _ hd => absurd hd (by simp)
example : GStart (some 268435000) := fun d hd => by
  simp only [Option.some.injEq] at hd; subst hd; decide
example : gCost [.reserve 0, .store, .stash 0, .use 0, .crash, .reserve 0] ≤ mask := by decide
example : gCost [.reserve 0, .storeFail, .reserve 0, .store, .stash 0, .use 0, .crash] + gEpoch ≤ mask / 2 := by
  decide
/-- across the wrap: start 3 below the top, send, lose power, send again -/
example : (gRun (GSys.boot (some 268435453))
    [.reserve 0, .store, .stash 0, .use 0, .reserve 0, .store, .stash 0, .use 0, .crash,
     .reserve 0, .store, .stash 0, .use 0]).used = [997, 268435454, 268435453] := by decide
/-- a power loss between `reserve` and the store loses the reservation, not the invariant -/
example : (gRun (GSys.boot (some 268435455)) [.reserve 0, .crash, .reserve 0, .store, .stash 0, .use 0]).used
    = [268435455] := by decide
example : gSpan 268435455 = 999 ∧ gSpan 268434456 = 1000 ∧ gSpan 268434457 = 999 := by decide
/-- the hypothesis of `group_failed_store_demands_store_again` / `group_stored_boundary_in_range` is
reachable -/
example : (gRun (GSys.boot (some 5000)) [.reserve 0]).inflight = some (5000, 6000) := by decide

/-- REGRESSION for finding C12-store-failure-group (`corpus/C12/failed-store.txt` is the same history
on the real code): the store fails, the reservation is undone; the next `initiate_group` gets the
same value and stores the boundary before it is used; a power loss resumes past everything sent. -/
example :
    let s := gRun (GSys.boot (some 5000))
      [.reserve 0, .storeFail, .reserve 0, .store, .stash 0, .use 0, .reserve 0, .stash 0, .use 0, .crash]
    s.used = [5001, 5000] ∧ s.durable = some 6000 ∧ s.vol.live = 6000 := by decide
/-- What the code did BEFORE the repair (the failing store dropped the reservation but kept the moved
in-memory boundary; written out by hand, it is no longer a step of the model): the next reservation
demanded no store, 5001 went out with storage still holding 5000. -/
example :
    let s1 := gStep (GSys.boot (some 5000)) (.reserve 0)             -- (5000, Some 6000)
    let s2 := { s1 with inflight := none }                            -- the unrepaired error path
    let s3 := gRun s2 [.reserve 0, .stash 0, .use 0]                  -- (5001, None): no store demanded
    s3.used = [5001] ∧ s3.durable = some 5000 := by decide
/-- Why the store must happen inside the critical section of the reservation (finding
C12-concurrent-reservation, `sync-mutex` builds): a second reservation that sees the moved boundary
before it is stored gets a value and no demand to store anything. -/
example :
    let a := GVol.reserve { live := 5000, boundary := 5000 } 0
    let b := GVol.reserve a.1 0
    a.2 = (5000, some 6000) ∧ b.2 = (5001, none) := by decide
/-- several `initiate_group` calls in progress (the model's `held` list): values released in any order -/
example : (gRun (GSys.boot (some 5000))
    [.reserve 0, .store, .reserve 0, .reserve 0, .stash 0, .stash 1, .use 0, .abandon 0, .use 0]).used
    = [5002, 5000] := by decide

/-! ## 2. Event numbers -/

/-- Every history that stays below the wrap of the u64 keeps the invariant. The bound is explicit:
start number + `eCost ops` (1 per push, one epoch per power loss) + one epoch + 1 < 2^64. -/
theorem event_invariant (d0 : Option Nat) (h : EStart d0) (ops : List EOp)
    (hb : (ESys.boot d0).vol.next + eCost ops + eEpoch + 1 < U64) :
    EInv (eRun (ESys.boot d0) ops) :=
  (einv_run ops (einv_boot d0 h) hb).1

/-- **Event numbers are never handed out twice**: newest first, the list of numbers handed out is
strictly decreasing. -/
theorem event_numbers_distinct (d0 : Option Nat) (h : EStart d0) (ops : List EOp)
    (hb : (ESys.boot d0).vol.next + eCost ops + eEpoch + 1 < U64) :
    (eRun (ESys.boot d0) ops).used.Pairwise (· > ·) ∧ (eRun (ESys.boot d0) ops).used.Nodup := by
  have hi := event_invariant d0 h ops hb
  exact ⟨hi.sorted, pairwise_gt_nodup _ hi.sorted⟩

/-- **A number is handed out only when a stored epoch covers it**: in every reachable state
(in particular right after the `push` that returned it) every number handed out is below the epoch
value held in storage, and that value is what a restart resumes from. -/
theorem event_used_only_if_covered (d0 : Option Nat) (h : EStart d0) (ops : List EOp)
    (hb : (ESys.boot d0).vol.next + eCost ops + eEpoch + 1 < U64) :
    let s := eRun (ESys.boot d0) ops
    ∀ u ∈ s.used, ∃ d, s.durable = some d ∧ u < d ∧ (eStep s .crash).vol.next = d := by
  intro s u hu
  have hi := event_invariant d0 h ops hb
  cases hd : s.durable with
  | none => have := (hi.nodur hd).2; rw [this] at hu; exact absurd hu (by simp)
  | some d =>
    have h1 := hi.below u hu
    have h2 := (hi.dur d hd).2.2.2.1
    refine ⟨d, rfl, by omega, ?_⟩
    simp only [eStep, hd, EVol.load]

/-- **A restart resumes strictly past every number handed out.** -/
theorem event_restart_resumes_past_used (d0 : Option Nat) (h : EStart d0) (ops : List EOp)
    (hb : (ESys.boot d0).vol.next + eCost ops + eEpoch + 1 < U64) :
    let s := eRun (ESys.boot d0) ops
    ∀ u ∈ s.used, u < (eStep s .crash).vol.next := by
  intro s u hu
  obtain ⟨d, _, h2, h3⟩ := event_used_only_if_covered d0 h ops hb u hu
  rw [h3]; exact h2

/-- **The epoch test cannot be stepped over**: the next number never passes the stored epoch value,
which is always a multiple of the epoch size and at most one epoch ahead. -/
theorem event_boundary_reached (d0 : Option Nat) (h : EStart d0) (ops : List EOp)
    (hb : (ESys.boot d0).vol.next + eCost ops + eEpoch + 1 < U64) (d : Nat)
    (hd : (eRun (ESys.boot d0) ops).durable = some d) :
    let s := eRun (ESys.boot d0) ops
    d % eEpoch = 0 ∧ s.vol.next ≤ d ∧ d ≤ s.vol.next + eEpoch := by
  intro s
  obtain ⟨h1, _, _, h4, h5⟩ := (event_invariant d0 h ops hb).dur d hd
  exact ⟨h1, h4, h5⟩

example : EStart none := fun _ hd => absurd hd (by simp)
example : EStart (some 30000) := fun d hd => by
  simp only [Option.some.injEq] at hd; subst hd; decide
example : (ESys.boot (some 30000)).vol.next + eCost [.push, .crash, .push, .pushCrash] + eEpoch + 1 < U64 := by
  decide
/-- first boot: the epoch is stored with the very first number -/
example : (eRun (ESys.boot none) [.push, .push, .crash, .push]).used = [10000, 2, 1] ∧
    (eRun (ESys.boot none) [.push, .push, .crash, .push]).durable = some 20000 := by decide

/-- a failing store inside `push` hands out no number and changes nothing; the next push stores first -/
example : (eRun (ESys.boot (some 10000)) [.pushFail, .pushFail, .push, .crash, .push]).used = [20000, 10000] ∧
    (eRun (ESys.boot (some 10000)) [.pushFail]) = ESys.boot (some 10000) := by decide

/-! ## 3. Check-In counter (under the application protocol the interface prescribes) -/

def cReach (d0 : Option Nat) (init epoch : Nat) (ops : List COp) : CSys × CGhost :=
  (cRun (CSys.boot d0 init epoch) ops,
   cGhostRun (CSys.boot d0 init epoch) (CGhost.boot d0 init epoch) ops)

/-- `WellBehaved`: the application stored the boundary whenever the interface told it to (after
`new`, after `advance`/`advance_by` returned a value) before sending the next Check-In, and called
`advance` once per batch. It is computed by the model itself (`CSys.well`, see `cStep`, `.use`). -/
abbrev WellBehaved (d0 : Option Nat) (init epoch : Nat) (ops : List COp) : Prop :=
  (cReach d0 init epoch ops).1.well = true

theorem checkin_invariant (d0 : Option Nat) (init epoch : Nat) (h : CStart d0 init epoch)
    (ops : List COp) (hok : ∀ op ∈ ops, COpOk op) :
    CInv (cReach d0 init epoch ops).1 (cReach d0 init epoch ops).2 :=
  cinv_run ops (cinv_boot d0 init epoch h) hok

theorem checkin_spent_le (d0 : Option Nat) (init epoch : Nat) (ops : List COp) :
    (cReach d0 init epoch ops).2.spent ≤ cCost epoch ops := by
  have := cspent_run ops (CSys.boot d0 init epoch) (CGhost.boot d0 init epoch)
  have h0 : (CGhost.boot d0 init epoch).spent = 0 := by cases d0 <;> rfl
  have h1 : (CSys.boot d0 init epoch).ctr.epoch = epoch := rfl
  rw [h1] at this
  simp only [cReach]; omega

/-- **Check-In counter values are pairwise distinct** for an obedient application, for every history
that consumes less than one cycle of the u32: `cCost epoch ops < 2^32` (1 per `advance`, `delta`
per `advance_by`, one epoch per restart). -/
theorem checkin_values_distinct (d0 : Option Nat) (init epoch : Nat) (h : CStart d0 init epoch)
    (ops : List COp) (hok : ∀ op ∈ ops, COpOk op) (hw : WellBehaved d0 init epoch ops)
    (hb : cCost epoch ops < U32) :
    (cReach d0 init epoch ops).1.used.Nodup :=
  cinv_values_nodup (checkin_invariant d0 init epoch h ops hok) hw
    (Nat.lt_of_le_of_lt (checkin_spent_le d0 init epoch ops) hb)

/-- **A value is used only when a stored boundary covers it**: for an obedient application every
value that reached the wire sits at a position not after the position of the boundary held in
storage (a restart resumes with `boundary + 1`), and such a boundary exists. -/
theorem checkin_used_only_if_covered (d0 : Option Nat) (init epoch : Nat) (h : CStart d0 init epoch)
    (ops : List COp) (hok : ∀ op ∈ ops, COpOk op) (hw : WellBehaved d0 init epoch ops) :
    let s := (cReach d0 init epoch ops).1
    let g := (cReach d0 init epoch ops).2
    s.used = g.upos.map cval ∧
    ∀ p ∈ g.upos, ∃ d, s.durable = some d ∧ d = cval g.dpos ∧ p ≤ g.dpos := by
  intro s g
  have hi : CInv s g := checkin_invariant d0 init epoch h ops hok
  refine ⟨hi.used_eq, fun p hp => ?_⟩
  obtain ⟨_, _, ⟨d, hd⟩, h4⟩ := (hi.wl hw).1 p hp
  exact ⟨d, hd, (hi.dur d hd).1, h4⟩

/-- **A restart resumes strictly past every used value**: after `boot` the counter sits at the
position of the stored boundary, so the next value (`next()` = position + 1) is past every used one. -/
theorem checkin_restart_resumes_past_used (d0 : Option Nat) (init epoch : Nat)
    (h : CStart d0 init epoch) (ops : List COp) (hok : ∀ op ∈ ops, COpOk op) (i : Nat) (hi : i < U32)
    (hw : WellBehaved d0 init epoch ops) :
    let s' := (cReach d0 init epoch (ops ++ [.boot i])).1
    let g' := (cReach d0 init epoch (ops ++ [.boot i])).2
    s'.ctr.next = cval (g'.vpos + 1) ∧ s'.used = g'.upos.map cval ∧ ∀ p ∈ g'.upos, p < g'.vpos + 1 := by
  intro s' g'
  have hok' : ∀ op ∈ ops ++ [COp.boot i], COpOk op := by
    intro op hop
    rcases List.mem_append.mp hop with h1 | h1
    · exact hok op h1
    · simp only [List.mem_singleton] at h1; subst h1; exact hi
  have hinv : CInv s' g' := checkin_invariant d0 init epoch h (ops ++ [.boot i]) hok'
  have hrun : ∀ (ops : List COp) (s : CSys) (o : COp), cRun s (ops ++ [o]) = cStep (cRun s ops) o := by
    intro ops
    induction ops with
    | nil => intro s o; rfl
    | cons a as ih => intro s o; simp only [List.cons_append, cRun]; exact ih _ _
  have hwell : s'.well = true := by
    show (cRun (CSys.boot d0 init epoch) (ops ++ [.boot i])).well = true
    rw [hrun]; exact hw
  have hpk : peek1 s' = 0 := by
    show peek1 (cRun (CSys.boot d0 init epoch) (ops ++ [.boot i])) = 0
    rw [hrun]; rfl
  refine ⟨?_, hinv.used_eq, fun p hp => ?_⟩
  · have hU := U32_eq
    unfold CK.next; rw [hinv.val.1]; simp only [cval, U32_eq]; omega
  · have := ((hinv.wl hwell).1 p hp).2.1
    rw [hpk] at this; omega

/-- **The `value == next_epoch` test cannot be stepped over** (also by `advance_by`, which
re-anchors): the position of the value is always strictly before the position of the in-memory
boundary and within one epoch of it; `advance` hits the equality exactly when the positions meet
(`ck_advance_eq`), `advance_by` re-anchors exactly when the jump reaches it (`ck_advanceBy_eq`). -/
theorem checkin_boundary_reached (d0 : Option Nat) (init epoch : Nat) (h : CStart d0 init epoch)
    (ops : List COp) (hok : ∀ op ∈ ops, COpOk op) :
    let s := (cReach d0 init epoch ops).1
    let g := (cReach d0 init epoch ops).2
    g.vpos < g.npos ∧ g.npos ≤ g.vpos + epoch ∧
    ((s.ctr.advance).2.isSome ↔ g.vpos + 1 = g.npos) ∧
    ∀ delta, ((s.ctr.advanceBy delta).2.isSome ↔ g.vpos + delta ≥ g.npos) := by
  intro s g
  have hinv : CInv s g := checkin_invariant d0 init epoch h ops hok
  obtain ⟨hv, hn, h1, h2⟩ := hinv.val
  have hep : s.ctr.epoch = epoch := by
    have : ∀ (ops : List COp) (s0 : CSys), (cRun s0 ops).ctr.epoch = s0.ctr.epoch := by
      intro ops
      induction ops with
      | nil => intro s0; rfl
      | cons a as ih => intro s0; simp only [cRun]; rw [ih, cstep_epoch]
    exact this ops _
  refine ⟨h1, by omega, ?_, ?_⟩
  · rw [ck_advance_eq hv hn h1 h2 hinv.ep.2]
    by_cases hc : g.vpos + 1 = g.npos
    · rw [if_pos hc]; simp [hc]
    · rw [if_neg hc]; simp [hc]
  · intro delta
    rw [ck_advanceBy_eq delta hv hn h1 h2 hinv.ep.2]
    by_cases hc : g.vpos + delta ≥ g.npos
    · rw [if_pos hc]; simp [hc]
    · rw [if_neg hc]; simp; omega

theorem cCost_append_boot (epoch i : Nat) : ∀ (ops : List COp),
    cCost epoch (ops ++ [.boot i]) = cCost epoch ops + epoch
  | [] => by simp [cCost, cCost1]
  | o :: os => by
    simp only [List.cons_append, cCost]; rw [cCost_append_boot epoch i os]; omega

/-- forward distance of two u32 values whose positions are less than a cycle apart -/
theorem fwd_cval {p q : Nat} (h1 : p ≤ q) (h2 : q < p + U32) : fwd U32 (cval p) (cval q) = q - p := by
  simp only [fwd, cval, U32_eq] at *
  omega

/-- **A value is used only when a stored boundary covers it** — GHOST-FREE, in the cyclic order the
driver's oracle uses (`Counters.cCovers`: forward distance value → stored boundary at most half the
u32 range; a restart resumes with boundary + 1): for an obedient application and a history within
half a cycle (`cCost epoch ops + epoch ≤ 2^31`), every value that reached the wire is covered by
the boundary that is in storage. Histories include failing stores (`advanceStoreFail`,
`persistFail`). -/
theorem checkin_used_covered (d0 : Option Nat) (init epoch : Nat) (h : CStart d0 init epoch)
    (ops : List COp) (hok : ∀ op ∈ ops, COpOk op) (hw : WellBehaved d0 init epoch ops)
    (hb : cCost epoch ops + epoch ≤ U32 / 2) :
    let s := (cReach d0 init epoch ops).1
    ∀ v ∈ s.used, ∃ d, s.durable = some d ∧ cCovers v d = true := by
  intro s v hv
  have hinv : CInv s (cReach d0 init epoch ops).2 := checkin_invariant d0 init epoch h ops hok
  have hsp := checkin_spent_le d0 init epoch ops
  obtain ⟨e1, hcov⟩ := checkin_used_only_if_covered d0 init epoch h ops hok hw
  rw [e1] at hv
  obtain ⟨p, hp, hpv⟩ := List.mem_map.mp hv
  obtain ⟨d, hd, hdv, hle⟩ := hcov p hp
  have hbase := ((hinv.wl hw).1 p hp).1
  obtain ⟨_, hdn, _⟩ := hinv.dur d hd
  obtain ⟨_, _, _, hnv⟩ := hinv.val
  have hwin := hinv.window
  have hep : s.ctr.epoch = epoch := by
    have : ∀ (ops : List COp) (s0 : CSys), (cRun s0 ops).ctr.epoch = s0.ctr.epoch := by
      intro ops
      induction ops with
      | nil => intro s0; rfl
      | cons a as ih => intro s0; simp only [cRun]; rw [ih, cstep_epoch]
    exact this ops _
  have hU := U32_eq
  refine ⟨d, hd, ?_⟩
  unfold cCovers
  rw [hdv, ← hpv, fwd_cval hle (by omega)]
  simp only [decide_eq_true_eq]; omega

/-- … and, within one cycle, the first value the restarted node uses was never on the wire
(ghost-free). -/
theorem checkin_restart_value_fresh (d0 : Option Nat) (init epoch : Nat)
    (h : CStart d0 init epoch) (ops : List COp) (hok : ∀ op ∈ ops, COpOk op) (i : Nat) (hi : i < U32)
    (hw : WellBehaved d0 init epoch ops) (hb : cCost epoch ops + epoch < U32) :
    let s' := (cReach d0 init epoch (ops ++ [.boot i])).1
    s'.ctr.next ∉ s'.used := by
  intro s' hm
  obtain ⟨hn, hu, hlt⟩ := checkin_restart_resumes_past_used d0 init epoch h ops hok i hi hw
  have hok' : ∀ op ∈ ops ++ [COp.boot i], COpOk op := by
    intro op hop
    rcases List.mem_append.mp hop with h1 | h1
    · exact hok op h1
    · simp only [List.mem_singleton] at h1; subst h1; exact hi
  have hinv := checkin_invariant d0 init epoch h (ops ++ [.boot i]) hok'
  have hsp := checkin_spent_le d0 init epoch (ops ++ [.boot i])
  rw [cCost_append_boot] at hsp
  have hrun : ∀ (ops : List COp) (s : CSys) (o : COp), cRun s (ops ++ [o]) = cStep (cRun s ops) o := by
    intro ops
    induction ops with
    | nil => intro s o; rfl
    | cons a as ih => intro s o; simp only [List.cons_append, cRun]; exact ih _ _
  have hwell : s'.well = true := by
    show (cRun (CSys.boot d0 init epoch) (ops ++ [.boot i])).well = true
    rw [hrun]; exact hw
  rw [hn, hu] at hm
  obtain ⟨p, hp, hpv⟩ := List.mem_map.mp hm
  have hb1 := ((hinv.wl hwell).1 p hp).1
  have hwin := hinv.window
  have := hlt p hp
  have : p = (cReach d0 init epoch (ops ++ [.boot i])).2.vpos + 1 :=
    cval_inj (by omega) (by omega) hpv
  omega

/-! ### the crate's own sender: `Icd::send_check_in` obeys the interface, failing stores included -/

/-- One call of (the repaired) `Icd::send_check_in`, as operations of the model: a boundary whose
store failed earlier (`due`) is stored first — if that store fails too (`okRetry = false`) the error
is returned and NOTHING is sent —, then `next()` → send → `advance_counter` (whose store may fail:
`okAdv = false`, which marks the boundary as due). -/
def sendOps (due okRetry okAdv : Bool) : List COp :=
  let adv := if okAdv then COp.advanceStore else COp.advanceStoreFail
  if due then (if okRetry then [.persist, .use, adv] else [.persistFail]) else [.use, adv]

/-- a device that only ever calls `send_check_in`, with arbitrary outcomes of every store -/
def sendRun (s : CSys) : List (Bool × Bool) → CSys
  | [] => s
  | (a, b) :: r => sendRun (cRun s (sendOps s.due a b)) r

/-- the history of operations `sendRun` performs -/
def sendHistory (s : CSys) : List (Bool × Bool) → List COp
  | [] => []
  | (a, b) :: r => sendOps s.due a b ++ sendHistory (cRun s (sendOps s.due a b)) r

theorem cRun_append (s : CSys) (a b : List COp) : cRun s (a ++ b) = cRun (cRun s a) b := by
  induction a generalizing s with
  | nil => rfl
  | cons o os ih => simp only [List.cons_append, cRun]; exact ih _

theorem sendRun_eq (outs : List (Bool × Bool)) : ∀ s, sendRun s outs = cRun s (sendHistory s outs) := by
  induction outs with
  | nil => intro s; rfl
  | cons o os ih =>
    intro s; obtain ⟨a, b⟩ := o
    simp only [sendRun, sendHistory, cRun_append]; exact ih _

/-- what `send_check_in` needs and keeps: the application has obeyed so far, no batch is open, and
every boundary that is not in storage is one the `Icd` knows about -/
def SendOk (s : CSys) : Prop := s.well = true ∧ s.peeked = false ∧ (s.pending = true → s.due = true)

theorem sendOps_keeps (s : CSys) (hs : SendOk s) (a b : Bool) : SendOk (cRun s (sendOps s.due a b)) := by
  obtain ⟨h1, h2, h3⟩ := hs
  have hadv : s.ctr.advance.2.isSome = true ∨ s.ctr.advance.2.isSome = false := by
    cases s.ctr.advance.2.isSome <;> simp
  cases hd : s.due <;> cases hp : s.pending <;> cases a <;> cases b <;>
    simp only [sendOps, cRun, cStep, SendOk, hd, hp, h1, h2, if_true, if_false, Bool.false_eq_true] <;>
    (try (rw [hp, hd] at h3; simp at h3)) <;>
    (try (split <;> simp_all)) <;> simp_all

/-- **`Icd::send_check_in` never sends an uncovered value, whatever its stores do**: from any state
where the application has stored what it was told to (e.g. right after `boot` + a successful
`persist`), a device that only calls `send_check_in` — with EVERY store free to fail, in any
pattern — stays `WellBehaved`; so `checkin_values_distinct`, `checkin_used_covered`,
`checkin_restart_value_fresh` apply to it unconditionally. This is the repaired behaviour (finding
C12-store-failure-checkin); before the repair the batch after a failed store of `advance_counter`
went out with a counter (= AEAD nonce) that no stored boundary covered. -/
theorem send_check_in_obedient (outs : List (Bool × Bool)) : ∀ (s : CSys), SendOk s →
    SendOk (cRun s (sendHistory s outs)) := by
  induction outs with
  | nil => intro s hs; exact hs
  | cons o os ih =>
    intro s hs; obtain ⟨a, b⟩ := o
    simp only [sendHistory, cRun_append]
    exact ih _ (sendOps_keeps s hs a b)

/-- `SendOk` holds after a restart followed by a successful `persist` -/
theorem sendOk_after_boot_persist (s : CSys) (i : Nat) (hw : s.well = true) :
    SendOk (cRun s [.boot i, .persist]) := by
  simp [SendOk, cRun, cStep, hw]

example : CStart (some 4294967290) 7 10 := ⟨fun d hd => by
  simp only [Option.some.injEq] at hd; subst hd; decide, by decide, by decide, by decide⟩
/-- an obedient history across the wrap of the u32: restart, store, send, advance … -/
example : WellBehaved (some 4294967290) 0 4
    [.persist, .use, .advanceStore, .use, .advanceStore, .boot 0, .persist, .use, .advance] := by decide
example : (cReach (some 4294967290) 0 4
    [.persist, .use, .advanceStore, .use, .advanceStore, .boot 0, .persist, .use, .advance]).1.used
    = [4294967295, 4294967292, 4294967291] := by decide
/-- REGRESSION for finding C12-store-failure-checkin (`corpus/C12/failed-store.txt`, case C, is the
same history on the real code): the store of `advance_counter` fails at the boundary 103; the next
`send_check_in` stores the due boundary 106 before it sends 104; a power loss resumes at 107. -/
example :
    let s := sendRun (cRun (CSys.boot (some 100) 0 3) [.persist]) [(true, true), (true, true), (true, false),
      (true, true), (true, true)]
    s.used = [105, 104, 103, 102, 101] ∧ s.durable = some 106 ∧ s.well = true ∧
    (cStep s (.boot 0)).ctr.next = 107 := by decide
/-- … and while the store keeps failing nothing is sent at all -/
example :
    let s := sendRun (cRun (CSys.boot (some 100) 0 3) [.persist]) [(true, true), (true, true), (true, false),
      (false, true), (false, false)]
    s.used = [103, 102, 101] ∧ s.durable = some 103 ∧ s.due = true := by decide
/-- What the code did BEFORE the repair, as a history of the model: after the failed store the next
batch is sent without storing first — the application protocol is broken (`well = false`), 104 is
on the wire with 103 in storage, and a restart sends 104 again. -/
example : (cRun (CSys.boot (some 100) 0 3)
      [.persist, .use, .advanceStore, .use, .advanceStore, .use, .advanceStoreFail, .use, .advanceStore,
       .boot 0, .persist, .use]).used = [104, 104, 103, 102, 101] ∧
    ¬ WellBehaved (some 100) 0 3
      [.persist, .use, .advanceStore, .use, .advanceStore, .use, .advanceStoreFail, .use] := by decide
example : SendOk (cRun (CSys.boot (some 100) 0 3) [.persist]) := by unfold SendOk; decide
example : cCost 4 [.persist, .use, .advanceStore, .use, .advanceStoreFail, .persist, .boot 0] + 4 ≤ U32 / 2 := by
  decide
/-- the hypothesis is needed: sending before storing after a restart repeats a value -/
example : (cRun (CSys.boot (some 100) 0 10) [.use, .boot 0, .use]).used = [101, 101] ∧
    ¬ WellBehaved (some 100) 0 10 [.use, .boot 0, .use] := by decide

end C12
