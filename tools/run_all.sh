#!/bin/bash
# tools/run_all.sh [tier]: run every claimed check on /repo, print one summary line each
cd /verif
for f in props/C*.json; do p=$(basename $f .json); flock /tmp/cargo-slot-5 ./check $p --tier ${1:-quick} 2>&1 | grep -E "^C[0-9]+ tier|^VIOLATION|^KNOWN-FINDING" | cut -c1-170; done
