import Driver.TransportCommon
import RsMatterVerif.Model.Rendezvous
/-! Driver for C20 (unit level): model correspondence + the property's specification on the
implementation's own outputs:
* a session slot is `reserved` only while a live `ReservedSession` owns it; dropping the handle
  without `complete` frees the slot, `complete` turns it into an ordinary session;
* the table refuses a new session exactly when it is full (the transport then answers busy or evicts);
* eviction picks only a session that is not reserved and carries no exchange; when every session's
  last use lies strictly in the past it finds one whenever such a session exists;
* ending a handshake (dropping its `ReservedSession`, completed or not) or an exchange never panics,
  whatever happened to the session meanwhile;
* at quiescence (every handle dropped, closer ran until it found nothing) no session is reserved and
  no exchange slot is occupied by an owned or dropped exchange. -/
namespace Driver.C20
open Driver.TC

structure OSt where
  prev : ISnap := {}
  /-- handle → session uid of live `ReservedSession`s -/
  rsv : List (Nat × Nat) := []
  /-- handles whose handshake called `complete()` and still waits for its last acknowledgement -/
  cpl : List Nat := []
  /-- live `Exchange` handles -/
  exh : List Nat := []
  /-- the previous op was a positive time step -/
  afterTick : Bool := false
  /-- the previous op was the closer answering `none` -/
  closerIdle : Bool := false


/-! ### system-level oracle (`sys` cases: a real device, real initiators, virtual time)
Written from the property text; looks only at what the harness read from the REAL tables at
quiescence and at the outcome of the probe handshakes. -/

def kvOf (ws : List String) (k : String) : String :=
  match ws.find? (·.startsWith (k ++ "=")) with
  | some w => (w.drop (k.length + 1)).toString
  | none => ""

def kvNat (ws : List String) (k : String) : Nat := (kvOf ws k).toNat?.getD 0

structure SysSt where
  /-- sessions in use put into the table (`pin`) -/
  pinned : Nat := 0
  /-- the script contained traffic before the current `quiesce` -/
  traffic : Bool := false
  /-- index and text of ops whose task had not ended when the harness stopped -/
  pending : List String := []
  /-- the last `quiesce` ran long enough for every time-out to fire -/
  settled : Bool := false
  /-- case flag `mdnsr=1`: a responder task picks every request up (-> in flight) and never answers -/
  mdnsr : Bool := false
  /-- the `rdv` ops seen so far: (op index, browse?, at, cancel, the implementation's result) -/
  rdv : List (Nat × Bool × Nat × Option Nat × String) := []
  /-- number of op lines seen / virtual time spent in `quiesce` ops so far -/
  nOps : Nat := 0
  qTime : Nat := 0
  /-- an `rdv` op was listed after a `quiesce`: the replay below does not apply -/
  rdvLate : Bool := false
deriving Inhabited

/-! ### Tie of `Model/Rendezvous.lean` to the real rendezvous slots
The script of a `sys` case fixes when each waiter enters `resolve` / `browse_commissionable`
(`at=`), when its caller drops it (`cancel=`), and whether a responder picks requests up (`mdnsr`).
The replay feeds exactly these events, in time order, to the MODEL (`Rendezvous.step`): `arrive`,
`place` (offered to every queued waiter, in task order, whenever something changed - the model
refuses it unless the slot is idle), `pickup`, `cancel`, and `timeout` of the placed waiter
`timeout` ms after the model says it placed its request. Then the model's slot state at the instant
of a `quiesce` is compared with what the harness read from the real node (`rdv=`), and the model's
verdict on each finished waiter (`cancelled` / `err:NotFound`) with the real result. Events closer
than `margin` to each other or to the instant of the reading are not compared (the executor
advances the virtual clock in steps of up to 25 ms). -/

structure RdvW where
  id : Nat
  start : Nat
  cancel : Option Nat
  res : String

structure RdvSim where
  st : Rendezvous.St := {}
  /-- waiter id -> instant at which the model placed its request -/
  placedAt : List (Nat × Nat) := []
  /-- waiter id -> (instant, predicted result) -/
  done : List (Nat × Nat × String) := []
  ambiguous : Bool := false

/-- the harness passes 3000 ms to `browse_commissionable`; `resolve` uses `RESOLVE_TIMEOUT_MS` -/
def rdvTimeout (browse : Bool) : Nat := if browse then 3000 else Consts.mdnsResolveTimeoutMs

/-- offer `place` to every queued waiter in task (= op) order; then the responder's pick-up -/
def rdvSettle (sim : RdvSim) (order : List Nat) (mdnsr : Bool) (now : Nat) : RdvSim :=
  let sim := order.foldl (fun (sim : RdvSim) w =>
    if sim.st.queued.contains w then
      let st' := Rendezvous.step sim.st (.place w)
      if st'.placed.contains w then { sim with st := st', placedAt := (w, now) :: sim.placedAt } else { sim with st := st' }
    else sim) sim
  if mdnsr then { sim with st := Rendezvous.step sim.st .pickup } else sim

/-- the next event after `last`: (time, kind 0 = arrive / 1 = cancel / 2 = timeout, waiter) -/
def rdvNext (ws : List RdvW) (sim : RdvSim) (timeout : Nat) (arrived : List Nat) : Option (Nat × Nat × Nat) :=
  let live (w : Nat) : Bool := sim.st.queued.contains w || sim.st.placed.contains w
  let cands : List (Nat × Nat × Nat) :=
    (ws.filter (fun w => !arrived.contains w.id)).map (fun w => (w.start, 0, w.id)) ++
    (ws.filter (fun w => arrived.contains w.id && live w.id)).filterMap (fun w => w.cancel.map (fun c => (w.start + c, 1, w.id))) ++
    sim.placedAt.filterMap (fun (w, t) => if sim.st.placed.contains w then some (t + timeout, 2, w) else none)
  cands.foldl (fun best c => match best with
    | none => some c
    | some b => if c.1 < b.1 || (c.1 == b.1 && c.2.1 < b.2.1) then some c else some b) none

def rdvLoop (ws : List RdvW) (timeout : Nat) (mdnsr : Bool) (q margin : Nat) :
    Nat → RdvSim → List Nat → Nat → RdvSim
  | 0, sim, _, _ => { sim with ambiguous := true }
  | fuel + 1, sim, arrived, last =>
    match rdvNext ws sim timeout arrived with
    | none => sim
    | some (t, kind, w) =>
      if t > q + margin then sim
      else
        let amb := sim.ambiguous || (t + margin > q) || (last != 0 && t < last + margin && t != last) ||
          (kind != 0 && t < last + margin)
        if t > q then { sim with ambiguous := true } else
        let order := ws.map (·.id)
        match kind with
        | 0 =>
          let sim := { sim with st := Rendezvous.step sim.st (.arrive w), ambiguous := amb }
          rdvLoop ws timeout mdnsr q margin fuel (rdvSettle sim order mdnsr t) (w :: arrived) t
        | 1 =>
          let sim := { sim with st := Rendezvous.step sim.st (.cancel w), done := (w, t, "cancelled") :: sim.done, ambiguous := amb }
          rdvLoop ws timeout mdnsr q margin fuel (rdvSettle sim order mdnsr t) arrived t
        | _ =>
          let sim := { sim with st := Rendezvous.step sim.st (.timeout w), done := (w, t, "err:NotFound") :: sim.done, ambiguous := amb }
          rdvLoop ws timeout mdnsr q margin fuel (rdvSettle sim order mdnsr t) arrived t

/-- replay one slot kind up to the instant `q`; `none` = nothing comparable, `some (letter, mismatches)` -/
def rdvReplay (all : List (Nat × Bool × Nat × Option Nat × String)) (browse mdnsr : Bool) (q : Nat) :
    Option (String × List String) :=
  let ws : List RdvW := (all.filter (fun r => r.2.1 == browse)).reverse.map (fun r => { id := r.1, start := r.2.2.1, cancel := r.2.2.2.1, res := r.2.2.2.2 })
  let margin := 60 * (ws.length + 1)
  let sim := rdvLoop ws (rdvTimeout browse) mdnsr q margin (4 * ws.length + 4) {} [] 0
  if sim.ambiguous then none else
  let letter := if sim.st.slot == .idle then "i" else "B"
  let bad := ws.filterMap (fun w =>
    match sim.done.find? (·.1 == w.id) with
    | some (_, _, r) => if (words w.res).headD "" == r then none else some s!"waiter {w.id}: model {r}, implementation {w.res}"
    | none => none)
  some (letter, bad)

/-- the model's reading of both slots against the implementation's (`rdv=<resolve><browse>`) -/
def rdvTie (s : SysSt) (rw : List String) (q : Nat) : Option String :=
  if s.rdvLate then none else
  let impl : List String := (kvOf rw "rdv").toList.map (fun c => c.toString)
  let one (browse : Bool) (got : String) (what : String) : Option String :=
    match rdvReplay s.rdv browse s.mdnsr q with
    | none => none
    | some (letter, bad) =>
      if letter != got then some s!"{what} slot: model {letter}, implementation {got}"
      else bad.head?
  match one false (impl.getD 0 "?") "resolve" with
  | some d => some d
  | none => one true (impl.getD 1 "?") "browse"

/-- every time-out of the device has fired after this much silence: receive time-out of a handler
(≈ 40 s with the default retry ladders), PASE in-progress marker 60 s, accept deadline 1 s -/
def settleMs : Nat := 120000

def sysQuiesce (s : SysSt) (rw : List String) : Option String :=
  let z (k : String) (what : String) : Option String :=
    if kvNat rw k != 0 then some s!"quiescent, but {what} ({k}={kvOf rw k})" else none
  let pin := kvOf rw "pinned"
  let first (l : List (Option String)) : Option String := l.findSome? id
  first [
    (match s.pending with
      | p :: _ => some s!"quiescent, but a task never ended (hang): '{p}'"
      | [] => none),
    z "resv" "a session slot is still reserved by a handshake that is over",
    z "xo" "an exchange slot outside the sessions in use is still owned",
    z "xd" "a dropped exchange was never closed",
    z "xp" "an exchange nobody accepted is still pending",
    z "px" "a session in use carries an exchange slot nobody owns",
    (match pin.splitOn "/" with
      | [a, b] => if a != b then some s!"a session that carries a live exchange was evicted or removed (in use: {b}, left: {a})" else none
      | _ => some "BAD pinned"),
    (if (kvOf rw "marker").endsWith "L" then some "quiescent, but the PASE in-progress marker still blocks new initiators" else none),
    z "rx" "the receive slot is still occupied",
    z "tx" "the transmit slot is still occupied",
    (if kvOf rw "rdv" != "ii" then some s!"an mDNS rendezvous slot was not released after its waiter timed out or was cancelled (rdv={kvOf rw "rdv"})" else none),
    (if kvOf rw "c1" != "0:0" || kvOf rw "c2" != "0:0" then
       some s!"an initiator node still holds a reserved session or an exchange slot (c1={kvOf rw "c1"} c2={kvOf rw "c2"})" else none),
    (if kvNat rw "sess" > Consts.maxSessions then some "more sessions than the table holds" else none)
  ]

def sysProbe (s : SysSt) (w rw : List String) : Option String :=
  let att := (kvOf rw "att").splitOn "," |>.filter (· != "")
  let okk := (rw.headD "").startsWith "ok@"
  let pin := kvOf rw "pinned"
  let pinBad : Option String := match pin.splitOn "/" with
    | [a, b] => if a != b then some s!"a session that carries a live exchange was evicted to make room (in use: {b}, left: {a})" else none
    | _ => some "BAD pinned"
  -- an attempt ends in success or is answered busy; anything else leaves the initiator without an answer
  let badAtt := att.find? (fun a => a != "ok" && a != "busy")
  let pase := w.getD 1 "" = "pase"
  if pase && kvNat rw "win" = 0 then pinBad else
  match pinBad with
  | some v => some v
  | none =>
    match badAtt with
    | some a => some s!"table full: a legitimate handshake attempt was neither completed nor answered busy ({a})"
    | none =>
      if s.pinned ≥ Consts.maxSessions then
        (if okk then some "a handshake succeeded although every session slot is in use" else none)
      else if !okk then
        some s!"{Consts.maxSessions - s.pinned} session slot(s) are idle or free, yet a legitimate handshake did not succeed ({kvOf rw "att"})"
      else if kvNat rw "new" = 0 then some "the handshake reported success but the device has no new session"
      else none

def sysStep (s : SysSt) (w : List String) (res : String) : SysSt × String :=
  let s := { s with nOps := s.nOps + 1 }
  let rw := words res
  let head := w.getD 0 ""
  let v (s : SysSt) (o : Option String) : SysSt × String :=
    match o with
    | some why => (s, s!"ORA {why}")
    | none => (s, "ok")
  if res = "panic" then (s, "ORA the device (or a controller) panicked") else
  match head with
  | "pin" => v { s with pinned := s.pinned + (rw.getD 1 "0").toNat?.getD 0 } none
  | "idl" => v s none
  | "rdv" =>
    let cancel := (kvOf w "cancel").toNat?
    let late : Bool := s.rdvLate || (s.qTime != 0)
    let entry : Nat × Bool × Nat × Option Nat × String := (s.nOps, w.getD 1 "" == "browse", kvNat w "at", cancel, res)
    let s := { s with traffic := true, rdvLate := late, rdv := entry :: s.rdv }
    if (rw.headD "") = "pending" then v { s with pending := (" ".intercalate w) :: s.pending } none else v s none
  | "ini" | "junk" =>
    let s := { s with traffic := true }
    if (rw.headD "") = "pending" then v { s with pending := (" ".intercalate w) :: s.pending } none else v s none
  | "race" =>
    let s := { s with traffic := true }
    if (rw.headD "") = "pending" then v { s with pending := (" ".intercalate w) :: s.pending } none
    else if (rw.headD "") != "ok" then v s none
    else if kvNat rw "held" < 2 then v s none
    else if kvNat rw "snf" != 0 then
      v s (some "the device answered the first message on a session it had just confirmed with SessionNotFound (session still reserved while the handshake waits for its last acknowledgement)")
    else if kvOf rw "first" != "acked" then v s (some "the first message on the new session was never acknowledged")
    else v s none
  | "quiesce" =>
    let ms := (w.getD 1 "0").toNat?.getD 0
    let settled := ms ≥ settleMs || !s.traffic
    let q := s.qTime + ms
    let s' := { s with settled := settled, traffic := s.traffic && !settled,
                       pending := if settled then [] else s.pending, qTime := q }
    match (if settled then sysQuiesce s rw else none) with
    | some why => v s' (some why)
    | none =>
      match rdvTie s rw q with
      | some d => (s', s!"DIS rendezvous {d}")
      | none => v s' none
  | "probe" => if s.settled then v s (sysProbe s w rw) else v s none
  | _ => (s, "BAD sys op")

structure St where
  m : MSt := {}
  o : OSt := {}
  sys : Option SysSt := none

def idle (s : ISess) : Bool := !s.reserved && s.live.isEmpty

def oracle (o : OSt) (w : List String) (res : String) (snap : ISnap) : OSt × Option String :=
  let n (i : Nat) : Nat := ((w.getD i "").toNat?).getD 0
  let rw := words res
  let op := w.getD 0 ""
  let full := o.prev.sessions.length ≥ Consts.maxSessions
  let (o1, v) : OSt × Option String :=
    match op with
    | "add" =>
      (o, if full then (if res = "err NoSpaceSessions" then none else some s!"table full but add answered '{res}'")
          else (if rw.head? = some "id" then none else some s!"table not full but add answered '{res}'"))
    | "rsv" =>
      match hnum (w.getD 1 ""), rw with
      | some h, "id" :: u :: _ =>
        ({ o with rsv := (h, u.toNat?.getD 0) :: o.rsv },
          if full then some "table full but a slot was reserved"
          else if (snap.sess (u.toNat?.getD 0)).any (·.reserved) then none else some "reserved session not marked reserved")
      | _, _ =>
        (o, if res = "dup-handle" || res = "bad" then none
            else if full then (if res = "err NoSpaceSessions" then none else some s!"table full but reserve answered '{res}'")
            else some s!"table not full but reserve answered '{res}'")
    | "cpl" =>
      match hnum (w.getD 1 "") with
      | some h =>
        match o.rsv.find? (·.1 == h) with
        | some (_, uid) =>
          ({ o with cpl := h :: o.cpl },
            if (snap.sess uid).any (·.reserved) then
              some s!"session {uid} is still reserved after its handshake completed it: the peer's first message would not find it"
            else none)
        | none => (o, none)
      | none => (o, none)
    | "cmp" | "drp" =>
      if res = "panic" then
        (o, some s!"dropping the handshake's session handle panicked ({op}): the node goes down")
      else
      match hnum (w.getD 1 "") with
      | some h =>
        match o.rsv.find? (·.1 == h) with
        | some (_, uid) =>
          let o' := { o with rsv := o.rsv.filter (·.1 != h), cpl := o.cpl.filter (· != h) }
          if (o.prev.sess uid).isNone then (o', none)   -- the session was removed under the handle (eviction / rm)
          else if op = "drp" && !o.cpl.contains h then
            (o', if (snap.sess uid).isSome then some s!"abandoned handshake: reserved session {uid} not released" else none)
          else
            (o', match snap.sess uid with
              | some s => if s.reserved then some s!"completed session {uid} still reserved" else none
              | none => some s!"completed session {uid} disappeared")
        | none => (o, none)
      | none => (o, none)
    | "init" =>
      match hnum (w.getD 2 ""), rw.head? with
      | some h, some "x" => ({ o with exh := h :: o.exh }, none)
      | _, _ => (o, none)
    | "acc" =>
      match hnum (w.getD 3 "") with
      | some h => (if res = "ok" then { o with exh := h :: o.exh } else o, none)
      | none => (o, none)
    | "xdrop" =>
      match hnum (w.getD 1 "") with
      | some h => ({ o with exh := o.exh.filter (· != h) },
          if res = "panic" then some "dropping an exchange handle panicked: the node goes down" else none)
      | none => (o, none)
    | "evict" | "evictrm" =>
      match rw with
      | ["id", u] =>
        match o.prev.sess (u.toNat?.getD 0) with
        | some s =>
          (o, if s.reserved then some s!"eviction chose reserved session {s.uid}"
              else if !s.live.isEmpty then some s!"eviction chose session {s.uid} which carries a live exchange"
              else if op = "evictrm" && (snap.sess s.uid).isSome then some "evicted session still in the table"
              else none)
        | none => (o, some "eviction chose a session that does not exist")
      | _ =>
        (o, if o.afterTick && o.prev.sessions.any idle then some "an idle unreserved session exists but eviction found none" else none)
    | "qchk" =>
      if o.rsv.isEmpty && o.exh.isEmpty && o.closerIdle then
        let leakedR := snap.sessions.find? (·.reserved)
        let leakedX := snap.sessions.find? (fun s => s.live.any (fun e => e.role != "RP"))
        (o, match leakedR, leakedX with
          | some s, _ => some s!"quiescent but session {s.uid} is still reserved"
          | _, some s => some s!"quiescent but session {s.uid} still holds an exchange slot"
          | _, _ => none)
      else (o, none)
    | _ => (o, none)
  -- on every snapshot: reserved ⇒ a live ReservedSession owns it
  let orphanR := snap.sessions.find? (fun s => s.reserved && !o1.rsv.any (·.2 == s.uid))
  let v := match v with
    | some x => some x
    | none => orphanR.map (fun s => s!"session {s.uid} is reserved but no ReservedSession owns it")
  ({ o1 with prev := snap, afterTick := op = "t" && n 1 > 0, closerIdle := op = "swd" && res = "none" }, v)

def step (st : St) (line : String) : St × String :=
  let (op, out) := splitArrow line
  match words op with
  | "case" :: _ :: kind =>
    ({ m := newCase kind, sys := if kind.head? = some "sys" then some ({ mdnsr := kind.contains "mdnsr=1" } : SysSt) else none }, "case")
  | w =>
    match st.sys with
    | some ss => let (ss', o) := sysStep ss w out; ({ st with sys := some ss' }, o)
    | none =>
    let (res, snapS) := splitHash out
    let (m', dis) := modelStep st.m op out
    let (o', ora) := if st.m.isMrp then (st.o, none) else oracle st.o w res (parseSnap snapS)
    let st' : St := { m := m', o := o' }
    match ora with
    | some why => (st', s!"ORA {why}")
    | none =>
      match dis with
      | some mo => (st', s!"DIS {mo}")
      | none => (st', "ok")

def run : IO UInt32 := Driver.runLoop ({} : St) step

end Driver.C20
