//! C17, second batch of modelled codecs (QR payload, BTP, check-in, BDX).
use crate::proto::Out;
use crate::rng::Rng;

pub fn run_op(_kind: &str, _op: &str) -> Option<String> {
    None
}

pub fn gen(_r: &mut Rng, _out: &mut Out, _thorough: bool, _id: &mut u64) {}
