//! C01: CASE admits only holders of a valid NOC of the addressed fabric.
//!
//! Two REAL `Matter` nodes (controller = CASE initiator via `CaseInitiator::perform`, device =
//! `SecureChannel` responder) run in-process over the simulated network (`simnet`) on virtual time.
//! Fabrics are installed with `Fabrics::add` from certificates minted out of the same symbolic
//! records the Lean model consumes (`c19::Rec`), so a node can be given a chain that is invalid in
//! one respect. One operation = one handshake:
//!
//!   `hs root=<rec> cnoc=<rec> cicac=<rec|-> dnoc=<rec> dicac=<rec|-> [droot=<rec>] [mut=<M>] [sched=<S>]`
//!       fresh nodes, fabric id = the one of `dnoc`; `droot` = root installed on the device if it
//!       differs from the controller's (`root`); `ckey=<k>` / `dkey=<k>`: the node signs with pool key
//!       `k` instead of the key its NOC certifies.
//!   `again [mut=<M>] [sched=<S>]`   another handshake between the same two nodes (resumption
//!       is offered when the previous one seeded the caches)
//!
//! `mut=<msg>:<kind>:<a>[:<b>]` rewrites the FIRST datagram carrying that handshake message
//! (`s1 s2 s3 r2` = Sigma2_Resume, `st` = status report):
//!   `f:<tag>:<bit>` flip one bit inside top-level TLV field `<tag>` of the payload,
//!   `p:<bit>` flip one bit anywhere in the payload, `h:<bit>` one bit in the message headers,
//!   `t:<n>` truncate the payload to `n mod len` bytes,
//!   `r` replace the payload by the payload of the same message type of the previous handshake,
//!   `x:<tag>` substitute field `<tag>` by its value in the previous handshake.
//! `sched=` verdict per datagram in send order: `d` deliver, `x` drop, `u` duplicate, `l<ms>` delay.
//!
//! Output: `t=<l|r><secs> ctl=<S> dev=<S> keys=<agree|differ|na> init=<ok|err>` with
//! `S = none | sess(fab=<idx>,peer=<node>,cats=<a.b|->,local=<node>)` — the CASE sessions that
//! became live (unreserved) during this operation, read from the session tables through the hook.
use std::cell::RefCell;
use std::rc::Rc;

use embassy_futures::select::{select, select3, Either, Either3};
use embassy_time::{Duration, Timer};

use rs_matter::crypto::{test_only_crypto, CanonAeadKeyRef, CanonPkcSecretKeyRef, Crypto};
use rs_matter::dm::devices::test::{TEST_DEV_ATT, TEST_DEV_COMM, TEST_DEV_DET};
use rs_matter::error::Error;
use rs_matter::respond::Responder;
use rs_matter::sc::case::CaseInitiator;
use rs_matter::sc::{OpCode, SecureChannel, PROTO_ID_SECURE_CHANNEL};
use rs_matter::tlv::TLVElement;
use rs_matter::transport::exchange::Exchange;
use rs_matter::transport::network::NoNetwork;
use rs_matter::transport::packet::PacketHdr;
use rs_matter::transport::session::SessionMode;
use rs_matter::utils::storage::ParseBuf;
use rs_matter::Matter;

use crate::c19::{gen_records, kv, mint, Attr, GenP, Keys, Rec, IPK};
use crate::proto::{parse_cases, Case, Out};
use crate::rng::Rng;
use crate::simnet::{addr_of, run_sim, Scripted, SimEnd, SimNet, Verdict};
use crate::Args;

#[derive(Clone, Debug, PartialEq)]
struct Sess {
    fab: u8,
    peer: u64,
    cats: Vec<u32>,
    local: u64,
    dec: [u8; 16],
    enc: [u8; 16],
    lsid: u16,
}

fn sessions(m: &Matter) -> Vec<Sess> {
    m.with_state(|st| {
        st.verif_sessions()
            .iter()
            .filter_map(|s| {
                let (reserved, local, dec, enc) = s.verif_view();
                match s.get_session_mode() {
                    SessionMode::Case { fab_idx, cat_ids } if !reserved => Some(Sess {
                        fab: fab_idx.get(),
                        peer: s.get_peer_node_id().unwrap_or(0),
                        cats: cat_ids.iter().copied().filter(|c| *c != 0).collect(),
                        local,
                        dec,
                        enc,
                        lsid: s.get_local_sess_id(),
                    }),
                    _ => None,
                }
            })
            .collect()
    })
}

fn fmt_sess(v: &[Sess]) -> String {
    if v.is_empty() {
        return "none".into();
    }
    v.iter()
        .map(|s| {
            let cats = if s.cats.is_empty() { "-".to_string() } else { s.cats.iter().map(|c| c.to_string()).collect::<Vec<_>>().join(".") };
            format!("sess(fab={},peer={},cats={},local={})", s.fab, s.peer, cats, s.local)
        })
        .collect::<Vec<_>>()
        .join("+")
}

/// which handshake message a datagram carries, and where its payload starts
fn classify(data: &[u8]) -> Option<(&'static str, usize)> {
    let mut copy = data.to_vec();
    let total = copy.len();
    let mut pb = ParseBuf::new(copy.as_mut_slice());
    let mut hdr = PacketHdr::new();
    if hdr.decode_plain_hdr(&mut pb).is_err() {
        return None;
    }
    if hdr.plain.sess_id != 0 {
        return None;
    }
    if hdr.decode_remaining(test_only_crypto(), None, 0, &mut pb).is_err() {
        return None;
    }
    if hdr.proto.proto_id != PROTO_ID_SECURE_CHANNEL {
        return None;
    }
    let off = total - pb.as_slice().len();
    let op = hdr.proto.proto_opcode;
    let name = if op == OpCode::CASESigma1 as u8 {
        "s1"
    } else if op == OpCode::CASESigma2 as u8 {
        "s2"
    } else if op == OpCode::CASESigma3 as u8 {
        "s3"
    } else if op == OpCode::CASESigma2Resume as u8 {
        "r2"
    } else if op == OpCode::StatusReport as u8 {
        "st"
    } else {
        return None;
    };
    Some((name, off))
}

/// byte range of the value of top-level context-tagged field `tag` inside a TLV struct payload
fn field_range(payload: &[u8], tag: u8) -> Option<(usize, usize)> {
    let el = TLVElement::new(payload);
    let f = el.structure().ok()?.find_ctx(tag).ok()?;
    let v = f.raw_value().ok()?;
    let start = (v.as_ptr() as usize).checked_sub(payload.as_ptr() as usize)?;
    if v.is_empty() || start + v.len() > payload.len() {
        return None;
    }
    Some((start, v.len()))
}

#[derive(Clone, Debug)]
struct Mutation {
    msg: String,
    kind: String,
    a: u64,
    b: u64,
}

fn parse_mut(s: &str) -> Option<Mutation> {
    let p: Vec<&str> = s.split(':').collect();
    if p.len() < 2 {
        return None;
    }
    Some(Mutation {
        msg: p[0].to_string(),
        kind: p[1].to_string(),
        a: p.get(2).and_then(|x| x.parse().ok()).unwrap_or(0),
        b: p.get(3).and_then(|x| x.parse().ok()).unwrap_or(0),
    })
}

fn parse_sched(s: &str) -> Vec<Verdict> {
    s.split('.')
        .filter(|x| !x.is_empty())
        .map(|x| match x.as_bytes()[0] {
            b'x' => Verdict::Drop,
            b'u' => Verdict::Dup,
            b'l' => Verdict::Delay(x[1..].parse().unwrap_or(50)),
            _ => Verdict::Deliver,
        })
        .collect()
}

/// payloads of the handshake messages of the previous handshake (for replay / substitution)
type Prev = Rc<RefCell<std::collections::HashMap<String, Vec<u8>>>>;

fn apply(m: &Mutation, data: &[u8], off: usize, prev: &std::collections::HashMap<String, Vec<u8>>) -> Option<Vec<u8>> {
    let mut out = data.to_vec();
    let plen = data.len() - off;
    match m.kind.as_str() {
        "f" => {
            let (s, l) = field_range(&data[off..], m.a as u8)?;
            let bit = (m.b as usize) % (l * 8);
            out[off + s + bit / 8] ^= 1 << (bit % 8);
        }
        "p" => {
            if plen == 0 {
                return None;
            }
            let bit = (m.a as usize) % (plen * 8);
            out[off + bit / 8] ^= 1 << (bit % 8);
        }
        "h" => {
            if off == 0 {
                return None;
            }
            let bit = (m.a as usize) % (off * 8);
            out[bit / 8] ^= 1 << (bit % 8);
        }
        "t" => {
            if plen == 0 {
                return None;
            }
            out.truncate(off + (m.a as usize) % plen);
        }
        "r" => {
            let old = prev.get(&m.msg)?;
            out.truncate(off);
            out.extend_from_slice(old);
        }
        "x" => {
            let old = prev.get(&m.msg)?;
            let (s, l) = field_range(&data[off..], m.a as u8)?;
            let (os, ol) = field_range(old, m.a as u8)?;
            if l != ol {
                return None;
            }
            out[off + s..off + s + l].copy_from_slice(&old[os..os + ol]);
        }
        _ => return None,
    }
    if out == data {
        None
    } else {
        Some(out)
    }
}

struct Nodes {
    ctl: Matter<'static>,
    dev: Matter<'static>,
    ctl_fab: core::num::NonZeroU8,
    dev_node: u64,
    prev: Prev,
}

fn node_id(r: &Rec) -> Option<u64> {
    r.s.iter().find_map(|a| if let Attr::Node(v) = a { Some(*v) } else { None })
}

fn install<C: Crypto>(crypto: &C, keys: &Keys, m: &Matter, root: &Rec, noc: &Rec, icac: Option<&Rec>, op_key: Option<u64>) -> Result<core::num::NonZeroU8, String> {
    let rb = mint(crypto, keys, root).map_err(|_| "mint")?;
    let nb = mint(crypto, keys, noc).map_err(|_| "mint")?;
    let ib = match icac {
        Some(i) => mint(crypto, keys, i).map_err(|_| "mint")?,
        None => vec![],
    };
    // the node's operational secret key: the NOC's own unless the case says otherwise
    let sk = keys.key(op_key.unwrap_or(noc.pk)).sk;
    m.with_state(|st| {
        st.fabrics
            .add(crypto, CanonPkcSecretKeyRef::new(&sk), &rb, &nb, &ib, Some(CanonAeadKeyRef::new(&IPK)), 0xFFF1, 112233)
            .map(|f| f.fab_idx())
            .map_err(|e| format!("fabric:{:?}", e.code()))
    })
}

fn handshake(n: &Nodes, mutation: Option<Mutation>, sched: Vec<Verdict>) -> String {
    let crypto = test_only_crypto();
    // guard: a datagram storm (two nodes answering each other without end) must not take the
    // harness down; after `CAP` datagrams everything is dropped and the outcome says `storm`
    const CAP: u64 = 1500;
    struct Capped(Scripted);
    impl crate::simnet::Policy for Capped {
        fn decide(&mut self, f: usize, t: usize, b: &[u8], seq: u64) -> Verdict {
            if seq >= CAP {
                Verdict::Drop
            } else {
                self.0.decide(f, t, b, seq)
            }
        }
    }
    let net = SimNet::new(2, Box::new(Capped(Scripted(sched))));
    let seen: Rc<RefCell<std::collections::HashMap<String, Vec<u8>>>> = Rc::new(RefCell::new(Default::default()));
    {
        let seen = seen.clone();
        let prev = n.prev.clone();
        let mut done = false;
        net.set_tamper(Box::new(move |_seq, _from, _to, data| {
            let (name, off) = classify(data)?;
            seen.borrow_mut().entry(name.to_string()).or_insert_with(|| data[off..].to_vec());
            let m = mutation.as_ref()?;
            if done || m.msg != name {
                return None;
            }
            done = true;
            apply(m, data, off, &prev.borrow())
        }));
    }
    let before_c: Vec<u16> = sessions(&n.ctl).iter().map(|s| s.lsid).collect();
    let before_d: Vec<u16> = sessions(&n.dev).iter().map(|s| s.lsid).collect();
    let ds = net.socket(0);
    let cs = net.socket(1);
    let sc = SecureChannel::new(&crypto, &());
    let responder = Responder::new("device", sc, &n.dev, 0);
    let flow = async {
        let r: Result<(), Error> = async {
            let exchange = Exchange::initiate_plaintext(&n.ctl, &crypto, addr_of(0)).await?;
            match select(
                core::pin::pin!(CaseInitiator::perform(exchange, &crypto, n.ctl_fab, n.dev_node)),
                core::pin::pin!(Timer::after(Duration::from_secs(40))),
            )
            .await
            {
                Either::First(r) => r,
                Either::Second(_) => Err(rs_matter::error::ErrorCode::RxTimeout.into()),
            }
        }
        .await;
        // let the responder finish its side (final acknowledgements, retransmissions)
        Timer::after(Duration::from_secs(12)).await;
        r
    };
    let all = async {
        match select3(n.dev.run(&crypto, &ds, &ds, NoNetwork), select(responder.run::<4>(), n.ctl.run(&crypto, &cs, &cs, NoNetwork)), flow).await {
            Either3::Third(r) => Some(r),
            _ => None,
        }
    };
    let init = match run_sim(&net, all, 90_000) {
        SimEnd::Done(Some(Ok(()))) => "ok",
        SimEnd::Done(Some(Err(_))) => "err",
        SimEnd::Done(None) => "transport-exit",
        SimEnd::Timeout => "sim-timeout",
    };
    let new_c: Vec<Sess> = sessions(&n.ctl).into_iter().filter(|s| !before_c.contains(&s.lsid)).collect();
    let new_d: Vec<Sess> = sessions(&n.dev).into_iter().filter(|s| !before_d.contains(&s.lsid)).collect();
    // drop all sessions / exchanges of this handshake (fabrics and the resumption cache stay)
    let _ = n.ctl.reset_transport();
    let _ = n.dev.reset_transport();
    let keys = if new_c.len() == 1 && new_d.len() == 1 {
        if new_c[0].enc == new_d[0].dec && new_c[0].dec == new_d[0].enc && new_c[0].enc != [0u8; 16] {
            "agree"
        } else {
            "differ"
        }
    } else {
        "na"
    };
    *n.prev.borrow_mut() = seen.borrow().clone();
    let t = n.dev.with_rtc(|r| r.utc_time());
    let ts = match t {
        rs_matter::dm::clusters::time_sync::UtcTime::Reliable(_) => format!("r{}", t.any_secs()),
        rs_matter::dm::clusters::time_sync::UtcTime::LastKnown(_) => format!("l{}", t.any_secs()),
    };
    let storm = if net.log_len() as u64 >= CAP { " storm" } else { "" };
    if std::env::var("VH_WIRE").is_ok() {
        for (i, l) in net.log().iter().enumerate().take(40) {
            eprintln!("  #{} t={} {}->{} len={} {:?} {}", i, l.t_ms, l.from, l.to, l.bytes.len(), l.verdict, crate::proto::hex(&l.bytes[..l.bytes.len().min(28)]));
        }
    }
    format!("t={} ctl={} dev={} keys={} init={}{}", ts, fmt_sess(&new_c), fmt_sess(&new_d), keys, init, storm)
}

fn run_case(out: &mut Out, case: &Case) {
    out.case(case.id, &case.kind);
    let crypto = test_only_crypto();
    let keys = Keys::new(&crypto);
    let mut nodes: Option<Nodes> = None;
    for op in &case.ops {
        let toks: Vec<&str> = op.split_whitespace().collect();
        let mut mutation = None;
        let mut sched = vec![];
        for t in &toks[1..] {
            if let Some(v) = kv(t, "mut") {
                mutation = parse_mut(v);
            } else if let Some(v) = kv(t, "sched") {
                sched = parse_sched(v);
            }
        }
        if std::env::var("VH_TRACE").is_ok() {
            eprintln!("case {} start {}", case.id, op.split_whitespace().filter(|t| t.starts_with("mut=") || t.starts_with("sched=")).collect::<Vec<_>>().join(" "));
        }
        let res = std::panic::catch_unwind(std::panic::AssertUnwindSafe(|| match toks.first().copied() {
            Some("hs") => {
                let get = |k: &str| toks[1..].iter().find_map(|t| kv(t, k)).and_then(|v| if v == "-" { None } else { Rec::parse(v) });
                let (Some(root), Some(cnoc), Some(dnoc)) = (get("root"), get("cnoc"), get("dnoc")) else {
                    return "bad".to_string();
                };
                let droot = get("droot").unwrap_or_else(|| root.clone());
                let ctl = Matter::new(&TEST_DEV_DET, TEST_DEV_COMM, &TEST_DEV_ATT, 0);
                let dev = Matter::new(&TEST_DEV_DET, TEST_DEV_COMM, &TEST_DEV_ATT, 0);
                let key = |k: &str| toks[1..].iter().find_map(|t| kv(t, k)).and_then(|v| v.parse::<u64>().ok());
                let cf = match install(&crypto, &keys, &ctl, &root, &cnoc, get("cicac").as_ref(), key("ckey")) {
                    Ok(f) => f,
                    Err(e) => return e,
                };
                if let Err(e) = install(&crypto, &keys, &dev, &droot, &dnoc, get("dicac").as_ref(), key("dkey")) {
                    return e;
                }
                let n = Nodes { ctl, dev, ctl_fab: cf, dev_node: node_id(&dnoc).unwrap_or(0), prev: Rc::new(RefCell::new(Default::default())) };
                let r = handshake(&n, mutation, sched);
                nodes = Some(n);
                r
            }
            Some("again") => match nodes.as_ref() {
                Some(n) => handshake(n, mutation, sched),
                None => "nostate".to_string(),
            },
            _ => "bad".to_string(),
        }));
        let v = res.unwrap_or_else(|_| "panic".into());
        if std::env::var("VH_TRACE").is_ok() {
            eprintln!("case {} op {} => {}", case.id, &op[..op.len().min(12)], v);
        }
        for part in v.split_whitespace() {
            if let Some((k, val)) = part.split_once('=') {
                if k != "t" {
                    let cls = if val.starts_with("sess") { "sess" } else { val };
                    out.stat(&format!("out_{}_{}", k, cls), 1);
                }
            }
        }
        out.op(op, &v);
    }
}

// ------------------------------------------------------------------------------------------------
// generator

fn std_chain(r: &mut Rng, fab: u64, node: u64, cats: Vec<u32>, with_icac: bool, kn: u64) -> (Rec, Option<Rec>, Rec) {
    let p = GenP { fab, node, cats, rca: 3, ica: if with_icac { Some(r.range(10, 19)) } else { None }, nb: 1, na: 0, kr: 0, ki: 1, kn };
    gen_records(&p)
}

fn hs_line(root: &Rec, c: &(Rec, Option<Rec>, Rec), d: &(Rec, Option<Rec>, Rec), droot: Option<&Rec>, extra: &str) -> String {
    let o = |x: &Option<Rec>| x.as_ref().map(|r| r.text()).unwrap_or_else(|| "-".into());
    let mut s = format!("hs root={} cnoc={} cicac={} dnoc={} dicac={}", root.text(), c.2.text(), o(&c.1), d.2.text(), o(&d.1));
    if let Some(dr) = droot {
        s.push_str(&format!(" droot={}", dr.text()));
    }
    if !extra.is_empty() {
        s.push(' ');
        s.push_str(extra);
    }
    s
}

fn random_mutation(r: &mut Rng, resumed: bool, out: &mut Out) -> String {
    let msg = if resumed { *r.pick(&["s1", "s1", "r2", "r2", "st"]) } else { *r.pick(&["s1", "s2", "s3", "st", "s1", "s2"]) };
    let fields: &[u64] = match msg {
        "s1" => &[1, 2, 3, 4, 6, 7],
        "s2" => &[1, 2, 3, 4],
        "s3" => &[1],
        "r2" => &[1, 2, 3],
        _ => &[],
    };
    let kind = match r.below(10) {
        0..=4 if !fields.is_empty() => "f",
        0..=5 => "p",
        6 => "h",
        7 => "t",
        _ => "p",
    };
    out.stat(&format!("mut_{}_{}", msg, kind), 1);
    match kind {
        "f" => format!("mut={}:f:{}:{}", msg, r.pick(fields), r.below(4096)),
        "t" => format!("mut={}:t:{}", msg, r.below(4096)),
        k => format!("mut={}:{}:{}", msg, k, r.below(8192)),
    }
}

fn random_sched(r: &mut Rng, out: &mut Out) -> String {
    let n = r.range(2, 9);
    let v: Vec<String> = (0..n)
        .map(|_| match r.below(10) {
            0..=1 => { out.stat("sched_drop", 1); "x".to_string() }
            2 => { out.stat("sched_dup", 1); "u".to_string() }
            3..=4 => { out.stat("sched_delay", 1); format!("l{}", r.range(20, 900)) }
            _ => "d".to_string(),
        })
        .collect();
    format!("sched={}", v.join("."))
}

const RULE: &str = "#rule a case is a sequence of CASE handshakes between two real in-process Matter nodes on the simulated network: honest chains (with/without ICAC, CATs), a chain invalid in one respect on either side (signature, issuer name, expiry, CA flag, key usage, path length, critical extension, node/fabric id, NOC as authority, other root, CA-shaped leaf), a second handshake (resumption) and, on valid set-ups, one mutation of one handshake datagram (bit flip in a TLV field / payload / header, truncation, replay or field substitution from the previous handshake) or a loss/duplication/delay schedule; observed per side: live CASE sessions (fabric, peer node, CATs) + whether both ends hold the same directional keys; non-trivial = by outputs";

pub fn gen(a: &Args) -> String {
    let mut r = Rng::new(a.seed);
    let mut out = Out::default();
    out.buf.push_str(RULE);
    out.buf.push('\n');
    let n_cases = if a.thorough { 7000 } else { 420 };
    for id in 0..n_cases {
        let mut cr = r.fork();
        let fab = *cr.pick(&[1u64, 7, 0x1234]);
        let cats = if cr.chance(1, 3) { vec![0x0001_0001u32, 0x00AB_0002][..cr.range(1, 2) as usize].to_vec() } else { vec![] };
        let c_icac = cr.chance(1, 2);
        let d_icac = cr.chance(1, 3);
        let cn = 100 + cr.below(3);
        let dn = 200 + cr.below(3);
        let c = std_chain(&mut cr, fab, cn, cats, c_icac, 2);
        let mut d = std_chain(&mut cr, fab, dn, vec![], d_icac, 4);
        // both chains hang under the same root record; ICAC keys differ per side
        if let Some(i) = d.1.as_mut() {
            i.pk = 3;
            i.sk = Some(3);
            d.2.ak = Some(3);
            d.2.sg = Some(3);
        }
        let root = c.0.clone();
        let mut ops = Vec::new();
        match id % 7 {
            0 => {
                out.stat("kind_honest_then_resume", 1);
                ops.push(hs_line(&root, &c, &d, None, ""));
                ops.push("again".to_string());
                ops.push("again".to_string());
            }
            1 => {
                out.stat("kind_chain_defect", 1);
                // a defect on the controller's or the device's chain
                let on_ctl = cr.chance(2, 3);
                let mut cc = c.clone();
                let mut dd = d.clone();
                let mut droot: Option<Rec> = None;
                let mut extra = String::new();
                if cr.chance(1, 6) {
                    // the node does not hold the private key its NOC certifies
                    extra = format!("{}=5", if on_ctl { "ckey" } else { "dkey" });
                    out.stat(&format!("defect_{}_wrong_op_key", if on_ctl { "ctl" } else { "dev" }), 1);
                } else {
                    let t = if on_ctl { &mut cc } else { &mut dd };
                    let name = match cr.below(14) {
                        0 => { t.2.fl = Some(cr.below(512) as u16); "sig_flip" }
                        1 => { t.2.i = vec![Attr::Root(99), Attr::Fab(fab)]; "issuer_name" }
                        2 => { t.2.na = 1000; "expired" }
                        3 => { t.2.bc = Some((true, None)); "leaf_is_ca" }
                        4 => { t.2.ku = Some(0x20); "leaf_no_digsig" }
                        5 => { if let Some(i) = t.1.as_mut() { i.ku = Some(0x40); "ca_no_keycertsign" } else { t.2.eku = Some(vec![1]); "leaf_eku" } }
                        6 => { t.2.cr = 1; "critical_ext" }
                        7 => { t.2.s.retain(|a| !matches!(a, Attr::Node(_))); t.2.s.insert(0, Attr::Other(5)); "no_node_id" }
                        8 => { for a in t.2.s.iter_mut() { if let Attr::Fab(v) = a { *v ^= 1; } } "fabric_mismatch" }
                        9 => { t.2.s.insert(0, Attr::Ica(66)); t.2.bc = Some((true, None)); t.2.ku = Some(0x21); "ca_leaf_with_node_id" }
                        10 => { t.2.sg = Some(5); "signed_by_other_key" }
                        11 => { t.2.ak = Some(200); "akid" }
                        12 => { t.2.tb = true; "tbs_altered" }
                        _ => {
                            // the other side trusts a different root key for the same fabric id
                            let mut rr = root.clone();
                            rr.pk = 5; rr.sk = Some(5); rr.ak = Some(5); rr.sg = Some(5);
                            droot = Some(rr);
                            "other_root"
                        }
                    };
                    out.stat(&format!("defect_{}_{}", if on_ctl { "ctl" } else { "dev" }, name), 1);
                }
                ops.push(hs_line(&root, &cc, &dd, droot.as_ref(), &extra));
            }
            2 => {
                out.stat("kind_mutation_full", 1);
                ops.push(hs_line(&root, &c, &d, None, &random_mutation(&mut cr, false, &mut out)));
                ops.push("again".to_string());
            }
            3 | 6 => {
                out.stat("kind_mutation_resumed", 1);
                ops.push(hs_line(&root, &c, &d, None, ""));
                ops.push(format!("again {}", random_mutation(&mut cr, true, &mut out)));
                ops.push("again".to_string());
            }
            4 => {
                out.stat("kind_replay_substitute", 1);
                ops.push(hs_line(&root, &c, &d, None, ""));
                let msg = *cr.pick(&["s1", "r2", "st", "s1"]);
                let m = if cr.chance(1, 2) { format!("mut={}:r", msg) } else { format!("mut={}:x:{}", msg, cr.pick(&[1u64, 2, 3, 4, 6, 7])) };
                out.stat("mut_replay_or_subst", 1);
                ops.push(format!("again {}", m));
                ops.push("again".to_string());
            }
            _ => {
                out.stat("kind_schedule", 1);
                ops.push(hs_line(&root, &c, &d, None, &random_sched(&mut cr, &mut out)));
                ops.push(format!("again {}", random_sched(&mut cr, &mut out)));
            }
        }
        run_case(&mut out, &Case { id, kind: "case".into(), ops });
    }
    out.finish()
}

pub fn replay(a: &Args) -> String {
    let text = std::fs::read_to_string(a.input.as_ref().expect("--in")).expect("read input");
    let mut out = Out::default();
    for c in parse_cases(&text) {
        run_case(&mut out, &c);
    }
    out.finish()
}
