import RsMatterVerif.Lemmas.BtpFair
/-!
# Time: the acknowledgement deadline (run level) and the connection idle timeout

* `Session.ackable`: an acknowledgement is pending and can be put on the wire right now
  (`pending_ack().is_some()`, the send window has a free slot, no handshake response is pending).
* `poll_ackable`: what one `process_outgoing` does in such a state.
* `AckMon` / `ackRun`: the run of the link with two ghost clocks for one end `y` (when `y` was last
  polled; since when an acknowledgement has been sendable without interruption) and the run-level
  invariant `ack_inv` behind `C18.ack_within_deadline`.
-/
namespace Btp

/-- an acknowledgement is pending (`RecvWindow::pending_ack`: something accepted and not yet
acknowledged, and no complete message waiting to be fetched) and can be sent right now: the send
window has a free slot and the pump is not busy with the handshake response -/
def Session.ackable (s : Session) : Bool :=
  !s.handshakePending && s.recv.pendingAck.isSome && decide (1 ≤ s.send.level)

theorem ackable_iff {s : Session} : s.ackable = true ↔
    s.handshakePending = false ∧ s.recv.pendingAck.isSome = true ∧ 1 ≤ s.send.level := by
  unfold Session.ackable
  simp [Bool.and_eq_true, and_assoc]

theorem pendingAck_eq {r : RecvWindow} (h : r.pendingAck.isSome = true) : r.pendingAck = some r.ackSeq := by
  unfold RecvWindow.pendingAck at h ⊢
  split
  · rfl
  · rename_i hc; simp [hc] at h

theorem ackable_notFull {s : Session} (h : s.ackable = true) : s.send.isFull s.recv = false := by
  obtain ⟨_, h2, h3⟩ := ackable_iff.mp h
  unfold SendWindow.isFull
  have : s.send.level ≠ 0 := by omega
  simp [this, h2]

/-- every segment built by `prep_tx_data` carries the pending acknowledgement -/
theorem buildSegment_ack {s : Session} {data : List Nat} {off : Nat} {h : Hdr} {p : List Nat}
    (hok : s.buildSegment data off = .ok (h, p)) : h.getAck = s.recv.pendingAck := by
  have hb : s.baseHdr.getAck = s.recv.pendingAck := by
    unfold Session.baseHdr Hdr.getAck
    cases hp : s.recv.pendingAck with
    | none => simp
    | some a => simp
  unfold Session.buildSegment at hok
  by_cases hne : (!data.isEmpty) = true
  · simp only [hne, if_true] at hok
    by_cases hgt : off > data.length
    · simp only [hgt, if_true] at hok; cases hok
    · simp only [hgt, if_false] at hok
      obtain ⟨H, hH⟩ : ∃ H : Hdr, H = (if off = 0 then { s.baseHdr with beg := true, msgLen := data.length % 65536 }
          else { s.baseHdr with cont := true }) := ⟨_, rfl⟩
      rw [← hH] at hok
      have hHa : H.getAck = s.baseHdr.getAck := by
        rw [hH]; split <;> rfl
      cases hc : csub s.mtu H.len "prep_tx_data: mtu - hdr.len()" with
      | error f => rw [hc] at hok; cases hok
      | ok mp =>
        rw [hc] at hok
        simp only at hok
        have hh := (Prod.mk.inj (Except.ok.inj hok)).1
        rw [← hh, ← hb, ← hHa]
        split <;> rfl
  · simp only [hne, Bool.false_eq_true, if_false] at hok
    have hh := (Prod.mk.inj (Except.ok.inj hok)).1
    rw [← hh]; exact hb

/-- an emission of `prep_tx_data` in an ackable state: the segment carries the acknowledgement and
the receive window counts everything as acknowledged -/
theorem prepTxData_ackable {s : Session} (ha : s.ackable = true) {data : List Nat} {off now : Nat}
    {s' : Session} {seg : List Nat} {off' : Nat} (hok : s.prepTxData data off now = .ok (s', seg, off')) :
    seg ≠ [] ∧ s'.recv.ackLevel = 0 ∧ ∃ (h : Hdr) (p : List Nat), seg = h.encode ++ p ∧ h.getAck = some s.recv.ackSeq := by
  obtain ⟨_, hp, _⟩ := ackable_iff.mp ha
  rcases prepTxData_inv hok with ⟨hs0, _, _⟩ | ⟨h, p, hb, hsg, _⟩
  · exfalso
    subst hs0
    have := prepTxData_nil_full hok
    rw [ackable_notFull ha] at this; cases this
  · have hne : seg ≠ [] := by
      intro h0
      have := (encode_length_le h).2
      rw [h0] at hsg
      have : (h.encode ++ p).length = 0 := by rw [← hsg]; rfl
      simp only [List.length_append] at this; omega
    refine ⟨hne, (prepTxData_emits hok hne).2.2.2.2 hp, h, p, hsg, ?_⟩
    rw [buildSegment_ack hb, pendingAck_eq hp]

/-- **One `process_outgoing` in an ackable state**: either nothing is emitted, the end is unchanged
and the acknowledgement is not due yet (`is_ack_due = false`); or a segment is emitted - the queued
message's next segment or a stand-alone acknowledgement - that carries the acknowledgement number
`ack_seq`, after which the receive window counts everything as acknowledged. -/
theorem poll_ackable {e : End} (ha : e.s.ackable = true) {now : Nat} {e' : End} {seg : List Nat}
    (hok : e.processOutgoing now = .ok (e', seg)) :
    (seg = [] ∧ e' = e ∧ e.s.isAckDue now ackTimeoutSecs = false) ∨
    (seg ≠ [] ∧ e'.s.recv.ackLevel = 0 ∧ ∃ (h : Hdr) (p : List Nat), seg = h.encode ++ p ∧ h.getAck = some e.s.recv.ackSeq) := by
  obtain ⟨hnp, hp, hl⟩ := ackable_iff.mp ha
  unfold End.processOutgoing at hok
  rw [prepTxHandshake_idle hnp] at hok
  simp only [List.length_nil, Nat.lt_irrefl, if_false] at hok
  have he1 : ({ e with s := e.s } : End) = e := rfl
  rw [he1] at hok
  unfold End.dataStep at hok
  by_cases hd : (!e.sdu.isEmpty && e.s.established) = true
  · simp only [hd, if_true] at hok
    cases h2 : e.s.prepTxData e.sdu e.off now with
    | error f => rw [h2] at hok; cases hok
    | ok r =>
      rw [h2] at hok
      obtain ⟨s2, sg, off2⟩ := r
      obtain ⟨hne, hal, hh⟩ := prepTxData_ackable ha h2
      have hlen : sg.length > 0 := by
        cases sg with
        | nil => exact absurd rfl hne
        | cons _ _ => simp
      simp only [hlen, if_true] at hok
      right
      by_cases hend : off2 = e.sdu.length
      · simp only [hend, if_true, hlen] at hok
        have hh2 := Prod.mk.inj (Except.ok.inj hok)
        rw [← hh2.1, ← hh2.2]; exact ⟨hne, hal, hh⟩
      · simp only [hend, if_false, hlen, if_true] at hok
        have hh2 := Prod.mk.inj (Except.ok.inj hok)
        rw [← hh2.1, ← hh2.2]; exact ⟨hne, hal, hh⟩
  · simp only [hd, Bool.false_eq_true, if_false, List.length_nil, Nat.lt_irrefl] at hok
    unfold End.ackStep at hok
    by_cases hdue : e.s.isAckDue now ackTimeoutSecs = true
    · simp only [hdue, if_true] at hok
      cases h3 : e.s.prepTxData [] 0 now with
      | error f => rw [h3] at hok; cases hok
      | ok r =>
        rw [h3] at hok
        obtain ⟨s3, sg, off3⟩ := r
        obtain ⟨hne, hal, hh⟩ := prepTxData_ackable ha h3
        have hh2 := Prod.mk.inj (Except.ok.inj hok)
        right
        rw [← hh2.1, ← hh2.2]; exact ⟨hne, hal, hh⟩
    · simp only [hdue, Bool.false_eq_true, if_false] at hok
      have hh2 := Prod.mk.inj (Except.ok.inj hok)
      left
      exact ⟨hh2.2.symm, hh2.1.symm, by simpa using hdue⟩

/-! ## What one operation of the monitored end does to the `End` -/

/-- an accepted segment stamps the receive window with the current instant, or (handshake) starts
the session from scratch with nothing to acknowledge -/
theorem rx_stamps {e e' : End} {data : List Nat} {now : Nat} (hok : e.processIncoming data now = .ok e') :
    e'.s.recv.receivedAt = some now ∨ e'.s.recv.ackLevel = 0 := by
  unfold End.processIncoming at hok
  cases h : e.s.processRx e.gattMtu data now with
  | error f => rw [h] at hok; cases hok
  | ok s' =>
    rw [h] at hok
    have := Except.ok.inj hok
    rw [← this]
    show s'.recv.receivedAt = some now ∨ s'.recv.ackLevel = 0
    unfold Session.processRx at h
    cases hd : decodeHdr data with
    | error f => rw [hd] at h; cases h
    | ok hp =>
      rw [hd] at h
      obtain ⟨hh, p⟩ := hp
      simp only at h
      unfold Session.processRxSeg at h
      by_cases hhs : hh.hs = true
      · right
        simp only [hhs, if_true] at h
        by_cases hi : e.s.initiator = true
        · simp only [hi, if_true] at h
          unfold Session.processRxHandshakeResp at h
          split at h
          · cases h
          · split at h
            · cases h
            · split at h
              · cases h
              · have := Except.ok.inj h; rw [← this]; rfl
        · simp only [hi, Bool.false_eq_true, if_false] at h
          unfold Session.processRxHandshakeReq at h
          split at h
          · cases h
          · split at h
            · cases h
            · dsimp only at h
              split at h
              · cases h
              · split at h
                · cases h
                · split at h
                  · cases h
                  · have := Except.ok.inj h; rw [← this]; rfl
      · left
        simp only [hhs, Bool.false_eq_true, if_false] at h
        exact (accepted_stamps h).1

theorem monStep_send {m m' : Mon} {d : List Nat} {o : Out} (h : m.step (.send d) = .ok (m', o)) :
    m'.e.s = m.e.s := by
  simp only [Mon.step] at h
  cases hs : m.e.send d with
  | error f => rw [hs] at h; cases h
  | ok r =>
    rw [hs] at h
    obtain ⟨e, ok⟩ := r
    have hh := Prod.mk.inj (Except.ok.inj h); rw [← hh.1]
    exact endSend_frame hs

theorem monStep_poll {m m' : Mon} {now : Nat} {o : Out} (h : m.step (.poll now) = .ok (m', o)) :
    ∃ seg, m.e.processOutgoing now = .ok (m'.e, seg) := by
  simp only [Mon.step] at h
  cases hs : m.e.processOutgoing now with
  | error f => rw [hs] at h; cases h
  | ok r =>
    rw [hs] at h
    obtain ⟨e, seg⟩ := r
    have hh := Prod.mk.inj (Except.ok.inj h); rw [← hh.1]
    exact ⟨seg, rfl⟩

theorem monStep_rx {m m' : Mon} {d : List Nat} {now : Nat} {o : Out} (h : m.step (.rx d now) = .ok (m', o)) :
    m.e.processIncoming d now = .ok m'.e := by
  simp only [Mon.step] at h
  cases hs : m.e.processIncoming d now with
  | error f => rw [hs] at h; cases h
  | ok e =>
    rw [hs] at h
    have hh := Prod.mk.inj (Except.ok.inj h); rw [← hh.1]

theorem monStep_fetch {m m' : Mon} {cap : Nat} {o : Out} (h : m.step (.fetch cap) = .ok (m', o)) :
    ∃ mm, m.e.recv cap = .ok (m'.e, mm) := by
  simp only [Mon.step] at h
  cases hs : m.e.recv cap with
  | error f => rw [hs] at h; cases h
  | ok r =>
    rw [hs] at h
    obtain ⟨e, mm⟩ := r
    cases mm with
    | none => have hh := Prod.mk.inj (Except.ok.inj h); rw [← hh.1]; exact ⟨none, rfl⟩
    | some b => have hh := Prod.mk.inj (Except.ok.inj h); rw [← hh.1]; exact ⟨some b, rfl⟩

/-- what one scheduler operation does to end `y` and to the clock -/
inductive StepAt (l l' : LMon) (y : Side) : Op → Prop
  | same (op : Op) (h : l'.get y = l.get y) (hn : l.now ≤ l'.now) (hp : op ≠ .poll y) : StepAt l l' y op
  | send (d : List Nat) (h : (l'.get y).e.s = (l.get y).e.s) (hn : l'.now = l.now) : StepAt l l' y (.send y d)
  | poll (seg : List Nat) (h : (l.get y).e.processOutgoing l.now = .ok ((l'.get y).e, seg)) (hn : l'.now = l.now) :
      StepAt l l' y (.poll y)
  | rx (seg : List Nat) (h : (l.get y).e.processIncoming seg l.now = .ok (l'.get y).e) (hn : l'.now = l.now) :
      StepAt l l' y (.deliver y)
  | fetch (cap : Nat) (mm : Option (List Nat)) (h : (l.get y).e.recv cap = .ok ((l'.get y).e, mm))
      (hn : l'.now = l.now) : StepAt l l' y (.fetch y cap)

theorem get_set_ne (l : LMon) {x y : Side} (h : x ≠ y) (m : Mon) : (l.set x m).get y = l.get y := by
  cases x <;> cases y <;> first | rfl | exact absurd rfl h

theorem stepAt {l l' : LMon} {op : Op} {o : Out} (h : l.step op = .ok (l', o)) (y : Side) : StepAt l l' y op := by
  cases op with
  | send x d =>
    simp only [LMon.step] at h
    cases hs : (l.get x).step (.send d) with
    | error f => rw [hs] at h; cases h
    | ok r =>
      rw [hs] at h
      obtain ⟨m', o'⟩ := r
      have hh := Prod.mk.inj (Except.ok.inj h); rw [← hh.1]
      by_cases hx : x = y
      · subst hx
        exact .send d (by rw [get_set_same]; exact monStep_send hs) (now_set _ _ _)
      · exact .same _ (get_set_ne l hx m') (by rw [now_set]; exact Nat.le_refl _) (by simp)
  | poll x =>
    simp only [LMon.step] at h
    cases hs : (l.get x).step (.poll l.now) with
    | error f => rw [hs] at h; cases h
    | ok r =>
      rw [hs] at h
      obtain ⟨m', o'⟩ := r
      obtain ⟨seg, hseg⟩ := monStep_poll hs
      have key : l'.get y = (l.set x m').get y ∧ l'.now = l.now := by
        cases o' <;> simp only at h <;>
          (have hh := Prod.mk.inj (Except.ok.inj h); rw [← hh.1]; simp)
      by_cases hx : x = y
      · subst hx
        refine .poll seg ?_ key.2
        rw [key.1, get_set_same]; exact hseg
      · exact .same _ (by rw [key.1]; exact get_set_ne l hx m') (by rw [key.2]; exact Nat.le_refl _)
          (by intro hc; exact hx (Op.poll.inj hc))
  | deliver x =>
    simp only [LMon.step] at h
    cases hq : l.inq x with
    | nil =>
      rw [hq] at h
      have hh := Prod.mk.inj (Except.ok.inj h); rw [← hh.1]
      exact .same _ rfl (Nat.le_refl _) (by simp)
    | cons seg rest =>
      rw [hq] at h
      simp only at h
      cases hs : (l.get x).step (.rx seg l.now) with
      | error f => rw [hs] at h; cases h
      | ok r =>
        rw [hs] at h
        obtain ⟨m', o'⟩ := r
        have hh := Prod.mk.inj (Except.ok.inj h); rw [← hh.1]
        by_cases hx : x = y
        · subst hx
          exact .rx seg (by rw [get_setInq, get_set_same]; exact monStep_rx hs) (by simp)
        · exact .same _ (by rw [get_setInq]; exact get_set_ne l hx m') (by simp) (by simp)
  | tick n =>
    simp only [LMon.step] at h
    have hh := Prod.mk.inj (Except.ok.inj h); rw [← hh.1]
    exact .same _ (by cases y <;> rfl) (Nat.le_add_right _ _) (by simp)
  | fetch x cap =>
    simp only [LMon.step] at h
    cases hs : (l.get x).step (.fetch cap) with
    | error f => rw [hs] at h; cases h
    | ok r =>
      rw [hs] at h
      obtain ⟨m', o'⟩ := r
      have hh := Prod.mk.inj (Except.ok.inj h); rw [← hh.1]
      by_cases hx : x = y
      · subst hx
        obtain ⟨mm, hmm⟩ := monStep_fetch hs
        exact .fetch cap mm (by rw [get_set_same]; exact hmm) (now_set _ _ _)
      · exact .same _ (get_set_ne l hx m') (by rw [now_set]; exact Nat.le_refl _) (by simp)

/-! ## The acknowledgement deadline along a run -/

/-- the monitored link with two ghost clocks for the end `y` under observation -/
structure AckMon where
  l : LMon
  /-- model time of the last `poll y` (of the start of the observation if there was none) -/
  polledAt : Nat
  /-- since when an acknowledgement has been sendable at `y` (`Session.ackable`) without interruption -/
  since : Option Nat

def AckMon.init (l : LMon) (y : Side) : AckMon :=
  { l := l, polledAt := l.now, since := if (l.get y).e.s.ackable then some l.now else none }

/-- one scheduler operation (a failing operation changes nothing, as in `runLink`) -/
def AckMon.step (y : Side) (m : AckMon) (op : Op) : AckMon :=
  match m.l.step op with
  | .error _ => m
  | .ok (l', _) =>
    { l := l',
      polledAt := if op = .poll y then m.l.now else m.polledAt,
      since := if (l'.get y).e.s.ackable then (if (m.l.get y).e.s.ackable then m.since else some l'.now)
               else none }

def ackRun (y : Side) (m : AckMon) : List Op → AckMon
  | [] => m
  | op :: ops => ackRun y (m.step y op) ops

/-- **the invariant**: whenever an acknowledgement is sendable at `y`, then at the time `y` was last
polled either the acknowledgement timer had not yet fired (`polledAt < received_at + 15`) or the
acknowledgement was not yet sendable (`polledAt ≤ since`) -/
structure AckInv (y : Side) (m : AckMon) : Prop where
  pol : m.polledAt ≤ m.l.now
  ok : (m.l.get y).e.s.ackable = true →
    ∃ u, m.since = some u ∧ u ≤ m.l.now ∧
      ∀ t, (m.l.get y).e.s.recv.receivedAt = some t → (m.polledAt < t + ackTimeoutSecs ∨ m.polledAt ≤ u)

theorem ackInv_init (l : LMon) (y : Side) : AckInv y (AckMon.init l y) := by
  refine ⟨Nat.le_refl _, fun ha => ⟨l.now, ?_, Nat.le_refl _, fun t _ => .inr (Nat.le_refl _)⟩⟩
  show (if (l.get y).e.s.ackable then some l.now else none) = some l.now
  have ha' : (l.get y).e.s.ackable = true := ha
  rw [ha']; rfl

theorem ackable_level {s : Session} (h : s.ackable = true) : 0 < s.recv.ackLevel := by
  obtain ⟨_, hp, _⟩ := ackable_iff.mp h
  unfold RecvWindow.pendingAck at hp
  split at hp
  · rename_i hc; simp at hc; exact hc.1
  · cases hp

theorem ackInv_step {y : Side} {m : AckMon} (hi : AckInv y m) (op : Op) : AckInv y (m.step y op) := by
  unfold AckMon.step
  cases hstep : m.l.step op with
  | error f => exact hi
  | ok r =>
    obtain ⟨l', o⟩ := r
    simp only
    have hsa := stepAt hstep y
    cases hsa with
    | same op hget hn hp =>
      refine ⟨?_, ?_⟩
      · simp only [hp, if_false]; exact Nat.le_trans hi.pol hn
      · simp only [hp, if_false, hget]
        intro ha
        obtain ⟨u, hu, hle, hall⟩ := hi.ok ha
        simp only [ha, if_true]
        exact ⟨u, hu, Nat.le_trans hle hn, hall⟩
    | send d hs hn =>
      have hp : Op.send y d ≠ .poll y := by simp
      refine ⟨?_, ?_⟩
      · simp only [hp, if_false]; rw [hn]; exact hi.pol
      · simp only [hp, if_false, hs]
        intro ha
        obtain ⟨u, hu, hle, hall⟩ := hi.ok ha
        simp only [ha, if_true]
        exact ⟨u, hu, by rw [hn]; exact hle, hall⟩
    | poll seg hpo hn =>
      refine ⟨?_, ?_⟩
      · simp only [if_true]; rw [hn]; exact Nat.le_refl _
      · simp only [if_true]
        intro ha'
        simp only [ha', if_true]
        by_cases ha : (m.l.get y).e.s.ackable = true
        · rcases poll_ackable ha hpo with ⟨_, he, hnd⟩ | ⟨_, hal, _⟩
          · -- nothing emitted, end unchanged, not due
            obtain ⟨u, hu, hle, _⟩ := hi.ok ha
            simp only [ha, if_true]
            refine ⟨u, hu, by rw [hn]; exact hle, ?_⟩
            intro t ht
            left
            rw [he] at ht
            unfold Session.isAckDue at hnd
            obtain ⟨_, hp, _⟩ := ackable_iff.mp ha
            simp only [hp, Bool.true_and, ht, Bool.or_eq_false_iff, decide_eq_false_iff_not] at hnd
            omega
          · -- emitted: no longer ackable
            have := ackable_level ha'
            omega
        · simp only [ha, Bool.false_eq_true, if_false]
          exact ⟨l'.now, rfl, Nat.le_refl _, fun t _ => .inr (by rw [hn]; exact Nat.le_refl _)⟩
    | rx seg hrx hn =>
      have hp : Op.deliver y ≠ .poll y := by simp
      refine ⟨?_, ?_⟩
      · simp only [hp, if_false]; rw [hn]; exact hi.pol
      · simp only [hp, if_false]
        intro ha'
        simp only [ha', if_true]
        have hst : (l'.get y).e.s.recv.receivedAt = some m.l.now := by
          rcases rx_stamps hrx with h1 | h1
          · exact h1
          · have := ackable_level ha'; omega
        have hfresh : ∀ t, (l'.get y).e.s.recv.receivedAt = some t → m.polledAt < t + ackTimeoutSecs := by
          intro t ht
          rw [hst] at ht
          have := Option.some.inj ht
          have := hi.pol
          simp only [ackTimeoutSecs_eq]; omega
        by_cases ha : (m.l.get y).e.s.ackable = true
        · obtain ⟨u, hu, hle, _⟩ := hi.ok ha
          simp only [ha, if_true]
          exact ⟨u, hu, by rw [hn]; exact hle, fun t ht => .inl (hfresh t ht)⟩
        · simp only [ha, Bool.false_eq_true, if_false]
          exact ⟨l'.now, rfl, Nat.le_refl _, fun t ht => .inl (hfresh t ht)⟩
    | fetch cap mm hf hn =>
      have hp : Op.fetch y cap ≠ .poll y := by simp
      have hrec := (endRecv_frame2 hf).2.2.2.2.2.2.2.2.2.2
      refine ⟨?_, ?_⟩
      · simp only [hp, if_false]; rw [hn]; exact hi.pol
      · simp only [hp, if_false]
        intro ha'
        simp only [ha', if_true]
        by_cases ha : (m.l.get y).e.s.ackable = true
        · obtain ⟨u, hu, hle, hall⟩ := hi.ok ha
          simp only [ha, if_true]
          exact ⟨u, hu, by rw [hn]; exact hle, fun t ht => hall t (by rw [← hrec]; exact ht)⟩
        · simp only [ha, Bool.false_eq_true, if_false]
          exact ⟨l'.now, rfl, Nat.le_refl _, fun t _ => .inr (by rw [hn]; exact hi.pol)⟩

theorem ackInv_run {y : Side} (ops : List Op) : ∀ {m : AckMon}, AckInv y m → AckInv y (ackRun y m ops) := by
  induction ops with
  | nil => intro m h; exact h
  | cons op ops ih => intro m h; exact ih (ackInv_step h op)

end Btp
