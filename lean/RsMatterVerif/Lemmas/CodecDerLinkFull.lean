import RsMatterVerif.Lemmas.CodecDerLinkWalk
/-!
# The certificate round trip with no `parseDer` left, DN integers read back, sample instances
(audit C17 concern 2, third round)

* `bind_parseDer_eq_readTree`, `extOfDer_known`, `parseExtValue_eq_rd`, `certFieldsOfDerRd`, `certFieldsOfDer_eq_rd`,
  `C17.cert_der_roundtrip_rd` — the value *inside* `extnValue` of every known extension (an OCTET STRING leaf of the outer
  tree, which `certFieldsOfDer` reads with `parseDer`) is read with the `der`-crate tree reader as well.
* `attr_integer_read_back`, `C17.cert_dn_integers_read_back` — the integer of a Matter DN attribute is recovered from the
  string the round trip returns by the X.509 parser's own `hex_digit` (composition of `hexRead_hexUp` with `Attr.view`).
* applying `example`s of the `C17.cert_x509_*` theorems on `certSampleX509`.
-/
namespace Codec.Der
open Codec

/-- a consumer that only accepts trees with crate-known tags sees no difference between the two readers -/
theorem bind_parseDer_eq_readTree {β : Type} (g : Der → Option β) (hg : ∀ d b, g d = some b → d.known = true)
    (l : List Nat) (hb : ∀ b ∈ l, b < 256) (hmax : l.length ≤ DerRd.MAX_LEN) :
    (parseDer l).bind g = (readTree l).bind g := by
  have hiff := readTree_iff_parseDer l hb hmax
  cases hp : parseDer l with
  | none =>
    cases hr : readTree l with
    | none => rfl
    | some d => have := ((hiff d).1 hr).1; rw [hp] at this; cases this
  | some d =>
    by_cases hk : d.known = true
    · rw [(hiff d).2 ⟨hp, hk⟩]
    · have hgn : g d = none := by
        cases hgd : g d with
        | none => rfl
        | some b => exact absurd (hg d b hgd) hk
      cases hr : readTree l with
      | none => simp [hgn]
      | some d2 =>
        have := (hiff d2).1 hr
        rw [hp] at this
        obtain ⟨h1, h2⟩ := this
        cases h1
        exact absurd h2 hk

end Codec.Der

namespace Codec.CertAsn1
open Codec Codec.Der

theorem parseEku_known (d : Der) (t : Nat) (h : parseEku d = some t) : d.known = true := by
  unfold parseEku at h
  split at h
  · rfl
  · simp at h

theorem parseKeyUsage_known (d : Der) (v : Nat) (h : parseKeyUsage d = some v) : d.known = true := by
  unfold parseKeyUsage at h
  split at h
  · rfl
  · simp at h

/-- everything `extOfDer` reads (the DER value inside `extnValue`) has only tags the `der` crate knows -/
theorem extOfDer_known (oid : List Nat) (d : Der) (e : XExt) (h : extOfDer oid d = some e) : d.known = true := by
  unfold extOfDer at h
  split at h
  · split at h
    · rfl
    · rfl
    · rfl
    · rfl
    · simp at h
  · split at h
    · cases hk : parseKeyUsage d with
      | none => simp [hk] at h
      | some v => exact parseKeyUsage_known d v hk
    · split at h
      · split at h
        · rename_i l
          cases hm : mapO parseEku l with
          | none => simp [hm] at h
          | some ts => simp [Der.known, mapO_known parseEku parseEku_known l ts hm]; rfl
        · simp at h
      · split at h
        · split at h
          · rfl
          · simp at h
        · split at h
          · split at h
            · rfl
            · simp at h
          · simp at h

/-- the value of a known extension read with the tree reader made of the `der`-crate model -/
def parseExtValueRd (oid value : List Nat) : Option XExt := (readTree value).bind (extOfDer oid)

/-- **the inside of every known extension value**: reading `extnValue` with the `der`-crate tree reader instead of the
model's `parseDer` gives the same extension -/
theorem parseExtValue_eq_rd (oid v : List Nat) (hb : ∀ b ∈ v, b < 256) (hmax : v.length ≤ DerRd.MAX_LEN) :
    parseExtValue oid v = parseExtValueRd oid v :=
  bind_parseDer_eq_readTree (extOfDer oid) (extOfDer_known oid) v hb hmax

/-- the expected view of a `future-extensions` blob, with the `der`-crate reader -/
theorem view_future_rd (b : List Nat) (hb : ∀ x ∈ b, x < 256) (hmax : b.length ≤ DerRd.MAX_LEN) :
    XExt.view (.future b) = (readTree b).bind parseExt :=
  bind_parseDer_eq_readTree parseExt parseExt_known b hb hmax
end Codec.CertAsn1

namespace Codec.CertAsn1
open Codec Codec.Der

/-- `parseExt` with the `der`-crate tree reader for the value of a known extension -/
def parseExtRd (d : Der) : Option ExtView :=
  match d with
  | .cons 0x30 [.prim 0x06 oid, .prim 0x01 [0xFF], .prim 0x04 v] =>
    if knownExtOid oid then (parseExtValueRd oid v).map fun e => { critical := true, ext := e }
    else some { critical := true, ext := .future d.enc }
  | .cons 0x30 [.prim 0x06 oid, .prim 0x04 v] =>
    if knownExtOid oid then (parseExtValueRd oid v).map fun e => { critical := false, ext := e }
    else some { critical := false, ext := .future d.enc }
  | _ => none

/-- `certFieldsOfDer` with `parseExtRd` for the extensions: no byte of the certificate is read with `parseDer` -/
def certFieldsOfDerRd : Der → Option View
  | .cons 0x30 [.cons 0xA0 [.prim 0x02 [2]], .prim 0x02 serial, .cons 0x30 [.prim 0x06 sigOid], issuer,
      .cons 0x30 [nb, na], subject,
      .cons 0x30 [.cons 0x30 [.prim 0x06 pkOid, .prim 0x06 curveOid], .prim 0x03 (0 :: pk)],
      .cons 0xA3 [.cons 0x30 exts]] =>
    if sigOid ≠ OID_ECDSA_WITH_SHA256 ∨ pkOid ≠ OID_PUB_KEY_ECPUBKEY ∨ curveOid ≠ OID_EC_TYPE_PRIME256V1 then none
    else do
    let issuer ← parseDn issuer
    let subject ← parseDn subject
    let nb ← parseTime nb
    let na ← parseTime na
    let exts ← mapO parseExtRd exts
    pure { serial := serial, signAlgo := 1, issuer := issuer, notBefore := nb
           notAfter := if na = DOESNT_EXPIRE then 0 else na
           subject := subject, pubkeyAlgo := 1, ecCurveId := 1, pubkey := pk, exts := exts }
  | _ => none

theorem mem_enc_of_mem_encL {cs : List Der} {e : Der} (he : e ∈ cs) : ∀ b ∈ e.enc, b ∈ Der.encL cs := by
  induction cs with
  | nil => cases he
  | cons c r ih =>
    intro b hb
    simp only [Der.encL, List.mem_append]
    rcases List.mem_cons.1 he with rfl | he
    · exact Or.inl hb
    · exact Or.inr (ih he b hb)

theorem length_enc_le_encL {cs : List Der} {e : Der} (he : e ∈ cs) : e.enc.length ≤ (Der.encL cs).length := by
  induction cs with
  | nil => cases he
  | cons c r ih =>
    simp only [Der.encL, List.length_append]
    rcases List.mem_cons.1 he with rfl | he
    · omega
    · have := ih he; omega

theorem parseExt_eq_rd (d : Der) (hb : ∀ b ∈ d.enc, b < 256) (hmax : d.enc.length ≤ DerRd.MAX_LEN) :
    parseExtRd d = parseExt d := by
  unfold parseExtRd
  split
  · rename_i oid v
    have hvb : ∀ b ∈ v, b < 256 := fun b hbv => hb b (by simp [Der.enc, Der.encL, hbv])
    have hvl : v.length ≤ DerRd.MAX_LEN := by
      have : v.length ≤ (Der.cons 0x30 [.prim 0x06 oid, .prim 0x01 [0xFF], .prim 0x04 v]).enc.length := by
        simp [Der.enc, Der.encL]; omega
      omega
    simp only [parseExt, parseExtValue_eq_rd oid v hvb hvl]
  · rename_i oid v
    have hvb : ∀ b ∈ v, b < 256 := fun b hbv => hb b (by simp [Der.enc, Der.encL, hbv])
    have hvl : v.length ≤ DerRd.MAX_LEN := by
      have : v.length ≤ (Der.cons 0x30 [.prim 0x06 oid, .prim 0x04 v]).enc.length := by
        simp [Der.enc, Der.encL]; omega
      omega
    simp only [parseExt, parseExtValue_eq_rd oid v hvb hvl]
  · rename_i h1 h2
    unfold parseExt
    split
    · exact absurd rfl (h1 _ _)
    · exact absurd rfl (h2 _ _)
    · rfl

theorem mapO_congr {α β : Type} (f g : α → Option β) (l : List α) (h : ∀ a ∈ l, f a = g a) : mapO f l = mapO g l := by
  induction l with
  | nil => rfl
  | cons a r ih => simp [mapO, h a (by simp), ih (fun x hx => h x (by simp [hx]))]

/-- **no `parseDer` left**: on a tree of octets within `Length::MAX`, the fields read with the `der`-crate reader for the
extension values are the fields `certFieldsOfDer` reads -/
theorem certFieldsOfDer_eq_rd (d : Der) (v : View) (hb : ∀ b ∈ d.enc, b < 256) (hmax : d.enc.length ≤ DerRd.MAX_LEN)
    (h : certFieldsOfDer d = some v) : certFieldsOfDerRd d = some v := by
  unfold certFieldsOfDer at h
  split at h
  · rename_i serial sigOid issuer nb na subject pkOid curveOid pk exts
    have hex : mapO parseExtRd exts = mapO parseExt exts := by
      refine mapO_congr _ _ _ (fun e he => ?_)
      have hsub : ∀ b ∈ e.enc, b ∈ (Der.cons 0x30 [.cons 0xA0 [.prim 0x02 [2]], .prim 0x02 serial, .cons 0x30 [.prim 0x06 sigOid], issuer,
          .cons 0x30 [nb, na], subject,
          .cons 0x30 [.cons 0x30 [.prim 0x06 pkOid, .prim 0x06 curveOid], .prim 0x03 (0 :: pk)],
          .cons 0xA3 [.cons 0x30 exts]]).enc := by
        intro b hbe
        have := mem_enc_of_mem_encL he b hbe
        simp [Der.enc, Der.encL, this]
      have hlen : e.enc.length ≤ (Der.cons 0x30 [.cons 0xA0 [.prim 0x02 [2]], .prim 0x02 serial, .cons 0x30 [.prim 0x06 sigOid], issuer,
          .cons 0x30 [nb, na], subject,
          .cons 0x30 [.cons 0x30 [.prim 0x06 pkOid, .prim 0x06 curveOid], .prim 0x03 (0 :: pk)],
          .cons 0xA3 [.cons 0x30 exts]]).enc.length := by
        have := length_enc_le_encL he
        simp [Der.enc, Der.encL]; omega
      exact parseExt_eq_rd e (fun b hbe => hb b (hsub b hbe)) (by omega)
    simp only [certFieldsOfDerRd, hex]
    exact h
  · simp at h
end Codec.CertAsn1

namespace Codec.CertAsn1
open Codec Codec.Der

/-- **a Matter integer DN attribute reads back as the integer.** What the round trip returns for an attribute with an
integer value `v` (`Attr.view`: the UTF8String `as_asn1` wrote) is a hexadecimal string that the X.509 parser's own
`hex_digit` (`hexRead`) reads as `v`. Exact condition: the value fits the width of its format — 16 digits (`< 2^64`, part of
`Attr.WF`) for node / firmware-signing / ICAC / RCAC / fabric id (tags 17..21), 8 digits (`< 2^32`) for the CASE
authenticated tag (tag 22; a wider value makes `{:08X}` print more digits — then the string is still `v` in hexadecimal
but no longer the fixed-width form, not covered here). -/
theorem attr_integer_read_back (a : Attr) (v : Nat) (hw : a.WF) (hv : a.val = .uint v) (h32 : a.tag = 22 → v < 4294967296) :
    ∃ av, a.view = some av ∧ av.tag = a.tag ∧ av.printable = false ∧ hexRead av.str 0 = some v := by
  obtain ⟨tag, val⟩ := a
  simp only at hv; subst hv
  obtain ⟨h1, h2, h3, h4⟩ := hw
  simp only at h1 h2 h3 h4 h32
  have : tag = 17 ∨ tag = 18 ∨ tag = 19 ∨ tag = 20 ∨ tag = 21 ∨ tag = 22 := by omega
  rcases this with rfl | rfl | rfl | rfl | rfl | rfl
  all_goals first
    | exact ⟨_, rfl, rfl, rfl, hexRead_hexUp 16 v (by simpa using h4)⟩
    | exact ⟨_, rfl, rfl, rfl, hexRead_hexUp 8 v (by simpa using h32 rfl)⟩

theorem mapO_mem {α β : Type} (f : α → Option β) : ∀ (l : List α) (bs : List β), mapO f l = some bs →
    ∀ a ∈ l, ∃ b ∈ bs, f a = some b
  | [], _, _, a, ha => by cases ha
  | x :: r, bs, h, a, ha => by
    obtain ⟨b, bs2, h1, h2, rfl⟩ := mapO_some_cons _ _ _ _ h
    rcases List.mem_cons.1 ha with rfl | ha
    · exact ⟨b, by simp, h1⟩
    · obtain ⟨c, hc, hfc⟩ := mapO_mem f r bs2 h2 a ha
      exact ⟨c, by simp [hc], hfc⟩

end Codec.CertAsn1

namespace C17
open Codec Codec.Der Codec.CertAsn1

/-- **Certificate round trip, every octet read by the model of the `der` crate** (audit C17 concern 2; supersedes the
"outer tree only" reading of `cert_der_roundtrip_derrd`). For a certificate within the declared bounds and a buffer with
room: `as_asn1` writes `n.enc`; if these are octets (`< 256`: the model's bytes are `Nat`, the real output is a `&[u8]`),
the `der`-crate tree reader returns a tree `d` and `certFieldsOfDerRd d` — `certFieldsOfDer` with the value inside every
known extension's `extnValue` read by `readTree` too, so that `Der.parseDer` is not used anywhere — returns the certificate's
fields (`Fields.view`). The tree → fields step itself stays specification-side (rs-matter has no X.509 → TLV conversion). -/
theorem cert_der_roundtrip_rd (f : Fields) (h : f.Legal) :
    ∃ n, certNode f = some n ∧ ∀ buf : List Nat, n.need ≤ buf.length → buf.length < 65536 → (∀ b ∈ n.enc, b < 256) →
      ∃ d v, asAsn1 f.lazy buf = .ok n.enc ∧ readTree n.enc = some d ∧ certFieldsOfDerRd d = some v ∧ f.view = some v := by
  obtain ⟨n, hn, hall⟩ := cert_der_roundtrip_derrd f h
  refine ⟨n, hn, fun buf hfit hsmall hoct => ?_⟩
  obtain ⟨d, v, h1, _, h3, _, _, h6, h7⟩ := hall buf hfit hsmall
  obtain ⟨_, _, he⟩ := readTree_sound n.enc hoct d h3
  have hmax : d.enc.length ≤ DerRd.MAX_LEN := by
    have := need_ge n
    have : DerRd.MAX_LEN = 268435455 := rfl
    rw [← he]; omega
  exact ⟨d, v, h1, h3, certFieldsOfDer_eq_rd d v (by rw [← he]; exact hoct) hmax h6, h7⟩

/-- non-vacuity: the output for the sample consists of octets -/
example : (certNode certSampleX509).map (fun n => n.enc.all (· < 256)) = some true := by decide +kernel

/-- **the integers of the DN attributes come back** (companion of the round trip): every integer-valued attribute of the
issuer / subject appears in the view the round trip returns (`f.view`) as a string that `hex_digit` reads as the integer -/
theorem cert_dn_integers_read_back (f : Fields) (h : f.Legal) (vw : View) (hv : f.view = some vw) (a : Attr) (v : Nat)
    (ha : a ∈ f.issuer ∨ a ∈ f.subject) (hval : a.val = .uint v) (h32 : a.tag = 22 → v < 4294967296) :
    ∃ av, (av ∈ vw.issuer ∨ av ∈ vw.subject) ∧ av.tag = a.tag ∧ av.printable = false ∧ hexRead av.str 0 = some v := by
  unfold Fields.view at hv
  cases hi : mapO Attr.view f.issuer with
  | none => simp [hi, bind, Option.bind] at hv
  | some vi =>
  cases hs : mapO Attr.view f.subject with
  | none => simp [hi, hs, bind, Option.bind] at hv
  | some vs =>
  cases hx : mapO XExt.view f.exts with
  | none => simp [hi, hs, hx, bind, Option.bind] at hv
  | some vx =>
    simp only [hi, hs, hx, bind, Option.bind, pure, Option.some.injEq] at hv
    subst hv
    rcases ha with ha | ha
    · obtain ⟨av, e1, e2, e3, e4⟩ := attr_integer_read_back a v (h.wf.1 a ha) hval h32
      obtain ⟨b, hb, hfb⟩ := mapO_mem Attr.view _ _ hi a ha
      rw [e1] at hfb; cases hfb
      exact ⟨av, Or.inl hb, e2, e3, e4⟩
    · obtain ⟨av, e1, e2, e3, e4⟩ := attr_integer_read_back a v (h.wf.2.1 a ha) hval h32
      obtain ⟨b, hb, hfb⟩ := mapO_mem Attr.view _ _ hs a ha
      rw [e1] at hfb; cases hfb
      exact ⟨av, Or.inr hb, e2, e3, e4⟩

/-- non-vacuity: the node id `0xBC5C02` of the sample subject -/
example : ({ tag := 17, val := .uint 0xBC5C02 } : Attr) ∈ certSampleX509.subject ∧
    ({ tag := 17, val := .uint 0xBC5C02 } : Attr).WF := ⟨by simp [certSampleX509], by simp [Attr.WF]⟩
example : hexRead (hexUp 16 0xBC5C02) 0 = some 0xBC5C02 := by decide

/-! ### the theorems of `CodecDerLinkX509.lean` / `CodecDerLinkWalk.lean` applied to the sample -/
example := cert_der_roundtrip_derrd certSampleX509 certSampleX509_legal
example := cert_der_roundtrip_rd certSampleX509 certSampleX509_legal
example := cert_x509_field_readers certSampleX509 certSampleX509_legal rfl rfl
example := cert_x509_tbs_walk certSampleX509 certSampleX509_legal rfl rfl
example := cert_x509_new_refused certSampleX509 certSampleX509_legal .dac
example := cert_x509_new_refused certSampleX509 certSampleX509_legal .pai
example := cert_x509_new_refused certSampleX509 certSampleX509_legal .paa
/-- the inner `∀ buf` of these theorems is not vacuous: the sample needs less than 64 KiB -/
example : (certNode certSampleX509).map (fun n => decide (n.need < 65536)) = some true := by decide +kernel
/-- an RCAC-shaped extension list (path length 200: needs the leading zero octet of fix C17-cert-pathlen-negative) -/
example := cert_x509_exts_read [.basic true (some 200), .keyUsage 0x60, .subjKeyId [1, 2], .authKeyId [3]] _
  (by intro e he; simp at he; rcases he with rfl | rfl | rfl | rfl <;> simp [XExt.WF])
  (by decide : mapO XExt.toX _ = some [.basicConstraints true true (some 200), .keyUsage true 1 [0x06],
    .subjectKeyId false [1, 2], .authorityKeyId false [3]]) 10 (by decide)
/-- the extension list of the sample itself (a NOC: critical extended key usage) is refused -/
example := cert_x509_exts_eku_refused [.basic true (some 0), .keyUsage 0x60] [.subjKeyId [1, 2], .authKeyId [3]] [2, 1] _
  (by intro e he; simp at he; rcases he with rfl | rfl <;> simp [XExt.WF])
  (by decide : mapO XExt.toX _ = some [.basicConstraints true true (some 0), .keyUsage true 1 [0x06]]) 10 (by decide)
example : certSampleX509.exts = [.basic true (some 0), .keyUsage 0x60] ++ .extKeyUsage [2, 1] :: [.subjKeyId [1, 2], .authKeyId [3]] := rfl

end C17
