//! C20 `rdv` cases (unit level): the single-occupancy mDNS rendezvous slots of a real `Matter`, driven with a
//! MANUAL poll order — the tie of the slot machine of `Model/Rendezvous.lean` (the driver replays every op with
//! `Rendezvous.step` and compares the slot state after every op).
//!
//! Case kind: `rdv resolve` (the private `Transport::resolve`, hook `verif_resolve`) or `rdv browse`
//! (`Transport::browse_commissionable`). Ops:
//!   `arr <w> <timeout ms>`  waiter `w` calls resolve / browse and its future is polled once
//!                           => `placed` (its request went into the slot) | `queued` (slot occupied)
//!   `poll <w>`              the future of waiter `w` is polled again
//!                           => `placed` | `pending` | `ok` (answer consumed) | `err:NotFound` (its timer fired) | `none`
//!   `pick`                  responder: `wait_mdns_*_request` polled once  => `picked` | `none`
//!   `dep [bad]`             responder: `try_deposit_mdns_*` with a matching (`bad`: non-matching) answer  => `ok`
//!   `drop <w>`              the future of waiter `w` is dropped without being polled (cancellation by an outer
//!                           select / time-out / task shutdown)  => `ok` | `none`
//!   `t <ms>`                time passes
//! Every line: `<result> # <resolve slot><browse slot>` with `i` Idle, `q` Requested, `f` InFlight, `r` Resolved / Found
//! (hook `verif_mdns_rendezvous_state`).
use core::future::Future;
use core::net::{IpAddr, Ipv4Addr};
use core::pin::Pin;
use std::panic::{catch_unwind, AssertUnwindSafe};

use embassy_time::{Duration, MockDriver};
use futures_lite::future::{block_on, poll_once};

use rs_matter::dm::devices::test::{TEST_DEV_ATT, TEST_DEV_COMM, TEST_DEV_DET};
use rs_matter::error::Error;
use rs_matter::transport::network::mdns::{CommissionableFilter, DottedName, MdnsRemoteService};
use rs_matter::Matter;

use crate::proto::{Case, Out};
use crate::rng::Rng;

pub const RDV_RULE: &str = "rdv cases (unit level, REAL rendezvous slots, manual poll order): one real Matter; 1-3 waiters call the real Transport::resolve / browse_commissionable (time-outs 3 s / 5 s / 60 s) and are polled one at a time; the responder side (wait_mdns_*_request, try_deposit_mdns_* with matching and non-matching answers) is called in between; waiter futures are dropped WITHOUT being polled in every slot state (queued, Requested, InFlight, Resolved / Found - answer deposited, waiter not yet polled), time steps around the waiters' deadlines; every third case starts with the schedule place - pick up - deposit - drop - next waiter; the driver replays every op with Rendezvous.step and compares the slot state after every op";

const CFID: u64 = 0x1122;
const NID: u64 = 0x3344;

type Fut<'a> = Pin<Box<dyn Future<Output = Result<(), Error>> + 'a>>;

struct World<'a> {
    matter: &'a Matter<'a>,
    filter: &'a CommissionableFilter,
    browse: bool,
    waiters: Vec<(u64, Fut<'a>)>,
}

impl<'a> World<'a> {
    fn state(&self) -> (char, char) {
        let (r, b) = self.matter.transport().verif_mdns_rendezvous_state();
        (r as char, b as char)
    }

    fn mine(&self) -> char {
        let s = self.state();
        if self.browse {
            s.1
        } else {
            s.0
        }
    }

    /// poll the future of waiter `w` once
    fn poll(&mut self, w: u64) -> String {
        let before = self.mine();
        let Some(i) = self.waiters.iter().position(|x| x.0 == w) else {
            return "none".into();
        };
        match block_on(poll_once(self.waiters[i].1.as_mut())) {
            None => {
                if before == 'i' && self.mine() == 'q' {
                    "placed".into()
                } else {
                    "pending".into()
                }
            }
            Some(r) => {
                drop(self.waiters.remove(i));
                match r {
                    Ok(()) => "ok".into(),
                    Err(e) => format!("err:{:?}", e.code()),
                }
            }
        }
    }

    fn op(&mut self, op: &str) -> String {
        let w: Vec<&str> = op.split_whitespace().collect();
        let num = |i: usize| -> u64 { w.get(i).and_then(|t| t.parse().ok()).unwrap_or(0) };
        match w.first().copied().unwrap_or("") {
            "arr" => {
                let id = num(1);
                if self.waiters.iter().any(|x| x.0 == id) {
                    return "none".into();
                }
                let t = num(2).clamp(1, 1_000_000) as u32;
                let tr = self.matter.transport();
                let fut: Fut<'a> = if self.browse {
                    let f = self.filter;
                    Box::pin(async move { tr.browse_commissionable(f, &[], t).await.map(|_| ()) })
                } else {
                    Box::pin(async move { tr.verif_resolve(CFID, NID, t).await.map(|_| ()) })
                };
                self.waiters.push((id, fut));
                match self.poll(id).as_str() {
                    "pending" => "queued".into(),
                    r => r.to_string(),
                }
            }
            "poll" => self.poll(num(1)),
            "pick" => {
                let tr = self.matter.transport();
                let got = if self.browse {
                    block_on(poll_once(core::pin::pin!(tr.wait_mdns_browse_request()))).is_some()
                } else {
                    block_on(poll_once(core::pin::pin!(tr.wait_mdns_resolve_request()))).is_some()
                };
                if got { "picked" } else { "none" }.into()
            }
            "dep" => {
                let bad = w.get(1).copied() == Some("bad");
                let tr = self.matter.transport();
                if self.browse {
                    // discriminator 0xA12 = 2578 (short 0xA) matches the filter; 0x312 = 786 does not
                    tr.try_deposit_mdns_browse(&MdnsRemoteService {
                        instance_name: DottedName("0000000000001111._matterc._udp.local"),
                        port: Some(5540),
                        addrs: [IpAddr::V4(Ipv4Addr::new(10, 0, 0, 1))].into_iter(),
                        txt: [("D", if bad { "786" } else { "2578" }), ("CM", "1")].into_iter(),
                        scope_id: 0,
                    });
                } else {
                    let name = format!("{:016X}-{:016X}._matter._tcp.local", CFID, if bad { NID + 1 } else { NID });
                    tr.try_deposit_mdns_resolve(
                        &MdnsRemoteService {
                            instance_name: DottedName(name.as_str()),
                            port: Some(1234),
                            addrs: [IpAddr::V4(Ipv4Addr::new(10, 0, 0, 5))].into_iter(),
                            txt: core::iter::empty::<(&str, &str)>(),
                            scope_id: 0,
                        },
                        &[],
                    );
                }
                "ok".into()
            }
            "drop" => match self.waiters.iter().position(|x| x.0 == num(1)) {
                Some(i) => {
                    drop(self.waiters.remove(i));
                    "ok".into()
                }
                None => "none".into(),
            },
            "t" => {
                MockDriver::get().advance(Duration::from_millis(num(1)));
                "ok".into()
            }
            _ => "bad".into(),
        }
    }
}

pub fn run_rdv_with(out: &mut Out, kind: &str, f: &mut dyn FnMut(&mut dyn FnMut(&str) -> String)) {
    MockDriver::get().reset();
    MockDriver::get().advance(Duration::from_millis(1000));
    let matter = Box::new(Matter::new(&TEST_DEV_DET, TEST_DEV_COMM, &TEST_DEV_ATT, 0));
    let filter = CommissionableFilter { short_discriminator: Some(0xA), ..Default::default() };
    let mut w = World { matter: &matter, filter: &filter, browse: kind.contains("browse"), waiters: Vec::new() };
    {
        let mut exec = |op: &str| -> String {
            let before = w.mine();
            let r = match catch_unwind(AssertUnwindSafe(|| w.op(op))) {
                Ok(r) => r,
                Err(_) => "panic".to_string(),
            };
            let (a, b) = w.state();
            out.stat(&format!("rdv_op_{}", op.split_whitespace().next().unwrap_or("?")), 1);
            out.stat(&format!("rdv_res_{}", r.split(':').next().unwrap_or("?")), 1);
            if op.starts_with("drop") && r == "ok" {
                // in which slot state a waiter's future was dropped (r = answer deposited, not yet consumed)
                out.stat(&format!("rdv_drop_in_{}", before), 1);
            }
            let full = format!("{} # {}{}", r, a, b);
            out.op(op, &full);
            full
        };
        f(&mut exec);
    }
    let World { waiters, .. } = w;
    let _ = catch_unwind(AssertUnwindSafe(move || drop(waiters)));
}

pub fn run_rdv(out: &mut Out, case: &Case) {
    run_rdv_with(out, &case.kind, &mut |exec| {
        for op in &case.ops {
            exec(op);
        }
    });
}

/// generator: state-aware random schedules (it reads the real slot state to steer towards occupied slots)
pub fn gen_rdv(r: &mut Rng, out: &mut Out, kind: &str, len: usize) {
    run_rdv_with(out, kind, &mut |exec| {
        let mut live: Vec<u64> = Vec::new();
        let mut next = 0u64;
        let tmo = |r: &mut Rng| *r.pick(&[3000u64, 5000, 60000]);
        // the schedule of seeded change C20-c: answer deposited, waiter dropped before it is polled again
        if r.chance(1, 3) {
            exec(&format!("arr 0 {}", tmo(r)));
            exec("pick");
            exec("dep");
            if r.chance(1, 3) {
                exec(&format!("arr 1 {}", tmo(r)));
                live.push(1);
                next = 2;
            } else {
                next = 1;
            }
            exec("drop 0");
        }
        for _ in 0..len {
            let roll = r.below(100);
            let op: String = match roll {
                0..=19 if live.len() < 3 => {
                    let id = next;
                    next += 1;
                    live.push(id);
                    format!("arr {} {}", id, tmo(r))
                }
                0..=39 => if live.is_empty() || r.chance(1, 15) { format!("poll {}", r.below(4)) } else { format!("poll {}", *r.pick(&live)) },
                40..=54 => "pick".into(),
                55..=69 => if r.chance(1, 5) { "dep bad".into() } else { "dep".into() },
                70..=84 => if live.is_empty() || r.chance(1, 15) { format!("drop {}", r.below(4)) } else { format!("drop {}", *r.pick(&live)) },
                _ => format!("t {}", *r.pick(&[1u64, 100, 2999, 3000, 4999, 5000, 60000])),
            };
            let full = exec(&op);
            let res = full.split(" # ").next().unwrap_or("").to_string();
            let w: Vec<&str> = op.split_whitespace().collect();
            let id = w.get(1).and_then(|t| t.parse::<u64>().ok()).unwrap_or(0);
            if w[0] == "drop" || (w[0] == "poll" && (res == "ok" || res.starts_with("err"))) {
                live.retain(|x| *x != id);
            }
        }
    });
}
