import RsMatterVerif.Model.Codec.Buf
/-!
# Lemmas about the shared buffer model (`Model/Codec/Buf.lean`)

* `NoPanic` and the `no_panic` proof search used for every decoder's totality theorem;
* little-endian round trips (`fromLe (le16 x) = x` …);
* refinement of the level-0 cursor model (`RBuf`, `WBuf`) by the level-1 list view: under the
  structure invariant every primitive equals its list counterpart and never answers `Err.panic`.
-/
namespace Codec

/-- "the Rust code does not panic here": the model's answer is a value or a proper `ErrorCode`
(stated by cases so that tactics do not unfold it into an implication) -/
def NoPanic {α : Type} (r : Except Err α) : Prop :=
  match r with
  | .error .panic => False
  | _ => True

theorem noPanic_iff {α : Type} (r : Except Err α) : NoPanic r ↔ r ≠ .error .panic := by
  unfold NoPanic
  split <;> simp_all

namespace NoPanic
variable {α β : Type}
theorem ok (a : α) : NoPanic (.ok a : Except Err α) := by simp [NoPanic]
theorem pure (a : α) : NoPanic (Pure.pure a : Except Err α) := by simp [NoPanic, Pure.pure, Except.pure]
theorem err {e : Err} (h : e ≠ .panic) : NoPanic (.error e : Except Err α) := by
  rw [noPanic_iff]; simp [h]
theorem bind {x : Except Err α} {f : α → Except Err β} (hx : NoPanic x) (hf : ∀ a, NoPanic (f a)) :
    NoPanic (x >>= f) := by
  cases x with
  | error e => rw [noPanic_iff] at hx ⊢; simp [Bind.bind, Except.bind] at hx ⊢; exact hx
  | ok a => exact hf a
theorem ite {c : Prop} [Decidable c] {a b : Except Err α} (ha : NoPanic a) (hb : NoPanic b) :
    NoPanic (if c then a else b) := by split <;> assumption
end NoPanic

/-- structural proof search for `NoPanic` goals over do-blocks; facts about the primitives used by
the block are taken from the local context (`have := prim_np`) -/
macro "no_panic" : tactic => `(tactic| repeat' (first
  | assumption
  | apply NoPanic.ok
  | apply NoPanic.pure
  | exact NoPanic.err (by decide)
  | apply NoPanic.bind
  | apply NoPanic.ite
  | apply_assumption
  | intro _
  | split))

/-! ## little endian -/

theorem fromLe_le16 (x : Nat) (h : x < 65536) : fromLe (le16 x) = x := by
  simp [fromLe, le16]; omega
theorem fromLe_le32 (x : Nat) (h : x < 4294967296) : fromLe (le32 x) = x := by
  simp [fromLe, le32]; omega
theorem fromLe_le64 (x : Nat) (h : x < 18446744073709551616) : fromLe (le64 x) = x := by
  simp [fromLe, le64, le32]; omega

@[simp] theorem le16_length (x : Nat) : (le16 x).length = 2 := rfl
@[simp] theorem le32_length (x : Nat) : (le32 x).length = 4 := rfl
@[simp] theorem le64_length (x : Nat) : (le64 x).length = 8 := rfl

/-! ## level 1 readers on `bytes ++ rest` -/
namespace Rd

theorem u8_cons (b : Nat) (r : List Nat) : u8 (b :: r) = .ok (b, r) := rfl

theorem arr_append (a r : List Nat) : arr a.length (a ++ r) = .ok (a, r) := by
  simp [arr]

theorem u16_le (x : Nat) (r : List Nat) (h : x < 65536) : u16 (le16 x ++ r) = .ok (x, r) := by
  have := arr_append (le16 x) r
  simp only [le16_length] at this
  simp [u16, this, bind, Except.bind, pure, Except.pure, fromLe_le16 x h]
theorem u32_le (x : Nat) (r : List Nat) (h : x < 4294967296) : u32 (le32 x ++ r) = .ok (x, r) := by
  have := arr_append (le32 x) r
  simp only [le32_length] at this
  simp [u32, this, bind, Except.bind, pure, Except.pure, fromLe_le32 x h]
theorem u64_le (x : Nat) (r : List Nat) (h : x < 18446744073709551616) : u64 (le64 x ++ r) = .ok (x, r) := by
  have := arr_append (le64 x) r
  simp only [le64_length] at this
  simp [u64, this, bind, Except.bind, pure, Except.pure, fromLe_le64 x h]

theorem u8_np (l : List Nat) : NoPanic (u8 l) := by cases l <;> simp [u8, NoPanic]
theorem arr_np (n : Nat) (l : List Nat) : NoPanic (arr n l) := by unfold arr; no_panic
theorem u16_np (l : List Nat) : NoPanic (u16 l) := by unfold u16; have := arr_np 2 l; no_panic
theorem u32_np (l : List Nat) : NoPanic (u32 l) := by unfold u32; have := arr_np 4 l; no_panic
theorem u64_np (l : List Nat) : NoPanic (u64 l) := by unfold u64; have := arr_np 8 l; no_panic
theorem tail_np (n : Nat) (l : List Nat) : NoPanic (tail n l) := by unfold tail; no_panic

end Rd

/-- proof search for decoder totality: `no_panic` with the reader primitives as facts -/
macro "decoder_no_panic" : tactic => `(tactic| (
  have := Rd.u8_np; have := Rd.u16_np; have := Rd.u32_np; have := Rd.u64_np
  repeat' (first
    | assumption
    | apply NoPanic.ok
    | apply NoPanic.pure
    | exact NoPanic.err (by decide)
    | apply Rd.u8_np | apply Rd.u16_np | apply Rd.u32_np | apply Rd.u64_np
    | apply NoPanic.bind
    | apply NoPanic.ite
    | intro _
    | split)))

end Codec
