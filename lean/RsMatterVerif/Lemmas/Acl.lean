import RsMatterVerif.Model.Acl
/-!
# Lemmas for C05: each function of the model against the corresponding clause of the specification
-/
namespace Acl

/-! ## A. subject identifiers: bit masks of the code = the arithmetic fields of the specification -/

theorem getNocCatVersion_eq (id : Nat) : getNocCatVersion id = catVersion id := by
  unfold getNocCatVersion catVersion
  have : Consts.nocCatVersionMask = 2 ^ 16 - 1 := by decide
  rw [this, Nat.and_two_pow_sub_one_eq_mod]

theorem getNocCatId_eq (id : Nat) : getNocCatId id = catId id := by
  unfold getNocCatId catId
  have h1 : Consts.nocCatIdShift = 16 := by decide
  rw [h1, Nat.shiftRight_and_distrib]
  have : Consts.nocCatIdMask >>> 16 = 2 ^ 16 - 1 := by decide
  rw [this, Nat.and_two_pow_sub_one_eq_mod, Nat.shiftRight_eq_div_pow]

theorem and_low_eq (id : Nat) :
    id &&& (Consts.nocCatIdMask ||| Consts.nocCatVersionMask) = id % 2 ^ 32 := by
  have : (Consts.nocCatIdMask ||| Consts.nocCatVersionMask) = 2 ^ 32 - 1 := by decide
  rw [this, Nat.and_two_pow_sub_one_eq_mod]

theorem eq_iff_split32 (a b : Nat) : a = b ↔ a >>> 32 = b >>> 32 ∧ a % 2 ^ 32 = b % 2 ^ 32 := by
  constructor
  · rintro rfl; exact ⟨rfl, rfl⟩
  · rintro ⟨h1, h2⟩
    rw [Nat.shiftRight_eq_div_pow, Nat.shiftRight_eq_div_pow] at h1
    rw [← Nat.div_add_mod a (2 ^ 32), ← Nat.div_add_mod b (2 ^ 32), h1, h2]

theorem prefix_eq_iff (id : Nat) :
    (id &&& Consts.nocCatSubjectMask = Consts.nocCatSubjectPrefix) ↔ (id / 2 ^ 32) % 2 ^ 32 = 0xFFFFFFFD := by
  rw [eq_iff_split32, Nat.shiftRight_and_distrib, Nat.and_mod_two_pow]
  have m1 : Consts.nocCatSubjectMask >>> 32 = 2 ^ 32 - 1 := by decide
  have m2 : Consts.nocCatSubjectMask % 2 ^ 32 = 0 := by decide
  have p1 : Consts.nocCatSubjectPrefix >>> 32 = 0xFFFFFFFD := by decide
  have p2 : Consts.nocCatSubjectPrefix % 2 ^ 32 = 0 := by decide
  rw [m1, m2, p1, p2, Nat.and_two_pow_sub_one_eq_mod, Nat.shiftRight_eq_div_pow]
  simp

theorem isNocCat_iff (id : Nat) : isNocCat id = true ↔ IsCat id := by
  unfold isNocCat IsCat
  rw [Bool.and_eq_true, beq_iff_eq, prefix_eq_iff, and_low_eq, decide_eq_true_iff]
  omega

theorem slotMatches_iff (v s : Nat) : slotMatches v s = true ↔
    v ≠ 0 ∧ (v = s ∨ (IsCat v ∧ IsCat s ∧ catId v = catId s ∧ catVersion s ≤ catVersion v)) := by
  unfold slotMatches
  by_cases h0 : v = 0
  · simp [h0]
  · by_cases hs : v = s
    · simp [hs]
    · simp only [beq_iff_eq, h0, hs, if_false, Bool.and_eq_true, isNocCat_iff, getNocCatId_eq,
        getNocCatVersion_eq, decide_eq_true_iff, ne_eq, not_false_eq_true, true_and, false_or, and_assoc, ge_iff_le]

theorem subjectsMatches_iff (a : Accessor) (s : Nat) :
    subjectsMatches a.subjects s = true ↔ SubjectMatch a s := by
  unfold subjectsMatches SubjectMatch
  simp only [List.any_eq_true, slotMatches_iff]

theorem subjectMatchB_iff (a : Accessor) (s : Nat) : subjectMatchB a s = true ↔ SubjectMatch a s := by
  unfold subjectMatchB SubjectMatch
  simp only [List.any_eq_true, Bool.and_eq_true, Bool.or_eq_true, decide_eq_true_iff, and_assoc]

/-! ## B. `Access::is_ok` = the privilege table of the specification -/

theorem and_small (d c : Nat) (h : c < 64) : d &&& c = (d % 64) &&& c := by
  have h1 : (d &&& c) % 2 ^ 6 = (d % 2 ^ 6) &&& (c % 2 ^ 6) := Nat.and_mod_two_pow ..
  have h2 : d &&& c ≤ c := Nat.and_le_right
  have h3 : (d &&& c) % 2 ^ 6 = d &&& c := Nat.mod_eq_of_lt (by omega)
  have h4 : c % 2 ^ 6 = c := Nat.mod_eq_of_lt (by omega)
  rw [h3, h4] at h1
  exact h1

/-- the privilege clause of the specification as one boolean -/
def privSpecB (decl : Nat) (o : Op) (p : Priv) : Bool :=
  declOffers decl o && (match requiredPriv decl o with | some q => p.includes q | none => false)

/-- The finite table: 64 declarations (the six bits `is_ok` looks at) × 2 operations × 5 privileges,
checked by kernel evaluation. -/
theorem isOk_table : ∀ d < 64, ∀ o ∈ [Op.read, Op.write], ∀ p ∈ Priv.all,
    isOk d o.bits p.bits = privSpecB d o p := by decide +kernel

theorem isOk_mod (d op p : Nat) (h : op < 64) : isOk d op p = isOk (d % 64) op p := by
  unfold isOk contains
  rw [and_small d READ_PRIVILEGE_MASK (by decide), and_small d WRITE_PRIVILEGE_MASK (by decide),
    and_small d op h]

theorem declHas_mod (d c : Nat) (h : c < 64) : declHas d c = declHas (d % 64) c := by
  unfold declHas; rw [and_small d c h]

theorem privSpecB_mod (d : Nat) (o : Op) (p : Priv) : privSpecB d o p = privSpecB (d % 64) o p := by
  unfold privSpecB declOffers requiredPriv
  cases o <;> simp only [declHas_mod d Consts.accRead (by decide), declHas_mod d Consts.accWrite (by decide),
    declHas_mod d Consts.accNeedView (by decide), declHas_mod d Consts.accNeedOperate (by decide),
    declHas_mod d Consts.accNeedManage (by decide), declHas_mod d Consts.accNeedAdmin (by decide)]

/-- `is_ok` lifted from the table to every declaration value. -/
theorem isOk_eq_spec (d : Nat) (o : Op) (p : Priv) : isOk d o.bits p.bits = privSpecB d o p := by
  rw [isOk_mod d o.bits p.bits (by cases o <;> decide), privSpecB_mod]
  exact isOk_table (d % 64) (Nat.mod_lt _ (by decide)) o (by cases o <;> simp) p
    (by cases p <;> simp [Priv.all])

/-! ## C. entry matching -/

theorem subjectsAllow_iff (e : Entry) (a : Accessor) : subjectsAllow e a = true ↔ SubjectsOk e a := by
  unfold SubjectsOk subjectsAllow
  cases h : e.subjects with
  | none => simp
  | some ss =>
    cases ss with
    | nil => simp
    | cons x xs =>
      simp only [List.isEmpty_cons, Bool.false_or, List.any_eq_true, subjectsMatches_iff, reduceCtorEq,
        false_or, Option.some.injEq, exists_eq_left']

theorem matchAccessor_iff (e : Entry) (a : Accessor) :
    matchAccessor e a = true ↔
      some e.authMode = a.authMode ∧ SubjectsOk e a ∧ e.fabIdx = some a.fabIdx := by
  unfold matchAccessor
  by_cases hm : some e.authMode = a.authMode
  · have : (some e.authMode != a.authMode) = false := by simp [hm]
    rw [this]
    simp only [Bool.false_eq_true, if_false, Bool.and_eq_true, subjectsAllow_iff, hm, true_and]
    cases e.fabIdx <;> simp
  · have : (some e.authMode != a.authMode) = true := by simp [hm]
    rw [this]
    simp [hm]

theorem targetMatches_iff (t : Target) (o : AccessDesc) : targetMatches t o = true ↔ TargetMatch t o := by
  unfold targetMatches TargetMatch
  rcases t with ⟨cl, ep, dt⟩
  simp only [Bool.and_eq_true, Bool.or_eq_true]
  rw [and_assoc]
  refine and_congr ?_ (and_congr ?_ ?_)
  · cases ep with
    | none => simp
    | some x => simp; exact eq_comm
  · cases cl with
    | none => simp
    | some x => simp; exact eq_comm
  · cases dt with
    | none => simp
    | some x => simp

theorem targetMatchB_iff (t : Target) (o : AccessDesc) : targetMatchB t o = true ↔ TargetMatch t o := by
  unfold targetMatchB TargetMatch
  rcases t with ⟨cl, ep, dt⟩
  simp only [Bool.and_eq_true]
  rw [and_assoc]
  refine and_congr ?_ (and_congr ?_ ?_)
  · cases ep with
    | none => simp
    | some x => simp
  · cases cl with
    | none => simp
    | some x => simp
  · cases dt with
    | none => simp
    | some x => simp


theorem targetsAllow_iff (e : Entry) (o : AccessDesc) : targetsAllow e o = true ↔ TargetsOk e o := by
  unfold TargetsOk targetsAllow
  cases h : e.targets with
  | none => simp
  | some ts =>
    cases ts with
    | nil => simp
    | cons x xs =>
      simp only [List.isEmpty_cons, Bool.false_or, List.any_eq_true, targetMatches_iff, reduceCtorEq,
        false_or, Option.some.injEq, exists_eq_left']

theorem targetsOkB_iff (e : Entry) (o : AccessDesc) : targetsOkB e o = true ↔ TargetsOk e o := by
  unfold TargetsOk targetsOkB
  cases h : e.targets with
  | none => simp
  | some ts =>
    cases ts with
    | nil => simp
    | cons x xs =>
      simp only [List.any_eq_true, targetMatchB_iff, reduceCtorEq,
        false_or, Option.some.injEq, exists_eq_left']

theorem subjectsOkB_iff (e : Entry) (a : Accessor) : subjectsOkB e a = true ↔ SubjectsOk e a := by
  unfold SubjectsOk subjectsOkB
  cases h : e.subjects with
  | none => simp
  | some ss =>
    cases ss with
    | nil => simp
    | cons x xs =>
      simp only [List.any_eq_true, subjectMatchB_iff, reduceCtorEq,
        false_or, Option.some.injEq, exists_eq_left']

theorem targetsWildcard_iff (e : Entry) : targetsWildcard e = true ↔ (e.targets = none ∨ e.targets = some []) := by
  unfold targetsWildcard
  cases h : e.targets with
  | none => simp
  | some ts => cases ts <;> simp

theorem opOfBits_eq_some (b : Nat) (o : Op) : opOfBits b = some o ↔ b = o.bits := by
  unfold opOfBits Op.bits
  cases o
  · by_cases h1 : b = Consts.accRead
    · simp [h1]
    · by_cases h2 : b = Consts.accWrite <;> simp [h1, h2] <;> decide
  · by_cases h1 : b = Consts.accRead
    · simp [h1]; decide
    · by_cases h2 : b = Consts.accWrite <;> simp [h1, h2] <;> decide

theorem privOfBits_bits (p : Priv) : privOfBits p.bits = some p := by cases p <;> decide

theorem privOfBits_eq_some (b : Nat) (p : Priv) : privOfBits b = some p ↔ b = p.bits := by
  constructor
  · intro h
    unfold privOfBits at h
    have := List.find?_some h
    simp at this; exact this.symm
  · rintro rfl; exact privOfBits_bits p

/-- the privilege clause: code (`is_ok`) = specification (`PrivOk`), for the five privileges and
read / write -/
theorem isOk_iff_privOk (o : AccessDesc) (p : Priv) (op : Op) (hop : o.operation = op.bits) :
    permsOk o p.bits = true ↔ PrivOk p.bits o := by
  unfold PrivOk permsOk
  cases h : o.targetPerms with
  | none => simp
  | some decl =>
    simp only [hop, isOk_eq_spec, privSpecB, Bool.and_eq_true, Option.some.injEq, opOfBits_eq_some,
      privOfBits_eq_some]
    constructor
    · rintro ⟨h1, h2⟩
      cases hq : requiredPriv decl op with
      | none => simp [hq] at h2
      | some q =>
        simp only [hq] at h2
        exact ⟨decl, op, p, q, rfl, rfl, rfl, h1, hq, h2⟩
    · rintro ⟨decl', op', p', q, hd, ho, hp, h1, hq, h2⟩
      subst hd
      have : op' = op := by cases op <;> cases op' <;> first | rfl | (exfalso; revert ho; decide)
      subst this
      have : p' = p := by cases p <;> cases p' <;> first | rfl | (exfalso; revert hp; decide)
      subst this
      exact ⟨h1, by simp [hq, h2]⟩


theorem matchAccessDesc_iff (e : Entry) (req : AccessReq) (p : Priv) (op : Op)
    (hp : e.privilege = p.bits) (hop : req.object.operation = op.bits) :
    matchAccessDesc e req.object req.accessor.auxAclEnabled = true ↔
      TargetsOk e req.object ∧ PrivOk e.privilege req.object ∧ ¬ AuxRootExcluded e req := by
  unfold matchAccessDesc
  have hx : (req.accessor.auxAclEnabled && e.authMode == AuthMode.group
      && req.object.path.endpoint == some Consts.rootEndpointId && targetsWildcard e) = true
      ↔ AuxRootExcluded e req := by
    unfold AuxRootExcluded
    simp only [Bool.and_eq_true, beq_iff_eq, targetsWildcard_iff, and_assoc]
  by_cases hex : AuxRootExcluded e req
  · rw [if_pos (hx.mpr hex)]
    simp [hex]
  · rw [if_neg (fun h => hex (hx.mp h))]
    by_cases ht : targetsAllow e req.object = true
    · rw [if_pos ht, hp, isOk_iff_privOk req.object p op hop]
      simp [hex, (targetsAllow_iff e req.object).mp ht]
    · rw [if_neg ht]
      have : ¬ TargetsOk e req.object := fun h => ht ((targetsAllow_iff e req.object).mpr h)
      simp [this]

theorem entryAllow_iff (e : Entry) (req : AccessReq) (p : Priv) (op : Op)
    (hp : e.privilege = p.bits) (hop : req.object.operation = op.bits) :
    entryAllow e req req.accessor.auxAclEnabled = true ↔
      EntryGrants e req ∧ e.fabIdx = some req.accessor.fabIdx := by
  unfold entryAllow EntryGrants
  rw [Bool.and_eq_true, matchAccessor_iff, matchAccessDesc_iff e req p op hp hop]
  constructor
  · rintro ⟨⟨a, b, c⟩, d, e', f⟩; exact ⟨⟨a, b, d, e', f⟩, c⟩
  · rintro ⟨⟨a, b, d, e', f⟩, c⟩; exact ⟨⟨a, b, c⟩, d, e', f⟩

theorem fabricsGet_some_mem {fabrics : List Fabric} {i : Nat} {f : Fabric}
    (h : fabricsGet fabrics i = some f) : f ∈ fabrics ∧ f.fabIdx = i := by
  unfold fabricsGet at h
  have h1 := List.mem_of_find?_eq_some h
  have h2 := List.find?_some h
  simp at h2
  exact ⟨h1, h2⟩

theorem fabricsGet_none {fabrics : List Fabric} {i : Nat}
    (h : fabricsGet fabrics i = none) : ∀ f ∈ fabrics, f.fabIdx ≠ i := by
  unfold fabricsGet at h
  rw [List.find?_eq_none] at h
  intro f hf
  have := h f hf
  simpa using this

theorem nodup_idx_unique {fabrics : List Fabric} (hd : (fabrics.map (·.fabIdx)).Nodup)
    {f g : Fabric} (hf : f ∈ fabrics) (hg : g ∈ fabrics) (h : f.fabIdx = g.fabIdx) : f = g := by
  induction fabrics with
  | nil => cases hf
  | cons x xs ih =>
    simp only [List.map_cons, List.nodup_cons, List.mem_map, not_exists, not_and] at hd
    rcases List.mem_cons.mp hf with rfl | hf'
    · rcases List.mem_cons.mp hg with rfl | hg'
      · rfl
      · exact absurd h.symm (hd.1 g hg')
    · rcases List.mem_cons.mp hg with rfl | hg'
      · exact absurd h (hd.1 f hf')
      · exact ih hd.2 hf' hg'

/-! ## D. fabric level -/

/-- every stored privilege is one of the five privileges of the cluster -/
def CanonicalPrivs (fabrics : List Fabric) : Prop :=
  ∀ f ∈ fabrics, ∀ e ∈ f.acl, ∃ p : Priv, e.privilege = p.bits

/-- the request is a read or a write (invoke is checked as a write) -/
def ReadOrWrite (req : AccessReq) : Prop := ∃ op : Op, req.object.operation = op.bits

theorem fabricAllow_iff (f : Fabric) (req : AccessReq)
    (hst : ∀ e ∈ f.acl, e.fabIdx = some f.fabIdx) (hidx : f.fabIdx = req.accessor.fabIdx)
    (hc : ∀ e ∈ f.acl, ∃ p : Priv, e.privilege = p.bits) (hop : ReadOrWrite req) :
    fabricAllow f req req.accessor.auxAclEnabled = true ↔ ∃ e ∈ f.acl, EntryGrants e req := by
  obtain ⟨op, hop⟩ := hop
  unfold fabricAllow
  rw [List.any_eq_true]
  constructor
  · rintro ⟨e, he, h⟩
    obtain ⟨p, hp⟩ := hc e he
    exact ⟨e, he, ((entryAllow_iff e req p op hp hop).mp h).1⟩
  · rintro ⟨e, he, h⟩
    obtain ⟨p, hp⟩ := hc e he
    exact ⟨e, he, (entryAllow_iff e req p op hp hop).mpr ⟨h, by rw [hst e he, hidx]⟩⟩

theorem auxGranted_iff (f : Fabric) (req : AccessReq) (hop : ReadOrWrite req) :
    (req.accessor.auxAclEnabled = true ∧ req.accessor.authMode = some AuthMode.group ∧
      auxGrantedBy f req = true) ↔ AuxGrants f req := by
  obtain ⟨op, hop⟩ := hop
  unfold AuxGrants auxGrantedBy
  have hpo : permsOk req.object PRIV_OPERATE = true ↔ PrivOk Priv.operate.bits req.object :=
    isOk_iff_privOk req.object Priv.operate op hop
  refine and_congr Iff.rfl (and_congr Iff.rfl ?_)
  cases hep : req.object.path.endpoint with
  | none => simp
  | some ep =>
    simp only [Bool.and_eq_true, List.any_eq_true, hpo, subjectsMatches_iff, Option.some.injEq,
      exists_eq_left', List.contains_eq_mem, decide_eq_true_iff]
    constructor
    · rintro ⟨⟨g, hg, ⟨h1, h2⟩, h3⟩, h4⟩
      refine ⟨g, hg, ?_, h2, h3, h4⟩
      unfold GroupMapping.hasAux at h1
      cases hh : g.hasAuxAcl with
      | none => simp [hh] at h1
      | some b => simp [hh] at h1; simp [h1]
    · rintro ⟨g, hg, h1, h2, h3, h4⟩
      refine ⟨⟨g, hg, ⟨?_, h2⟩, h3⟩, h4⟩
      unfold GroupMapping.hasAux; simp [h1]


end Acl
