/-!
# Administrative state machine of an rs-matter node (shared by C07, C08, C11)

Transliteration of
* `failsafe.rs` (`FailSafe::{arm, disarm, expire, check_failsafe_timeout, check_state, add_csr_req,
  update_csr_req, add_trusted_root_cert, add_noc, update_noc}`),
* `fabric.rs` (`Fabrics::{add_with_post_init, update, update_label, remove, add_load, load_persist,
  reset_persist}`, `FabricPersist`),
* `transport/session.rs` (`Sessions::{add, remove_for_fabric, remove_pase}`, `upgrade_fabric_idx`,
  the expiry gate),
* `sc/case/resumption.rs` (`insert_or_update`, `remove_for_fabric`, `load_persist`, `store_persist`),
* `sc/pase.rs` (window open / close / timeout), `dm/networks/wireless.rs` (network list),
* and of the *glue* of the cluster handlers around them, in the order in which the handlers change
  state, store and answer: `gen_comm.rs` (ArmFailSafe, CommissioningComplete,
  `with_armed_failsafe`), `noc.rs` (CSRRequest, AddTrustedRootCertificate, AddNOC, UpdateNOC,
  UpdateFabricLabel, RemoveFabric), `adm_comm.rs` (OpenBasicCommissioningWindow,
  RevokeCommissioning), `acl.rs` / `groups.rs` (persist unless armed for that fabric),
  `net_comm.rs`, `im.rs` (`check_timeouts` before every command and once per second),
  `lib.rs` (`startup`, `factory_reset`).

Certificates are symbolic: a root is the number of its CA, a NOC is `(ca, fabric id, node id,
serial)`; chain validation is "issued by the staged root".  The key-value store is a record of
decoded blobs; each `store` / `remove` is atomic; `failIn = n` makes the n-th next call fail.
`gen` fields are ghost state (never printed): the generation of the fabric a session / resumption
record was made for.  Import-free so that the driver links.
-/
namespace Admin

structure Cfg where
  maxFabrics : Nat := 5
  maxSessions : Nat := 16
  maxResum : Nat := 15
  maxAcl : Nat := 4
deriving Repr, DecidableEq, Inhabited

/-- `WifiNetworks<4>` of the harness -/
def maxNets : Nat := 4
/-- cargo feature `max-groups-per-fabric-4` of the harness crate -/
def maxGroups : Nat := 4

structure Fabric where
  idx : Nat
  /-- ghost: generation id, fresh for every `AddNOC` -/
  gen : Nat
  ca : Nat
  fid : Nat
  node : Nat
  ser : Nat
  acl : List Nat
  grp : List Nat
  label : Nat
deriving Repr, DecidableEq, Inhabited

inductive Mode
  | pase (fab : Nat)
  | case (fab : Nat)
deriving Repr, DecidableEq, Inhabited

def Mode.fab : Mode → Nat
  | .pase f => f
  | .case f => f

def Mode.isCase : Mode → Bool
  | .case _ => true
  | _ => false

def Mode.isPase : Mode → Bool
  | .pase _ => true
  | _ => false

structure Sess where
  id : Nat
  mode : Mode
  peer : Nat
  expired : Bool
  /-- ghost: generation of the fabric this session was authenticated for (0 = none) -/
  gen : Nat
  /-- `Session::reserved`: owned by a handshake that has not called `ReservedSession::complete` yet -/
  reserved : Bool := false
deriving Repr, DecidableEq, Inhabited

structure Resum where
  fab : Nat
  peer : Nat
  rid : Nat
  /-- ghost -/
  gen : Nat
deriving Repr, DecidableEq, Inhabited

structure Flags where
  addCsr : Bool := false
  updCsr : Bool := false
  root : Bool := false
  addNoc : Bool := false
  updNoc : Bool := false
deriving Repr, DecidableEq, Inhabited

def Flags.bits (f : Flags) : Nat :=
  (if f.addCsr then 1 else 0) + (if f.updCsr then 2 else 0) + (if f.root then 4 else 0) +
  (if f.addNoc then 8 else 0) + (if f.updNoc then 16 else 0)

structure Armed where
  fab : Nat
  flags : Flags
  timeout : Nat
  armedAt : Nat
  /-- `ArmedCtx::deferred`: a fabric-scoped write of the fabric `fab` was accepted but not stored -/
  deferred : Bool := false
deriving Repr, DecidableEq, Inhabited

structure Window where
  opener : Nat
  expiry : Nat
deriving Repr, DecidableEq, Inhabited

/-- the persisted resumption blob: absent, unparseable, or a list of records -/
inductive RBlob
  | absent
  | garbage
  | recs (l : List Resum)
deriving Repr, DecidableEq, Inhabited

structure KV where
  fabs : List Fabric := []
  nets : Option (List Nat × Bool) := none
  resum : RBlob := .absent
deriving Repr, DecidableEq, Inhabited

structure Node where
  fabrics : List Fabric := []
  sessions : List Sess := []
  resum : List Resum := []
  fs : Option Armed := none
  bc : Nat := 0
  /-- root staged by AddTrustedRootCertificate (CA number, 0 = none) -/
  staged : Nat := 0
  window : Option Window := none
  nets : List Nat := []
  managed : Bool := false
  kv : KV := {}
  /-- store contents after each effective mutation, newest first -/
  hist : List KV := []
  failIn : Nat := 0
  now : Nat := 0
  nextSess : Nat := 0
  nextGen : Nat := 1
  /-- session ids of the `ReservedSession` guards that are still alive (handshakes in their last leg) -/
  pending : List Nat := []
  /-- `ResumableSessions::store_failed`: the last store of the resumption cache failed - the STORED
  blob might hold records that the cache has dropped (retried before `AddNOC` makes a new fabric) -/
  resumStale : Bool := false
deriving Repr, DecidableEq, Inhabited

inductive Op
  | boot
  | pase
  | caseEst (fab node rid : Nat)
  | resume (rid newRid : Nat)
  | openW (s : Nat)
  | arm (s secs : Nat)
  | csr (s : Nat) (upd : Bool)
  | root (s ca : Nat)
  | addnoc (s ca fid node subj ser : Nat)
  | updnoc (s node ser : Nat)
  | acl (s v : Nat)
  | grp (s v : Nat)
  | label (s v : Nat)
  | net (s v : Nat)
  | rmnet (s v : Nat)
  | complete (s : Nat)
  | rmfab (s idx : Nat)
  | revoke (s : Nat)
  /-- write of the `Breadcrumb` attribute of General Commissioning -/
  | bcw (s v : Nat)
  /-- an interaction over session `s` that does not touch the administrative state (handler-level
  path: group key map / binding / user label / node label writes, subscribe): only the IM prologue runs -/
  | ext (s : Nat)
  /-- a fabric-scoped write whose content the model does not track (group key map): the fabric record
  is stored, or the store is deferred, exactly as for an ACL write -/
  | fwrite (s : Nat)
  /-- `SetVIDVerificationStatement` (vendor id / statement / VVSC of the accessing fabric; the model does
  not track these fields): the fabric record is stored at once unless it carries staged changes of the
  armed fail-safe - a NOC command or a deferred fabric-scoped write - with which the change rides along -/
  | vvs (s : Nat)
  | tick (secs : Nat)
  | poll
  | flush
  | restart
  | crash (n : Nat)
  | kvfail (n : Nat)
  | corrupt
  | freset
  /-- CASE handshake up to `ReservedSession::update`: the session carries the CASE mode (and its
  resumption record exists) but is still reserved -/
  | hs (fab node rid : Nat)
  /-- `ReservedSession::complete()` of that handshake: the session, if it is still there, is live at
  once (repo fix 287abf0; the later drop of the completed guard changes nothing any more). The
  responder calls `update` and `complete` back to back; they are two calls of the public guard API,
  and the state between them is the only one in which a reserved session belongs to a fabric -/
  | hsdone (sid : Nat)
  /-- the node restarts and `Matter::factory_reset` runs BEFORE `Matter::startup`; then start-up -/
  | coldreset
  /-- the fabric blob `i` is damaged, restart (start-up fails), factory reset, restart -/
  | fabrecover (i : Nat)
  /-- an operation on objects of its own (TLV round trip of a persisted structure): the node is untouched -/
  | nop
  /-- `Sessions::remove` from outside the administrative logic: the subscription reporter gives up on
  a report to a subscriber that does not answer and drops the session it used (im.rs,
  `process_subscriptions`, the `Err` branch) -/
  | sdrop (sid : Nat)
deriving Repr, DecidableEq, Inhabited

/-! ## the store -/

/-- one `store` / `remove` call reaches the store: does the injected fault hit it? -/
def kvTick (n : Node) : Node × Bool :=
  if n.failIn = 0 then (n, false)
  else if n.failIn = 1 then ({ n with failIn := 0 }, true)
  else ({ n with failIn := n.failIn - 1 }, false)

def kvCommit (n : Node) (kv : KV) : Node := { n with kv := kv, hist := kv :: n.hist }

def KV.putFabric (kv : KV) (f : Fabric) : KV :=
  { kv with fabs := f :: kv.fabs.filter (fun g => g.idx ≠ f.idx) }

def KV.delFabric (kv : KV) (idx : Nat) : KV :=
  { kv with fabs := kv.fabs.filter (fun g => g.idx ≠ idx) }

def KV.hasFabric (kv : KV) (idx : Nat) : Bool := kv.fabs.any (fun g => g.idx = idx)

/-- `FabricPersist::store` -/
def storeFabric (n : Node) (f : Fabric) : Node × Bool :=
  let (n, bad) := kvTick n
  if bad then (n, false) else (kvCommit n (n.kv.putFabric f), true)

/-- `FabricPersist::remove` (a missing key is not a mutation) -/
def removeFabricKey (n : Node) (idx : Nat) : Node × Bool :=
  let (n, bad) := kvTick n
  if bad then (n, false)
  else if n.kv.hasFabric idx then (kvCommit n (n.kv.delFabric idx), true)
  else (n, true)

def storeNets (n : Node) : Node × Bool :=
  let (n, bad) := kvTick n
  if bad then (n, false) else (kvCommit n { n.kv with nets := some (n.nets, n.managed) }, true)

/-! ## small list helpers -/

def insertByIdx (f : Fabric) : List Fabric → List Fabric
  | [] => [f]
  | g :: r => if f.idx ≤ g.idx then f :: g :: r else g :: insertByIdx f r

def sortByIdx (l : List Fabric) : List Fabric := l.foldr insertByIdx []

def insertNat (x : Nat) : List Nat → List Nat
  | [] => [x]
  | y :: r => if x ≤ y then x :: y :: r else y :: insertNat x r

def sortNat (l : List Nat) : List Nat := l.foldr insertNat []

def maxIdx (l : List Fabric) : Nat := l.foldl (fun m f => if f.idx > m then f.idx else m) 0

def getFabric (n : Node) (idx : Nat) : Option Fabric := n.fabrics.find? (fun f => f.idx = idx)

def hasFabric (n : Node) (idx : Nat) : Bool := n.fabrics.any (fun f => f.idx = idx)

def setFabric (n : Node) (f : Fabric) : Node :=
  { n with fabrics := n.fabrics.map (fun g => if g.idx = f.idx then f else g) }

def getSess (n : Node) (id : Nat) : Option Sess := n.sessions.find? (fun s => s.id = id)

/-! ## sessions and the resumption cache -/

/-- `Sessions::add`: the unique id is consumed even when the table is full -/
def addSess (cfg : Cfg) (n : Node) (mode : Mode) (peer gen : Nat) : Node × Option Nat :=
  let id := n.nextSess
  let n := { n with nextSess := if n.nextSess + 1 > 0x0fffffff then 0 else n.nextSess + 1 }
  if n.sessions.length < cfg.maxSessions then
    ({ n with sessions := n.sessions ++ [{ id := id, mode := mode, peer := peer, expired := false, gen := gen }] }, some id)
  else (n, none)

/-- `Sessions::remove_pase(expire_sess_id)` -/
def removePase (l : List Sess) (exp : Option Nat) : List Sess :=
  (l.filter (fun s => !(s.mode.isPase && some s.id ≠ exp))).map
    (fun s => if some s.id = exp ∧ s.mode.isPase then { s with expired := true } else s)

/-- `Sessions::remove_for_fabric(fab, expire_sess_id)` -/
def removeForFabric (l : List Sess) (fab : Nat) (exp : Option Nat) : List Sess :=
  (l.filter (fun s => !(s.mode.fab = fab && some s.id ≠ exp))).map
    (fun s => if some s.id = exp then { s with expired := true } else s)

/-- `ResumableSessions::insert_or_update` -/
def resumInsert (cfg : Cfg) (l : List Resum) (r : Resum) : List Resum :=
  let l := l.filter (fun x => !(x.fab = r.fab && x.peer = r.peer))
  let l := if l.length ≥ cfg.maxResum then l.drop 1 else l
  l ++ [r]

/-! ## the fail-safe -/

/-- `FailSafe::check_state(session_mode, present, absent, op)` for an armed context; `noc` tells that
`op` is ADD_NOC or UPDATE_NOC (the missing-CSR disambiguation) -/
def checkState (a : Armed) (mode : Mode) (present absent : Flags → Bool) (noc : Bool) : Option String :=
  if a.fab ≠ mode.fab then some "NocInvalidFabricIndex"
  else if !present a.flags then
    (if noc && !(a.flags.addCsr || a.flags.updCsr) then some "NocMissingCsr" else some "ConstraintError")
  else if absent a.flags then some "ConstraintError"
  else none

/-- `GenCommHandler::with_armed_failsafe`: `check_armed` with the error mapping of gen_comm.rs:199 -/
def checkArmed (n : Node) (mode : Mode) : Option String :=
  match n.fs with
  | none => some "FailSafeRequired"
  | some a => if a.fab ≠ mode.fab then some "GennCommInvalidAuthentication" else none

/-- `FailSafe::is_armed_for` -/
def armedFor (n : Node) (idx : Nat) : Bool :=
  match n.fs with
  | some a => a.fab == idx
  | none => false

/-- `FailSafe::has_pending_changes_for` (failsafe.rs, as repaired): the fail-safe is armed for the fabric
and its record in memory carries staged changes - `AddNOC` / `UpdateNOC` was received in this context,
or a fabric-scoped write was deferred -/
def pendingFor (n : Node) (idx : Nat) : Bool :=
  match n.fs with
  | some a => a.fab == idx && (a.deferred || a.flags.addNoc || a.flags.updNoc)
  | none => false

/-- `FailSafe::defers_store_for` when it answers `true`: the context remembers the deferred change -/
def markDeferred (n : Node) : Node :=
  match n.fs with
  | some a => { n with fs := some { a with deferred := true } }
  | none => n

/-- `MatterState::store_resumption`: store the resumption cache now and remember whether that
failed (`false` = the store call failed) -/
def storeResum (n : Node) : Node × Bool :=
  let (n, bad) := kvTick n
  if bad then ({ n with resumStale := true }, false)
  else (kvCommit { n with resumStale := false } { n.kv with resum := .recs n.resum }, true)

/-- `MatterState::retry_resumption_store`: store the cache if its last store failed -/
def retryResum (n : Node) : Node × Bool :=
  if n.resumStale then storeResum n else (n, true)

/-- `MatterState::purge_resumption_for_fabric`: drop the records of a gone fabric and store the
purged cache at once - also when the in-memory cache held none of them (the STORED blob might: an
earlier store of the purged cache failed, or the records were evicted).  `false` = the store call failed. -/
def purgeResum (n : Node) (idx : Nat) : Node × Bool :=
  storeResum { n with resum := n.resum.filter (fun r => r.fab ≠ idx) }

/-- the fabric part of `FailSafe::expire`:
`if fabrics.get(fab_idx).is_some() { fabrics.remove(fab_idx)? }; fabrics.add_load(fab_idx, kv)?` -/
def rollbackFabrics (cfg : Cfg) (n : Node) (a : Armed) : Except String (List Fabric) :=
  if a.fab = 0 then .ok n.fabrics
  else
    let fs := n.fabrics.filter (fun f => f.idx ≠ a.fab)
    match n.kv.fabs.find? (fun f => f.idx = a.fab) with
    | some f => if fs.length < cfg.maxFabrics then .ok (fs ++ [f]) else .error "ResourceExhausted"
    | none => .ok fs

/-- the session part of `FailSafe::expire`: sessions of the removed fabric go with it (the
triggering one, if it is one of them, is only expired), then every PASE session -/
def rollbackSessions (n : Node) (removed : Option Nat) (exp : Option Nat) : List Sess :=
  let sess := match removed with
    | some idx =>
      let own := match exp with
        | some e => if n.sessions.any (fun s => s.id = e ∧ s.mode.fab = idx) then some e else none
        | none => none
      removeForFabric n.sessions idx own
    | none => n.sessions
  removePase sess exp

/-- `FailSafe::expire` (failsafe.rs:186) on an armed context; also returns the fabric the rollback
removed (a not yet committed `AddNOC` fabric), which the callers purge the resumption cache for -/
def expireArmed (cfg : Cfg) (n : Node) (a : Armed) (exp : Option Nat) : Node × Option String × Option Nat :=
  match rollbackFabrics cfg n a with
  | .error e => (n, some e, none)
  | .ok fs =>
    let removed : Option Nat := if a.fab ≠ 0 ∧ !fs.any (fun f => f.idx = a.fab) then some a.fab else none
    let (nets, managed) := match n.kv.nets with
      | some (l, m) => (l, m)
      | none => ([], false)
    ({ n with fabrics := fs, nets := nets, managed := managed,
              sessions := rollbackSessions n removed exp, fs := none, bc := 0 }, none, removed)

/-- `expire` followed by what each of its three callers does with the removed fabric -/
def expireAndPurge (cfg : Cfg) (n : Node) (a : Armed) (exp : Option Nat) : Node × Option String :=
  match expireArmed cfg n a exp with
  | (n, some e, _) => (n, some e)
  | (n, none, none) => (n, none)
  | (n, none, some idx) =>
    match purgeResum n idx with
    | (n, true) => (n, none)
    | (n, false) => (n, some "NoSpace")

/-- the same from `check_timeouts` (im.rs:687): a failing store of the purged cache is logged, not
returned (an error would end `InteractionModel::run`); only the error of `expire` itself is -/
def expireAndPurgeLenient (cfg : Cfg) (n : Node) (a : Armed) (exp : Option Nat) : Node × Option String :=
  ((expireAndPurge cfg n a exp).1, (expireArmed cfg n a exp).2.1)

def expire (cfg : Cfg) (n : Node) (exp : Option Nat) : Node × Option String :=
  match n.fs with
  | none => (n, none)
  | some a => expireAndPurge cfg n a exp

/-- `Pase::check_comm_window_timeout` -/
def windowTimeout (n : Node) : Node :=
  match n.window with
  | some w => if n.now > w.expiry then { n with window := none } else n
  | none => n

/-- `InteractionModel::check_timeouts(exch)` (im.rs:687) -/
def expSid (n : Node) (sid : Option Nat) : Option Nat :=
  match sid with
  | some s => (getSess n s).map (·.id)
  | none => none

def checkTimeouts (cfg : Cfg) (n : Node) (sid : Option Nat) : Node × Option String :=
  let r : Node × Option String :=
    match n.fs with
    | some a => if n.now ≥ a.armedAt + a.timeout then expireAndPurgeLenient cfg n a (expSid n sid) else (n, none)
    | none => (n, none)
  match r.2 with
  | some e => (r.1, some e)
  | none => (windowTimeout r.1, none)

def isNodeId (s : Nat) : Bool := 1 ≤ s && s ≤ 0xFFFFFFEFFFFFFFFF

/-! ## the restart -/

/-- what `Matter::startup` + `InteractionModelState::load_persist` rebuild from the store -/
def restartFrom (n : Node) (kv : KV) (hist : List KV) : Node :=
  -- `ResumableSessions::load_persist`: an unparseable blob is dropped from the store (soft fail)
  let (kv, hist, rs) : KV × List KV × List Resum := match kv.resum with
    | .absent => (kv, hist, [])
    | .recs l => (kv, hist, l)
    | .garbage => let kv' := { kv with resum := .absent }; (kv', kv' :: hist, [])
  -- records whose fabric no longer exists are dropped, from the store too (lib.rs `startup`)
  let rs' := rs.filter (fun r => kv.fabs.any (fun f => f.idx = r.fab))
  let (kv, hist) : KV × List KV :=
    if rs'.length ≠ rs.length then
      let kv' := { kv with resum := .recs rs' }
      (kv', kv' :: hist)
    else (kv, hist)
  let (nets, managed) := match kv.nets with
    | some (l, m) => (l, m)
    | none => ([], false)
  -- (`Fabrics::load_persist` pushes in index order; the order of the table is not observable -
  -- every lookup is by index, the dump sorts - so the stored list is taken as it is)
  { fabrics := kv.fabs, sessions := [], resum := rs', fs := none, bc := 0, staged := 0,
    window := none, nets := nets, managed := managed, kv := kv, hist := hist, failIn := 0,
    now := n.now, nextSess := 0, nextGen := n.nextGen }

/-! ## one operation: handler glue + the calls above.  Returns the new state and the status. -/

/-- what the command answers: success, success with a fabric index (AddNOC), a new session, or an error name -/
inductive Status
  | ok
  | okIdx (i : Nat)
  | sess (id : Nat)
  | err (e : String)
deriving Repr, DecidableEq, Inhabited

def Status.accepted : Status → Bool
  | .err _ => false
  | _ => true

def Status.render : Status → String
  | .ok => "ok"
  | .okIdx i => s!"ok{i}"
  | .sess id => s!"s{id}"
  | .err e => e

def ok (n : Node) : Node × Status := (n, .ok)

/-- `Fabrics::reset_persist`: remove the fabric keys `i, i+1, …, hi-1`, one store call each -/
def delFabricKeys (hi : Nat) : Nat → Nat → KV → List KV → KV × List KV
  | _, 0, cur, acc => (cur, acc)
  | i, fuel + 1, cur, acc =>
    if i ≥ hi then (cur, acc)
    else if cur.hasFabric i then
      let cur' := cur.delFabric i
      delFabricKeys hi (i + 1) fuel cur' (cur' :: acc)
    else delFabricKeys hi (i + 1) fuel cur acc

/-- `FailSafe::is_adding_fabric` -/
def addingFabric (n : Node) (idx : Nat) : Bool :=
  match n.fs with
  | some a => a.fab == idx && a.flags.addNoc
  | none => false

/-- the undo of the first write of a CommissioningComplete whose second write failed: the stored
record of a fabric added under this fail-safe is removed again (a failure of that is only logged) -/
def undoAdded (n : Node) (idx : Nat) : Node :=
  if addingFabric n idx then (removeFabricKey n idx).1 else n

/-- `NocHandler::handle_add_noc` (noc.rs:479) after the retry of a failed resumption-cache store -/
def addNoc (cfg : Cfg) (n : Node) (sid : Nat) (mode : Mode) (ca fid node subj ser : Nat) : Node × Status :=
  match checkArmed n mode with
  | some e => (n, .err e)
  | none =>
    match n.fs with
    | none => (n, .err "FailSafeRequired")
    | some a =>
      match checkState a mode (fun f => f.root && f.addCsr) (fun f => f.addNoc || f.updCsr || f.updNoc) true with
      | some e => (n, .err e)
      | none =>
        -- failsafe.rs `add_noc`: the context holds deferred changes of the existing fabric it is
        -- bound to - no re-binding
        if a.fab ≠ 0 && a.deferred then (n, .err "Busy")
        else if !isNodeId subj then (n, .err "NocInvalidAdminSubject")
        else if ca ≠ n.staged then (n, .err "NocInvalidNoc")
        else if n.fabrics.any (fun f => f.fid = fid && f.ca = n.staged) then (n, .err "NocFabricConflict")
        else
          let m := maxIdx n.fabrics
          -- `add_with_post_init`: max + 1, or the first free index once 254 is taken
          let idx? : Option Nat :=
            if m < 254 then some (m + 1)
            else (List.range 255).find? (fun i => 1 ≤ i && !hasFabric n i)
          match idx? with
          | none => (n, .err "NocFabricTableFull")
          | some idx =>
            if n.fabrics.length ≥ cfg.maxFabrics then (n, .err "NocFabricTableFull")
            else
              let f : Fabric := { idx := idx, gen := n.nextGen, ca := n.staged, fid := fid, node := node,
                                  ser := ser, acl := [subj], grp := [], label := 0 }
              let n := { n with fabrics := n.fabrics ++ [f], nextGen := n.nextGen + 1,
                                fs := some { a with fab := idx, flags := { a.flags with addNoc := true } } }
              -- noc.rs:543: a PASE session is promoted to the new fabric (once)
              match mode with
              | .pase 0 =>
                ({ n with sessions := n.sessions.map (fun s => if s.id = sid then { s with mode := .pase idx, gen := f.gen } else s) },
                 .okIdx idx)
              | .pase _ =>
                -- scopeguard (noc.rs:530): the fabric is removed again, the fail-safe context stays changed
                ({ n with fabrics := n.fabrics.filter (fun g => g.idx ≠ idx) }, .err "Invalid")
              | .case _ => (n, .okIdx idx)

/-- the part of a session-borne command that runs after the IM prologue -/
def sessOp (cfg : Cfg) (n : Node) (sid : Nat) (mode : Mode) : Op → Node × Status
  | .openW _ =>
    -- adm_comm.rs:215: window timeout check, opener = the fabric of the calling session if it is a CASE one (adm_comm.rs:76)
    let n := windowTimeout n
    if n.window.isSome then (n, .err "Busy")
    else
      let opener := if mode.isCase then mode.fab else 0
      ok { n with window := some { opener := opener, expiry := n.now + 300 } }
  | .arm _ secs =>
    -- gen_comm.rs:351
    if secs = 0 then
      match expire cfg n (some sid) with
      | (n, none) => ok n
      | (n, some e) => (n, .err e)
    else
      match n.fs with
      | none =>
        if n.window.isSome && mode.isCase then (n, .err "Busy")
        else ok { n with fs := some { fab := mode.fab, flags := {}, timeout := secs, armedAt := n.now }, bc := secs }
      | some a =>
        if a.fab ≠ mode.fab then (n, .err "NocInvalidFabricIndex")
        else ok { n with fs := some { a with armedAt := n.now, timeout := secs }, bc := secs }
  | .csr _ upd =>
    match checkArmed n mode with
    | some e => (n, .err e)
    | none =>
      if upd && !mode.isCase then (n, .err "InvalidCommand")
      else match n.fs with
        | none => (n, .err "FailSafeRequired")
        | some a =>
          match checkState a mode (fun _ => true) (fun f => f.addCsr || f.updCsr) false with
          | some e => (n, .err e)
          | none =>
            let fl := if upd then { a.flags with updCsr := true } else { a.flags with addCsr := true }
            ok { n with fs := some { a with flags := fl } }
  | .root _ ca =>
    match checkArmed n mode with
    | some e => (n, .err e)
    | none =>
      match n.fs with
      | none => (n, .err "FailSafeRequired")
      | some a =>
        match checkState a mode (fun _ => true) (fun f => f.root) false with
        | some e => (n, .err e)
        | none => ok { n with staged := ca, fs := some { a with flags := { a.flags with root := true } } }
  | .addnoc _ ca fid node subj ser =>
    -- noc.rs `handle_add_noc`: a store of the resumption cache that failed is retried before a new
    -- fabric - which might get the index of a fabric that is gone - comes into being
    match retryResum n with
    | (n, false) => (n, .err "NoSpace")
    | (n, true) => addNoc cfg n sid mode ca fid node subj ser
  | .updnoc _ node ser =>
    match checkArmed n mode with
    | some e => (n, .err e)
    | none =>
      if !mode.isCase then (n, .err "GennCommInvalidAuthentication")
      else match n.fs with
        | none => (n, .err "FailSafeRequired")
        | some a =>
          match checkState a mode (fun f => f.updCsr) (fun f => f.root || f.addNoc || f.addCsr || f.updNoc) true with
          | some e => (n, .err e)
          | none =>
            match getFabric n mode.fab with
            | none => (n, .err "NotFound")
            | some f =>
              let n := setFabric n { f with node := node, ser := ser }
              ok { n with fs := some { a with fab := f.idx, flags := { a.flags with updNoc := true } } }
  | .acl _ v =>
    -- acl.rs:306-440: change, then `persist.store` unless armed for this fabric
    if mode.fab = 0 then (n, .err "UnsupportedAccess")
    else match getFabric n mode.fab with
      | none => (n, .err "NotFound")
      | some f =>
        if f.acl.length ≥ cfg.maxAcl then (n, .err "ResourceExhausted")
        else
          let f' := { f with acl := f.acl ++ [v] }
          let n := setFabric n f'
          if armedFor n f.idx then ok (markDeferred n)
          else match storeFabric n f' with
            | (n, true) => ok n
            | (n, false) => (n, .err "NoSpace")
  | .grp _ v =>
    if mode.fab = 0 then (n, .err "UnsupportedAccess")
    else match getFabric n mode.fab with
      | none => (n, .err "NotFound")
      | some f =>
        if !f.grp.contains v && f.grp.length ≥ maxGroups then (n, .err "ResourceExhausted")
        else
          let f' := if f.grp.contains v then f else { f with grp := f.grp ++ [v] }
          let n := setFabric n f'
          if armedFor n f.idx then ok (markDeferred n)
          else match storeFabric n f' with
            | (n, true) => ok n
            | (n, false) => (n, .err "NoSpace")
  | .label _ v =>
    -- noc.rs:636: `update_label`, then the same store rule as the other fabric-scoped writes
    if mode.fab = 0 then (n, .err "UnsupportedAccess")
    else if n.fabrics.any (fun g => g.idx ≠ mode.fab && g.label ≠ 0 && g.label = v) then (n, .err "Invalid")
    else match getFabric n mode.fab with
      | none => (n, .err "NotFound")
      | some f =>
        let f' := { f with label := v }
        let n := setFabric n f'
        if armedFor n f.idx then ok (markDeferred n)
        else match storeFabric n f' with
          | (n, true) => ok n
          | (n, false) => (n, .err "NoSpace")
  | .net _ v =>
    match checkArmed n mode with
    | some e => (n, .err e)
    | none =>
      if n.nets.contains v then ok { n with managed := false }
      else if n.nets.length ≥ maxNets then (n, .err "neterr")
      else ok { n with nets := n.nets ++ [v], managed := false }
  | .rmnet _ v =>
    match checkArmed n mode with
    | some e => (n, .err e)
    | none =>
      if n.nets.contains v then ok { n with nets := n.nets.filter (· ≠ v), managed := false }
      else (n, .err "neterr")
  | .complete _ =>
    -- gen_comm.rs:491: the fabric, then the networks are stored FIRST; only then the fail-safe is
    -- disarmed, the window closed and the PASE sessions dropped.  A failing store answers the error
    -- with the fail-safe still armed; when it is the second one, the record of a fabric that was
    -- added under this fail-safe (it had none before) is taken out of the store again.
    match checkArmed n mode with
    | some e => (n, .err e)
    | none =>
      if !mode.isCase then (n, .err "GennCommInvalidAuthentication")
      else match getFabric n mode.fab with
        | none => (n, .err "NotFound")
        | some f =>
          match storeFabric n f with
          | (n, false) => (n, .err "NoSpace")
          | (n, true) =>
            match storeNets { n with managed := true } with
            | (n1, false) => (undoAdded { n1 with managed := n.managed } f.idx, .err "NoSpace")
            | (n1, true) =>
              ok { n1 with fs := none, bc := 0, window := none, sessions := removePase n1.sessions none }
  | .rmfab _ idx =>
    -- noc.rs:698: the store first (the purged resumption cache, then the fabric key), then the
    -- fabric table and the sessions: a failing store leaves the fabric fully in place
    if idx = 0 then (n, .err "ConstraintError")
    else if hasFabric n idx then
      match purgeResum n idx with
      | (n, false) => (n, .err "NoSpace")
      | (n, true) =>
        match removeFabricKey n idx with
        | (n, false) => (n, .err "NoSpace")
        | (n, true) =>
          let exp := if mode.fab = idx then some sid else none
          ok { n with fabrics := n.fabrics.filter (fun f => f.idx ≠ idx),
                      sessions := removeForFabric n.sessions idx exp }
    else (n, .err "InvalidFabricIndex")
  | .revoke _ =>
    -- adm_comm.rs:255
    match expire cfg n (some sid) with
    | (n, some e) => (n, .err e)
    | (n, none) => ok { n with window := none }
  | .bcw _ v =>
    -- gen_comm.rs:282 `set_breadcrumb`: no fail-safe check; reset by disarm / expiry
    ok { n with bc := v }
  | .ext _ => ok n
  | .fwrite _ =>
    -- grp_key_mgmt.rs:193 `set_group_key_map`: change, then `persist.store` unless armed for this fabric
    if mode.fab = 0 then (n, .err "UnsupportedAccess")
    else match getFabric n mode.fab with
      | none => (n, .err "NotFound")
      | some f =>
        let n := setFabric n f
        if armedFor n f.idx then ok (markDeferred n)
        else match storeFabric n f with
          | (n, true) => ok n
          | (n, false) => (n, .err "NoSpace")
  | .vvs _ =>
    -- noc.rs `handle_set_vid_verification_statement` (as repaired): the fields are set, then the record
    -- is stored at once - unless it carries staged changes of the armed fail-safe (a NOC command, a
    -- deferred write): then nothing is stored, CommissioningComplete / the expiry decide
    if mode.fab = 0 then (n, .err "UnsupportedAccess")
    else match getFabric n mode.fab with
      | none => (n, .err "NotFound")
      | some f =>
        if pendingFor n f.idx then ok n
        else match storeFabric n f with
          | (n, true) => ok n
          | (n, false) => (n, .err "NoSpace")
  | _ => (n, .err "bad")

/-- `Matter::factory_reset` (lib.rs, as repaired) + the network part of `InteractionModelState::reset_persist`
(im.rs:181), in the order of the harness -/
def factoryReset (n : Node) : Node × Status :=
  -- lib.rs `Matter::factory_reset` (as repaired): the sessions of every fabric go first
  -- (`remove_for_fabric` for each index 1..255); then `Fabrics::reset_persist` - memory fabrics, then
  -- one `remove` per fabric key 1..255 - and the other parts. A failing store call ends the part it
  -- belongs to, the remaining parts are reset all the same (the first error is answered). An
  -- injected fault (at most the third call) therefore hits a fabric key: the keys 1 .. failIn-1 are
  -- removed, the call for key `failIn` fails
  let hi := if n.failIn ≠ 0 then n.failIn else 256
  let st : Status := if n.failIn ≠ 0 then .err "NoSpace" else .ok
  let (kv, hist) := delFabricKeys hi 1 256 n.kv n.hist
  -- the resumption cache: memory, then the key
  let n := { n with fabrics := [], sessions := n.sessions.filter (fun s => s.mode.fab = 0),
                    kv := kv, hist := hist, failIn := 0, resum := [], resumStale := false }
  let n := if n.kv.resum ≠ .absent then kvCommit n { n.kv with resum := .absent } else n
  -- the network part of the reset (im.rs:181)
  let n := { n with nets := [], managed := false }
  let n := if n.kv.nets.isSome then kvCommit n { n.kv with nets := none } else n
  (n, st)

def isSessOp : Op → Option Nat
  | .openW s | .arm s _ | .csr s _ | .root s _ | .addnoc s _ _ _ _ _ | .updnoc s _ _ | .acl s _
  | .grp s _ | .label s _ | .net s _ | .rmnet s _ | .complete s | .rmfab s _ | .revoke s
  | .bcw s _ | .ext s | .fwrite s | .vvs s => some s
  | _ => none

def step (cfg : Cfg) (n : Node) (op : Op) : Node × Status :=
  match isSessOp op with
  | some sid =>
    -- the command arrives on an exchange of session `sid`: `check_timeouts(Some(exch))` (im.rs:758),
    -- and an expired session accepts no new exchange (session.rs:540)
    match getSess n sid with
    | none => (n, .err "nosess")
    | some s0 =>
      -- a reserved session takes no incoming message (`Session::is_for_rx`)
      if s0.reserved then (n, .err "reserved") else
      match checkTimeouts cfg n (some sid) with
      | (n, some e) => (n, .err ("pre:" ++ e))
      | (n, none) =>
        match getSess n sid with
        | none => (n, .err "nosess")
        | some s => if s.expired then (n, .err "expired") else sessOp cfg n sid s.mode op
  | none =>
    match op with
    | .boot =>
      if n.window.isSome then (n, .err "Busy") else ok { n with window := some { opener := 0, expiry := n.now + 900 } }
    | .pase =>
      if n.window.isNone then (n, .err "nowin")
      else match addSess cfg n (.pase 0) 0 0 with
        | (n, some id) => (n, .sess id)
        | (n, none) => (n, .err "NoSpaceSessions")
    | .caseEst fab node rid =>
      -- responder.rs:440: the session and its resumption record
      match (if fab = 0 then none else getFabric n fab) with
      | none => (n, .err "nofab")
      | some f =>
        match addSess cfg n (.case fab) node f.gen with
        | (n, some id) =>
          ({ n with resum := resumInsert cfg n.resum { fab := fab, peer := node, rid := rid, gen := f.gen } }, .sess id)
        | (n, none) => (n, .err "NoSpaceSessions")
    | .resume rid newRid =>
      -- responder.rs:570-790: the record is looked up by id, the fabric by INDEX only
      match n.resum.find? (fun r => r.rid = rid) with
      | none => (n, .err "norec")
      | some r =>
        if !hasFabric n r.fab then (n, .err "Invalid")
        else match addSess cfg n (.case r.fab) r.peer r.gen with
          | (n, some id) => ({ n with resum := resumInsert cfg n.resum { r with rid := newRid } }, .sess id)
          | (n, none) => (n, .err "NoSpaceSessions")
    | .hs fab node rid =>
      -- responder.rs:430-482: `update_with_state` + the resumption record under one state lock;
      -- `complete()` is `hsdone`
      match (if fab = 0 then none else getFabric n fab) with
      | none => (n, .err "nofab")
      | some f =>
        match addSess cfg n (.case fab) node f.gen with
        | (n, some id) =>
          ({ n with sessions := n.sessions.map (fun s => if s.id = id then { s with reserved := true } else s),
                    resum := resumInsert cfg n.resum { fab := fab, peer := node, rid := rid, gen := f.gen },
                    pending := n.pending ++ [id] }, .sess id)
        | (n, none) => (n, .err "NoSpaceSessions")
    | .hsdone sid =>
      -- `ReservedSession::complete` (session.rs:1317): the session, if it is still there, becomes a
      -- regular one; the guard is dropped (a no-op for a completed guard)
      if n.pending.contains sid then
        ok { n with pending := n.pending.filter (· ≠ sid),
                    sessions := n.sessions.map (fun s => if s.id = sid then { s with reserved := false } else s) }
      else (n, .err "nohs")
    | .coldreset =>
      -- new `Matter` (nothing loaded), `factory_reset` (lib.rs:621: `Fabrics::reset_persist` removes
      -- the keys 1..=255 whatever the table holds, then the other keys), the network key, `startup`:
      -- nothing is left; the harness starts a new store history here
      ok { now := n.now, nextGen := n.nextGen }
    | .fabrecover _ =>
      -- the same after a start-up that failed on a damaged fabric blob
      ok { now := n.now, nextGen := n.nextGen }
    | .nop => ok n
    | .sdrop sid =>
      match getSess n sid with
      | none => (n, .err "nosess")
      | some _ => ok { n with sessions := n.sessions.filter (fun s => s.id ≠ sid) }
    | .tick secs => ok { n with now := n.now + secs }
    | .poll =>
      match checkTimeouts cfg n none with
      | (n, some e) => (n, .err e)
      | (n, none) => ok n
    | .flush =>
      -- lib.rs `run_persist_resumption`
      match storeResum n with
      | (n, false) => (n, .err "NoSpace")
      | (n, true) => ok n
    | .restart => ok (restartFrom n n.kv n.hist)
    | .crash k =>
      let k := min k n.hist.length
      let hist := n.hist.drop (n.hist.length - k)
      let kv := match hist with
        | kv :: _ => kv
        | [] => {}
      ok (restartFrom n kv hist)
    | .kvfail k => ok { n with failIn := min k 3 }
    | .corrupt =>
      let kv := { n.kv with resum := .garbage }
      ok (restartFrom n kv (kv :: n.hist))
    | .freset => factoryReset n
    | _ => (n, .err "bad")

/-! ## canonical dump (must equal `World::dump` of the harness) -/

def joinWith (sep : String) (l : List String) : String := sep.intercalate l

def orDash (s : String) : String := if s.isEmpty then "-" else s

def Fabric.canon (f : Fabric) : String :=
  s!"{f.idx}:{f.ca}.{f.fid}.{f.node}.{f.ser}.a={orDash (joinWith "," (f.acl.map toString))}.g={orDash (joinWith "," ((sortNat f.grp).map toString))}.l={if f.label = 0 then "-" else s!"L{f.label}"}"

def canonFabrics (l : List Fabric) : String := joinWith ";" ((sortByIdx l).map Fabric.canon)

def Sess.canon (s : Sess) : String :=
  let m := match s.mode with
    | .pase f => s!"p{f}"
    | .case f => s!"c{f}"
  s!"{s.id}:{m}:{s.peer}{if s.expired then ":x" else ""}{if s.reserved then ":r" else ""}"

def canonResum (l : List Resum) : String := joinWith ";" (l.map (fun r => s!"{r.fab}.{r.peer}.{r.rid}"))

def canonNets (l : List Nat) (m : Bool) : String :=
  s!"{orDash (joinWith "," (l.map toString))}:{if m then 1 else 0}"

def KV.canon (kv : KV) : String :=
  let ns := match kv.nets with
    | none => "none"
    | some (l, m) => canonNets l m
  let rs := match kv.resum with
    | .absent => "none"
    | .garbage => "bad"
    | .recs l => s!"[{canonResum l}]"
  s!"F[{canonFabrics kv.fabs}] N[{ns}] R{rs} O[]"

def Node.dump (n : Node) : String :=
  let fs := match n.fs with
    | none => "idle"
    | some a => s!"{a.fab}.{a.flags.bits}.{a.timeout}{if a.deferred then ".d" else ""}"
  let w := match n.window with
    | none => "-"
    | some w => toString w.opener
  s!"F[{canonFabrics n.fabrics}] S[{joinWith ";" (n.sessions.map Sess.canon)}] R[{canonResum n.resum}] FS[{fs}] BC={n.bc} W[{w}] N[{canonNets n.nets n.managed}] KV\{{n.kv.canon}} k={n.hist.length}"

end Admin
