import RsMatterVerif.Lemmas.Admin
/-!
# Lemmas for C07: nothing refers to a fabric that is not there
-/
namespace Admin

/-- every non-expired secure session and every resumption record refers to an existing fabric -/
def NoRef (n : Node) : Prop :=
  (∀ s ∈ n.sessions, s.expired = false → s.mode.fab ≠ 0 → hasFabric n s.mode.fab = true) ∧
  (∀ r ∈ n.resum, hasFabric n r.fab = true)

/-- `NoRef` depends on the fabric indices, the sessions and the records only -/
def HasIdx (l : List Fabric) (i : Nat) : Bool := l.any (fun f => f.idx = i)

theorem hasFabric_eq (n : Node) (i : Nat) : hasFabric n i = HasIdx n.fabrics i := rfl

theorem noRef_congr {n n' : Node} (hf : ∀ i, HasIdx n'.fabrics i = HasIdx n.fabrics i)
    (hs : n'.sessions = n.sessions) (hr : n'.resum = n.resum) (h : NoRef n) : NoRef n' := by
  unfold NoRef at *
  simp only [hasFabric_eq, hf, hs, hr]
  exact h

/-- more fabrics, fewer (or weaker) references -/
theorem noRef_mono {n n' : Node} (hf : ∀ i, HasIdx n.fabrics i = true → HasIdx n'.fabrics i = true)
    (hs : ∀ s' ∈ n'.sessions, s'.expired = false → s'.mode.fab ≠ 0 →
        ∃ s ∈ n.sessions, s.expired = false ∧ s.mode.fab = s'.mode.fab)
    (hr : ∀ r' ∈ n'.resum, ∃ r ∈ n.resum, r.fab = r'.fab) (h : NoRef n) : NoRef n' := by
  refine ⟨fun s' hs' he hf0 => ?_, fun r' hr' => ?_⟩
  · obtain ⟨s, hsm, hse, hsf⟩ := hs s' hs' he hf0
    rw [hasFabric_eq]
    apply hf
    rw [← hasFabric_eq, ← hsf]
    exact h.1 s hsm hse (by rw [hsf]; exact hf0)
  · obtain ⟨r, hrm, hrf⟩ := hr r' hr'
    rw [hasFabric_eq]
    apply hf
    rw [← hasFabric_eq, ← hrf]
    exact h.2 r hrm

theorem hasIdx_map_set (l : List Fabric) (f : Fabric) (i : Nat) :
    HasIdx (l.map (fun g => if g.idx = f.idx then f else g)) i = HasIdx l i := by
  unfold HasIdx
  induction l with
  | nil => rfl
  | cons g r ih =>
    simp only [List.map_cons, List.any_cons, ih]
    by_cases hg : g.idx = f.idx
    · simp [hg]
    · simp [hg]

theorem hasIdx_filter_ne (l : List Fabric) (k i : Nat) :
    HasIdx (l.filter (fun f => !decide (f.idx = k))) i = (HasIdx l i && !decide (i = k)) := by
  unfold HasIdx
  induction l with
  | nil => rfl
  | cons g r ih =>
    by_cases hg : g.idx = k
    · by_cases hi : i = k
      · simp [hg, hi, ih]
      · have : ¬ k = i := fun h => hi h.symm
        simp [hg, hi, ih, this]
    · by_cases hgi : g.idx = i
      · have : ¬ i = k := by omega
        simp [hg, hgi, ih, this]
      · simp [hg, hgi, ih]

theorem hasIdx_append (l : List Fabric) (f : Fabric) (i : Nat) :
    HasIdx (l ++ [f]) i = (HasIdx l i || decide (f.idx = i)) := by
  unfold HasIdx; simp

/-- the sessions left by `remove_pase`: a subset, with `expired` only ever set -/
theorem removePase_live (l : List Sess) (exp : Option Nat) :
    ∀ s' ∈ removePase l exp, s'.expired = false →
      ∃ s ∈ l, s.expired = false ∧ s.mode = s'.mode ∧ s.id = s'.id := by
  intro s' hs' he
  unfold removePase at hs'
  rw [List.mem_map] at hs'
  obtain ⟨s0, hs0, rfl⟩ := hs'
  have hm := (List.mem_filter.mp hs0).1
  by_cases hc : some s0.id = exp ∧ s0.mode.isPase = true
  · simp [hc] at he
  · simp only [hc, if_false] at he ⊢
    exact ⟨s0, hm, he, rfl, rfl⟩

/-- after `remove_for_fabric(idx, exp)` no non-expired session belongs to `idx`; the others are kept -/
theorem removeForFabric_live (l : List Sess) (idx : Nat) (exp : Option Nat) :
    ∀ s' ∈ removeForFabric l idx exp, s'.expired = false →
      s'.mode.fab ≠ idx ∧ ∃ s ∈ l, s.expired = false ∧ s.mode = s'.mode ∧ s.id = s'.id := by
  intro s' hs' he
  unfold removeForFabric at hs'
  rw [List.mem_map] at hs'
  obtain ⟨s0, hs0, rfl⟩ := hs'
  have ⟨hm, hk⟩ := List.mem_filter.mp hs0
  by_cases hc : some s0.id = exp
  · simp [hc] at he
  · simp only [hc, if_false] at he ⊢
    refine ⟨?_, s0, hm, he, rfl, rfl⟩
    intro hfab
    simp [hfab, hc] at hk

theorem rollbackFabrics_idx (cfg : Cfg) (n : Node) (a : Armed) (fs : List Fabric)
    (h : rollbackFabrics cfg n a = .ok fs) :
    ∀ i, i ≠ a.fab ∨ a.fab = 0 → HasIdx fs i = HasIdx n.fabrics i := by
  unfold rollbackFabrics at h
  simp only [decide_not] at h
  intro i hi
  by_cases h0 : a.fab = 0
  · rw [if_pos h0] at h; injection h with h; subst h; rfl
  · rw [if_neg h0] at h
    have hia : i ≠ a.fab := by rcases hi with h | h; exact h; exact absurd h h0
    cases hk : n.kv.fabs.find? (fun f => decide (f.idx = a.fab)) with
    | none =>
      simp only [hk] at h; injection h with h; subst h
      rw [hasIdx_filter_ne]; simp [hia]
    | some f =>
      simp only [hk] at h
      have hfidx : f.idx = a.fab := by simpa using List.find?_some hk
      split at h
      · injection h with h; subst h
        rw [hasIdx_append, hasIdx_filter_ne]
        have : ¬ f.idx = i := by omega
        simp [hia, this]
      · simp at h

theorem purgeResum_mem (n : Node) (idx : Nat) :
    (purgeResum n idx).1.fabrics = n.fabrics ∧ (purgeResum n idx).1.sessions = n.sessions ∧
    (∀ r ∈ (purgeResum n idx).1.resum, r ∈ n.resum ∧ r.fab ≠ idx) := by
  have ⟨p1, p2, _, _, _, _, p7, _⟩ := purgeResum_spec n idx
  refine ⟨p1, p2, fun r hr => ?_⟩
  rw [p7] at hr
  have := List.mem_filter.mp hr
  exact ⟨this.1, by simpa using this.2⟩

def removedOf (a : Armed) (fs : List Fabric) : Option Nat :=
  if a.fab ≠ 0 ∧ !fs.any (fun f => f.idx = a.fab) then some a.fab else none

theorem expireArmed_fields (cfg : Cfg) (n : Node) (a : Armed) (exp : Option Nat) (fs : List Fabric)
    (hr : rollbackFabrics cfg n a = .ok fs) :
    (expireArmed cfg n a exp).1.fabrics = fs ∧
    (expireArmed cfg n a exp).1.sessions = rollbackSessions n (removedOf a fs) exp ∧
    (expireArmed cfg n a exp).1.resum = n.resum ∧
    (expireArmed cfg n a exp).2.1 = none ∧ (expireArmed cfg n a exp).2.2 = removedOf a fs := by
  unfold expireArmed removedOf
  simp only [hr]
  refine ⟨?_, ?_, ?_, ?_, ?_⟩ <;> simp

/-- **The rollback leaves nothing behind**: after `FailSafe::expire` + the purge done by its callers
(with or without a store fault) every non-expired session and every resumption record still refers
to an existing fabric. -/
theorem expireAndPurge_noRef (cfg : Cfg) (n : Node) (a : Armed) (exp : Option Nat) (h : NoRef n) :
    NoRef (expireAndPurge cfg n a exp).1 := by
  unfold expireAndPurge
  cases hr : rollbackFabrics cfg n a with
  | error e =>
    have : expireArmed cfg n a exp = (n, some e, none) := by unfold expireArmed; simp [hr]
    simp only [this]; exact h
  | ok fs =>
    have hidx := rollbackFabrics_idx cfg n a fs hr
    have ⟨f1, f2, f3, f4, f5⟩ := expireArmed_fields cfg n a exp fs hr
    rcases hres : expireArmed cfg n a exp with ⟨n1, e, r⟩
    rw [hres] at f1 f2 f3 f4 f5
    simp only at f1 f2 f3 f4 f5
    subst f4
    by_cases hrem : (a.fab ≠ 0 ∧ (!fs.any fun f => decide (f.idx = a.fab)) = true)
    · -- the fabric is gone: its sessions and records go with it
      have hro : removedOf a fs = some a.fab := by unfold removedOf; rw [if_pos hrem]
      have hr5 : r = some a.fab := by rw [f5, hro]
      subst hr5
      simp only []
      rw [hro] at f2
      have ⟨p1, p2, p3⟩ := purgeResum_mem n1 a.fab
      have hN : NoRef (purgeResum n1 a.fab).1 := by
        refine ⟨fun s' hs' he hf0 => ?_, fun r' hr' => ?_⟩
        · rw [p2, f2] at hs'
          unfold rollbackSessions at hs'
          simp only [] at hs'
          obtain ⟨s1, hs1, he1, hm1, _⟩ := removePase_live _ exp s' hs' he
          obtain ⟨hne, s0, hs0, he0, hm0, _⟩ := removeForFabric_live n.sessions a.fab _ s1 hs1 he1
          rw [hasFabric_eq, p1, f1, hidx _ (Or.inl (by rw [← hm1]; exact hne)), ← hasFabric_eq, ← hm1, ← hm0]
          exact h.1 s0 hs0 he0 (by rw [hm0, hm1]; exact hf0)
        · obtain ⟨hrm, hrf⟩ := p3 r' hr'
          rw [f3] at hrm
          rw [hasFabric_eq, p1, f1, hidx _ (Or.inl hrf), ← hasFabric_eq]
          exact h.2 r' hrm
      rcases hp : purgeResum n1 a.fab with ⟨n2, b⟩
      rw [hp] at hN
      cases b <;> exact hN
    · -- the fabric is still (or again) there, or the context had no fabric
      have hro : removedOf a fs = none := by unfold removedOf; rw [if_neg hrem]
      have hr5 : r = none := by rw [f5, hro]
      subst hr5
      simp only []
      rw [hro] at f2
      have hpres : ∀ i, HasIdx n.fabrics i = true → HasIdx n1.fabrics i = true := by
        intro i hi
        rw [f1]
        by_cases hia : i = a.fab
        · by_cases h0 : a.fab = 0
          · rw [hidx i (Or.inr h0)]; exact hi
          · have : (fs.any fun f => decide (f.idx = a.fab)) = true := by
              cases hb : (fs.any fun f => decide (f.idx = a.fab)) with
              | true => rfl
              | false => exact absurd ⟨h0, by simp [hb]⟩ hrem
            rw [hia]; exact this
        · rw [hidx i (Or.inl hia)]; exact hi
      refine noRef_mono (n := n) hpres ?_ ?_ h
      · intro s' hs' he _
        rw [f2] at hs'
        unfold rollbackSessions at hs'
        obtain ⟨s1, hs1, he1, hm1, _⟩ := removePase_live _ exp s' hs' he
        exact ⟨s1, hs1, he1, by rw [hm1]⟩
      · intro r' hr'; rw [f3] at hr'; exact ⟨r', hr', rfl⟩

theorem expire_noRef (cfg : Cfg) (n : Node) (exp : Option Nat) (h : NoRef n) : NoRef (expire cfg n exp).1 := by
  unfold expire
  cases n.fs with
  | none => exact h
  | some a => exact expireAndPurge_noRef cfg n a exp h

theorem windowTimeout_noRef (n : Node) (h : NoRef n) : NoRef (windowTimeout n) := by
  unfold windowTimeout
  split
  · split
    · exact noRef_congr (fun _ => rfl) rfl rfl h
    · exact h
  · exact h

theorem checkTimeouts_noRef (cfg : Cfg) (n : Node) (sid : Option Nat) (h : NoRef n) :
    NoRef (checkTimeouts cfg n sid).1 := by
  unfold checkTimeouts
  cases hfs : n.fs with
  | none => exact windowTimeout_noRef n h
  | some a =>
    simp only []
    by_cases ht : n.now ≥ a.armedAt + a.timeout
    · simp only [ht, if_true]
      have h1 := expireAndPurge_noRef cfg n a (expSid n sid) h
      have heq : (expireAndPurgeLenient cfg n a (expSid n sid)).1 = (expireAndPurge cfg n a (expSid n sid)).1 := rfl
      cases he : (expireAndPurgeLenient cfg n a (expSid n sid)).2 with
      | some e => simp only []; rw [heq]; exact h1
      | none => simp only []; rw [heq]; exact windowTimeout_noRef _ h1
    · simp only [ht, if_false]; exact windowTimeout_noRef n h

/-- **RemoveFabric leaves nothing behind** (whatever the store answers: a failing store leaves the
fabric in place) -/
theorem sessOp_rmfab_noRef (cfg : Cfg) (n : Node) (sid s idx : Nat) (mode : Mode) (h : NoRef n) :
    NoRef (sessOp cfg n sid mode (.rmfab s idx)).1 := by
  unfold sessOp
  by_cases h0 : idx = 0
  · simp only [h0, if_true]; exact h
  · simp only [h0, if_false]
    by_cases hh : hasFabric n idx = true
    · simp only [hh, if_true]
      have ⟨p1, p2, p3⟩ := purgeResum_mem n idx
      rcases hp : purgeResum n idx with ⟨n2, b⟩
      rw [hp] at p1 p2 p3
      simp only at p1 p2 p3
      have hN2 : NoRef n2 := by
        refine noRef_mono (n := n) (fun i hi => by rw [p1]; exact hi) ?_ ?_ h
        · intro s' hs' he _; rw [p2] at hs'; exact ⟨s', hs', he, rfl⟩
        · intro r' hr'; exact ⟨r', (p3 r' hr').1, rfl⟩
      cases b with
      | false => exact hN2
      | true =>
        simp only []
        have hfr := (removeFabricKey_spec n2 idx).1
        rcases hrk : removeFabricKey n2 idx with ⟨n3, b3⟩
        rw [hrk] at hfr
        simp only at hfr
        have hN3 : NoRef n3 := noRef_congr (fun i => by rw [hfr.fabrics]) hfr.sessions hfr.resum hN2
        cases b3 with
        | false => exact hN3
        | true =>
          simp only [ok, decide_not]
          refine ⟨fun s' hs' he hf0 => ?_, fun r' hr' => ?_⟩
          · obtain ⟨hne, s0, hs0, he0, hm0, _⟩ := removeForFabric_live n3.sessions idx _ s' hs' he
            show hasFabric _ s'.mode.fab = true
            rw [hasFabric_eq]
            show HasIdx (List.filter (fun f => !decide (f.idx = idx)) n3.fabrics) s'.mode.fab = true
            rw [hasIdx_filter_ne, ← hasFabric_eq, ← hm0]
            have := hN3.1 s0 hs0 he0 (by rw [hm0]; exact hf0)
            rw [this]; simp; rw [hm0]; exact hne
          · have hr2 : r' ∈ n2.resum := by rw [← hfr.resum]; exact hr'
            have hrf := (p3 r' hr2).2
            show hasFabric _ r'.fab = true
            rw [hasFabric_eq]
            show HasIdx (List.filter (fun f => !decide (f.idx = idx)) n3.fabrics) r'.fab = true
            rw [hasIdx_filter_ne, ← hasFabric_eq, hN3.2 r' hr']
            simp [hrf]
    · simp only [hh, Bool.false_eq_true, if_false]; exact h

theorem noRef_fields {n n' : Node} (hf : n'.fabrics = n.fabrics) (hs : n'.sessions = n.sessions)
    (hr : n'.resum = n.resum) (h : NoRef n) : NoRef n' :=
  noRef_congr (fun i => by rw [hf]) hs hr h

theorem storeFabric_fields (n : Node) (f : Fabric) :
    (storeFabric n f).1.fabrics = n.fabrics ∧ (storeFabric n f).1.sessions = n.sessions ∧
    (storeFabric n f).1.resum = n.resum := by
  unfold storeFabric kvTick kvCommit
  by_cases f0 : n.failIn = 0
  · simp [f0]
  · by_cases f1 : n.failIn = 1
    · simp [f1]
    · simp [f0, f1]

theorem storeNets_fields (n : Node) :
    (storeNets n).1.fabrics = n.fabrics ∧ (storeNets n).1.sessions = n.sessions ∧
    (storeNets n).1.resum = n.resum := by
  unfold storeNets kvTick kvCommit
  by_cases f0 : n.failIn = 0
  · simp [f0]
  · by_cases f1 : n.failIn = 1
    · simp [f1]
    · simp [f0, f1]

theorem markDeferred_fields (n : Node) :
    (markDeferred n).fabrics = n.fabrics ∧ (markDeferred n).sessions = n.sessions ∧
    (markDeferred n).resum = n.resum ∧ (markDeferred n).kv = n.kv ∧ (markDeferred n).hist = n.hist := by
  unfold markDeferred
  cases n.fs <;> exact ⟨rfl, rfl, rfl, rfl, rfl⟩

/-- a fabric-scoped write keeps the set of fabric indices, the sessions and the records -/
theorem noRef_fabric_write (n : Node) (f f' : Fabric) (hidx : f'.idx = f.idx) (h : NoRef n) :
    let n1 := setFabric n f'
    let r := if armedFor n1 f.idx then ok (markDeferred n1)
      else match storeFabric n1 f' with
        | (n, true) => ok n
        | (n, false) => (n, .err "NoSpace")
    NoRef r.1 := by
  intro n1 r
  have h1 : NoRef n1 := by
    refine noRef_congr (n := n) (fun i => ?_) rfl rfl h
    show HasIdx (n.fabrics.map (fun g => if g.idx = f'.idx then f' else g)) i = HasIdx n.fabrics i
    exact hasIdx_map_set n.fabrics f' i
  have _ := hidx
  by_cases harm : armedFor n1 f.idx = true
  · have : r = ok (markDeferred n1) := by simp [r, harm]
    rw [this]
    have ⟨m1, m2, m3, _, _⟩ := markDeferred_fields n1
    exact noRef_fields m1 m2 m3 h1
  · have ⟨s1, s2, s3⟩ := storeFabric_fields n1 f'
    rcases hst : storeFabric n1 f' with ⟨n2, b⟩
    rw [hst] at s1 s2 s3
    simp only at s1 s2 s3
    have h2 : NoRef n2 := noRef_fields s1 s2 s3 h1
    have : r.1 = n2 := by
      simp only [r, harm, hst]
      cases b <;> rfl
    rw [this]; exact h2

theorem sessOp_write_noRef (cfg : Cfg) (n : Node) (sid : Nat) (mode : Mode) (op : Op) (h : NoRef n)
    (hop : (∃ s v, op = .acl s v) ∨ (∃ s v, op = .grp s v) ∨ (∃ s v, op = .label s v) ∨ (∃ s, op = .fwrite s)) :
    NoRef (sessOp cfg n sid mode op).1 := by
  rcases hop with ⟨s, v, rfl⟩ | ⟨s, v, rfl⟩ | ⟨s, v, rfl⟩ | ⟨s, rfl⟩
  · simp only [sessOp]
    split
    · exact h
    · cases hg : getFabric n mode.fab with
      | none => exact h
      | some f =>
        simp only []
        split
        · exact h
        · exact noRef_fabric_write n f { f with acl := f.acl ++ [v] } rfl h
  · simp only [sessOp]
    split
    · exact h
    · cases hg : getFabric n mode.fab with
      | none => exact h
      | some f =>
        simp only []
        split
        · exact h
        · exact noRef_fabric_write n f (if f.grp.contains v then f else { f with grp := f.grp ++ [v] })
            (by split <;> rfl) h
  · simp only [sessOp]
    split
    · exact h
    · split
      · exact h
      · cases hg : getFabric n mode.fab with
        | none => exact h
        | some f => exact noRef_fabric_write n f { f with label := v } rfl h
  · simp only [sessOp]
    split
    · exact h
    · cases hg : getFabric n mode.fab with
      | none => exact h
      | some f => exact noRef_fabric_write n f f rfl h

/-- SetVIDVerificationStatement stores the record or does nothing: fabric indices, sessions, records unchanged -/
theorem sessOp_vvs_noRef (cfg : Cfg) (n : Node) (sid s : Nat) (mode : Mode) (h : NoRef n) :
    NoRef (sessOp cfg n sid mode (.vvs s)).1 := by
  simp only [sessOp]
  split
  · exact h
  · cases hg : getFabric n mode.fab with
    | none => exact h
    | some f =>
      simp only []
      split
      · exact h
      · have ⟨s1, s2, s3⟩ := storeFabric_fields n f
        rcases hst : storeFabric n f with ⟨n2, b⟩
        rw [hst] at s1 s2 s3
        simp only at s1 s2 s3
        cases b <;> exact noRef_fields s1 s2 s3 h

theorem sessOp_simple_noRef (cfg : Cfg) (n : Node) (sid : Nat) (mode : Mode) (op : Op) (h : NoRef n)
    (hop : (∃ s, op = .openW s) ∨ (∃ s u, op = .csr s u) ∨ (∃ s c, op = .root s c) ∨
           (∃ s v, op = .net s v) ∨ (∃ s v, op = .rmnet s v)) :
    NoRef (sessOp cfg n sid mode op).1 := by
  rcases hop with ⟨s, rfl⟩ | ⟨s, u, rfl⟩ | ⟨s, c, rfl⟩ | ⟨s, v, rfl⟩ | ⟨s, v, rfl⟩
  · simp only [sessOp]
    split
    · exact windowTimeout_noRef n h
    · exact noRef_fields rfl rfl rfl (windowTimeout_noRef n h)
  · simp only [sessOp]
    repeat' split
    all_goals first | exact h | exact noRef_fields rfl rfl rfl h
  · simp only [sessOp]
    repeat' split
    all_goals first | exact h | exact noRef_fields rfl rfl rfl h
  · simp only [sessOp]
    repeat' split
    all_goals first | exact h | exact noRef_fields rfl rfl rfl h
  · simp only [sessOp]
    repeat' split
    all_goals first | exact h | exact noRef_fields rfl rfl rfl h

theorem sessOp_arm_noRef (cfg : Cfg) (n : Node) (sid s secs : Nat) (mode : Mode) (h : NoRef n) :
    NoRef (sessOp cfg n sid mode (.arm s secs)).1 := by
  simp only [sessOp]
  by_cases h0 : secs = 0
  · simp only [h0, if_true]
    have := expire_noRef cfg n (some sid) h
    rcases hr : expire cfg n (some sid) with ⟨n1, e⟩
    rw [hr] at this
    cases e <;> exact this
  · simp only [h0, if_false]
    repeat' split
    all_goals first | exact h | exact noRef_fields rfl rfl rfl h

theorem sessOp_revoke_noRef (cfg : Cfg) (n : Node) (sid s : Nat) (mode : Mode) (h : NoRef n) :
    NoRef (sessOp cfg n sid mode (.revoke s)).1 := by
  simp only [sessOp]
  have := expire_noRef cfg n (some sid) h
  rcases hr : expire cfg n (some sid) with ⟨n1, e⟩
  rw [hr] at this
  cases e with
  | some e => exact this
  | none => exact noRef_fields rfl rfl rfl this

/-! ### AddNOC: the new index is fresh -/

theorem foldl_max_ge (l : List Fabric) (m0 : Nat) :
    m0 ≤ l.foldl (fun m f => if m < f.idx then f.idx else m) m0 ∧
    ∀ f ∈ l, f.idx ≤ l.foldl (fun m f => if m < f.idx then f.idx else m) m0 := by
  induction l generalizing m0 with
  | nil => exact ⟨Nat.le_refl _, fun f hf => by cases hf⟩
  | cons g r ih =>
    simp only [List.foldl_cons]
    by_cases hg : m0 < g.idx
    · simp only [hg, if_true]
      have ⟨h1, h2⟩ := ih g.idx
      refine ⟨by omega, fun f hf => ?_⟩
      cases hf with
      | head => exact h1
      | tail _ hf' => exact h2 f hf'
    · simp only [hg, if_false]
      have ⟨h1, h2⟩ := ih m0
      refine ⟨h1, fun f hf => ?_⟩
      cases hf with
      | head => omega
      | tail _ hf' => exact h2 f hf'

theorem maxIdx_fresh (n : Node) : hasFabric n (maxIdx n.fabrics + 1) = false := by
  unfold hasFabric maxIdx
  rw [List.any_eq_false]
  intro f hf
  have := (foldl_max_ge n.fabrics 0).2 f hf
  simp only [gt_iff_lt, decide_eq_true_eq]
  omega

/-- the index `add_with_post_init` picks is not in use -/
theorem newIdx_fresh (n : Node) (idx : Nat)
    (h : (if maxIdx n.fabrics < 254 then some (maxIdx n.fabrics + 1)
          else (List.range 255).find? (fun i => 1 ≤ i && !hasFabric n i)) = some idx) :
    hasFabric n idx = false := by
  split at h
  · injection h with h; subst h; exact maxIdx_fresh n
  · have := List.find?_some h
    simp at this
    exact this.2

theorem storeResum_noRef (n : Node) (h : NoRef n) : NoRef (storeResum n).1 := by
  have ⟨hfr, _⟩ := storeResum_spec n
  exact noRef_fields hfr.fabrics hfr.sessions hfr.resum h

theorem addNoc_noRef (cfg : Cfg) (n : Node) (sid ca fid node subj ser : Nat) (mode : Mode) (h : NoRef n) :
    NoRef (addNoc cfg n sid mode ca fid node subj ser).1 := by
  simp only [addNoc]
  split
  · exact h
  · split
    · exact h
    · rename_i a _
      split
      · exact h
      · split
        · exact h
        · split
          · exact h
          · split
            · exact h
            · split
              · exact h
              · split
                · exact h
                · rename_i idx hidx
                  have hfresh := newIdx_fresh n idx hidx
                  split
                  · exact h
                  · -- the fabric is added
                    have hmono : ∀ (f : Fabric) (i : Nat), HasIdx n.fabrics i = true →
                        HasIdx (n.fabrics ++ [f]) i = true := by
                      intro f i hi; rw [hasIdx_append, hi]; rfl
                    split
                    · -- promoted PASE session
                      refine ⟨fun s' hs' he hf0 => ?_, fun r' hr' => ?_⟩
                      · simp only [List.mem_map] at hs'
                        obtain ⟨s0, hs0, rfl⟩ := hs'
                        by_cases hsid : s0.id = sid
                        · simp only [hsid, if_true, Mode.fab, hasFabric_eq]
                          rw [hasIdx_append]; simp
                        · simp only [hsid, if_false] at he hf0 ⊢
                          rw [hasFabric_eq]
                          exact hmono _ _ (by rw [← hasFabric_eq]; exact h.1 s0 hs0 he hf0)
                      · rw [hasFabric_eq]
                        exact hmono _ _ (by rw [← hasFabric_eq]; exact h.2 r' hr')
                    · -- already promoted PASE session: the fabric is removed again (scopeguard)
                      refine noRef_congr (n := n) (fun i => ?_) rfl rfl h
                      show HasIdx (List.filter (fun g => decide (g.idx ≠ idx)) (n.fabrics ++ [_])) i = HasIdx n.fabrics i
                      simp only [decide_not]
                      rw [hasIdx_filter_ne, hasIdx_append]
                      by_cases hii : i = idx
                      · subst hii
                        rw [← hasFabric_eq, hfresh]; simp
                      · have : ¬ idx = i := fun hh => hii hh.symm
                        simp [hii, this]
                    · -- CASE session
                      exact noRef_mono (n := n) (hmono _) (fun s' hs' he _ => ⟨s', hs', he, rfl⟩)
                        (fun r' hr' => ⟨r', hr', rfl⟩) h

theorem sessOp_addnoc_noRef (cfg : Cfg) (n : Node) (sid s ca fid node subj ser : Nat) (mode : Mode) (h : NoRef n) :
    NoRef (sessOp cfg n sid mode (.addnoc s ca fid node subj ser)).1 :=
  sessOp_addnoc_lift (P := NoRef) cfg n sid s ca fid node subj ser mode
    (fun m hm => storeResum_noRef m hm) (fun m hm => addNoc_noRef cfg m sid ca fid node subj ser mode hm) h

theorem sessOp_updnoc_noRef (cfg : Cfg) (n : Node) (sid s node ser : Nat) (mode : Mode) (h : NoRef n) :
    NoRef (sessOp cfg n sid mode (.updnoc s node ser)).1 := by
  simp only [sessOp]
  repeat' split
  all_goals first
    | exact h
    | (rename_i f _
       refine noRef_congr (n := n) (fun i => ?_) rfl rfl h
       exact hasIdx_map_set n.fabrics { f with node := node, ser := ser } i)

/-- the undo of the first write of a failed CommissioningComplete touches the store only -/
theorem undoAdded_frame (n : Node) (idx : Nat) : Frame n (undoAdded n idx) := by
  unfold undoAdded
  split
  · exact (removeFabricKey_spec n idx).1
  · exact Frame.refl n

theorem undoAdded_noRef (n : Node) (idx : Nat) (h : NoRef n) : NoRef (undoAdded n idx) :=
  noRef_fields (undoAdded_frame n idx).fabrics (undoAdded_frame n idx).sessions (undoAdded_frame n idx).resum h

theorem sessOp_complete_noRef (cfg : Cfg) (n : Node) (sid s : Nat) (mode : Mode) (h : NoRef n) :
    NoRef (sessOp cfg n sid mode (.complete s)).1 := by
  simp only [sessOp]
  split
  · exact h
  · split
    · exact h
    · cases hg : getFabric n mode.fab with
      | none => exact h
      | some f =>
        simp only []
        have ⟨a1, a2, a3⟩ := storeFabric_fields n f
        rcases hst : storeFabric n f with ⟨n1, b⟩
        rw [hst] at a1 a2 a3
        simp only at a1 a2 a3
        have h1 : NoRef n1 := noRef_fields a1 a2 a3 h
        cases b with
        | false => exact h1
        | true =>
          simp only []
          generalize hn3 : ({ n1 with managed := true } : Node) = n3
          have h3 : NoRef n3 := by rw [← hn3]; exact noRef_fields rfl rfl rfl h1
          have ⟨b1, b2, b3⟩ := storeNets_fields n3
          rcases hsn : storeNets n3 with ⟨n4, b4⟩
          rw [hsn] at b1 b2 b3
          simp only at b1 b2 b3
          have h4 : NoRef n4 := noRef_fields b1 b2 b3 h3
          cases b4 with
          | false => exact undoAdded_noRef _ f.idx (noRef_fields rfl rfl rfl h4)
          | true =>
            simp only [ok]
            refine noRef_mono (n := n4) (fun i hi => hi) ?_ (fun r' hr' => ⟨r', hr', rfl⟩) h4
            intro s' hs' he _
            obtain ⟨s0, hs0, he0, hm0, _⟩ := removePase_live n4.sessions none s' hs' he
            exact ⟨s0, hs0, he0, by rw [hm0]⟩

theorem addSess_noRef (cfg : Cfg) (n : Node) (mode : Mode) (peer gen : Nat) (h : NoRef n)
    (hm : mode.fab ≠ 0 → hasFabric n mode.fab = true) : NoRef (addSess cfg n mode peer gen).1 := by
  unfold addSess
  simp only []
  split
  · refine ⟨fun s' hs' he hf0 => ?_, fun r' hr' => h.2 r' hr'⟩
    simp only [List.mem_append, List.mem_singleton] at hs'
    rcases hs' with hs' | rfl
    · exact h.1 s' hs' he hf0
    · exact hm hf0
  · exact noRef_fields rfl rfl rfl h

theorem resumInsert_mem (cfg : Cfg) (l : List Resum) (r : Resum) :
    ∀ x ∈ resumInsert cfg l r, x ∈ l ∨ x = r := by
  intro x hx
  unfold resumInsert at hx
  simp only [List.mem_append, List.mem_singleton] at hx
  rcases hx with hx | hx
  · left
    split at hx
    · exact (List.mem_filter.mp (List.mem_of_mem_drop hx)).1
    · exact (List.mem_filter.mp hx).1
  · right; exact hx

theorem restartFrom_noRef (n : Node) (kv : KV) (hist : List KV) : NoRef (restartFrom n kv hist) := by
  unfold restartFrom
  cases kv.resum <;> simp only [] <;> split <;>
    (refine ⟨fun s' hs' _ _ => absurd hs' (by simp), fun r' hr' => ?_⟩
     have := (List.mem_filter.mp hr').2
     simpa [hasFabric] using this)

theorem sessOp_noRef (cfg : Cfg) (n : Node) (sid : Nat) (mode : Mode) (op : Op) (h : NoRef n) :
    NoRef (sessOp cfg n sid mode op).1 := by
  cases op with
  | openW s => exact sessOp_simple_noRef cfg n sid mode _ h (Or.inl ⟨s, rfl⟩)
  | arm s secs => exact sessOp_arm_noRef cfg n sid s secs mode h
  | csr s upd => exact sessOp_simple_noRef cfg n sid mode _ h (Or.inr (Or.inl ⟨s, upd, rfl⟩))
  | root s ca => exact sessOp_simple_noRef cfg n sid mode _ h (Or.inr (Or.inr (Or.inl ⟨s, ca, rfl⟩)))
  | addnoc s ca fid node subj ser => exact sessOp_addnoc_noRef cfg n sid s ca fid node subj ser mode h
  | updnoc s node ser => exact sessOp_updnoc_noRef cfg n sid s node ser mode h
  | acl s v => exact sessOp_write_noRef cfg n sid mode _ h (Or.inl ⟨s, v, rfl⟩)
  | grp s v => exact sessOp_write_noRef cfg n sid mode _ h (Or.inr (Or.inl ⟨s, v, rfl⟩))
  | label s v => exact sessOp_write_noRef cfg n sid mode _ h (Or.inr (Or.inr (Or.inl ⟨s, v, rfl⟩)))
  | fwrite s => exact sessOp_write_noRef cfg n sid mode _ h (Or.inr (Or.inr (Or.inr ⟨s, rfl⟩)))
  | vvs s => exact sessOp_vvs_noRef cfg n sid s mode h
  | net s v => exact sessOp_simple_noRef cfg n sid mode _ h (Or.inr (Or.inr (Or.inr (Or.inl ⟨s, v, rfl⟩))))
  | rmnet s v => exact sessOp_simple_noRef cfg n sid mode _ h (Or.inr (Or.inr (Or.inr (Or.inr ⟨s, v, rfl⟩))))
  | complete s => exact sessOp_complete_noRef cfg n sid s mode h
  | rmfab s idx => exact sessOp_rmfab_noRef cfg n sid s idx mode h
  | revoke s => exact sessOp_revoke_noRef cfg n sid s mode h
  | _ => exact h

/-- a change of the `reserved` flags only -/
theorem noRef_flag_map {n : Node} (g : Sess → Sess) (hg : ∀ s, (g s).mode = s.mode ∧ (g s).expired = s.expired)
    (h : NoRef n) : NoRef { n with sessions := n.sessions.map g } := by
  refine noRef_mono (n := n) (fun i hi => hi) ?_ (fun r' hr' => ⟨r', hr', rfl⟩) h
  intro s' hs' he _
  simp only [List.mem_map] at hs'
  obtain ⟨s0, hs0, rfl⟩ := hs'
  exact ⟨s0, hs0, by rw [← (hg s0).2]; exact he, by rw [(hg s0).1]⟩

theorem noRef_fresh (now g : Nat) : NoRef ({ now := now, nextGen := g } : Node) :=
  ⟨fun s hs _ _ => absurd hs (by simp), fun r hr => absurd hr (by simp)⟩

/-- after a factory reset - hit by a store fault or not - nothing refers to a fabric at all -/
theorem factoryReset_noRef (n : Node) : NoRef (factoryReset n).1 := by
  have ⟨_, h2, h3, _⟩ := factoryReset_mem n
  refine ⟨fun s hs _ hf0 => ?_, fun r hr => ?_⟩
  · rw [h2, List.mem_filter] at hs
    exact absurd (by simpa using hs.2) hf0
  · rw [h3] at hr; cases hr

/-- **`NoRef` is an invariant of EVERY operation** - whatever the store answers, whichever session
issues the command, the factory reset included (since the repo fix of
`C07-factory-reset-keeps-sessions` it drops the sessions and resumption records of the fabrics). -/
theorem step_noRef (cfg : Cfg) (n : Node) (op : Op) (h : NoRef n) :
    NoRef (step cfg n op).1 := by
  cases hso : isSessOp op with
  | some sid =>
    have h1 := checkTimeouts_noRef cfg n (some sid) h
    rcases step_sess cfg n op sid hso with e | e | ⟨s1, _, e⟩
    · rw [e]; exact h
    · rw [e]; exact h1
    · rw [e]; exact sessOp_noRef cfg _ sid s1.mode op h1
  | none =>
    cases op with
    | boot => simp only [step, isSessOp]; split <;> first | exact h | exact noRef_fields rfl rfl rfl h
    | pase =>
      simp only [step, isSessOp]
      split
      · exact h
      · have := addSess_noRef cfg n (.pase 0) 0 0 h (fun hne => absurd rfl hne)
        rcases hr : addSess cfg n (.pase 0) 0 0 with ⟨n1, o⟩
        rw [hr] at this
        cases o <;> exact this
    | caseEst fab node rid =>
      simp only [step, isSessOp]
      split
      · exact h
      · rename_i f hf
        have hfab : hasFabric n fab = true := by
          split at hf
          · cases hf
          · have hidx := getFabric_idx hf
            unfold hasFabric
            rw [List.any_eq_true]
            exact ⟨f, List.mem_of_find?_eq_some hf, by simpa using hidx⟩
        have := addSess_noRef cfg n (.case fab) node f.gen h (fun _ => hfab)
        have hfe : (addSess cfg n (.case fab) node f.gen).1.fabrics = n.fabrics := by
          unfold addSess; simp only []; split <;> rfl
        rcases hr : addSess cfg n (.case fab) node f.gen with ⟨n1, o⟩
        rw [hr] at this hfe
        simp only at hfe
        cases o with
        | none => exact this
        | some id =>
          refine ⟨this.1, fun r' hr' => ?_⟩
          rcases resumInsert_mem cfg n1.resum _ r' hr' with hm | rfl
          · exact this.2 r' hm
          · show hasFabric n1 fab = true
            rw [hasFabric_eq, hfe, ← hasFabric_eq]; exact hfab
    | hs fab node rid =>
      simp only [step, isSessOp]
      split
      · exact h
      · rename_i f hf
        have hfab : hasFabric n fab = true := by
          split at hf
          · cases hf
          · have hidx := getFabric_idx hf
            unfold hasFabric
            rw [List.any_eq_true]
            exact ⟨f, List.mem_of_find?_eq_some hf, by simpa using hidx⟩
        have := addSess_noRef cfg n (.case fab) node f.gen h (fun _ => hfab)
        have hfe : (addSess cfg n (.case fab) node f.gen).1.fabrics = n.fabrics := by
          unfold addSess; simp only []; split <;> rfl
        rcases hr : addSess cfg n (.case fab) node f.gen with ⟨n1, o⟩
        rw [hr] at this hfe
        simp only at hfe
        cases o with
        | none => exact this
        | some id =>
          have h2 := noRef_flag_map (n := n1) (fun s => if s.id = id then { s with reserved := true } else s)
            (fun s => by split <;> exact ⟨rfl, rfl⟩) this
          refine ⟨h2.1, fun r' hr' => ?_⟩
          rcases resumInsert_mem cfg n1.resum _ r' hr' with hm | rfl
          · exact this.2 r' hm
          · show hasFabric n1 fab = true
            rw [hasFabric_eq, hfe, ← hasFabric_eq]; exact hfab
    | hsdone sid =>
      simp only [step, isSessOp]
      split
      · have h2 := noRef_flag_map (n := n) (fun s => if s.id = sid then { s with reserved := false } else s)
          (fun s => by split <;> exact ⟨rfl, rfl⟩) h
        exact noRef_fields rfl rfl rfl h2
      · exact h
    | nop => exact h
    | sdrop sid =>
      simp only [step, isSessOp]
      split
      · exact h
      · exact noRef_mono (n := n) (fun i hi => hi)
          (fun s' hs' he _ => ⟨s', (List.mem_filter.mp hs').1, he, rfl⟩)
          (fun r' hr' => ⟨r', hr', rfl⟩) h
    | coldreset => exact noRef_fresh _ _
    | fabrecover i => exact noRef_fresh _ _
    | resume rid newRid =>
      simp only [step, isSessOp]
      split
      · exact h
      · rename_i r hr0
        split
        · exact h
        · rename_i hhas
          have hfab : hasFabric n r.fab = true := by simpa using hhas
          have := addSess_noRef cfg n (.case r.fab) r.peer r.gen h (fun _ => hfab)
          have hfe : (addSess cfg n (.case r.fab) r.peer r.gen).1.fabrics = n.fabrics := by
            unfold addSess; simp only []; split <;> rfl
          rcases hr : addSess cfg n (.case r.fab) r.peer r.gen with ⟨n1, o⟩
          rw [hr] at this hfe
          simp only at hfe
          cases o with
          | none => exact this
          | some id =>
            refine ⟨this.1, fun r' hr' => ?_⟩
            rcases resumInsert_mem cfg n1.resum _ r' hr' with hm | rfl
            · exact this.2 r' hm
            · show hasFabric n1 r.fab = true
              rw [hasFabric_eq, hfe, ← hasFabric_eq]; exact hfab
    | tick secs => exact noRef_fields rfl rfl rfl h
    | poll =>
      simp only [step, isSessOp]
      have := checkTimeouts_noRef cfg n none h
      rcases hr : checkTimeouts cfg n none with ⟨n1, e⟩
      rw [hr] at this
      cases e <;> exact this
    | flush =>
      simp only [step, isSessOp]
      have h1 := storeResum_noRef n h
      rcases hst : storeResum n with ⟨n1, b⟩
      rw [hst] at h1
      cases b <;> exact h1
    | restart => exact restartFrom_noRef n _ _
    | crash k => exact restartFrom_noRef n _ _
    | corrupt => exact restartFrom_noRef n _ _
    | kvfail k => exact noRef_fields rfl rfl rfl h
    | freset => exact factoryReset_noRef n
    | _ => simp [isSessOp] at hso

theorem noRef_init : NoRef ({} : Node) :=
  ⟨fun s hs _ _ => absurd hs (by simp), fun r hr => absurd hr (by simp)⟩

end Admin
