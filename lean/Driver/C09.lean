import Driver.TransportCommon
import RsMatterVerif.Model.TwoNode
/-! Driver for C09 (unit level): model correspondence + the property's clauses that are observable
on one node, evaluated on the implementation's own outputs:
* give-up: a message is transmitted at most `1 + budget` times, never fewer than `budget` times
  before giving up, and the give-up is reported as `TxTimeout` and leaves nothing pending;
* the retransmission of a message stops only on an acknowledgement of exactly its counter
  (one acknowledgement suffices) or on the give-up;
* back-off: the entry's delay is never below the protocol's lower bound
  `base · 1.1 · 1.6^max(0, n−1)` (up to the integer-division rounding of the ladder), and the ladder
  is monotone in the attempt number;
* a received message that requested an acknowledgement is acknowledged by the next message sent;
* (sessions) a counter is handed to the exchange layer at most once on a secure session. -/
namespace Driver.C09
open Driver.TC

/-- parsed `t<c>/<n> a<c>/<k> R|-` -/
structure IMrp where
  rt : Option (Nat × Nat) := none
  ak : Option (Nat × Bool) := none
deriving Inhabited

def parseIMrp (s : String) : IMrp :=
  match words s with
  | t :: a :: _ =>
    { rt := parsePair ((t.drop 1).toString),
      ak := (parsePair ((a.drop 1).toString)).map (fun p => (p.1, p.2 == 1)) }
  | _ => {}

/-- rounding allowance (ms) of `k` nested integer divisions by 10 in the ladder: ⌈0.9·Σ 1.6^i⌉ -/
def allowance (k : Nat) : Nat := [1, 3, 5, 9, 15, 24, 39, 63, 102].getD k 200

/-- `delay ≥ base·11·16^k / (10·10^k) − allowance`, in integers -/
def aboveSpecLower (base attempt delay : Nat) (jitter : Nat := 0) : Bool :=
  let k := attempt - 1
  -- with the jitter byte the sender loop uses (100) or more and a base of at least 200 ms the
  -- rounding is absorbed: demand the bound exactly
  let a := if jitter ≥ 100 && base ≥ 200 then 0 else allowance k
  (delay + a) * 10 * 10 ^ k ≥ base * 11 * 16 ^ k

/-- the protocol's retransmission budget as the code names it (`MRP_MAX_TRANSMISSIONS`) -/
def budget : Nat := Consts.mrpMaxTransmissions

structure Pend where
  key : Nat × Nat   -- (session uid, slot); (0,0) for the bare mrp cases
  ctr : Nat
  base : Nat
  tx : Nat          -- transmissions so far
  lastDelay : List (Nat × Nat × Nat) := []  -- (jitter, attempt, delay)

structure OSt where
  pend : List Pend := []
  prevM : IMrp := {}
  prev : ISnap := {}
  /-- counters handed to the exchange layer, per secure session -/
  accepted : List (Nat × Nat) := []

structure St where
  m : MSt := {}
  o : OSt := {}

def baseOf (tok : String) : Nat :=
  match tok.toNat? with
  | some v => if v > 0 then v else 300
  | none => 300

/-- the budget clause for one send attempt of a message that was transmitted `tx` times before -/
def budgetVerdict (tx : Nat) (ok timeout : Bool) : Option String :=
  if ok && tx ≥ budget + 1 then some s!"transmission number {tx + 1} succeeded: budget exceeded"
  else if timeout && tx < budget then some s!"gave up after only {tx} transmissions"
  else none

def oracleMrp (o : OSt) (w : List String) (res : String) (st : IMrp) : OSt × Option String :=
  let n (i : Nat) : Nat := ((w.getD i "").toNat?).getD 0
  let rw := words res
  let cur := o.pend.head?
  let fin (o : OSt) (v : Option String) : OSt × Option String := ({ o with prevM := st }, v)
  match w.getD 0 "" with
  | "ps" =>
    let rel := w.getD 2 "" = "r"
    let ok := rw.head? = some "ok"
    let timeout := res = "err TxTimeout"
    -- acknowledgement piggy-backed?
    let ackBad : Option String :=
      match o.prevM.ak with
      | some (a, _) =>
        if !ok || rw.getD 2 "-" = toString a then none
        else some s!"pending acknowledgement {a} not carried by the message sent: '{res}'"
      | none => none
    if !rel then fin o ackBad else
    match cur with
    | some p =>
      if p.ctr != n 1 then fin o ackBad  -- wrong counter on a pending entry: the code panics, nothing demanded
      else
        let v := budgetVerdict p.tx ok timeout
        let v := match v with
          | some x => some x
          | none =>
            if timeout && st.rt.isSome then some "gave up but a retransmission is still pending"
            else if !ok && !timeout then some s!"send attempt failed with '{res}' instead of TxTimeout"
            else ackBad
        let o' := if ok then { o with pend := [{ p with tx := p.tx + 1 }] } else { o with pend := [] }
        fin o' v
    | none =>
      if ok then
        let p : Pend := { key := (0, 0), ctr := n 1, base := baseOf (w.getD 4 "-"), tx := 1 }
        fin { o with pend := if st.rt.isSome then [p] else [] } ackBad
      else fin o (some s!"first transmission failed: '{res}'")
  | "pr" =>
    let ack := optNat (w.getD 2 "-")
    let v : Option String :=
      match cur with
      | some p =>
        if ack = some p.ctr then
          if res = "ok" && st.rt.isNone then none else some s!"acknowledgement of {p.ctr} did not stop the retransmission: '{res}'"
        else if st.rt.isNone then some s!"retransmission of {p.ctr} stopped without a matching acknowledgement"
        else none
      | none => none
    let v := match v with
      | some x => some x
      | none =>
        if res = "ok" && w.getD 3 "" = "r" && st.ak != some (n 1, false) then
          some s!"reliable message {n 1} accepted but no acknowledgement is pending for it"
        else none
    let o' := if st.rt.isNone then { o with pend := [] } else o
    fin o' v
  | "dl" =>
    match cur, res.toNat? with
    | some p, some d =>
      let attempt := p.tx - 1
      let low := aboveSpecLower p.base attempt d (n 1)
      let mono := p.lastDelay.all (fun (j, a, dd) => !(j == n 1) || (if a ≤ attempt then dd ≤ d else d ≤ dd))
      let p' := { p with lastDelay := (n 1, attempt, d) :: p.lastDelay }
      fin { o with pend := [p'] }
        (if !low then some s!"delay {d} ms before retransmission {attempt + 1} is below the protocol's back-off for base {p.base}"
         else if !mono then some s!"back-off ladder not monotone: {d} ms at attempt {attempt}"
         else none)
    | some _, none => fin o (some "no delay although a retransmission is pending")
    | none, _ => fin o none
  | "bo" =>
    let d := res.toNat?.getD 0
    fin o (if aboveSpecLower (n 1) (n 2) d (n 3) then none
           else some s!"backoff_ms({n 1},{n 2},{n 3}) = {d} is below the protocol's lower bound")
  | _ => fin o none

def slotOf (snap : ISnap) (uid sl : Nat) : Option ISlot := (snap.sess uid).bind (fun s => s.slots.getD sl none)

def oracleTab (o : OSt) (w : List String) (res : String) (snap : ISnap) : OSt × Option String :=
  let n (i : Nat) : Nat := ((w.getD i "").toNat?).getD 0
  let rw := words res
  let fin (o : OSt) (v : Option String) : OSt × Option String :=
    -- forget pending entries whose slot no longer holds that exchange/counter
    ({ o with prev := snap, pend := o.pend.filter (fun p => (slotOf snap p.key.1 p.key.2).any (fun x => x.rt.any (fun q => q.1 == p.ctr))) }, v)
  -- a pending retransmission may disappear only by a matching acknowledgement, the give-up, or
  -- together with its exchange/session
  let vanished : Option String :=
    o.pend.findSome? (fun p =>
      match slotOf o.prev p.key.1 p.key.2, slotOf snap p.key.1 p.key.2 with
      | some a, some b =>
        if a.id == b.id && a.role == b.role && b.rt.isNone then
          let byAck := w.getD 0 "" = "rx" && n 1 == p.key.1 && optNat (w.getD 5 "-") = some p.ctr
          let byTimeout := w.getD 0 "" = "tx" && res = "err TxTimeout"
          if byAck || byTimeout then none
          else some s!"retransmission of {p.ctr} (session {p.key.1} slot {p.key.2}) stopped without a matching acknowledgement or give-up"
        else none
      | _, _ => none)
  match w.getD 0 "" with
  | "tx" =>
    match (w.getD 2 "-").toNat? with
    | none => fin o vanished
    | some sl =>
      let uid := n 1
      let ok := rw.head? = some "ctr"
      let timeout := res = "err TxTimeout"
      let rel := w.getD 3 "" = "r"
      match o.pend.find? (fun p => p.key == (uid, sl)) with
      | some p =>
        if !rel then fin o vanished else
        let v := budgetVerdict p.tx ok timeout
        let v := match v with
          | some x => some x
          | none =>
            if timeout && (slotOf snap uid sl).any (·.rt.isSome) then some "gave up but a retransmission is still pending"
            else if !ok && !timeout && res != "panic" then some s!"send attempt failed with '{res}' instead of TxTimeout"
            else vanished
        let pend' := o.pend.filter (fun q => q.key != (uid, sl))
        fin { o with pend := if ok then { p with tx := p.tx + 1 } :: pend' else pend' } v
      | none =>
        if ok && rel then
          let c := (field' rw "ctr").getD 0
          let isPend := (slotOf snap uid sl).any (fun x => x.rt.any (fun q => q.1 == c))
          let p : Pend := { key := (uid, sl), ctr := c, base := baseOf (w.getD 6 "-"), tx := 1 }
          fin { o with pend := if isPend then p :: o.pend else o.pend } vanished
        else fin o vanished
  | "rx" =>
    let uid := n 1
    let secure := (snap.sess uid).any (fun s => s.mode != "x")
    let delivered := res = "new" || res = "old"
    let twice := secure && delivered && o.accepted.contains (uid, n 2)
    let o' := if delivered then { o with accepted := (uid, n 2) :: o.accepted } else o
    fin o' (if twice then some s!"counter {n 2} handed to the exchange layer twice on secure session {uid}" else vanished)
  | "rm" | "evictrm" => fin { o with accepted := o.accepted.filter (·.1 != n 1) } vanished
  | _ => fin o vanished
where
  field' (ws : List String) (k : String) : Option Nat :=
    match ws.dropWhile (· != k) with
    | _ :: v :: _ => v.toNat?
    | _ => none

/-! ### system-level trace monitor (`sys` cases: two real nodes over the adversarial network)
Written from the property text; looks only at the logged send results, the receiving application's
log and the wire. -/

structure Wire where
  t : Nat
  src : Nat
  /-- copies the network delivered: 0 (dropped), 1, 2 (duplicated) -/
  copies : Nat
  /-- the network held this datagram back -/
  delayed : Bool
  ctr : Nat
  flags : Nat
  ack : Option Nat
  /-- message number, for datagrams that request an acknowledgement -/
  num : Option Nat

def parseWire (s : String) : Option Wire :=
  match s.splitOn ":" with
  | [t, f, v, c, xf, a, i] =>
    some { t := t.toNat?.getD 0, src := f.toNat?.getD 0,
           copies := if v = "x" then 0 else if v = "2" then 2 else 1, delayed := v.startsWith "l",
           ctr := c.toNat?.getD 0, flags := xf.toNat?.getD 0, ack := a.toNat?, num := i.toNat? }
  | _ => none

def kv (ws : List String) (k : String) : String :=
  match ws.find? (·.startsWith (k ++ "=")) with
  | some w => (w.drop (k.length + 1)).toString
  | none => ""

def strictlyIncreasing : List Nat → Bool
  | a :: b :: rest => a < b && strictlyIncreasing (b :: rest)
  | _ => true

/-- one token of the harness's event log → observed event of the two-node model -/
def parseObs (tok : String) : Option TwoNode.Obs :=
  let fate (f : String) : TwoNode.Fate := if f = "x" then .lost else if f = "2" then .twice else .pass
  let n (x : String) : Nat := x.toNat?.getD 0
  match tok.splitOn ":" with
  | ["TA", t, c, i, f] => some (.txA (n t) (n c) (n i) (fate f))
  | ["RB", c, i] => some (.rxB (n c) (n i))
  | ["AP", i] => some (.appB (n i))
  | ["TB", c, k, f] => some (.txB (n c) (n k) (fate f))
  | ["RA", c, k] => some (.rxA (n c) (n k))
  | ["E", i, r] => some (.endA (n i) (r == "ok"))
  | _ => none

/-- The system-level monitor: the observed event log must be a trace of the two-node model
(`TwoNode.acceptsTrace`: every event an enabled transition that produces exactly the observed
datagrams / application events; retransmissions not earlier than the pending entry's back-off; a
give-up only with the budget used up; every delivery answered by the acknowledgement the model
produces; success exactly when a matching acknowledgement was processed) — the theorems of
`Props/C09.lean` hold for every such trace. What the model does not contain is checked here directly:
the only failure of a send call is the transmit time-out, and the application's log reported by
the harness is the one the model ends with. -/
def sysMonitor (res : String) : Option String :=
  let ws := words res
  let base := (kv ws "base").toNat?.getD 300
  let enc := kv ws "enc" == "1"
  let results := (kv ws "res").splitOn "," |>.filter (· != "")
  let app := ((kv ws "app").splitOn ",").filterMap (·.toNat?)
  let toks := ((kv ws "trace").splitOn ",").filter (· != "")
  match results.find? (fun r => r != "ok" && r != "TxTimeout") with
  | some r => some s!"a send ended with '{r}' (neither success nor transmit timeout)"
  | none =>
  match toks.find? (fun t => (parseObs t).isNone) with
  | some t => some s!"unexpected datagram or event on the exchange: {t}"
  | none =>
  let obs := toks.filterMap parseObs
  -- the initial counters are random: taken from the first transmission of each node
  let a0 := obs.findSome? (fun o => match o with | .txA _ c _ _ => some c | _ => none)
  -- (the receiver's acknowledgements may reach the wire out of order: its first counter is the smallest)
  let b0 := (obs.filterMap (fun o => match o with | .txB c _ _ => some c | _ => none)).min?
  match a0 with
  | none => if obs.isEmpty then none else some "events without any transmission of the sender"
  | some a0 =>
    match TwoNode.acceptsTrace (TwoNode.init a0 (b0.getD 0) enc (some base)) obs with
    | .error e => some s!"not a trace of the two-node model: {e}"
    | .ok s =>
      if s.app.reverse != app then some s!"application log {app} differs from the model's {s.app.reverse}"
      else if s.res.reverse.map (·.2) != results.map (· == "ok") then some "send results differ from the model's"
      -- the property itself, on the implementation's own log (independent of the model): in sending order,
      -- at most once - on a secure session always; on an unsecured one unless a copy reached the receiver
      -- more than 16 counters behind its window (the restart rule of the unsecured window, by specification;
      -- the ghost flag `late` of the model records exactly that: `C09.twoNode_late_step`)
      else if !strictlyIncreasing app && (enc || !s.late) then
        some s!"the receiving application's log {app} is not in sending order / at most once"
      else if enc && s.late then some "the model flagged a restart on a secure session"
      else none

def step (st : St) (line : String) : St × String :=
  let (op, out) := splitArrow line
  match words op with
  | "case" :: _ :: kind => ({ m := newCase kind }, "case")
  | "flow" :: _ =>
    match sysMonitor out with
    | some why => (st, s!"ORA {why}")
    | none => (st, "ok")
  | w =>
    let (res, stateS) := splitHash out
    let (m', dis) := modelStep st.m op out
    let (o', ora) := if st.m.isMrp then oracleMrp st.o w res (parseIMrp stateS)
                     else oracleTab st.o w res (parseSnap stateS)
    let st' : St := { m := m', o := o' }
    match ora with
    | some why => (st', s!"ORA {why}")
    | none =>
      match dis with
      | some mo => (st', s!"DIS {mo}")
      | none => (st', "ok")

def run : IO UInt32 := Driver.runLoop ({} : St) step

end Driver.C09
