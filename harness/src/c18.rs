//! C18: BTP delivers each message intact, once and in order, or fails cleanly.
//!
//! Two REAL `Btp` objects (each owning a real `btp::session::Session`, its one-slot outgoing SDU and
//! the real pump `process_outgoing`) are joined by two FIFO queues and driven by scheduler
//! operations; a hostile peer is simulated by injecting arbitrary / nearly valid segments.
//!
//! case line:  `case <id> <l|h> <init_a> <init_b> <gatt_a> <gatt_b> <relaxed_a> <relaxed_b>` (gatt 0 = unknown)
//! operations: `send x <hex>`   Btp::send (non-blocking half)        => ok | busy | err E
//!             `poll x`         Btp::process_outgoing; the segment is queued towards the peer
//!                                                                    => tx <hex> | none | err E
//!             `dlv x`          head of the queue towards x -> Btp::process_incoming => ok | err E | empty
//!             `inj x <hex>`    arbitrary bytes -> Btp::process_incoming            => ok | err E
//!             `fetch x <cap>`  Btp::recv (non-blocking half) into a buffer of cap bytes => msg <hex> | none | err E
//!             `tick <secs>`    advance the mock clock                               => ok
//!             `hsw x <win>`    rewrite the window byte of the handshake request travelling towards x => ok | skip
//!             `due x`          Session::is_ack_due(now, ack timeout)                => 0 | 1
//!             `tmo x`          Btp::timeout() = Session::is_timed_out(now, 30 s): the connection idle
//!                              timeout the GATT glue polls (`wait_timeout`) to end the session => 0 | 1
//! every answer of an end is followed by ` | <14 window fields>`; `panic` marks the end dead.
use std::collections::VecDeque;
use std::panic::{catch_unwind, AssertUnwindSafe};

use crate::proto::{hex, parse_cases, unhex, Case, Out};
use crate::rng::Rng;
use crate::Args;

use embassy_time::{Duration, MockDriver};
use rs_matter::transport::network::btp::verif_btp::Session;
use rs_matter::transport::network::btp::Btp;
use rs_matter::transport::network::BtAddr;

#[path = "c18_ring.rs"]
mod ring;

const PEER: BtAddr = BtAddr([1, 2, 3, 4, 5, 6]);
const MAX_TX: usize = 1232;

struct End {
    btp: Box<Btp>,
    gatt: Option<u16>,
    dead: bool,
}

impl End {
    fn new(initiator: bool, gatt: u16, relaxed: bool) -> Self {
        let btp = Box::new(Btp::new());
        btp.set_initiator(initiator);
        btp.set_relaxed_mtu_nego(relaxed);
        End { btp, gatt: if gatt == 0 { None } else { Some(gatt) }, dead: false }
    }
    fn st(&self) -> String {
        let (s, l, o) = self.btp.verif_state();
        let mut v: Vec<String> = s.iter().map(|x| x.to_string()).collect();
        v.push(l.to_string());
        v.push(o.to_string());
        v.join(",")
    }
    fn fields(&self) -> [u32; 12] {
        self.btp.verif_state().0
    }
    fn sdu_len(&self) -> usize {
        self.btp.verif_state().1
    }
}

struct World {
    a: End,
    b: End,
    q_ab: VecDeque<Vec<u8>>,
    q_ba: VecDeque<Vec<u8>>,
    /// kind `r`: the real ring buffer under test
    ring: Option<Box<dyn ring::RingDyn>>,
}

fn errname(e: &rs_matter::error::Error) -> String {
    format!("err {:?}", e.code())
}

impl World {
    fn new(kind: &str) -> World {
        let f: Vec<u16> = kind.split_whitespace().skip(1).map(|x| x.parse().unwrap_or(0)).collect();
        let g = |i: usize| f.get(i).copied().unwrap_or(0);
        MockDriver::get().reset();
        let ring = if kind.starts_with('r') { ring::new_ring(g(0) as usize) } else { None };
        World {
            a: End::new(g(0) == 1, g(2), g(4) == 1),
            b: End::new(g(1) == 1, g(3), g(5) == 1),
            q_ab: VecDeque::new(),
            q_ba: VecDeque::new(),
            ring,
        }
    }

    fn end(&mut self, x: &str) -> &mut End {
        if x == "a" {
            &mut self.a
        } else {
            &mut self.b
        }
    }

    /// Execute one operation on the real code; returns the canonical output.
    fn exec(&mut self, op: &str) -> String {
        let w: Vec<&str> = op.split_whitespace().collect();
        if w.is_empty() {
            return "bad".into();
        }
        if w[0].starts_with('r') {
            return match self.ring.as_mut() {
                Some(r) => {
                    let r: &mut dyn ring::RingDyn = r.as_mut();
                    catch_unwind(AssertUnwindSafe(|| ring::exec(r, &w))).unwrap_or_else(|_| "panic".into())
                }
                None => "bad".into(),
            };
        }
        if w[0] == "tick" {
            let n: u64 = w.get(1).and_then(|x| x.parse().ok()).unwrap_or(0);
            MockDriver::get().advance(Duration::from_secs(n));
            return "ok".into();
        }
        let x = w.get(1).copied().unwrap_or("a");
        if w[0] == "hsw" {
            // a conforming peer with another window preference: rewrite the window byte of the
            // handshake request travelling towards x
            let win: u8 = w.get(2).and_then(|c| c.parse().ok()).unwrap_or(1);
            let q = if x == "a" { &mut self.q_ba } else { &mut self.q_ab };
            return match q.front_mut() {
                Some(h) if h.len() == 9 && h[0] == 0x65 && h[1] == 0x6c => {
                    h[8] = win;
                    "ok".into()
                }
                _ => "skip".into(),
            };
        }
        if self.end(x).dead {
            return "dead".into();
        }
        let res: Result<String, ()> = match w[0] {
            "send" => {
                let m = unhex(w.get(2).copied().unwrap_or("-"));
                let e = self.end(x);
                catch_unwind(AssertUnwindSafe(|| match e.btp.verif_send(&m, PEER) {
                    Ok(true) => "ok".to_string(),
                    Ok(false) => "busy".to_string(),
                    Err(err) => errname(&err),
                }))
                .map_err(|_| ())
            }
            "poll" => {
                let e = self.end(x);
                let gatt = e.gatt;
                let mut buf = [0u8; 512];
                let r = catch_unwind(AssertUnwindSafe(|| e.btp.process_outgoing(gatt, &mut buf)));
                match r {
                    Err(_) => Err(()),
                    Ok(Err(err)) => Ok(errname(&err)),
                    Ok(Ok(0)) => Ok("none".to_string()),
                    Ok(Ok(n)) => {
                        let seg = buf[..n].to_vec();
                        let s = format!("tx {}", hex(&seg));
                        if x == "a" {
                            self.q_ab.push_back(seg);
                        } else {
                            self.q_ba.push_back(seg);
                        }
                        Ok(s)
                    }
                }
            }
            "dlv" | "inj" => {
                let seg = if w[0] == "dlv" {
                    let q = if x == "a" { &mut self.q_ba } else { &mut self.q_ab };
                    match q.pop_front() {
                        Some(s) => s,
                        None => return "empty".into(),
                    }
                } else {
                    unhex(w.get(2).copied().unwrap_or("-"))
                };
                let e = self.end(x);
                let gatt = e.gatt;
                catch_unwind(AssertUnwindSafe(|| match e.btp.process_incoming(gatt, PEER, &seg) {
                    Ok(()) => "ok".to_string(),
                    Err(err) => errname(&err),
                }))
                .map_err(|_| ())
            }
            "fetch" => {
                let cap: usize = w.get(2).and_then(|c| c.parse().ok()).unwrap_or(2048).min(8192);
                let e = self.end(x);
                let mut buf = vec![0u8; cap];
                catch_unwind(AssertUnwindSafe(|| match e.btp.verif_recv(&mut buf) {
                    Ok(Some((n, _))) => format!("msg {}", hex(&buf[..n])),
                    Ok(None) => "none".to_string(),
                    Err(err) => errname(&err),
                }))
                .map_err(|_| ())
            }
            "due" => {
                let e = self.end(x);
                return match catch_unwind(AssertUnwindSafe(|| e.btp.verif_is_ack_due())) {
                    Ok(true) => "1".into(),
                    Ok(false) => "0".into(),
                    Err(_) => "panic".into(),
                };
            }
            "tmo" => {
                let e = self.end(x);
                return match catch_unwind(AssertUnwindSafe(|| e.btp.timeout())) {
                    Ok(true) => "1".into(),
                    Ok(false) => "0".into(),
                    Err(_) => "panic".into(),
                };
            }
            _ => return "bad".into(),
        };
        match res {
            Ok(s) => format!("{} | {}", s, self.end(x).st()),
            Err(()) => {
                self.end(x).dead = true;
                "panic".into()
            }
        }
    }
}

// ------------------------------------------------------------------------------------------------
// segment crafting (the hostile peer)

#[derive(Default, Clone)]
struct Seg {
    flags: u8,
    opcode: u8,
    ack: u8,
    seq: u8,
    len: u16,
    payload: Vec<u8>,
}

impl Seg {
    fn bytes(&self) -> Vec<u8> {
        let mut v = vec![self.flags];
        if self.flags & 0x20 != 0 {
            v.push(self.opcode);
        }
        if self.flags & 0x08 != 0 {
            v.push(self.ack);
        }
        if self.flags & 0x40 == 0 {
            v.push(self.seq);
        }
        if self.flags & 0x01 != 0 && self.flags & 0x40 == 0 {
            v.extend_from_slice(&self.len.to_le_bytes());
        }
        v.extend_from_slice(&self.payload);
        v
    }
    fn hdr_len(&self) -> usize {
        self.bytes().len() - self.payload.len()
    }
}

fn hs_req(versions: u32, mtu: u16, window: u8) -> Vec<u8> {
    let mut v = vec![0x65, 0x6c];
    v.extend_from_slice(&versions.to_le_bytes());
    v.extend_from_slice(&mtu.to_le_bytes());
    v.push(window);
    v
}

fn hs_resp(version: u8, mtu: u16, window: u8) -> Vec<u8> {
    let mut v = vec![0x65, 0x6c, version];
    v.extend_from_slice(&mtu.to_le_bytes());
    v.push(window);
    v
}

struct Gen<'a> {
    w: World,
    ops: Vec<(String, String)>,
    out: &'a mut Out,
    n_ok: u64,
    n_err: u64,
    n_msg: u64,
    n_tx: u64,
}

impl<'a> Gen<'a> {
    fn op(&mut self, op: String) -> String {
        let o = self.w.exec(&op);
        let r = o.split(" | ").next().unwrap_or("").to_string();
        let key = r.split_whitespace().next().unwrap_or("").to_string();
        let cmd = op.split_whitespace().next().unwrap_or("").to_string();
        self.out.stat(&format!("{}_{}", cmd, if key == "err" { r.replace(' ', "_") } else { key.clone() }), 1);
        match key.as_str() {
            "ok" if cmd == "dlv" || cmd == "inj" => self.n_ok += 1,
            "err" => self.n_err += 1,
            "msg" => self.n_msg += 1,
            "tx" => self.n_tx += 1,
            _ => {}
        }
        self.ops.push((op, o));
        r
    }
}

const MTUS: [u16; 22] = [0, 1, 2, 3, 4, 5, 8, 19, 20, 22, 23, 24, 25, 30, 64, 100, 185, 244, 247, 248, 512, 65535];
const WINS: [u8; 12] = [0, 1, 2, 3, 4, 5, 6, 8, 79, 80, 128, 255];

/// hostile stream: one real end `a` (role by the case line); the generator is the peer.
fn gen_hostile(r: &mut Rng, out: &mut Out, id: u64, thorough: bool) -> (String, Vec<(String, String)>, bool) {
    let init = r.chance(1, 3);
    let gatt: u16 = *r.pick(&[0u16, 0, 23, 24, 64, 100, 185, 247, 248, 512, 5, 3, 2]);
    let relaxed = r.chance(1, 2);
    let kind = format!("h {} 0 {} 0 {} 0", init as u8, gatt, relaxed as u8);
    let mut g = Gen { w: World::new(&kind), ops: Vec::new(), out, n_ok: 0, n_err: 0, n_msg: 0, n_tx: 0 };
    let _ = id;
    // optional pre-handshake noise
    if r.chance(1, 3) {
        for _ in 0..r.range(1, 4) {
            let bytes = match r.below(4) {
                0 => { let n = r.range(0, 12) as usize; r.bytes(n) },
                1 => Seg { flags: 0x05, seq: r.below(3) as u8, len: 3, payload: vec![1, 2, 3], ..Default::default() }.bytes(),
                2 => Seg { flags: 0x08, seq: 0, ack: r.next() as u8, ..Default::default() }.bytes(),
                _ => vec![r.next() as u8],
            };
            g.op(format!("inj a {}", hex(&bytes)));
            if r.chance(1, 2) {
                g.op("poll a".into());
            }
        }
    }
    // handshake
    let do_handshake = |g: &mut Gen, r: &mut Rng, valid_bias: u64| {
        if init {
            g.op("poll a".into()); // emits the request
            let (mtu, win) = if r.below(100) < valid_bias {
                (*r.pick(&[20u16, 21, 50, 100, 182, 244]), *r.pick(&[1u8, 2, 3, 4, 6, 10, 79, 255]))
            } else {
                (*r.pick(&MTUS), *r.pick(&WINS))
            };
            let mut bytes = hs_resp(r.range(0, 5) as u8, mtu, win);
            match r.below(20) {
                0 => {
                    bytes.pop();
                }
                1 => bytes[0] = r.next() as u8 | 0x40,
                2 => bytes[1] = r.next() as u8,
                3 => bytes.extend_from_slice(&r.bytes(3)),
                _ => {}
            }
            g.op(format!("inj a {}", hex(&bytes)));
        } else {
            let (mtu, win) = if r.below(100) < valid_bias {
                (*r.pick(&[0u16, 23, 64, 100, 185, 247, if gatt == 0 { 23 } else { gatt }]), *r.pick(&[1u8, 2, 3, 4, 6, 10, 79, 255]))
            } else {
                (*r.pick(&MTUS), *r.pick(&WINS))
            };
            let mut bytes = hs_req(*r.pick(&[4u32, 0, 0x54, 0x0400_0000, 0xffff_ffff, 0x40]), mtu, win);
            match r.below(20) {
                0 => {
                    bytes.pop();
                }
                1 => bytes[0] = r.next() as u8 | 0x40,
                2 => bytes[1] = r.next() as u8,
                3 => bytes.extend_from_slice(&r.bytes(3)),
                _ => {}
            }
            g.op(format!("inj a {}", hex(&bytes)));
            g.op("poll a".into()); // emits the response
        }
    };
    do_handshake(&mut g, r, 75);
    let steps = if thorough { r.range(10, 400) } else { r.range(5, 120) };
    // behaviour profile of the peer
    let profile = r.below(6);
    let mut msg_in_progress: Option<(usize, usize)> = None; // (total, sent) of the SDU the peer is sending
    for _ in 0..steps {
        if g.w.a.dead {
            break;
        }
        let f = g.w.a.fields();
        let (mtu, _win, est, s_level, last_sent, r_level, _ack_level, ack_seq, rem) =
            (f[0] as usize, f[1], f[3], f[4], f[5] as u8, f[6], f[7], f[8] as u8, f[9] as usize);
        let c = r.below(100);
        if c < 8 {
            let len = match r.below(4) {
                0 => r.range(1, 8),
                1 => r.range(1, 40),
                2 => r.range(1, 300),
                _ => *r.pick(&[0u64, 1, 15, 16, 17, 20, 1232, 1233]),
            } as usize;
            let m = r.bytes(len);
            g.op(format!("send a {}", hex(&m)));
        } else if c < 24 {
            g.op("poll a".into());
        } else if c < 32 {
            let cap = if r.chance(1, 8) { r.range(0, 20) } else { 4096 };
            g.op(format!("fetch a {}", cap));
        } else if c < 35 {
            g.op(format!("tick {}", *r.pick(&[1u64, 5, 14, 15, 16, 31])));
            g.op("due a".into());
            g.op("tmo a".into());
        } else if c < 37 {
            do_handshake(&mut g, r, 60);
            msg_in_progress = None;
        } else {
            // a data / ack segment, mostly valid
            let mut s = Seg::default();
            s.seq = match r.below(20) {
                0 => ack_seq,
                1 => ack_seq.wrapping_add(2),
                2 => r.next() as u8,
                _ => ack_seq.wrapping_add(1),
            };
            // acknowledgement
            let outstanding_known = s_level < f[1];
            match r.below(if profile == 1 { 40 } else { 12 }) {
                0 | 1 | 2 | 3 => {
                    if outstanding_known || r.chance(1, 6) {
                        s.flags |= 0x08;
                        s.ack = last_sent;
                    }
                }
                4 => {
                    s.flags |= 0x08;
                    s.ack = last_sent.wrapping_sub(r.range(0, 3) as u8);
                }
                5 => {
                    s.flags |= 0x08;
                    let rnd = r.next() as u8;
                    s.ack = *r.pick(&[77u8, last_sent.wrapping_add(1), last_sent.wrapping_add(2), rnd, 0, 255]);
                }
                _ => {}
            }
            let hdr_base = 2 + (s.flags & 0x08 != 0) as usize;
            let shape = r.below(100);
            if shape < 12 {
                // standalone ack (or nothing-flag segment when no ack bit)
                if r.chance(1, 10) {
                    s.payload = { let n = r.range(1, 3) as usize; r.bytes(n) };
                }
            } else if let Some((total, sent)) = msg_in_progress.filter(|_| rem > 0 && shape < 90) {
                // continue the SDU
                let room = mtu.saturating_sub(hdr_base);
                let left = total.saturating_sub(sent);
                if left <= room || room == 0 {
                    s.flags |= 0x04;
                    s.payload = r.bytes(left);
                    msg_in_progress = None;
                } else {
                    s.flags |= 0x02;
                    s.payload = r.bytes(room);
                    msg_in_progress = Some((total, sent + room));
                }
                match r.below(30) {
                    0 => s.flags |= 0x01,
                    1 => {
                        s.payload.push(0);
                    }
                    2 => {
                        s.payload.pop();
                    }
                    3 => s.flags ^= 0x04,
                    _ => {}
                }
            } else if shape < 55 {
                // single-segment SDU
                let room = mtu.saturating_sub(hdr_base + 2);
                let n = match r.below(6) {
                    0 => 0,
                    1 => room,
                    2 => room + 1,
                    3 => 1,
                    _ => r.range(0, room.max(1) as u64) as usize,
                };
                s.flags |= 0x05;
                s.len = n as u16;
                s.payload = r.bytes(n);
                match r.below(25) {
                    0 => s.len = s.len.wrapping_add(1),
                    1 => s.len = s.len.wrapping_sub(1),
                    2 => s.flags &= !0x04,
                    3 => s.flags |= 0x02,
                    4 => s.flags |= 0x20,
                    5 => s.len = 65535,
                    _ => {}
                }
            } else if shape < 92 {
                // first segment of a multi-segment SDU
                let room = mtu.saturating_sub(hdr_base + 2);
                let total = match r.below(5) {
                    0 => room + 1,
                    1 => mtu.max(1),
                    2 => mtu + 1,
                    3 => *r.pick(&[1232usize, 1583, 3000, 3164, 3165, 3166, 3167, 40000, 65535]),
                    _ => r.range(room as u64 + 1, (room * 4 + 8) as u64) as usize,
                };
                s.flags |= 0x01;
                s.len = total as u16;
                s.payload = r.bytes(room);
                msg_in_progress = Some((total, room));
                match r.below(25) {
                    0 => {
                        s.payload.push(1);
                    }
                    1 => {
                        s.payload.pop();
                    }
                    2 => s.flags |= 0x04,
                    _ => {}
                }
            } else {
                // arbitrary flags / bytes
                s.flags = r.next() as u8;
                s.opcode = r.next() as u8;
                s.len = r.below(40) as u16;
                s.payload = { let n = r.range(0, 30) as usize; r.bytes(n) };
            }
            let _ = (est, r_level);
            g.op(format!("inj a {}", hex(&s.bytes())));
            // profiles: 0 = a is polled often (acks flow), 2 = never polled (overrun), others = random
            let poll = match profile {
                0 => r.chance(2, 3),
                2 => false,
                3 => r.chance(1, 10),
                _ => r.chance(1, 3),
            };
            if poll {
                g.op("poll a".into());
            }
            if profile == 0 && r.chance(1, 2) {
                g.op("fetch a 4096".into());
            }
        }
    }
    let nt = g.n_ok >= 1 && g.n_err >= 1;
    (kind, g.ops, nt)
}

fn pick_len(r: &mut Rng, mtu: usize) -> usize {
    match r.below(10) {
        0 => r.range(1, 6) as usize,
        1 => mtu.saturating_sub(r.range(0, 7) as usize).max(1),
        2 => mtu + r.range(0, 3) as usize,
        3 => (mtu - 2) * r.range(2, 4) as usize - r.range(0, 6) as usize,
        4 => *r.pick(&[1usize, 2, 1231, 1232, 1233, 0, 1000]),
        5 => r.range(1, 1232) as usize,
        _ => r.range(1, 60) as usize,
    }
}

/// link stream: two well-behaved ends, `a` initiator, `b` responder.
/// buffer size of a fetch by a well-behaved application: mostly large enough, in a fraction of the
/// fetches smaller than (or exactly as large as) the message that is waiting (`len`, if known)
fn pick_cap(r: &mut Rng, len: Option<usize>) -> usize {
    let l = len.unwrap_or(1232);
    match r.below(14) {
        0 => 1,
        1 => 16,
        2 => 512,
        3 => l.saturating_sub(1).max(1),
        4 => l,
        5 => 1232,
        _ => 2048,
    }
}

/// `fetch y` with a buffer chosen by `pick_cap`; `pend` = lengths of the messages accepted for
/// sending at the other end and not yet fetched here
fn fetch_var(g: &mut Gen, r: &mut Rng, y: &str, pend: &mut VecDeque<usize>) -> bool {
    let cap = pick_cap(r, pend.front().copied());
    if cap < pend.front().copied().unwrap_or(0) {
        g.out.stat("link_fetch_truncating", 1);
    }
    if g.op(format!("fetch {} {}", y, cap)).starts_with("msg") {
        pend.pop_front();
        true
    } else {
        false
    }
}

fn gen_link(r: &mut Rng, out: &mut Out, thorough: bool) -> (String, Vec<(String, String)>, bool) {
    let gatts: [u16; 14] = [0, 23, 24, 25, 27, 32, 50, 64, 100, 128, 185, 247, 300, 512];
    let ga = *r.pick(&gatts);
    let gb = if r.chance(3, 5) { ga } else { *r.pick(&gatts) };
    let relaxed_b = r.chance(1, 2);
    let kind = format!("l 1 0 {} {} 0 {}", ga, gb, relaxed_b as u8);
    let mut g = Gen { w: World::new(&kind), ops: Vec::new(), out, n_ok: 0, n_err: 0, n_msg: 0, n_tx: 0 };
    // lengths of the messages accepted for sending at a / at b and not yet fetched at the other end
    let mut pend_ab: VecDeque<usize> = VecDeque::new();
    let mut pend_ba: VecDeque<usize> = VecDeque::new();
    // handshake, sometimes with sends queued before it completes and out-of-order polls
    if r.chance(1, 3) {
        let m = { let n = r.range(1, 40) as usize; r.bytes(n) };
        if g.op(format!("send a {}", hex(&m))) == "ok" {
            pend_ab.push_back(m.len());
        }
    }
    if r.chance(1, 4) {
        g.op("poll b".into());
        g.op("dlv b".into());
    }
    g.op("poll a".into());
    if r.chance(1, 4) {
        g.op("poll a".into());
    }
    if r.chance(2, 5) {
        let win = *r.pick(&[1u64, 2, 2, 3, 3, 4, 5, 7, 20, 255]);
        g.op(format!("hsw b {}", win));
    }
    g.op("dlv b".into());
    g.op("poll b".into());
    g.op("dlv a".into());
    let mtu = g.w.a.fields()[0] as usize;
    let win = g.w.a.fields()[1] as usize;
    g.out.stat(&format!("link_mtu_{}", mtu), 1);
    g.out.stat(&format!("link_win_{}", win), 1);
    let profile = r.below(6);
    let steps = match profile {
        5 => if thorough { r.range(1500, 4000) } else { r.range(900, 1600) }, // long run of small messages: sequence wrap
        _ => if thorough { r.range(40, 900) } else { r.range(20, 260) },
    };
    for _ in 0..steps {
        let c = r.below(100);
        // weights per profile: (send a, send b, poll a, poll b, dlv a, dlv b, fetch a, fetch b, tick)
        let wts: [u64; 9] = match profile {
            0 => [8, 8, 16, 16, 16, 16, 9, 9, 2],
            1 => [14, 1, 22, 10, 10, 22, 3, 12, 6],  // a sends, b receives
            2 => [12, 12, 20, 20, 12, 12, 1, 1, 10], // slow applications: acks withheld, timers
            3 => [10, 10, 25, 25, 8, 8, 6, 6, 2],    // queues build up
            4 => [6, 6, 12, 12, 25, 25, 6, 6, 2],    // fast wire
            _ => [14, 4, 20, 14, 14, 20, 5, 9, 0],
        };
        let total: u64 = wts.iter().sum();
        let mut k = c * total / 100;
        let mut idx = 0;
        for (i, wt) in wts.iter().enumerate() {
            if k < *wt {
                idx = i;
                break;
            }
            k -= wt;
            idx = i;
        }
        match idx {
            0 | 1 => {
                let x = if idx == 0 { "a" } else { "b" };
                let len = if profile == 5 { r.range(1, 12) as usize } else { pick_len(r, mtu.max(8)) };
                let m = r.bytes(len);
                if g.op(format!("send {} {}", x, hex(&m))) == "ok" {
                    if idx == 0 { pend_ab.push_back(len) } else { pend_ba.push_back(len) }
                }
            }
            2 => {
                g.op("poll a".into());
            }
            3 => {
                g.op("poll b".into());
            }
            4 => {
                g.op("dlv a".into());
            }
            5 => {
                g.op("dlv b".into());
            }
            6 => {
                fetch_var(&mut g, r, "a", &mut pend_ba);
            }
            7 => {
                fetch_var(&mut g, r, "b", &mut pend_ab);
            }
            _ => {
                g.op(format!("tick {}", *r.pick(&[1u64, 2, 7, 14, 15, 16, 20])));
                g.op(format!("due {}", if r.chance(1, 2) { "a" } else { "b" }));
                g.op("tmo a".into());
                g.op("tmo b".into());
            }
        }
        if g.w.a.dead || g.w.b.dead {
            break;
        }
    }
    // drain: a fair tail so that most submitted messages do arrive
    if r.chance(3, 4) {
        for _ in 0..r.range(4, 60) {
            g.op("poll a".into());
            g.op("dlv b".into());
            fetch_var(&mut g, r, "b", &mut pend_ab);
            g.op("poll b".into());
            g.op("dlv a".into());
            fetch_var(&mut g, r, "a", &mut pend_ba);
            if r.chance(1, 6) {
                g.op("tick 15".into());
                g.op("tmo a".into());
                g.op("tmo b".into());
            }
        }
    }
    if g.n_tx >= 520 {
        g.out.stat("link_cases_with_520_or_more_segments", 1);
    }
    let nt = g.n_msg >= 1 && g.n_tx >= 4;
    (kind, g.ops, nt)
}

// `n` polls of `x`, an SDU is queued whenever none is in progress; returns the segments emitted
fn pump(g: &mut Gen, r: &mut Rng, x: &str, n: usize, mtu: usize, tiny: bool) -> usize {
    let mut sent = 0;
    for _ in 0..n {
        let idle = if x == "a" { g.w.a.sdu_len() == 0 } else { g.w.b.sdu_len() == 0 };
        if idle {
            let len = if tiny { r.range(1, (mtu as u64).saturating_sub(6).max(1)) as usize } else { r.range(mtu as u64, 1232) as usize };
            let m = r.bytes(len);
            g.op(format!("send {} {}", x, hex(&m)));
        }
        if g.op(format!("poll {}", x)).starts_with("tx") {
            sent += 1;
        } else {
            break;
        }
    }
    sent
}
fn drain_to(g: &mut Gen, y: &str, n: usize) {
    for _ in 0..n {
        if g.op(format!("dlv {}", y)) == "empty" {
            break;
        }
    }
}
fn fetch_all(g: &mut Gen, y: &str) {
    for _ in 0..64 {
        if !g.op(format!("fetch {} 2048", y)).starts_with("msg") {
            break;
        }
    }
}
// everything in flight delivered and fetched, `x`'s segments acknowledged (`rounds` = 1), and
// the peer's too (`rounds` = 2)
fn settle(g: &mut Gen, x: &str, y: &str, rounds: usize) {
    for k in 0..rounds {
        drain_to(g, y, 400);
        fetch_all(g, y);
        g.op("tick 15".into());
        g.op(format!("poll {}", y));
        drain_to(g, x, 400);
        fetch_all(g, x);
        if k + 1 < rounds {
            g.op("tick 15".into());
            g.op(format!("poll {}", x));
        }
    }
}

/// travel stream (kind `l`, scripted with random parameters): two well-behaved ends exchange a
/// long series of medium and large messages (mostly one direction) and the receiving application
/// fetches each of them with a buffer from {1, 16, 512, len-1, len, 1232, 2048} - so a fraction of
/// the fetches TRUNCATE (`RecvWindow::fetch_message` hands out the first bytes and drains the rest
/// of the SDU from the ring buffer) while the start index of the 3166-byte receive ring travels
/// around the storage several times per case; messages that follow a truncated one must arrive
/// intact.
fn gen_travel(r: &mut Rng, out: &mut Out, thorough: bool) -> (String, Vec<(String, String)>, bool) {
    let ga = *r.pick(&[100u16, 128, 185, 247, 247, 300, 512]);
    let relaxed_b = r.chance(1, 2);
    let kind = format!("l 1 0 {} {} 0 {}", ga, ga, relaxed_b as u8);
    let mut g = Gen { w: World::new(&kind), ops: Vec::new(), out, n_ok: 0, n_err: 0, n_msg: 0, n_tx: 0 };
    g.op("poll a".into());
    if r.chance(1, 3) {
        g.op(format!("hsw b {}", *r.pick(&[3u64, 4, 5, 7])));
    }
    g.op("dlv b".into());
    g.op("poll b".into());
    g.op("dlv a".into());
    let mtu = g.w.a.fields()[0] as usize;
    let msgs = if thorough { r.range(30, 90) } else { r.range(14, 30) };
    let mut pend_ab: VecDeque<usize> = VecDeque::new();
    let mut pend_ba: VecDeque<usize> = VecDeque::new();
    let mut bytes_ab = 0usize;
    for _ in 0..msgs {
        if g.w.a.dead || g.w.b.dead {
            break;
        }
        let (x, y) = if r.chance(5, 6) { ("a", "b") } else { ("b", "a") };
        let len = match r.below(8) {
            0 => 1232,
            1 => r.range(1000, 1232) as usize,
            2 => r.range(1, (mtu as u64).max(2)) as usize,
            3 => r.range(1, 40) as usize,
            _ => r.range(200, 1232) as usize,
        };
        let m = r.bytes(len);
        if g.op(format!("send {} {}", x, hex(&m))) != "ok" {
            continue;
        }
        if x == "a" { pend_ab.push_back(len); bytes_ab += len + 2 } else { pend_ba.push_back(len) }
        // the sender pumps the SDU out; when its window is full the acknowledgements are let through
        for _ in 0..120 {
            let busy = if x == "a" { g.w.a.sdu_len() > 0 } else { g.w.b.sdu_len() > 0 };
            if !busy {
                break;
            }
            if !g.op(format!("poll {}", x)).starts_with("tx") {
                drain_to(&mut g, y, 64);
                g.op("tick 15".into());
                g.op(format!("poll {}", y));
                drain_to(&mut g, x, 64);
            } else if r.chance(1, 3) {
                g.op(format!("dlv {}", y));
            }
        }
        drain_to(&mut g, y, 64);
        // the application fetches, sometimes into a buffer smaller than the message
        let (py, px) = if y == "b" { (&mut pend_ab, &mut pend_ba) } else { (&mut pend_ba, &mut pend_ab) };
        for _ in 0..4 {
            if !fetch_var(&mut g, r, y, py) {
                break;
            }
        }
        g.op("tick 15".into());
        g.op(format!("poll {}", y));
        drain_to(&mut g, x, 64);
        fetch_var(&mut g, r, x, px);
    }
    g.out.stat("travel_ring_rounds_x10", (bytes_ab * 10 / 3166) as u64);
    let nt = g.n_msg >= 1 && g.n_tx >= 4;
    (kind, g.ops, nt)
}

/// wrap stream (kind `l`, scripted with random parameters): two well-behaved ends; the sender `x`
/// is fast-forwarded (bursts of segments, everything acknowledged in between) until its sequence
/// number is `j` short of the 255 -> 0 wrap-around; then it sends on across the wrap while the
/// acknowledgements lag behind: the peer has received only `i` of the segments (mostly ones sent
/// BEFORE the wrap) when it acknowledges, that partial acknowledgement reaches the sender after it
/// has already sent PAST the wrap, and the sender then fills its whole window while the peer
/// sends no further acknowledgement (it is not polled, or it withholds them because its application
/// has not fetched). Several wraps per case.
fn gen_wrap(r: &mut Rng, out: &mut Out, thorough: bool) -> (String, Vec<(String, String)>, bool) {
    let ga = *r.pick(&[0u16, 23, 32, 64, 100, 185, 247, 247]);
    let relaxed_b = r.chance(1, 2);
    let kind = format!("l 1 0 {} {} 0 {}", ga, ga, relaxed_b as u8);
    let mut g = Gen { w: World::new(&kind), ops: Vec::new(), out, n_ok: 0, n_err: 0, n_msg: 0, n_tx: 0 };
    g.op("poll a".into());
    if r.chance(1, 2) {
        let win = *r.pick(&[3u64, 3, 4, 5, 6, 7, 9, 20]);
        g.op(format!("hsw b {}", win));
    }
    g.op("dlv b".into());
    g.op("poll b".into());
    g.op("dlv a".into());
    let mtu = g.w.a.fields()[0] as usize;
    let win = g.w.a.fields()[1] as usize;
    g.out.stat(&format!("wrap_win_{}", win), 1);
    if win < 3 || mtu < 20 {
        return (kind, g.ops, false);
    }
    let alive = |g: &Gen| !g.w.a.dead && !g.w.b.dead;
    let wraps = if thorough { r.range(3, 8) } else { r.range(2, 3) };
    let mut hunted = 0usize;
    for _ in 0..wraps {
        if !alive(&g) {
            break;
        }
        let (x, y) = if r.chance(3, 4) { ("a", "b") } else { ("b", "a") };
        let last = |g: &Gen| (if x == "a" { g.w.a.fields()[5] } else { g.w.b.fields()[5] }) as usize;
        // how far before the wrap the lagging phase starts, how many segments the sender puts in
        // flight across the wrap (t <= win - 1), how many of them the peer has when it acknowledges
        let j = r.range(0, (win - 2).min(12) as u64) as usize;
        let target = 255 - j;
        let tiny = r.chance(1, 3);
        // fast-forward: bursts, everything acknowledged in between
        for _ in 0..400 {
            let dist = (target + 256 - last(&g)) % 256;
            if dist == 0 || !alive(&g) {
                break;
            }
            let burst = dist.min((win - 1).max(1)).min(r.range(1, 40) as usize);
            pump(&mut g, r, x, burst, mtu, tiny);
            settle(&mut g, x, y, 1);
        }
        if last(&g) != target || !alive(&g) {
            continue;
        }
        let m = r.range(0, (win - 2 - j.min(win - 2)) as u64) as usize;
        let t = (j + 1 + m).min(win - 1);
        let i = match r.below(6) {
            0 => r.range(1, t as u64) as usize, // sometimes an acknowledgement from beyond the wrap
            _ => r.range(1, (j + 1).min(t) as u64) as usize,
        };
        let sent = pump(&mut g, r, x, t, mtu, tiny);
        drain_to(&mut g, y, i.min(sent));
        fetch_all(&mut g, y);
        g.op("tick 15".into());
        g.op(format!("poll {}", y)); // the partial acknowledgement (stand-alone, or on a data segment)
        drain_to(&mut g, x, 4); // ... reaches the sender after it has sent past the wrap
        fetch_all(&mut g, x);
        g.op(format!("due {}", x));
        // the sender fills its window; the peer sends no further acknowledgement: either what the
        // sender emits stays in flight (acknowledgements lag), or the peer receives it but its
        // application does not fetch (complete messages waiting: acknowledgements are withheld).
        // The last send slot is only used for a segment that carries an acknowledgement, so the
        // peer sends data segments of its own (without acknowledgement) in between.
        let withhold = r.chance(1, 2);
        let fill_tiny = tiny || withhold;
        for _ in 0..r.range(2, 3) {
            for _ in 0..(win + 3) {
                if pump(&mut g, r, x, 1, mtu, fill_tiny) == 0 {
                    break;
                }
                if withhold && r.chance(2, 3) {
                    g.op(format!("dlv {}", y));
                }
            }
            if withhold {
                drain_to(&mut g, y, r.range(0, 6) as usize);
            }
            pump(&mut g, r, y, 1, mtu, true);
            drain_to(&mut g, x, 8);
            fetch_all(&mut g, x);
        }
        pump(&mut g, r, x, 2, mtu, fill_tiny);
        drain_to(&mut g, y, 400);
        hunted += 1;
        settle(&mut g, x, y, 2);
    }
    g.out.stat("wrap_phases", hunted as u64);
    let nt = g.n_msg >= 1 && g.n_tx >= 4 && hunted >= 1;
    (kind, g.ops, nt)
}

fn emit(out: &mut Out, id: u64, kind: &str, ops: &[(String, String)], nt: bool) {
    out.case(id, kind);
    for (op, o) in ops {
        out.op(op, o);
    }
    if nt {
        out.buf.push_str("#nt\n");
    }
}

pub fn gen(a: &Args) -> String {
    if std::env::var("C18_DEBUG").is_ok() {
        std::panic::set_hook(Box::new(|i| eprintln!("{}", i)));
    }
    let mut r = Rng::new(a.seed);
    let mut out = Out::default();
    out.buf.push_str("#rule kind h: one real Btp end (responder or initiator, strict/relaxed MTU, various GATT MTUs) fed by a generated hostile peer: noise before the handshake, handshake requests/responses with boundary mtu/window values and mutations, then nearly valid data/ack segments built from the end's real state (right/wrong sequence number, valid/stale/bogus acknowledgement, single- and multi-segment SDUs with right/wrong lengths and flags, window overrun, repeated handshakes), interleaved with send/poll/fetch/tick and tmo (Btp::timeout(), the 30 s idle timeout, after every tick in kinds h and l); kind r: the real RingBuf<N> (N in 1..3166) driven directly with pushes (0..2N+3 bytes, overflow), pops, push_byte/pop_byte/clear in four fill profiles; kind l: two real Btp ends joined by FIFO queues under a random schedule of send/poll/deliver/fetch/tick with message lengths 0..1233 around the segment size, six scheduler profiles incl. long runs (sequence wrap) and slow applications (withheld acks, ack timers), plus (every 50th case) the scripted wrap profile: the sender is fast-forwarded to j segments before the 255->0 wrap-around of its sequence number, sends on across the wrap while acknowledgements lag by 1..window-1 segments (a partial acknowledgement from before the wrap arrives after a segment from beyond it), then fills its whole window while the peer sends no acknowledgement (not polled / application not fetching), several wraps per case, windows 3..79; in all link profiles the application fetches with a buffer from {1, 16, 512, len-1, len, 1232, 2048} (6 of 14 fetches not 2048: truncating fetches), and (every 50th case) the scripted travel profile: 14..30 medium/large messages in a row, each fetched with such a buffer, so that the start index of the 3166-byte receive ring travels around the storage several times per case; non-trivial = (h) at least one segment accepted and one refused, (l) at least one message fetched and four segments sent, (r) at least one pop handed out bytes; distinct = by operation list\n");
    let n_cases = if a.thorough { 9000 } else { 3000 };
    for id in 0..n_cases {
        let mut cr = r.fork();
        let (kind, ops, nt) = if id % 10 == 9 {
            // ring stream: the real RingBuf<N> driven directly
            out.stat("kind_r", 1);
            let (kind, opl) = ring::gen_ops(&mut cr, a.thorough);
            let mut w = World::new(&kind);
            let mut ops = Vec::new();
            let mut popped = 0usize;
            let mut pushed = 0usize;
            for op in opl {
                let o = w.exec(&op);
                if op.starts_with("rpush ") {
                    pushed += (op.len() - 6) / 2;
                }
                if op.starts_with("rpop") && !o.starts_with('-') {
                    popped += 1;
                }
                ops.push((op, o));
            }
            let cap: usize = kind[2..].parse().unwrap_or(1);
            if pushed > cap {
                out.stat("ring_cases_wrapped", 1);
            }
            out.stat(&format!("ring_n_{}", cap), 1);
            (kind, ops, popped >= 1)
        } else if id % 50 == 17 {
            out.stat("kind_l", 1);
            out.stat("kind_l_travel", 1);
            gen_travel(&mut cr, &mut out, a.thorough)
        } else if id % 50 == 7 {
            out.stat("kind_l", 1);
            out.stat("kind_l_wrap", 1);
            gen_wrap(&mut cr, &mut out, a.thorough)
        } else if cr.chance(1, 2) {
            out.stat("kind_h", 1);
            gen_hostile(&mut cr, &mut out, id, a.thorough)
        } else {
            out.stat("kind_l", 1);
            gen_link(&mut cr, &mut out, a.thorough)
        };
        emit(&mut out, id, &kind, &ops, nt);
    }
    out.finish()
}

fn run_case(out: &mut Out, c: &Case) {
    out.case(c.id, &c.kind);
    let mut w = World::new(&c.kind);
    for op in &c.ops {
        let o = w.exec(op);
        out.op(op, &o);
    }
}

pub fn replay(a: &Args) -> String {
    let text = std::fs::read_to_string(a.input.as_ref().expect("--in")).expect("read input");
    let mut out = Out::default();
    for c in parse_cases(&text) {
        run_case(&mut out, &c);
    }
    // keep the unused re-export referenced (hook presence is part of the build check)
    let _ = Session::verif_initial_window_size(20);
    out.finish()
}

#[allow(dead_code)]
const _: usize = MAX_TX;
