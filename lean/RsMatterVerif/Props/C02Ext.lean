import RsMatterVerif.Props.C02
import RsMatterVerif.Model.PaseFs
/-!
# C02, second part: lost / reordered handshake datagrams, the fail-safe and RevokeCommissioning

(a) *Loss, duplication, reordering of the handshake datagrams.* On the responder's side a lost datagram
is no event at all, a duplicate (a copy the unsecured session has seen: an MRP retransmission, a copy
the network duplicated, a copy it held back) is acknowledged and never reaches the responder
(`C02.dup_is_noop`, `C02.redelivery_is_noop`), and a message of an EARLIER step that comes as a new
message (another counter) while a later step is expected ends the handshake without a session
(`late_message_refused`); a copy that arrives when its unsecured session is gone is dropped unless it
is a PBKDFParamRequest, which opens a new handshake from the very beginning (`late_copy_without_session`);
for every history of such events no session comes into existence without the proof
(`C02.every_session_in_open_window_ev`, `adversary_schedule_no_session`).

(b) *Fail-safe and RevokeCommissioning* (`Model/PaseFs.lean`): a PASE session in the table implies an
armed fail-safe (`fsInv_run`); after `RevokeCommissioning` no PASE session remains and no window is
present (`revoke_removes_pase_sessions`), and no Pake3 - nor any other message - creates a session
until a window is opened again (`after_revoke_no_session`); the fail-safe's own expiry removes them
as well (`fs_expiry_removes_pase_sessions`).
-/
namespace C02
open Pase

/-! ## (a) reordered / late messages -/

/-- A PBKDFParamRequest or a Pake1 that arrives (as a message the transport hands on: a new counter)
while the handshake of its exchange already expects Pake3 - a message of an earlier step that comes
late - is refused: the handshake is over (task gone), no session; a Pake3 sent afterwards finds no
handshake. -/
theorem late_message_refused (s : St) (x : Nat) (t : Task) (exp : Conf) (wid : Nat) (op : Op)
    (ht : findTask s x = some t) (hst : t.stage = .waitPake3 exp wid)
    (hop : (∃ r v, op = .pbkdf x r v) ∨ (∃ p, op = .pake1 x p)) :
    (step s op).1.sessions = s.sessions ∧ findTask (step s op).1 x = none ∧
    ∀ c, (step (step s op).1 (.pake3 x c)).1.sessions = s.sessions := by
  have hgone : ∀ s' : St, findTask (removeTask s' x) x = none := by
    intro s'
    simp [findTask, removeTask, List.find?_eq_none]
  have hgoneF : ∀ s' : St, findTask (failTask s' x) x = none := by
    intro s'
    simp [findTask, failTask_tasks, List.find?_eq_none]
  have key : (step s op).1.sessions = s.sessions ∧ findTask (step s op).1 x = none := by
    rcases hop with ⟨r, v, rfl⟩ | ⟨p, rfl⟩
    · simp only [step, ht]
      split
      · exact ⟨by simp, hgone _⟩
      · exact ⟨by simp, hgoneF _⟩
    · simp only [step, ht]
      split
      · exact ⟨by simp, hgone _⟩
      · simp only [hst]
        exact ⟨by simp, hgoneF _⟩
  refine ⟨key.1, key.2, fun c => ?_⟩
  obtain ⟨k1, k2⟩ := key
  generalize (step s op).1 = s1 at k1 k2
  simp only [step, k2]
  exact k1

/-- a copy of a handshake datagram that arrives when the unsecured session it belonged to is gone
(the handshake ended, the session was evicted): anything but a PBKDFParamRequest is dropped - the
state does not change at all; a PBKDFParamRequest is a new first message (`deliver` = `step`, up to the
receive-counter bookkeeping): a handshake from the very beginning, which needs the whole proof again. -/
theorem late_copy_without_session (s : St) (ctr x : Nat) (op : Op) (hx : opExch op = some x)
    (hs : hasUnsec s x = false) :
    (isPbkdf op = false → deliver s ctr op = (s, .none)) ∧
    (isPbkdf op = true → core (deliver s ctr op).1 = core (step s op).1 ∧ (deliver s ctr op).2 = (step s op).2) := by
  unfold deliver
  simp only [hx, hs, Bool.false_eq_true, ↓reduceIte]
  constructor
  · intro h; simp [h]
  · intro h
    simp only [h, ↓reduceIte]
    constructor
    · split <;> rfl
    · trivial

/-- **Every adversary schedule**: a history made of the honest messages and API / time operations,
interleaved with any number of copies of earlier datagrams at any position (each copy carries the
counter of its original), creates exactly the sessions - with exactly the proofs - of the model's
`runEv`, and every one of them was created under an open, unexpired window by the proof for that
window (the theorem is `every_session_in_open_window_ev`; stated here for the record that the
adversary's copies are ordinary `Ev.msg` events). -/
theorem adversary_schedule_no_session (evs : List Ev) : ∀ x ∈ (runEv {} evs).sessions, SessOK x :=
  every_session_in_open_window_ev evs

/-- non-vacuity: Pake1 answered, then a late PBKDFParamRequest of the same initiator with a new counter:
the handshake is dead, the Pake3 with the right proof yields nothing -/
example :
    let c : Conf := { pw := 7, ctx := 1, pA := 5, pB := 2 }
    (runEv {} [.op (.openWin 7 180), .msg 10 (.pbkdf 1 .good none), .msg 11 (.pake1 1 (.valid 5)),
               .msg 12 (.pbkdf 1 .good none), .msg 13 (.pake3 1 (.mac c))]).sessions = [] := by
  decide

/-- … whereas the same PBKDFParamRequest as a COPY (counter 10 again) is a no-op and the handshake succeeds -/
example :
    let c : Conf := { pw := 7, ctx := 1, pA := 5, pB := 2 }
    ((runEv {} [.op (.openWin 7 180), .msg 10 (.pbkdf 1 .good none), .msg 11 (.pake1 1 (.valid 5)),
               .msg 10 (.pbkdf 1 .good none), .msg 13 (.pake3 1 (.mac c))]).sessions.map (·.conf)) = [c] := by
  decide

/-! ## (b) the fail-safe and RevokeCommissioning -/

def hasPase (tbl : List Slot) : Bool := tbl.any isPase

/-- a PASE session in the table ⇒ the fail-safe is armed -/
def FsInv (f : FSt) : Prop := hasPase f.st.table = true → f.fs.isSome = true

theorem hasPase_sub {a b : List Slot} (h : ∀ sl ∈ a, isPase sl = true → sl ∈ b) (ha : hasPase a = true) :
    hasPase b = true := by
  unfold hasPase at ha ⊢
  obtain ⟨sl, hm, hp⟩ := List.any_eq_true.1 ha
  exact List.any_eq_true.2 ⟨sl, h sl hm hp, hp⟩

theorem mem_release {tbl : List Slot} {x : Nat} {sl : Slot} (h : sl ∈ release tbl x) : sl ∈ tbl :=
  (List.mem_filter.1 h).1

theorem removeSlot_mem {s : St} {v sl : Slot} (h : sl ∈ (removeSlot s v).table) : sl ∈ s.table :=
  List.mem_of_mem_erase h

theorem evictOne_mem {s : St} {v : Option VClass} {sl : Slot} (h : sl ∈ (evictOne s v).table) : sl ∈ s.table := by
  unfold evictOne at h
  split at h
  · exact removeSlot_mem h
  · exact h

theorem addSlot_mem {s s' : St} {n sl : Slot} (h : addSlot s n = some s') (hm : sl ∈ s'.table) :
    sl ∈ s.table ∨ sl = n := by
  unfold addSlot at h
  split at h
  · injection h with h; subst h
    simpa using hm
  · cases h

theorem reserve_mem {s s' : St} {x : Nat} {v : Option VClass} {sl : Slot} (h : reserve s x v = some s')
    (hm : sl ∈ s'.table) : sl ∈ s.table ∨ sl = .reserved x := by
  unfold reserve at h
  split at h
  · rename_i s1 h1; injection h with h; subst h; exact addSlot_mem h1 hm
  · split at h
    · rename_i v1 _
      rcases addSlot_mem h hm with h' | h'
      · exact Or.inl (removeSlot_mem h')
      · exact Or.inr h'
    · cases h

theorem pbkdfNew_mem {s : St} {x : Nat} {r : Req} {v : Option VClass} {sl : Slot}
    (hm : sl ∈ (pbkdfNew s x r v).1.table) : sl ∈ s.table ∨ sl = .reserved x := by
  unfold pbkdfNew at hm
  split at hm
  · exact Or.inl hm
  · rename_i s1 h1
    have hr : ∀ sl', sl' ∈ s1.table → sl' ∈ s.table ∨ sl' = .reserved x := fun sl' h => reserve_mem h1 h
    simp only at hm
    split at hm
    · simp only [updateSessionTimeout_table] at hm
      exact hr _ (mem_release hm)
    · split at hm
      · simp only [checkWindowTimeout_table, updateSessionTimeout_table] at hm
        exact hr _ (mem_release hm)
      · split at hm
        · simp only [setTask, checkWindowTimeout_table, updateSessionTimeout_table] at hm
          exact hr _ hm
        · simp only [recordFailure_table, checkWindowTimeout_table, updateSessionTimeout_table] at hm
          exact hr _ (mem_release hm)

theorem complete_mem {tbl : List Slot} {x : Nat} {sl : Slot} (h : sl ∈ complete tbl x) :
    sl ∈ tbl ∨ sl = .pase x := by
  unfold complete at h
  obtain ⟨a, ha, rfl⟩ := List.mem_map.1 h
  split
  · exact Or.inr rfl
  · exact Or.inl ha

/-- the table after a Pake3: nothing new but, with the answer `SessionEstablishmentSuccess`, the PASE session -/
theorem pake3_pase_mem (s : St) (x : Nat) (c : CA) (sl : Slot) (hp : isPase sl = true)
    (hm : sl ∈ (step s (.pake3 x c)).1.table) : sl ∈ s.table ∨ (step s (.pake3 x c)).2 = .statusSuccess := by
  cases hf : findTask s x with
  | none => left; simpa [step, hf] using hm
  | some t =>
    cases hu : (updateSessionTimeout s x false).2 with
    | some o =>
      left
      simp only [step, hf, hu] at hm
      exact mem_release (by simpa [removeTask] using hm)
    | none =>
      cases hst : t.stage with
      | waitPake1 ctx =>
        left
        simp only [step, hf, hu, hst, failTask_table, updateSessionTimeout_table] at hm
        exact mem_release hm
      | waitPake3 exp wid =>
        by_cases hmal : c = .malformed
        · left
          simp only [step, hf, hu, hst, hmal, ↓reduceIte, failTask_table, updateSessionTimeout_table] at hm
          exact mem_release hm
        · cases hw : (checkWindowTimeout (updateSessionTimeout s x false).fst).window with
          | none =>
            left
            simp only [step, hf, hu, hst, hmal, hw, ↓reduceIte] at hm
            have := mem_release (by simpa [removeTask] using hm)
            simpa using this
          | some w =>
            by_cases hid : w.id = wid
            · by_cases hc : c = .mac exp
              · right
                simp [step, hf, hu, hst, hw, hid, hc]
              · left
                simp only [step, hf, hu, hst, hmal, hw, hid, hc, ↓reduceIte] at hm
                simp only [beq_self_eq_true, Bool.not_true, Bool.false_eq_true, ↓reduceIte, failTask_table] at hm
                have := mem_release hm
                simpa using this
            · left
              simp only [step, hf, hu, hst, hmal, hw, ↓reduceIte] at hm
              have hne : (w.id == wid) = false := by simpa using hid
              simp only [hne, Bool.not_false, ↓reduceIte] at hm
              have := mem_release (by simpa [removeTask] using hm)
              simpa using this

/-- a PASE session enters the table only with the answer `SessionEstablishmentSuccess` -/
theorem step_pase_mem (s : St) (op : Op) (sl : Slot) (hp : isPase sl = true) (hm : sl ∈ (step s op).1.table) :
    sl ∈ s.table ∨ (step s op).2 = .statusSuccess := by
  have notR : ∀ x, sl ≠ .reserved x := fun x h => by rw [h] at hp; cases hp
  have notU : ∀ x, sl ≠ .unsec x := fun x h => by rw [h] at hp; cases hp
  cases op with
  | openWin pw secs =>
    left; simp only [step, openWinCore] at hm
    repeat' split at hm
    all_goals first | exact hm | (simpa using hm)
  | openEnh pw secs sl' it d =>
    left; simp only [step, openEnhCore] at hm
    repeat' split at hm
    all_goals first | exact hm | (simpa using hm)
  | cmdOpenEnh pw secs sl' it d vl =>
    left; simp only [step, openEnhCore] at hm
    repeat' split at hm
    all_goals first | exact hm | (simpa using hm)
  | cmdOpenBasic pw secs =>
    left; simp only [step, openWinCore] at hm
    repeat' split at hm
    all_goals first | exact hm | (simpa using hm)
  | revoke => left; exact hm
  | tick ms => left; exact hm
  | poll => left; simpa [step] using hm
  | pbkdf x r v =>
    left
    simp only [step] at hm
    split at hm
    · split at hm
      · exact mem_release (by simpa [removeTask] using hm)
      · simp only [failTask_table, updateSessionTimeout_table] at hm; exact mem_release hm
    · split at hm
      · exact evictOne_mem hm
      · rename_i s1 h1
        rcases pbkdfNew_mem hm with h | h
        · rcases addSlot_mem h1 h with h' | h'
          · exact h'
          · exact absurd h' (notU x)
        · exact absurd h (notR x)
  | pake1 x p =>
    left
    simp only [step] at hm
    split at hm
    · exact hm
    · split at hm
      · exact mem_release (by simpa [removeTask] using hm)
      · split at hm
        · simp only [failTask_table, updateSessionTimeout_table] at hm; exact mem_release hm
        · split at hm
          · simp only [failTask_table, updateSessionTimeout_table] at hm; exact mem_release hm
          · split at hm
            · have := mem_release (by simpa [removeTask] using hm)
              simpa using this
            · split at hm
              · simpa [setTask] using hm
              all_goals (simp only [failTask_table, checkWindowTimeout_table, updateSessionTimeout_table] at hm; exact mem_release hm)
  | pake3 x c => exact pake3_pase_mem s x c sl hp hm
  | other x =>
    left
    simp only [step] at hm
    repeat' split at hm
    all_goals first
      | exact hm
      | exact mem_release (by simpa [removeTask] using hm)
      | (simp only [failTask_table, updateSessionTimeout_table] at hm; exact mem_release hm)
  | dead x =>
    left
    simp only [step] at hm
    repeat' split at hm
    all_goals first
      | exact hm
      | (simp only [failTask_table] at hm; exact mem_release hm)
      | (simpa using hm)
  | rxTimeout x =>
    left
    simp only [step] at hm
    repeat' split at hm
    all_goals first
      | exact hm
      | (simp only [failTask_table] at hm; exact mem_release hm)
  | fill n p =>
    left
    simp only [step, List.mem_append, List.mem_replicate] at hm
    rcases hm with h | ⟨_, h⟩
    · exact h
    · rw [h] at hp; cases hp
  | unfill => left; exact (List.mem_filter.1 hm).1

theorem deliver_pase_mem (s : St) (ctr : Nat) (op : Op) (sl : Slot) (hp : isPase sl = true)
    (hm : sl ∈ (deliver s ctr op).1.table) : sl ∈ s.table ∨ (deliver s ctr op).2 = .statusSuccess := by
  unfold deliver at hm ⊢
  cases hx : opExch op with
  | none => simp only [hx] at hm ⊢; exact step_pase_mem s op sl hp hm
  | some x =>
    simp only [hx] at hm ⊢
    by_cases hu : hasUnsec s x = true
    · simp only [hu, ↓reduceIte] at hm ⊢
      by_cases hs : s.seen.contains (x, ctr) = true
      · simp only [hs, ↓reduceIte] at hm ⊢; exact Or.inl hm
      · simp only [hs] at hm ⊢; exact step_pase_mem s op sl hp hm
    · simp only [hu] at hm ⊢
      by_cases hb : isPbkdf op = true
      · simp only [hb, ↓reduceIte] at hm ⊢
        have : sl ∈ (step s op).1.table := by
          by_cases h2 : hasUnsec (step s op).1 x = true
          · simpa [h2] using hm
          · simpa [h2] using hm
        exact step_pase_mem s op sl hp this
      · simp only [hb] at hm ⊢; exact Or.inl hm

theorem stepEv_pase_mem (s : St) (e : Ev) (sl : Slot) (hp : isPase sl = true)
    (hm : sl ∈ (stepEv s e).1.table) : sl ∈ s.table ∨ (stepEv s e).2 = .statusSuccess := by
  cases e with
  | op o => exact step_pase_mem s o sl hp hm
  | msg c o => exact deliver_pase_mem s c o sl hp hm

theorem expireFs_noPase (f : FSt) (h : FsInv f) : hasPase (expireFs f).st.table = false := by
  unfold expireFs
  cases hfs : f.fs with
  | none =>
    simp only
    cases hh : hasPase f.st.table with
    | false => rfl
    | true => have := h hh; rw [hfs] at this; cases this
  | some d =>
    simp only
    unfold hasPase
    rw [List.any_eq_false]
    intro sl hsl
    have := (List.mem_filter.1 hsl).2
    simpa using this

theorem expireFs_fsInv (f : FSt) (h : FsInv f) : FsInv (expireFs f) := by
  intro hh
  rw [expireFs_noPase f h] at hh
  cases hh

/-- every transition keeps "a PASE session in the table ⇒ the fail-safe is armed" -/
theorem stepF_fsInv (f : FSt) (e : FEv) (h : FsInv f) : FsInv (stepF f e).1 := by
  cases e with
  | ev e =>
    intro hh
    simp only [stepF] at hh ⊢
    obtain ⟨sl, hm, hp⟩ := List.any_eq_true.1 hh
    rcases stepEv_pase_mem f.st e sl hp hm with hold | hnew
    · have hfs := h (List.any_eq_true.2 ⟨sl, hold, hp⟩)
      split
      · rfl
      · exact hfs
    · cases hfs : f.fs with
      | none => simp [hnew]
      | some d => simp
  | cmdRevoke =>
    have h0 := expireFs_noPase f h
    simp only [stepF]
    intro hh
    have : hasPase (expireFs f).st.table = true := hh
    rw [h0] at this; cases this
  | fsPoll =>
    simp only [stepF]
    split
    · split
      · exact expireFs_fsInv f h
      · exact h
    · exact h

theorem fsInv_init : FsInv {} := by
  intro hh; cases hh

/-- **A PASE session in the table ⇒ the fail-safe is armed**, for every history of API / time
operations, delivered datagrams (duplicates, late copies), RevokeCommissioning commands and fail-safe
polls. -/
theorem fsInv_run (evs : List FEv) : ∀ f : FSt, FsInv f → FsInv (runF f evs) := by
  induction evs with
  | nil => intro f h; exact h
  | cons e es ih => intro f h; exact ih _ (stepF_fsInv f e h)

/-- **After RevokeCommissioning no PASE session remains** - whatever the history before it (every
session established through the window that is being revoked - and through any earlier one - is gone
from the session table), and no window is present. -/
theorem revoke_removes_pase_sessions (evs : List FEv) :
    hasPase (stepF (runF {} evs) .cmdRevoke).1.st.table = false ∧
    (stepF (runF {} evs) .cmdRevoke).1.st.window = none ∧
    (stepF (runF {} evs) .cmdRevoke).1.fs = none := by
  have h := fsInv_run evs {} fsInv_init
  have h0 := expireFs_noPase _ h
  have hfs : (expireFs (runF {} evs)).fs = none := by
    unfold expireFs
    split
    · rename_i hn; simpa using hn
    · rfl
  exact ⟨h0, rfl, hfs⟩

/-- the fail-safe's own expiry removes the PASE sessions as well -/
theorem fs_expiry_removes_pase_sessions (evs : List FEv) (d : Nat)
    (harmed : (runF {} evs).fs = some d) (hdue : (runF {} evs).st.now ≥ d) :
    hasPase (stepF (runF {} evs) .fsPoll).1.st.table = false := by
  have h := fsInv_run evs {} fsInv_init
  simp only [stepF, harmed, hdue, ↓reduceIte]
  exact expireFs_noPase _ h

/-! ### after the revocation: no session until a window is opened again -/

def isOpenOp : Op → Bool
  | .openWin _ _ => true
  | .openEnh _ _ _ _ _ => true
  | .cmdOpenEnh _ _ _ _ _ _ => true
  | .cmdOpenBasic _ _ => true
  | _ => false

def evOp : Ev → Op
  | .op o => o
  | .msg _ o => o

def isOpenF : FEv → Bool
  | .ev e => isOpenOp (evOp e)
  | _ => false

theorem pbkdfNew_window_none (s : St) (x : Nat) (r : Req) (v : Option VClass) (h : s.window = none) :
    (pbkdfNew s x r v).1.window = none := by
  have := pbkdfNew_winKeep s x r v
  cases hw : (pbkdfNew s x r v).1.window with
  | none => rfl
  | some w' =>
    obtain ⟨w, hw0, _⟩ := this w' hw
    rw [h] at hw0; cases hw0

/-- an operation that is not an `open…` keeps the window or closes it (the `left` half of `step_window_frame`) -/
theorem step_winKeep_nonopen (s : St) (op : Op) (hno : isOpenOp op = false) :
    WinKeep s.window (step s op).1.window := by
  cases op with
  | openWin pw secs => cases hno
  | openEnh pw secs sl it d => cases hno
  | cmdOpenEnh pw secs sl it d vl => cases hno
  | cmdOpenBasic pw secs => cases hno
  | revoke => exact winKeep_none _
  | tick ms => exact winKeep_refl _
  | poll => exact winKeep_check (winKeep_refl _)
  | pbkdf x r v =>
    simp only [step]
    split
    · repeat' split
      all_goals first
        | (apply winKeep_fail; simp only [updateSessionTimeout_window]; exact winKeep_refl _)
        | (simp only [removeTask_window, updateSessionTimeout_window]; exact winKeep_refl _)
    · split
      · simp only [evictOne_window]; exact winKeep_refl _
      · rename_i s1 h1
        have := pbkdfNew_winKeep s1 x r v
        rw [(addSlot_core h1).2.1] at this
        exact this
  | pake1 x p =>
    simp only [step]
    repeat' split
    all_goals first
      | exact winKeep_refl _
      | (apply winKeep_fail; simp only [updateSessionTimeout_window]; exact winKeep_refl _)
      | (simp only [removeTask_window, setTask_window, updateSessionTimeout_window]; exact winKeep_refl _)
      | (apply winKeep_fail; apply winKeep_check; simp only [updateSessionTimeout_window]; exact winKeep_refl _)
      | (simp only [removeTask_window, setTask_window]; apply winKeep_check; simp only [updateSessionTimeout_window]; exact winKeep_refl _)
  | pake3 x c =>
    simp only [step]
    repeat' split
    all_goals first
      | exact winKeep_refl _
      | (apply winKeep_fail; simp only [updateSessionTimeout_window]; exact winKeep_refl _)
      | (simp only [removeTask_window, setTask_window, updateSessionTimeout_window]; exact winKeep_refl _)
      | (apply winKeep_fail; simp only; apply winKeep_check; simp only [updateSessionTimeout_window]; exact winKeep_refl _)
      | (simp only [removeTask_window, setTask_window]; apply winKeep_check; simp only [updateSessionTimeout_window]; exact winKeep_refl _)
  | other x =>
    simp only [step]
    repeat' split
    all_goals first
      | exact winKeep_refl _
      | (apply winKeep_fail; simp only [updateSessionTimeout_window]; exact winKeep_refl _)
      | (simp only [removeTask_window, updateSessionTimeout_window]; exact winKeep_refl _)
  | dead x =>
    simp only [step]
    repeat' split
    all_goals first
      | exact winKeep_refl _
      | (apply winKeep_fail; exact winKeep_refl _)
      | (apply winKeep_record; exact winKeep_refl _)
  | rxTimeout x =>
    simp only [step]
    repeat' split
    all_goals first
      | exact winKeep_refl _
      | (apply winKeep_fail; exact winKeep_refl _)
  | fill n p => exact winKeep_refl _
  | unfill => exact winKeep_refl _

theorem step_window_none (s : St) (op : Op) (hno : isOpenOp op = false) (h : s.window = none) :
    (step s op).1.window = none := by
  have hk := step_winKeep_nonopen s op hno
  cases hw : (step s op).1.window with
  | none => rfl
  | some w' =>
    obtain ⟨w, hw0, _⟩ := hk w' hw
    rw [h] at hw0; cases hw0

theorem step_sessions_window_none (s : St) (op : Op) (h : s.window = none) :
    (step s op).1.sessions = s.sessions := by
  rcases session_implies_proof s op with h1 | ⟨_, _, _, _, w, _, _, _, _, hw, _⟩
  · exact h1
  · rw [h] at hw; cases hw

theorem stepEv_window_none (s : St) (e : Ev) (hno : isOpenOp (evOp e) = false) (h : s.window = none) :
    (stepEv s e).1.window = none ∧ (stepEv s e).1.sessions = s.sessions := by
  cases e with
  | op o => exact ⟨step_window_none s o hno h, step_sessions_window_none s o h⟩
  | msg c o =>
    simp only [stepEv]
    rcases deliver_core s c o with hc | hc
    · exact ⟨by rw [core_window hc]; exact h, core_sessions hc⟩
    · exact ⟨by rw [core_window hc]; exact step_window_none s o hno h,
        by rw [core_sessions hc]; exact step_sessions_window_none s o h⟩

theorem stepF_window_none (f : FSt) (e : FEv) (hno : isOpenF e = false) (h : f.st.window = none) :
    (stepF f e).1.st.window = none ∧ (stepF f e).1.st.sessions = f.st.sessions := by
  cases e with
  | ev e => exact stepEv_window_none f.st e hno h
  | cmdRevoke =>
    have hw : (expireFs f).st.window = none := by
      unfold expireFs; split <;> exact h
    have hs : (expireFs f).st.sessions = f.st.sessions := by
      unfold expireFs; split <;> rfl
    exact ⟨rfl, hs⟩
  | fsPoll =>
    have hw : (expireFs f).st.window = none := by
      unfold expireFs; split <;> exact h
    have hs : (expireFs f).st.sessions = f.st.sessions := by
      unfold expireFs; split <;> rfl
    simp only [stepF]
    split
    · split
      · exact ⟨hw, hs⟩
      · exact ⟨h, rfl⟩
    · exact ⟨h, rfl⟩

/-- **After RevokeCommissioning a later Pake3 yields no session** - nor does anything else: for every
history before the command and every history after it that does not open a window again (any
messages of handshakes that were under way, new ones, copies, time, polls, further revocations), the
list of sessions ever created is the one at the revocation, and no window is present. -/
theorem after_revoke_no_session (before after : List FEv) (hno : ∀ e ∈ after, isOpenF e = false) :
    let f0 := (stepF (runF {} before) .cmdRevoke).1
    (runF f0 after).st.sessions = f0.st.sessions ∧ (runF f0 after).st.window = none := by
  intro f0
  have hw0 : f0.st.window = none := (revoke_removes_pase_sessions before).2.1
  suffices H : ∀ (l : List FEv) (f : FSt), (∀ e ∈ l, isOpenF e = false) → f.st.window = none →
      (runF f l).st.sessions = f.st.sessions ∧ (runF f l).st.window = none from H after f0 hno hw0
  intro l
  induction l with
  | nil => intro f _ hw; exact ⟨rfl, hw⟩
  | cons e es ih =>
    intro f hl hw
    obtain ⟨h1, h2⟩ := stepF_window_none f e (hl e List.mem_cons_self) hw
    obtain ⟨h3, h4⟩ := ih (stepF f e).1 (fun e' he' => hl e' (List.mem_cons_of_mem _ he')) h1
    exact ⟨by simp only [runF]; rw [h3, h2], by simp only [runF]; exact h4⟩

/-- non-vacuity: two PASE sessions are established (the first arms the fail-safe), RevokeCommissioning
removes both and closes the window; a handshake that was waiting for its Pake3 gets nothing -/
example :
    let c1 : Conf := { pw := 7, ctx := 1, pA := 5, pB := 2 }
    let c2 : Conf := { pw := 7, ctx := 3, pA := 6, pB := 4 }
    let c3 : Conf := { pw := 7, ctx := 5, pA := 8, pB := 6 }
    let f := runF {} [.ev (.op (.openWin 7 180)),
      .ev (.msg 10 (.pbkdf 1 .good none)), .ev (.msg 11 (.pake1 1 (.valid 5))), .ev (.msg 12 (.pake3 1 (.mac c1))),
      .ev (.op (.tick 1000)),
      .ev (.msg 20 (.pbkdf 2 .good none)), .ev (.msg 21 (.pake1 2 (.valid 6))), .ev (.msg 22 (.pake3 2 (.mac c2))),
      .ev (.msg 30 (.pbkdf 3 .good none)), .ev (.msg 31 (.pake1 3 (.valid 8)))]
    let g := runF f [.cmdRevoke, .ev (.msg 32 (.pake3 3 (.mac c3)))]
    (hasPase f.st.table, f.fs, f.st.sessions.length, hasPase g.st.table, g.fs, g.st.window.isSome, g.st.sessions.length)
      = (true, some 60000, 2, false, none, false, 2) := by
  decide

/-- … the fail-safe runs from the FIRST session (armed only when not armed) and its expiry removes the
sessions; a RevokeCommissioning without a window succeeds (as the code does) -/
example :
    let c1 : Conf := { pw := 7, ctx := 1, pA := 5, pB := 2 }
    let f := runF {} [.ev (.op (.openWin 7 180)),
      .ev (.msg 10 (.pbkdf 1 .good none)), .ev (.msg 11 (.pake1 1 (.valid 5))), .ev (.msg 12 (.pake3 1 (.mac c1))),
      .ev (.op (.tick 59999)), .fsPoll]
    let g := runF f [.ev (.op (.tick 1)), .fsPoll, .ev (.op .revoke)]
    (hasPase f.st.table, f.fs, hasPase g.st.table, g.fs, (stepF g .cmdRevoke).2) = (true, some 60000, false, none, .ok) := by
  decide

end C02
