//! Shared infrastructure: an adversarial in-memory datagram network + a deterministic
//! single-threaded executor on virtual time (embassy-time mock driver).
//!
//! * `SimNet::new(n)` creates `n` endpoints; endpoint `i` has address `[fd00::i+1]:5540`.
//! * `SimSocket` implements rs-matter's `NetworkSend` / `NetworkReceive`.
//! * every datagram handed to `send_to` is logged and passed to the adversary (`Policy`), which
//!   decides per datagram: deliver now, drop, duplicate, or delay by some virtual milliseconds
//!   (delaying beyond later datagrams = reordering).
//! * `run_sim(fut, max_virtual_ms)` polls the future; whenever nothing is runnable it releases due
//!   delayed datagrams and otherwise advances the mock clock to the next instant of interest
//!   (1 ms steps while something is in flight, larger steps otherwise).
//!
//! Everything is deterministic given the policy's PRNG seed: no wall-clock, no threads.
use core::future::Future;
use core::pin::Pin;
use core::task::{Context, Poll, Waker};

use std::cell::RefCell;
use std::collections::VecDeque;
use std::net::{Ipv6Addr, SocketAddr, SocketAddrV6};
use std::rc::Rc;
use std::sync::atomic::{AtomicBool, Ordering};
use std::sync::Arc;
use std::task::Wake;

use embassy_time::{Duration, Instant, MockDriver};

use rs_matter::error::{Error, ErrorCode};
use rs_matter::transport::network::{Address, NetworkReceive, NetworkSend};

use crate::rng::Rng;

#[derive(Clone, Copy, Debug, PartialEq, Eq)]
pub enum Verdict {
    Deliver,
    Drop,
    Dup,
    /// deliver after this many virtual milliseconds
    Delay(u64),
}

/// One datagram as seen on the wire.
#[derive(Clone, Debug)]
pub struct WireLog {
    pub t_ms: u64,
    pub from: usize,
    pub to: usize,
    pub bytes: Vec<u8>,
    pub verdict: Verdict,
}

pub trait Policy {
    fn decide(&mut self, from: usize, to: usize, bytes: &[u8], seq: u64) -> Verdict;
}

/// Deliver everything.
pub struct Perfect;
impl Policy for Perfect {
    fn decide(&mut self, _: usize, _: usize, _: &[u8], _: u64) -> Verdict {
        Verdict::Deliver
    }
}

/// Random adversary: per datagram drop / dup / delay with the given per-mille rates.
pub struct RandomPolicy {
    pub rng: Rng,
    pub drop_pm: u64,
    pub dup_pm: u64,
    pub delay_pm: u64,
    pub max_delay_ms: u64,
}
impl Policy for RandomPolicy {
    fn decide(&mut self, _: usize, _: usize, _: &[u8], _: u64) -> Verdict {
        let x = self.rng.below(1000);
        if x < self.drop_pm {
            Verdict::Drop
        } else if x < self.drop_pm + self.dup_pm {
            Verdict::Dup
        } else if x < self.drop_pm + self.dup_pm + self.delay_pm {
            Verdict::Delay(1 + self.rng.below(self.max_delay_ms.max(1)))
        } else {
            Verdict::Deliver
        }
    }
}

/// Scripted adversary: verdict for the k-th datagram (by global send order); `Deliver` afterwards.
pub struct Scripted(pub Vec<Verdict>);
impl Policy for Scripted {
    fn decide(&mut self, _: usize, _: usize, _: &[u8], seq: u64) -> Verdict {
        self.0.get(seq as usize).copied().unwrap_or(Verdict::Deliver)
    }
}

struct Inner {
    inbox: Vec<VecDeque<(Vec<u8>, usize)>>,
    wakers: Vec<Option<Waker>>,
    delayed: Vec<(u64, usize, usize, Vec<u8>)>, // (due ms, from, to, bytes)
    log: Vec<WireLog>,
    policy: Box<dyn Policy>,
    seq: u64,
    /// optional mutation applied to delivered datagrams (tamper stream): (seq -> new bytes)
    tamper: Option<Box<dyn FnMut(u64, usize, usize, &[u8]) -> Option<Vec<u8>>>>,
}

#[derive(Clone)]
pub struct SimNet(Rc<RefCell<Inner>>);

pub fn now_ms() -> u64 {
    Instant::now().as_millis()
}

pub fn addr_of(node: usize) -> Address {
    Address::Udp(SocketAddr::V6(SocketAddrV6::new(
        Ipv6Addr::new(0xfd00, 0, 0, 0, 0, 0, 0, node as u16 + 1),
        5540,
        0,
        0,
    )))
}

pub fn node_of(addr: &Address) -> Option<usize> {
    match addr {
        Address::Udp(SocketAddr::V6(a)) => {
            let s = a.ip().segments();
            if s[0] == 0xfd00 && s[7] >= 1 {
                Some(s[7] as usize - 1)
            } else {
                None
            }
        }
        _ => None,
    }
}

impl SimNet {
    pub fn new(n: usize, policy: Box<dyn Policy>) -> Self {
        SimNet(Rc::new(RefCell::new(Inner {
            inbox: (0..n).map(|_| VecDeque::new()).collect(),
            wakers: (0..n).map(|_| None).collect(),
            delayed: Vec::new(),
            log: Vec::new(),
            policy,
            seq: 0,
            tamper: None,
        })))
    }

    pub fn socket(&self, node: usize) -> SimSocket {
        SimSocket { net: self.clone(), node }
    }

    pub fn set_policy(&self, p: Box<dyn Policy>) {
        self.0.borrow_mut().policy = p;
    }

    pub fn set_tamper(&self, f: Box<dyn FnMut(u64, usize, usize, &[u8]) -> Option<Vec<u8>>>) {
        self.0.borrow_mut().tamper = Some(f);
    }

    pub fn log(&self) -> Vec<WireLog> {
        self.0.borrow().log.clone()
    }

    pub fn log_len(&self) -> usize {
        self.0.borrow().log.len()
    }

    /// Inject a datagram as if `from` had sent it (bypasses the adversary).
    pub fn inject(&self, from: usize, to: usize, bytes: &[u8]) {
        let mut g = self.0.borrow_mut();
        g.push(from, to, bytes.to_vec());
    }

    pub fn in_flight(&self) -> usize {
        let g = self.0.borrow();
        g.delayed.len() + g.inbox.iter().map(|q| q.len()).sum::<usize>()
    }

    /// release delayed datagrams that are due; returns whether anything was released
    fn release_due(&self) -> bool {
        let now = now_ms();
        let mut g = self.0.borrow_mut();
        let mut due: Vec<(u64, usize, usize, Vec<u8>)> = Vec::new();
        let mut rest = Vec::new();
        for d in g.delayed.drain(..) {
            if d.0 <= now {
                due.push(d);
            } else {
                rest.push(d);
            }
        }
        g.delayed = rest;
        due.sort_by_key(|d| d.0);
        let any = !due.is_empty();
        for (_, from, to, bytes) in due {
            g.push(from, to, bytes);
        }
        any
    }

    fn next_due(&self) -> Option<u64> {
        self.0.borrow().delayed.iter().map(|d| d.0).min()
    }
}

impl Inner {
    fn push(&mut self, from: usize, to: usize, bytes: Vec<u8>) {
        if to < self.inbox.len() {
            self.inbox[to].push_back((bytes, from));
            if let Some(w) = self.wakers[to].take() {
                w.wake();
            }
        }
    }
}

pub struct SimSocket {
    net: SimNet,
    node: usize,
}

impl NetworkSend for &SimSocket {
    async fn send_to(&mut self, data: &[u8], addr: Address) -> Result<(), Error> {
        let to = node_of(&addr).ok_or(ErrorCode::NoNetworkInterface)?;
        let mut g = self.net.0.borrow_mut();
        let seq = g.seq;
        g.seq += 1;
        let mut bytes = data.to_vec();
        if let Some(t) = g.tamper.as_mut() {
            if let Some(nb) = t(seq, self.node, to, &bytes) {
                bytes = nb;
            }
        }
        let verdict = g.policy.decide(self.node, to, &bytes, seq);
        g.log.push(WireLog { t_ms: now_ms(), from: self.node, to, bytes: bytes.clone(), verdict });
        match verdict {
            Verdict::Deliver => g.push(self.node, to, bytes),
            Verdict::Drop => {}
            Verdict::Dup => {
                g.push(self.node, to, bytes.clone());
                g.push(self.node, to, bytes);
            }
            Verdict::Delay(ms) => {
                let due = now_ms() + ms;
                g.delayed.push((due, self.node, to, bytes));
            }
        }
        Ok(())
    }
}

struct WaitAvail<'a>(&'a SimSocket);
impl Future for WaitAvail<'_> {
    type Output = ();
    fn poll(self: Pin<&mut Self>, cx: &mut Context<'_>) -> Poll<()> {
        let mut g = self.0.net.0.borrow_mut();
        if !g.inbox[self.0.node].is_empty() {
            Poll::Ready(())
        } else {
            g.wakers[self.0.node] = Some(cx.waker().clone());
            Poll::Pending
        }
    }
}

impl NetworkReceive for &SimSocket {
    async fn wait_available(&mut self) -> Result<(), Error> {
        WaitAvail(self).await;
        Ok(())
    }

    async fn recv_from(&mut self, buffer: &mut [u8]) -> Result<(usize, Address), Error> {
        WaitAvail(self).await;
        let (bytes, from) = self.net.0.borrow_mut().inbox[self.node].pop_front().unwrap();
        let n = bytes.len().min(buffer.len());
        buffer[..n].copy_from_slice(&bytes[..n]);
        Ok((n, addr_of(from)))
    }
}

struct Flag(AtomicBool);
impl Wake for Flag {
    fn wake(self: Arc<Self>) {
        self.0.store(true, Ordering::SeqCst);
    }
    fn wake_by_ref(self: &Arc<Self>) {
        self.0.store(true, Ordering::SeqCst);
    }
}

pub enum SimEnd<T> {
    Done(T),
    /// virtual time budget exhausted
    Timeout,
}

/// Run `fut` to completion on virtual time. Returns `Timeout` when `max_virtual_ms` of virtual
/// time have elapsed (from the call) without completion.
pub fn run_sim<T>(net: &SimNet, fut: impl Future<Output = T>, max_virtual_ms: u64) -> SimEnd<T> {
    let mut fut = core::pin::pin!(fut);
    let flag = Arc::new(Flag(AtomicBool::new(true)));
    let waker = Waker::from(flag.clone());
    let mut cx = Context::from_waker(&waker);
    let start = now_ms();
    loop {
        flag.0.store(false, Ordering::SeqCst);
        if let Poll::Ready(v) = fut.as_mut().poll(&mut cx) {
            return SimEnd::Done(v);
        }
        if flag.0.load(Ordering::SeqCst) {
            continue;
        }
        // nothing runnable: let the network / the clock move
        if net.release_due() {
            continue;
        }
        let now = now_ms();
        if now - start >= max_virtual_ms {
            return SimEnd::Timeout;
        }
        let step = match net.next_due() {
            Some(d) if d > now => (d - now).min(5),
            _ => 5,
        };
        // timers that fire call the waker; we poll again in any case so that futures which
        // compare `Instant::now()` without a timer make progress too
        MockDriver::get().advance(Duration::from_millis(step));
    }
}
