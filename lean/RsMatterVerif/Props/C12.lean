/-! # C12 — property theorems (not built yet) -/
