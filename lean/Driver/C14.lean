import RsMatterVerif.Model.Chunk
import RsMatterVerif.Model.ChunkEvents
import RsMatterVerif.Model.ChunkCursor
import RsMatterVerif.Model.ChunkLive
import Driver.Util
/-! Driver for C14: the chunking model predicts, from the request (value lengths, data-version
filters, event paths and filters, the events in the queue, the length of the transmit buffer,
read or subscribe) and the encoding constants measured on the real encoder (case header), the exact
chunk layout (which report goes into which message, message sizes, MoreChunks flags); the
prediction is compared with what the real `InteractionModel` sent.  Independently, the
specification is evaluated on the implementation's own chunks: the interaction ends, every message
is well-formed and at most the buffer size, MoreChunks on all but the last, SuppressResponse only
on the last, the subscription id on every message of a priming report and on none of a read, the
reassembled attribute reports equal the selected values (each once, in order, lists complete,
contents intact; an error status only for a value that fits no message), and the event reports are
the statuses of the invalid paths followed by exactly the queued events that match the paths and
pass the filters, each once, in queue order.

The attribute section is executed a second time on the cursor-level model (`Model/ChunkCursor.lean`:
bytes of the write buffer, failing writes that leave a part behind (worst case: every free byte),
explicit rewind positions, the list index of `send_array_items`, loops with fuel); the reports that
start in the bytes of each message it sends, and the message lengths, must be those of the messages
just compared with the implementation (`cursorCheck`, verdict `DIS cursor …`).  This is a consistency
check of the two models (provably redundant: `cursor_attr_section`), not a tie to the code.

The event queue itself is modelled too (`Model/ChunkEvents.lean`): from the pushed events (priority,
length of the event in the queue = report length − `KR`) the model predicts which events survive
the evictions / promotions, in which buffer, in which iteration order; the prediction is compared
with the real queue (iteration order and bytes in use per buffer).  Specification on the real
queue: its event numbers ascend.

LIVE QUEUE (`p<k>:<prio><evid>:<len>` tokens): the harness pushes those events after message `k` of the
answer was received and before it is acknowledged, i.e. between two `events.fetch` of the device, and
reports the queue after every such batch (`@L<k>=n,n,…`).  Prediction: `respondLive` of
`Model/ChunkLive.lean` (the fetch that follows message `j` reads the queue as it is after batch `j`); the
queue model must predict the queue after every batch.  Specification on the implementation's messages
(`liveOracle` = `FetchOk` / `LiveSpec` of `Lemmas/ChunkLive.lean`, message by message): the reported
event numbers ascend strictly over the whole answer; every event reported in message `j` is in the queue
as it was when message `j` was filled (after batch `j − 1`), selected and in range; the events of a message
are a PREFIX of the selected events of that queue behind the last number reported before, and ALL of
them in the last message (an event evicted before the reader reached it is legitimately absent, an
event pushed meanwhile and in range must be reported).

case header: `case <id> rd <B> <KS> <KW> <KE> <KI> <KX> <KV> <KT> [<KR>]`
op: `rd|sp [b<cap>] <item>… [f<1|2><m|x>]… [q<W|1>] [z<n>] [e<c|i|d><1|2>:<len>]… [m<min>]… [p<k>:<c|i|d><1|2>:<len>]…`
out: `<status> | <queue>@<ms>@<debug>,<info>,<critical>,<N>[@L<k>=n,…+L<k>=…] | <chunk>;…`
-/
namespace Driver.C14
open Chunk

structure Hdr where
  cap : Nat := 1178
  ks : Nat := 0
  kw : Nat := 0
  ke : Nat := 0
  ki : Nat := 0
  kx : Nat := 0
  kv : Nat := 0
  kt : Nat := 0
  /-- report length − length in the queue of an event (absent in old corpus headers) -/
  kr : Option Nat := none

inductive ReqItem
  | s (ep : Nat) (attr : Nat) (len : Nat)
  | l (ep : Nat) (k : Nat) (lens : List Nat)
  | u

structure Op where
  subscribe : Bool := false
  /-- `sr`: the rendered answer is the subscription report after the priming -/
  report : Bool := false
  /-- per item: changed after the priming (`n` prefix = unchanged) -/
  changed : List Bool := []
  cap : Option Nat := none
  items : List ReqItem := []
  f1 : Option Bool := none
  f2 : Option Bool := none
  query : Option Char := none
  invalid : Nat := 0
  /-- priority, event id, payload length of the pushed events (the n-th has number n) -/
  events : List (Nat × Nat × Nat) := []
  mins : List Nat := []
  /-- live pushes: after message `k` of the answer: priority, event id, payload length -/
  live : List (Nat × Nat × Nat × Nat) := []

def lb (len : Nat) : Nat := if len < 256 then 1 else 2

def firstCh (s : String) : String := String.ofList (s.toList.take 1)
def restStr (s : String) : String := String.ofList (s.toList.drop 1)

def parseLens (val : String) : Option (List Nat) :=
  if val = "-" then some []
  else
    let ls := (val.splitOn ",").map String.toNat?
    if ls.all Option.isSome then some (ls.filterMap id) else none

/-- one token of an op; `none` = malformed -/
def parseTok (o : Op) (w0 : String) : Option Op :=
  let changed := !(w0.startsWith "n")
  let w := if changed then w0 else restStr w0
  let kind := firstCh w
  let rest := restStr w
  if kind = "b" then rest.toNat?.map fun n => { o with cap := some n }
  else if kind = "f" then
    let m := rest.endsWith "m"
    if rest.startsWith "2" then some { o with f2 := some m } else some { o with f1 := some m }
  else if kind = "q" then some { o with query := rest.toList.head? }
  else if kind = "z" then rest.toNat?.map fun n => { o with invalid := min n 8 }
  else if kind = "m" then rest.toNat?.map fun n => { o with mins := o.mins ++ [n] }
  else if kind = "e" then
    match rest.splitOn ":" with
    | [head, len] =>
      let prio := match head.toList.head? with
        | some 'd' => 0
        | some 'i' => 1
        | _ => 2
      let evid := if head.endsWith "2" then 2 else 1
      len.toNat?.map fun n => { o with events := o.events ++ [(prio, evid, n)] }
    | _ => none
  else if kind = "p" then
    match rest.splitOn ":" with
    | [k, head, len] =>
      let prio := match head.toList.head? with
        | some 'd' => 0
        | some 'i' => 1
        | _ => 2
      let evid := if head.endsWith "2" then 2 else 1
      match k.toNat?, len.toNat? with
      | some k, some n => some { o with live := o.live ++ [(k, prio, evid, n)] }
      | _, _ => none
    | _ => none
  else if kind = "u" then some { o with items := o.items ++ [.u], changed := o.changed ++ [changed] }
  else if kind = "s" || kind = "S" || kind = "l" || kind = "L" then
    let ep := if kind = "S" || kind = "L" then 1 else 0
    match rest.splitOn ":" with
    | [a, val] =>
      match a.toNat? with
      | none => none
      | some a =>
        if kind = "s" || kind = "S" then
          val.toNat?.map fun len => { o with items := o.items ++ [.s ep (a % 16) len], changed := o.changed ++ [changed] }
        else (parseLens val).map fun lens => { o with items := o.items ++ [.l ep (a % 6) lens], changed := o.changed ++ [changed] }
    | _ => none
  else none

def parseOp (ws : List String) : Option Op :=
  match ws with
  | [] => none
  | k :: rest => rest.foldl (fun acc w => acc.bind (parseTok · w)) (some { subscribe := k = "sp" || k = "sr", report := k = "sr" })

def itemId : ReqItem → Nat
  | .s ep a _ => 1000 * ep + a
  | .l ep k _ => 1000 * ep + 100 + k
  | .u => 99

def toItem (h : Hdr) : ReqItem → Item
  | .s ep a len => .scalar (1000 * ep + a) (h.ks + lb len + len) h.kx
  | .l ep k lens =>
    -- the end-of-list probe writes the report header: an element report minus value tag (2) and the two closing bytes
    .list (1000 * ep + 100 + k) (h.kw + (lens.map fun l => 1 + lb l + l).sum) h.ke
      (lens.map fun l => h.ki + lb l + l) (h.ki - 4) h.kx (h.kx + 2)
  | .u => .scalar 99 h.kx h.kx

def filterOf (o : Op) : ReqItem → Option Nat
  | .s ep _ _ => (if ep = 0 then o.f1 else o.f2).map fun m => if m then 1 else 2
  | .l ep _ _ => (if ep = 0 then o.f1 else o.f2).map fun m => if m then 1 else 2
  | .u => none

/-- a subscription report carries only the changed attributes and knows no data-version filters -/
def toAttr (h : Hdr) (o : Op) (it : ReqItem × Bool) : AttrReq :=
  { item := toItem h it.1, wanted := !o.report || it.2, dataver := 1,
    filter := if o.report then none else filterOf o it.1 }

def itemsOf (o : Op) : List (ReqItem × Bool) := o.items.zip (o.changed ++ List.replicate o.items.length true)

/-- width of a `u32` written by `TLVWrite::u32` -/
def u32w (n : Nat) : Nat := if n < 256 then 1 else if n < 65536 then 2 else 4

def cfgOf (h : Hdr) (o : Op) (subId : Nat) : Cfg :=
  { cap := min (o.cap.getD h.cap) h.cap, reserve := Consts.longReadsReserve, structReserve := Consts.longReadsStructReserve,
    hdr := if o.subscribe then 1 + 2 + u32w subId else 1, arrOpen := 2, close := 1, trailerMore := 7,
    trailerDone := if o.subscribe then 4 else 6, evOpen := 2 }

/-- the live pushes in the order in which they happen (stable by message index) -/
def liveSorted (o : Op) : List (Nat × Nat × Nat × Nat) := o.live.mergeSort (fun a b => decide (a.1 ≤ b.1))

/-- priority, event id, payload length of the event with number `n`: the events pushed before the
request, then the live pushes -/
def evTable (o : Op) : List (Nat × Nat × Nat) := o.events ++ (liveSorted o).map (·.2)

def evSel (o : Op) (evid : Nat) : Bool := o.query = some 'W' || (o.query = some '1' && evid = 1)

def nextMaxOf (o : Op) : Nat := if o.subscribe then o.events.length else 18446744073709551615

/-- width of a `u64` written by `TLVWrite::u64` -/
def u64w (n : Nat) : Nat := if n < 256 then 1 else if n < 65536 then 2 else if n < 4294967296 then 4 else 8

/-- encoded size of the report of an event with payload length `len` pushed at time `ms` (the
constant part was measured at a time that takes one byte) -/
def evSize (h : Hdr) (ms len : Nat) : Nat := h.kv + (u64w ms - 1) + lb len + len

def toEvReq (h : Hdr) (o : Op) (queue : List Nat) (ms : Nat) : EvReq :=
  { buf := queue.map fun n =>
      match (evTable o)[n - 1]? with
      | some (_, evid, len) => { num := n, size := evSize h ms len, sel := evSel o evid }
      | none => { num := n, size := 0, sel := false },
    mins := o.mins, maxSeen := 0, nextMax := nextMaxOf o, statuses := List.replicate o.invalid h.kt }

def toReq (h : Hdr) (o : Op) (queue : List Nat) (ms : Nat) : Req :=
  { attrs := if o.items.isEmpty then none else some ((itemsOf o).map (toAttr h o)),
    events := if o.query.isSome || o.invalid > 0 then some (toEvReq h o queue ms) else none,
    sendIfEmpty := !o.report }

def rPiece : Piece → String
  | .scalar id sz => if id = 99 then s!"X{id}:{sz}" else s!"S{id}:{sz}"
  | .wholeList id sz [] => s!"E{id}:{sz}"   -- an empty list read whole looks like the start of a streamed one
  | .wholeList id sz _ => s!"W{id}:{sz}"
  | .listStart id sz => s!"E{id}:{sz}"
  | .listElem id _ sz => s!"I{id}:{sz}"
  | .status id sz => s!"X{id}:{sz}"

def rEv : EvPiece → String
  | .data n sz => s!"D{n}:{sz}"
  | .status k sz => s!"T{9 + k}:{sz}"

def joinOr (xs : List String) : String := if xs.isEmpty then "-" else ",".intercalate xs

def rChunk (c : ChunkOut) : String :=
  s!"{c.size}/{if c.more then 1 else 0}:{joinOr (c.pieces.map rPiece)}|{joinOr (c.events.map rEv)}"

/-- a chunk as reported by the harness: `<size>/<more><suppress><wf>/<sub>/<pieces>/<events>` -/
structure IChunk where
  size : Nat
  more : Bool
  suppress : Bool
  wf : Bool
  sub : Option Nat
  pieces : List String
  events : List String

def parseIChunk (t : String) : Option IChunk :=
  match t.splitOn "/" with
  | [sz, fl, sub, ps, es] =>
    match sz.toNat?, fl.toList with
    | some n, [m, s, w] =>
      some { size := n, more := m = '1', suppress := s = '1', wf := w = '1', sub := sub.toNat?,
             pieces := if ps = "-" then [] else ps.splitOn ",",
             events := if es = "-" then [] else es.splitOn "," }
    | _, _ => none
  | _ => none

/-- kind + id + encoded size of a report (the first two `:` fields) -/
def pieceKey (p : String) : String :=
  match p.splitOn ":" with
  | a :: b :: _ => s!"{a}:{b}"
  | _ => p

def rIChunk (c : IChunk) : String :=
  s!"{c.size}/{if c.more then 1 else 0}:{joinOr (c.pieces.map pieceKey)}|{joinOr (c.events.map pieceKey)}"

/-! ## specification on the implementation's chunks -/

/-- reassembled answer: per item its id and value lengths; `f` = an error status stands for the
item (`some lens`: after the streamed elements `lens`) -/
inductive Got
  | s (id : Nat) (len : Nat)
  | l (id : Nat) (lens : List Nat)
  | f (id : Nat) (part : Option (List Nat))
deriving DecidableEq

/-- fold the stream of attribute reports into items; `none` = malformed stream (element without a
list start, damaged value, unknown report) -/
def reassemble : List String → List Got → Option (List Got)
  | [], acc => some acc.reverse
  | p :: ps, acc =>
    let f := p.splitOn ":"
    let kind := firstCh (f.getD 0 "")
    let rid := (restStr (f.getD 0 "")).toNat?
    match kind, rid with
    | "S", some a =>
      match (f.getD 2 "").toNat?, f.getD 3 "" with
      | some len, "1" => reassemble ps (.s a len :: acc)
      | _, _ => none
    | "W", some k =>
      let lens := ((f.getD 2 "").splitOn "+").map String.toNat?
      if f.getD 3 "" = "1" && lens.all Option.isSome then reassemble ps (.l k (lens.filterMap id) :: acc) else none
    | "E", some k => reassemble ps (.l k [] :: acc)
    | "I", some k =>
      match acc, (f.getD 2 "").toNat?, f.getD 3 "" with
      | .l k' lens :: rest, some len, "1" =>
        if k' = k then reassemble ps (.l k (lens ++ [len]) :: rest) else none
      | _, _, _ => none
    | "X", some k =>
      match acc with
      | .l k' lens :: rest => if k' = k && k ≥ 100 then reassemble ps (.f k (some lens) :: rest) else reassemble ps (.f k none :: acc)
      | _ => reassemble ps (.f k none :: acc)
    | _, _ => none

/-- does the reassembled item answer the requested one?  An error status is accepted only for an
item one of whose reports fits no message -/
def answers (c : Cfg) (h : Hdr) (it : ReqItem) (g : Got) : Bool :=
  let fits := (toItem h it).fits c
  match it, g with
  | .u, .f 99 none => true
  | .s ep a len, .s id len' => id = 1000 * ep + a && len = len'
  | .s ep a _, .f id none => !fits && id = 1000 * ep + a
  | .l ep k lens, .l id lens' => id = 1000 * ep + 100 + k && lens = lens'
  | .l ep k _, .f id none => !fits && id = 1000 * ep + 100 + k
  | .l ep k lens, .f id (some pre) => !fits && id = 1000 * ep + 100 + k && pre.isPrefixOf lens
  | _, _ => false

def answersAll (c : Cfg) (h : Hdr) : List ReqItem → List Got → Bool
  | [], [] => true
  | it :: its, g :: gs => answers c h it g && answersAll c h its gs
  | _, _ => false

/-- the attributes a correct answer carries: not held back by a matching data-version filter -/
def expectedItems (o : Op) : List ReqItem :=
  if o.report then ((itemsOf o).filter (·.2)).map (·.1)
  else o.items.filter fun it => filterOf o it != some 1

/-- the event numbers a correct answer carries, in queue order -/
def expectedEvents (o : Op) (queue : List Nat) : List Nat :=
  queue.filter fun n =>
    match (evTable o)[n - 1]? with
    | some (_, evid, _) => evSel o evid && o.mins.all (fun m => decide (m ≤ n)) && decide (n ≤ nextMaxOf o)
    | none => false

/-- the event reports of the answer: number of leading status reports, then the numbers of the data
reports; `none` = a damaged or unknown report, or a status after a data report -/
def readEvents : List String → Nat → List Nat → Option (Nat × List Nat)
  | [], st, acc => some (st, acc.reverse)
  | p :: ps, st, acc =>
    let f := p.splitOn ":"
    let kind := firstCh (f.getD 0 "")
    let n := (restStr (f.getD 0 "")).toNat?
    match kind, n with
    | "T", some _ => if acc.isEmpty then readEvents ps (st + 1) acc else none
    | "D", some n => if f.getD 3 "" = "1" then readEvents ps st (n :: acc) else none
    | _, _ => none

/-- what must fit an empty message for the device to be able to answer at all: the error statuses
and the event reports (WF of the configuration included) -/
def answerable (c : Cfg) (h : Hdr) (o : Op) (queue : List Nat) (ms : Nat) : Bool :=
  decide (c.reserve + c.structReserve ≤ c.cap) && decide (c.hdr + 2 + h.kx + 2 ≤ c.limit) &&
  decide (c.hdr + 2 + h.kt ≤ c.limit) &&
  (expectedEvents o (if o.live.isEmpty then queue else (List.range (evTable o).length).map (· + 1))).all fun n =>
    match (evTable o)[n - 1]? with
    | some (_, _, len) => decide (c.hdr + 2 + evSize h ms len ≤ c.limit)
    | none => true

def subIdOf (status : String) (cs : List IChunk) : Nat :=
  match (status.splitOn ":").getD 1 "" |>.toNat? with
  | some n => n
  | none => ((cs.head?.bind (·.sub)).getD 1)

def isAsc : List Nat → Bool
  | a :: b :: rest => decide (a < b) && isAsc (b :: rest)
  | _ => true

/-- the queue as it is after the live pushes that followed message `k` (`q0`: before any) -/
def queueAt (q0 : List Nat) (lives : List (Nat × List Nat)) (k : Nat) : List Nat :=
  ((lives.filter fun l => decide (l.1 ≤ k)).getLast?.map (·.2)).getD q0

def dataNumsOf (evs : List String) : List Nat :=
  evs.filterMap fun p =>
    let f := (p.splitOn ":").getD 0 ""
    if firstCh f = "D" then (restStr f).toNat? else none

def isPrefix : List Nat → List Nat → Bool
  | [], _ => true
  | a :: as, b :: bs => a == b && isPrefix as bs
  | _ :: _, [] => false

/-- **the live specification, message by message** (`FetchOk` / `LiveSpec`): `j` = index of the message,
`cur` = the largest event number reported before it -/
def liveWalk (o : Op) (q0 : List Nat) (lives : List (Nat × List Nat)) : Nat → Nat → List IChunk → Option String
  | _, _, [] => none
  | j, cur, ch :: rest =>
    let q := queueAt q0 lives (j - 1)
    let d := dataNumsOf ch.events
    let pending := (expectedEvents o q).filter fun n => decide (cur < n)
    if !isAsc (cur :: d) then some s!"message {j} reports the events {d} after event {cur}: the numbers do not ascend strictly (an event twice?)"
    else if let some n := d.find? (fun n => !q.contains n) then
      some s!"message {j} reports event {n} which is not in the queue {q} at that fetch"
    else if let some n := d.find? (fun n => !(expectedEvents o q).contains n) then
      some s!"message {j} reports event {n} which is not selected by the request"
    else if rest.isEmpty && d ≠ pending then
      some s!"the last message reports {d}, pending in the queue {q} behind {cur}: {pending}"
    else if !isPrefix d pending then
      some s!"message {j} reports {d}: not a prefix of the events pending in the queue {q} behind {cur}: {pending}"
    else liveWalk o q0 lives (j + 1) (d.getLast?.getD cur) rest

def oracle (h : Hdr) (o : Op) (status : String) (queue : List Nat) (ms : Nat) (lives : List (Nat × List Nat)) (cs : List IChunk) : Option String :=
  let c := cfgOf h o (subIdOf status cs)
  if status = "toomany" then some s!"the interaction does not end: {cs.length} messages and still MoreChunks"
  else if !answerable c h o queue ms then none   -- an error status / an event that fits no message: the device may give up
  else if o.report && decide (c.limit < c.hdr + 2 + h.ke) then none   -- not even the priming of an empty list fits
  else if status.startsWith "status:" then none   -- the request was refused (not a report)
  else if status.startsWith "none:" then
    -- no report at all: right only when nothing is to be reported
    if o.report && (expectedItems o).isEmpty && (expectedEvents o queue).isEmpty then none
    else some "no report was sent although attributes changed / events were emitted"
  else if !(status = "ok" || status.startsWith "ok:") then some s!"the request was not answered completely: {status}"
  else if cs.isEmpty then some "no message"
  else
    match cs.find? (fun ch => !ch.wf) with
    | some ch => some s!"a message of {ch.size} bytes is not well-formed on its own"
    | none =>
    match cs.find? (fun ch => decide (ch.size > c.cap)) with
    | some ch => some s!"a message of {ch.size} bytes exceeds the maximum of {c.cap}"
    | none =>
      let front := cs.dropLast
      let last := cs.getLast?
      if front.any (fun ch => !ch.more) then some "a message before the last one ends the interaction (MoreChunks clear)"
      else if front.any (fun ch => ch.suppress) then some "SuppressResponse on a message that is not the last"
      else if (last.map (·.more)).getD true then some "the last message announces more chunks"
      else if o.subscribe && cs.any (fun ch => ch.sub != some (subIdOf status cs)) then
        some "a message of the priming report does not carry the subscription id of the SubscribeResponse"
      else if !o.subscribe && cs.any (fun ch => ch.sub.isSome) then some "a message of a read carries a subscription id"
      else
        match reassemble (cs.flatMap (·.pieces)) [] with
        | none => some "the attribute reports do not reassemble (element without list start, damaged value or unknown report)"
        | some got =>
          if !answersAll c h (expectedItems o) got then
            some s!"the reassembled attributes differ from the selected values ({got.length} items for {(expectedItems o).length} selected)"
          else
            match readEvents (cs.flatMap (·.events)) 0 [] with
            | none => some "the event reports are damaged or out of order (status after data)"
            | some (st, nums) =>
              if st ≠ o.invalid then some s!"{st} status reports for {o.invalid} invalid event paths"
              else if o.live.isEmpty then
                if nums ≠ expectedEvents o queue then
                  some s!"the reported events {nums} differ from the selected events {expectedEvents o queue}"
                else none
              else liveWalk o queue lives 1 0 cs

/-- the subscribe request of an `sr` op as the device sees it while priming: empty values, an empty
event queue -/
def zeroItem : ReqItem → ReqItem
  | .s ep a _ => .s ep a 0
  | .l ep k _ => .l ep k []
  | .u => .u

def primingOf (o : Op) : Op := { o with report := false, events := [], items := o.items.map zeroItem }

/-- the event queue: what the model of `im/events.rs` predicts from the pushes (iteration order,
bytes in use in the debug / info / critical buffer); `none` = the model panics -/
def ringPredict (h : Hdr) (o : Op) (ms n kr : Nat) : Option (List Nat × List Nat) :=
  let ops := o.events.map fun (prio, _, len) => QOp.push prio (evSize h ms len - kr) none
  ((Queue.new n).run ops).map fun q => (q.iter.map (·.num), [qLen q.debug, qLen q.info, qLen q.crit])

/-- the queue model over the live pushes: the predicted iteration order after every batch -/
def ringLive (h : Hdr) (o : Op) (ms n kr : Nat) (lives : List (Nat × List Nat)) : Option String :=
  let qop := fun (x : Nat × Nat × Nat) => QOp.push x.1 (evSize h ms x.2.2 - kr) none
  match (Queue.new n).run (o.events.map qop) with
  | none => some "DIS queue: the model panics"
  | some q0 =>
    let rec go (q : Queue) : List (Nat × List Nat) → Option String
      | [] => none
      | (k, real) :: rest =>
        match q.run (((liveSorted o).filter fun l => l.1 = k).map fun l => qop l.2) with
        | none => some "DIS queue: the model panics"
        | some q2 =>
          if q2.iter.map (·.num) = real then go q2 rest
          else some s!"DIS live queue after message {k}: {q2.iter.map (·.num)} (implementation: {real})"
    go q0 lives

/-- number of messages sent before the first `events.fetch` (attribute chunks, chunks sent for status reports) -/
def firstFetchMsgs (c : Cfg) (r : Req) : Nat :=
  match attrSection c r.attrs, r.events with
  | .ok s, some e =>
    match expand c s.lim c.evOpen with
    | .ok lim =>
      match putEvStatuses c 0 e.statuses { s with lim := lim, used := s.used + c.evOpen, base := s.used + c.evOpen, cursor := e.maxSeen } with
      | .ok s2 => s2.done.length
      | .error _ => 0
    | .error _ => 0
  | _, _ => 0

/-- the cursor-level model of the attribute section against the messages `ms` (which at this point
are textually those of the implementation): every attribute chunk it sends has the reports and the
length of the corresponding message, the buffer it leaves holds the reports of the next message -/
def cursorCheck (c : Cfg) (r : Req) (ms : List ChunkOut) : Option String :=
  match r.attrs with
  | none => none
  | some as =>
    match cattrs c pwAll false [] as with
    | .error _ => some "the cursor-level model fails where the size-level model answers"
    | .ok x =>
      let sent := x.sent.reverse
      let got := sent.map fun m => (reportStarts m, m.length + c.trailerMore, true)
      let want := (ms.take sent.length).map fun ch => (ch.pieces, ch.size, ch.events.isEmpty && ch.more)
      if got ≠ want then
        some s!"attribute chunks {got.map fun g => (g.1.map rPiece, g.2.1)} (messages: {want.map fun g => (g.1.map rPiece, g.2.1)})"
      else if ((ms.drop sent.length).head?.map (·.pieces)) ≠ some (reportStarts x.wb.live) then
        some s!"open chunk {(reportStarts x.wb.live).map rPiece}"
      else none

structure St where
  h : Hdr := {}

def step (st : St) (line : String) : St × String :=
  let (op, out) := splitArrow line
  match words op with
  | "case" :: _ :: _ :: b :: ks :: kw :: ke :: ki :: kx :: kv :: kt :: more =>
    match b.toNat?, ks.toNat?, kw.toNat?, ke.toNat?, ki.toNat?, kx.toNat?, kv.toNat?, kt.toNat? with
    | some b, some ks, some kw, some ke, some ki, some kx, some kv, some kt =>
      ({ h := { cap := b, ks := ks, kw := kw, ke := ke, ki := ki, kx := kx, kv := kv, kt := kt,
                kr := more.head?.bind String.toNat? } }, "case")
    | _, _, _, _, _, _, _, _ => (st, "BAD case header (calibration failed?)")
  | "case" :: _ => (st, "BAD case header")
  | ws =>
    match parseOp ws with
    | none => (st, "BAD op")
    | some o =>
      if ws.head? ≠ some "rd" && ws.head? ≠ some "sp" && ws.head? ≠ some "sr" then (st, "BAD op") else
      let secs := (out.splitOn " | ").map (fun s => s.trimAscii.toString)
      let status := secs.getD 0 ""
      let qtext := secs.getD 1 "-"
      let ctext := secs.getD 2 "-"
      let qparts := qtext.splitOn "@"
      let ms := ((qparts.getD 1 "0").toNat?).getD 0
      let queue := if qtext = "-" then [] else ((qparts.getD 0 "").splitOn ",").filterMap String.toNat?
      let ichunks := if ctext = "-" then [] else (ctext.splitOn ";").map parseIChunk
      if !ichunks.all Option.isSome then (st, "BAD chunk") else
      let cs := ichunks.filterMap id
      let heads := ((qparts.getD 2 "").splitOn ",").filterMap String.toNat?
      -- the queue after every batch of live pushes: `L<k>=n,n,…`
      let lives : List (Nat × List Nat) :=
        if (qparts.getD 3 "") = "" then [] else
        ((qparts.getD 3 "").splitOn "+").filterMap fun t =>
          match (restStr t).splitOn "=" with
          | [k, ns] => k.toNat?.map fun k => (k, (ns.splitOn ",").filterMap String.toNat?)
          | _ => none
      if !isAsc queue then (st, s!"ORA the event numbers of the queue {queue} do not ascend") else
      if let some l := lives.find? (fun l => !isAsc l.2) then (st, s!"ORA the event numbers of the queue {l.2} (after message {l.1}) do not ascend") else
      match oracle st.h o status queue ms lives cs with
      | some why => (st, s!"ORA {why}")
      | none =>
        -- the model of the event queue against the real queue
        let ringDis : Option String :=
          match st.h.kr, heads with
          | some kr, [hd, hi, hc, n] =>
            match ringPredict st.h o ms n kr with
            | none => some "DIS queue: the model panics"
            | some (order, used) =>
              if order = queue && used = [hd, hi, hc] then ringLive st.h o ms n kr lives
              else some s!"DIS queue {order} used {used} (implementation: {queue} used {[hd, hi, hc]})"
          | _, _ => none
        if let some d := ringDis then (st, d) else
        if status.startsWith "status:" then (st, "ok") else
        let c := cfgOf st.h o (subIdOf status cs)
        -- a report presupposes the priming: if the device cannot prime, the subscription is not established
        let primed := !o.report || (match respond c (toReq st.h (primingOf o) [] 0) with | .ok _ => true | .error _ => false)
        if !primed then (if status = "hang" then (st, "ok") else (st, "DIS priming fails")) else
        -- the first fetch reads the queue as it is after the messages sent before it, every later
        -- fetch the queue after one more message
        let m0 := if lives.isEmpty then 0 else firstFetchMsgs c (toReq st.h o queue ms)
        let kmax := (lives.map (·.1)).foldl max 0
        let bufOf := fun (k : Nat) => ((toEvReq st.h o (queueAt queue lives k) ms).buf)
        let later := if lives.isEmpty then [] else (List.range (kmax - m0)).map fun i => bufOf (m0 + 1 + i)
        let req := toReq st.h o (queueAt queue lives m0) ms
        match respondLive c req later with
        | .ok [] => if status.startsWith "none:" then (st, "ok") else (st, "DIS ok | (no message)")
        | .ok ms =>
          let mtext := ";".intercalate (ms.map rChunk)
          let itext := ";".intercalate (cs.map rIChunk)
          if (status = "ok" || status.startsWith "ok:") && mtext = itext then
            match cursorCheck c req ms with
            | none => (st, "ok")
            | some why => (st, s!"DIS cursor {why}")
          -- observation `C14.orphan_chunk` (live queue only): the model sends messages the last of which
          -- announces more and then counts the report as empty; the peer sees exactly those and no last one
          else if status = "hang" && mtext = itext && (ms.getLast?.map (·.more)).getD false then (st, "ok")
          else (st, s!"DIS ok | {mtext}")
        | .error .loops => (st, "DIS loops")
        | .error .overflow => (st, "DIS overflow")   -- cursor level only: never an outcome of the size-level model
        -- the device gives up: a request gets no (complete) answer, a report is not sent
        | .error .noSpace => if status = "hang" || (o.report && status.startsWith "none:") then (st, "ok") else (st, "DIS nospace")
        | .error .tooBig => if status = "hang" || (o.report && status.startsWith "none:") then (st, "ok") else (st, "DIS toobig")

def run : IO UInt32 := Driver.runLoop ({} : St) step

end Driver.C14
