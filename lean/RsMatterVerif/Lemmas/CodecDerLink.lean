import RsMatterVerif.Lemmas.CodecDer
import RsMatterVerif.Lemmas.CodecDerRead
import RsMatterVerif.Lemmas.CodecCertAsn1
/-!
# Link between the two DER readers of the C17 models (audit C17, concern 2)

`Model/Codec/Der.lean` has its own tree reader `parseDer` (the inverse used in `C17.cert_der_roundtrip`);
`Model/Codec/DerRead.lean` is the model of the reading layer of crate `der` 0.7.10 (`AnyRef::from_der`,
`AnyRef::decode`, `Header::decode`, `Length::decode`, the `while !is_finished() { AnyRef::decode }` loop),
which is what rs-matter's X.509 / CSR / CMS parsers are built on. This file relates them.

* `readTree` — a tree reader that uses **only** the `der`-crate model: `DerRd.fromDerAny` on the whole
  input, and for every value with a constructed tag `DerRd.seqItems` (`SliceReader::new(value)` +
  `while !is_finished() { AnyRef::decode }`) on the value octets, recursively. The recursion itself is
  specification-side glue (the `der` crate has no generic tree type); every octet is read by the model
  of the crate.
* `fromDerAny_enc_der`, `seqItems_encL` — on the encoding of a well-formed tree whose tags the crate
  knows, `AnyRef::from_der` returns `(tag, body)` and the item loop over the body returns exactly the
  children's `(tag, body)`.
* `readTree_enc` — hence `readTree d.enc = some d` (= `parseDer d.enc`).
* `readTree_sound`, `readTree_iff_parseDer` — on **all** byte strings within `Length::MAX`:
  `readTree l = some d ↔ parseDer l = some d ∧ d.known` (both readers accept canonical DER only; the
  `der` crate knows fewer tags than the model's reader admits, that is the only difference).
* `certFieldsOfDer_known`, `cert_der_roundtrip_derrd` — the certificate round trip with `readTree` as the reader of the
  outer tree (`Lemmas/CodecDerLinkFull.lean`, `cert_der_roundtrip_rd`: also of the value inside every known extension).
-/
namespace Codec.Der
open Codec

/-! ## tag, body, the tags the `der` crate knows -/

def Der.tag : Der → Nat
  | .prim t _ => t
  | .cons t _ => t

/-- the value octets: the content of a primitive, the concatenated encodings of the children of a
constructed value -/
def Der.body : Der → List Nat
  | .prim _ c => c
  | .cons _ cs => Der.encL cs

/-- what `AnyRef` holds of a value -/
def Der.hdr (d : Der) : Nat × List Nat := (d.tag, d.body)

/-- `Tag::try_from(u8)` succeeds -/
def tagKnown (t : Nat) : Bool :=
  match DerRd.tagOfByte t with
  | .ok _ => true
  | .error _ => false

theorem tagKnown_iff (t : Nat) : tagKnown t = true ↔ DerRd.tagOfByte t = .ok t := by
  unfold tagKnown
  cases h : DerRd.tagOfByte t with
  | error e => simp
  | ok x => simp [(DerRd.tagOfByte_ok h).1]

mutual
/-- every tag of the tree is one `Tag::try_from` of the `der` crate accepts -/
def Der.known : Der → Bool
  | .prim t _ => tagKnown t
  | .cons t cs => tagKnown t && Der.knownL cs
def Der.knownL : List Der → Bool
  | [] => true
  | d :: r => d.known && Der.knownL r
end

theorem Der.known_tag (d : Der) (h : d.known = true) : DerRd.tagOfByte d.tag = .ok d.tag := by
  cases d with
  | prim t c => exact (tagKnown_iff t).1 (by simpa [Der.known] using h)
  | cons t cs =>
    simp only [Der.known, Bool.and_eq_true] at h
    exact (tagKnown_iff t).1 h.1

theorem encLen_eq_rd (n : Nat) (h : n < 4294967296) : encLen n = DerRd.encLen n := by
  unfold encLen DerRd.encLen
  have : n / 16777216 % 256 = n / 16777216 := by omega
  rw [this]

theorem Der.WF.body_lt {d : Der} (h : d.WF) : d.body.length < 4294967296 := by
  cases d with
  | prim t c => exact h.2.2
  | cons t cs => exact h.2.2.1

theorem Der.enc_eq_encTlv (d : Der) (h : d.body.length < 4294967296) : d.enc = DerRd.encTlv d.tag d.body := by
  cases d with
  | prim t c => simp only [Der.enc, Der.tag, Der.body, DerRd.encTlv] at h ⊢; rw [encLen_eq_rd _ h]; simp
  | cons t cs => simp only [Der.enc, Der.tag, Der.body, DerRd.encTlv] at h ⊢; rw [encLen_eq_rd _ h]; simp

/-! ## the `der` crate reading layer on the encoding of a tree -/

/-- **`AnyRef::from_der` on the encoding of a tree** returns the tag octet and the value octets -/
theorem fromDerAny_enc_der (d : Der) (hw : d.WF) (hk : d.known = true) (hmax : d.enc.length ≤ DerRd.MAX_LEN) :
    DerRd.fromDerAny d.enc = .ok (d.tag, d.body) := by
  rw [Der.enc_eq_encTlv d hw.body_lt] at hmax ⊢
  exact DerRd.fromDerAny_enc (d.known_tag hk) hmax

/-- the `while !is_finished() { AnyRef::decode }` loop of a slice reader standing in front of the encodings
of a list of trees that fills the rest of the input: it returns their `(tag, body)` in order and ends at
the end of the input -/
theorem items_encL {bytes : List Nat} (hmax : bytes.length ≤ DerRd.MAX_LEN) :
    ∀ (cs : List Der) (pos fuel : Nat) (acc : List (Nat × List Nat)), Der.WFL cs → Der.knownL cs = true →
      bytes.drop pos = Der.encL cs → pos ≤ bytes.length → cs.length < fuel →
      DerRd.items fuel (.slice bytes pos) acc = .ok (acc.reverse ++ cs.map Der.hdr, .slice bytes bytes.length)
  | [], pos, fuel, acc, _, _, hd, hp, hf => by
    obtain ⟨fuel, rfl⟩ : ∃ k, fuel = k + 1 := ⟨fuel - 1, by omega⟩
    have hpe : pos = bytes.length := by
      have := congrArg List.length hd
      simp [Der.encL] at this; omega
    subst hpe
    have hwf : (DerRd.Rdr.slice bytes bytes.length).WF := ⟨Nat.le_refl _, hmax⟩
    unfold DerRd.items
    rw [DerRd.isFinished_ok hwf]
    simp [DerRd.Rdr.inputLen, DerRd.Rdr.position]
  | d :: r, pos, fuel, acc, hw, hk, hd, hp, hf => by
    obtain ⟨fuel, rfl⟩ : ∃ k, fuel = k + 1 := ⟨fuel - 1, by omega⟩
    simp only [Der.knownL, Bool.and_eq_true] at hk
    have hwf : (DerRd.Rdr.slice bytes pos).WF := ⟨hp, hmax⟩
    have hde : d.enc = DerRd.encTlv d.tag d.body := Der.enc_eq_encTlv d hw.1.body_lt
    have hd1 : bytes.drop pos = DerRd.encTlv d.tag d.body ++ Der.encL r := by rw [hd, Der.encL, hde]
    have hlen : pos + (DerRd.encTlv d.tag d.body).length + (Der.encL r).length = bytes.length := by
      have := congrArg List.length hd1
      simp only [List.length_drop, List.length_append] at this; omega
    have hpos : 0 < (DerRd.encTlv d.tag d.body).length := by simp [DerRd.encTlv]
    unfold DerRd.items
    rw [DerRd.isFinished_ok hwf]
    have hnf : ((DerRd.Rdr.slice bytes pos).inputLen - (DerRd.Rdr.slice bytes pos).position == 0) = false := by
      simp [DerRd.Rdr.inputLen, DerRd.Rdr.position]; omega
    simp only [hnf]
    rw [DerRd.anyDecode_enc hd1 (d.known_tag hk.1) hmax]
    simp only
    have hd2 : bytes.drop (pos + (DerRd.encTlv d.tag d.body).length) = Der.encL r := by
      rw [← List.drop_drop, hd1, List.drop_left]
    rw [items_encL hmax r _ fuel _ hw.2 hk.2 hd2 (by omega) (by simp at hf; omega)]
    simp [Der.hdr]

/-- **the item loop over the value octets of a constructed value** (`SliceReader::new(value)` +
`while !is_finished() { AnyRef::decode }`) yields exactly the children's `(tag, body)` -/
theorem seqItems_encL (cs : List Der) (hw : Der.WFL cs) (hk : Der.knownL cs = true)
    (hmax : (Der.encL cs).length ≤ DerRd.MAX_LEN) : DerRd.seqItems (Der.encL cs) = .ok (cs.map Der.hdr) := by
  unfold DerRd.seqItems DerRd.Rdr.new
  rw [DerRd.lenNew_of_le hmax]
  simp only [Bind.bind, Except.bind, Pure.pure, Except.pure]
  have hlen : cs.length < (Der.encL cs).length + 1 := by
    have := fuelL_le cs
    have : cs.length + 1 ≤ Der.fuelL cs := by
      clear this hw hk hmax
      induction cs with
      | nil => simp [Der.fuelL]
      | cons d r ih => simp only [Der.fuelL, List.length_cons]; omega
    have h2 : ∀ cs : List Der, 2 * cs.length ≤ (Der.encL cs).length := by
      intro cs
      induction cs with
      | nil => simp
      | cons d r ih => have := (fuel_le d).2; simp only [Der.encL, List.length_cons, List.length_append]; omega
    have := h2 cs
    omega
  rw [items_encL hmax cs 0 _ [] hw hk (by simp) (Nat.zero_le _) hlen]
  simp

/-! ## a tree reader made of the `der` crate model only -/

mutual
/-- the tree of an `AnyRef` (tag octet, value octets): a constructed tag → the items of the value, each read
again; a primitive tag → a leaf -/
def readNode : Nat → Nat → List Nat → Option Der
  | 0, _, _ => none
  | fuel + 1, tag, v =>
    if tagConstructed tag then
      match DerRd.seqItems v with
      | .ok its =>
        match readNodes fuel its with
        | some cs => some (.cons tag cs)
        | none => none
      | .error _ => none
    else some (.prim tag v)
def readNodes : Nat → List (Nat × List Nat) → Option (List Der)
  | 0, _ => none
  | _ + 1, [] => some []
  | fuel + 1, it :: rest =>
    match readNode fuel it.1 it.2 with
    | none => none
    | some d =>
      match readNodes fuel rest with
      | none => none
      | some ds => some (d :: ds)
end

/-- exactly one DER value, read with `AnyRef::from_der` and, below it, with the item loop of the crate -/
def readTree (l : List Nat) : Option Der :=
  match DerRd.fromDerAny l with
  | .ok (tag, v) => readNode (fuelFor l) tag v
  | .error _ => none

theorem Der.WF.constructed {d : Der} (h : d.WF) : tagConstructed d.tag = (match d with | .cons _ _ => true | .prim _ _ => false) := by
  cases d with
  | prim t c => exact h.2.1
  | cons t cs => exact h.2.1

theorem encL_length_le_enc (t : Nat) (cs : List Der) : (Der.encL cs).length ≤ (Der.cons t cs).enc.length := by
  simp [Der.enc]; omega

mutual
theorem readNode_enc (d : Der) (hw : d.WF) (hk : d.known = true) (hmax : d.enc.length ≤ DerRd.MAX_LEN)
    (fuel : Nat) (hf : d.fuel ≤ fuel) : readNode fuel d.tag d.body = some d := by
  match d, hw, hk, hmax, fuel, hf with
  | .prim t c, hw, _, _, fuel + 1, _ =>
    simp only [readNode, Der.tag, Der.body, hw.2.1]
    simp
  | .cons t cs, hw, hk, hmax, fuel + 1, hf =>
    simp only [Der.known, Bool.and_eq_true] at hk
    have hm : (Der.encL cs).length ≤ DerRd.MAX_LEN := Nat.le_trans (encL_length_le_enc t cs) hmax
    simp only [readNode, Der.tag, Der.body, hw.2.1, if_true, seqItems_encL cs hw.2.2.2 hk.2 hm]
    rw [readNodes_encL cs hw.2.2.2 hk.2 hm fuel (by simp only [Der.fuel] at hf; omega)]
  | .prim t c, _, _, _, 0, hf => simp [Der.fuel] at hf
  | .cons t cs, _, _, _, 0, hf => simp [Der.fuel] at hf
theorem readNodes_encL (cs : List Der) (hw : Der.WFL cs) (hk : Der.knownL cs = true)
    (hmax : (Der.encL cs).length ≤ DerRd.MAX_LEN) (fuel : Nat) (hf : Der.fuelL cs ≤ fuel) :
    readNodes fuel (cs.map Der.hdr) = some cs := by
  match cs, hw, hk, hmax, fuel, hf with
  | [], _, _, _, fuel + 1, _ => simp [readNodes]
  | [], _, _, _, 0, hf => simp [Der.fuelL] at hf
  | d :: r, _, _, _, 0, hf => simp [Der.fuelL] at hf
  | d :: r, hw, hk, hmax, fuel + 1, hf =>
    simp only [Der.knownL, Bool.and_eq_true] at hk
    simp only [Der.fuelL] at hf
    simp only [Der.encL, List.length_append] at hmax
    simp only [List.map_cons, readNodes, Der.hdr]
    rw [readNode_enc d hw.1 hk.1 (by omega) fuel (by omega), readNodes_encL r hw.2 hk.2 (by omega) fuel (by omega)]
end

/-- **Link lemma (writer side).** On the encoding of every well-formed tree whose tags the `der` crate knows
(within `Length::MAX`), the reader made of the crate's routines reconstructs the tree — the same answer as
the model's own `parseDer`. -/
theorem readTree_enc (d : Der) (hw : d.WF) (hk : d.known = true) (hmax : d.enc.length ≤ DerRd.MAX_LEN) :
    readTree d.enc = some d ∧ parseDer d.enc = some d := by
  refine ⟨?_, parseDer_enc d hw⟩
  unfold readTree
  rw [fromDerAny_enc_der d hw hk hmax]
  exact readNode_enc d hw hk hmax _ (by have := fuel_le d; simp only [fuelFor]; omega)

/-- non-vacuity of `readTree_enc` / `fromDerAny_enc_der`: a tree with nested constructed values -/
example : (Der.cons 0x30 [.prim 0x02 [5], .cons 0xA0 [.prim 0x0c [65]], .cons 0x31 []]).WF ∧
    (Der.cons 0x30 [.prim 0x02 [5], .cons 0xA0 [.prim 0x0c [65]], .cons 0x31 []]).known = true ∧
    (Der.cons 0x30 [.prim 0x02 [5], .cons 0xA0 [.prim 0x0c [65]], .cons 0x31 []]).enc.length ≤ DerRd.MAX_LEN :=
  ⟨⟨by decide, by decide, by decide, ⟨by decide, by decide, by decide⟩,
    ⟨by decide, by decide, by decide, ⟨by decide, by decide, by decide⟩, trivial⟩, ⟨by decide, by decide, by decide, trivial⟩, trivial⟩,
   by decide, by decide⟩
example : readTree [0x30, 10, 0x02, 1, 5, 0xA0, 3, 0x0c, 1, 65, 0x31, 0] =
    some (.cons 0x30 [.prim 0x02 [5], .cons 0xA0 [.prim 0x0c [65]], .cons 0x31 []]) := rfl

end Codec.Der

/-! ## the converse: whatever the crate's routines accept is a canonical encoding -/
namespace Codec.DerRd

theorem anyDecode_tag {r : Rdr} (h : r.WF) (hbytes : ∀ b ∈ r.input, b < 256) {tag : Nat} {v : List Nat} {r' : Rdr}
    (hr : anyDecode r = .ok ((tag, v), r')) : tagOfByte tag = .ok tag := by
  unfold anyDecode at hr
  cases hh : headerDecode r with
  | error e => simp [hh, Bind.bind, Except.bind] at hr
  | ok x =>
    obtain ⟨⟨t, len⟩, r1⟩ := x
    obtain ⟨ht, _, _, _⟩ := headerDecode_spec h hbytes hh
    simp only [hh, Bind.bind, Except.bind] at hr
    cases hs : r1.readSlice len with
    | error e => simp [hs] at hr
    | ok y =>
      obtain ⟨s, r2⟩ := y
      simp only [hs] at hr
      cases hn : lenNew s.length with
      | error e => simp [hn] at hr
      | ok m =>
        simp [hn, Pure.pure, Except.pure] at hr
        obtain ⟨⟨ht2, _⟩, _⟩ := hr
        subst ht2; exact ht

/-- the concatenated encodings of a list of `(tag, value)` items -/
def encItems (l : List (Nat × List Nat)) : List Nat := (l.map fun it => encTlv it.1 it.2).flatten

/-- the item loop accepts canonical DER only: what it reads up to the end of the reader is exactly the
concatenation of the encodings of the items it returns, and every tag is one the crate knows -/
theorem items_canonical : ∀ (fuel : Nat) {r : Rdr} (_ : r.WF) (_ : ∀ b ∈ r.input, b < 256)
    (acc l : List (Nat × List Nat)) (r' : Rdr), items fuel r acc = .ok (l, r') →
    ∃ new, l = acc.reverse ++ new ∧ (r.input.drop r.offset).take (r.inputLen - r.position) = encItems new ∧
      ∀ it ∈ new, tagOfByte it.1 = .ok it.1
  | 0, _, _, _, _, _, _, hr => by simp [items] at hr
  | fuel + 1, r, h, hbytes, acc, l, r', hr => by
    unfold items at hr
    rw [isFinished_ok h] at hr
    by_cases hfin : r.inputLen - r.position = 0
    · simp only [hfin, beq_self_eq_true, Except.ok.injEq, Prod.mk.injEq] at hr
      exact ⟨[], by simp [hr.1], by simp [hfin, encItems], by simp⟩
    · have hnf : (r.inputLen - r.position == 0) = false := by simp [hfin]
      simp only [hnf] at hr
      cases ha : anyDecode r with
      | error e => simp [ha] at hr
      | ok x =>
        obtain ⟨⟨tag, v⟩, r1⟩ := x
        simp only [ha] at hr
        obtain ⟨htake, hadv⟩ := anyDecode_canonical h hbytes ha
        have htag := anyDecode_tag h hbytes ha
        obtain ⟨new, hl, hb, hk⟩ := items_canonical fuel hadv.wf (by rw [hadv.input]; exact hbytes) _ _ _ hr
        refine ⟨(tag, v) :: new, by simp [hl], ?_, ?_⟩
        · have hle := hadv.wf.pos_le
          rw [hadv.pos, hadv.ilen] at hle
          have hsplit : r.inputLen - r.position = (encTlv tag v).length + (r1.inputLen - r1.position) := by
            rw [hadv.pos, hadv.ilen]; omega
          rw [hsplit, List.take_add, htake, List.drop_drop]
          rw [hadv.input, hadv.off] at hb
          rw [hb]
          simp [encItems]
        · intro it hit
          rcases List.mem_cons.1 hit with rfl | hit
          · exact htag
          · exact hk it hit

theorem seqItems_canonical {v : List Nat} (hbytes : ∀ b ∈ v, b < 256) {its : List (Nat × List Nat)}
    (h : seqItems v = .ok its) : v = encItems its ∧ v.length ≤ MAX_LEN ∧ ∀ it ∈ its, tagOfByte it.1 = .ok it.1 := by
  unfold seqItems at h
  cases hn : Rdr.new v with
  | error e => simp [hn] at h
  | ok r =>
    obtain ⟨hr, hwf⟩ := new_ok hn
    subst hr
    simp only [hn] at h
    cases hi : items (v.length + 1) (Rdr.slice v 0) [] with
    | error e => simp [hi] at h
    | ok y =>
      obtain ⟨l, r'⟩ := y
      simp only [hi, Except.ok.injEq] at h
      subst h
      obtain ⟨new, hl, hb, hk⟩ := items_canonical _ hwf hbytes _ _ _ hi
      simp only [List.reverse_nil, List.nil_append] at hl
      subst hl
      simp only [Rdr.input, Rdr.offset, Rdr.inputLen, Rdr.position, List.drop_zero, Nat.sub_zero, List.take_length] at hb
      exact ⟨hb, hwf.2, hk⟩

theorem fromDerAny_facts {bytes : List Nat} (hbytes : ∀ b ∈ bytes, b < 256) {tag : Nat} {v : List Nat}
    (h : fromDerAny bytes = .ok (tag, v)) :
    bytes = encTlv tag v ∧ tagOfByte tag = .ok tag ∧ bytes.length ≤ MAX_LEN := by
  refine ⟨fromDerAny_canonical hbytes h, ?_⟩
  unfold fromDerAny at h
  cases hn : Rdr.new bytes with
  | error e => simp [hn, Bind.bind, Except.bind] at h
  | ok r =>
    obtain ⟨hr, hwf⟩ := new_ok hn
    subst hr
    simp only [hn, Bind.bind, Except.bind] at h
    cases ha : anyDecode (Rdr.slice bytes 0) with
    | error e => simp [ha] at h
    | ok x =>
      obtain ⟨⟨t, w⟩, r'⟩ := x
      simp only [ha] at h
      cases hf : r'.finish with
      | error e => simp [hf] at h
      | ok _ =>
        simp [hf, Pure.pure, Except.pure] at h
        obtain ⟨h1, h2⟩ := h
        subst h1 h2
        exact ⟨anyDecode_tag hwf hbytes ha, hwf.2⟩

end Codec.DerRd

namespace Codec.Der
open Codec

theorem tagOk_of_known {t : Nat} (h : DerRd.tagOfByte t = .ok t) : tagOk t = true := by
  have h2 := (DerRd.tagOfByte_ok h).2
  unfold DerRd.tagOfByte at h
  split at h
  · simp at h
  · simp only [tagOk, Bool.and_eq_true, decide_eq_true_eq, bne_iff_ne, ne_eq]
    omega

theorem encL_eq_encItems (cs : List Der) (hw : Der.WFL cs) : Der.encL cs = DerRd.encItems (cs.map Der.hdr) := by
  induction cs with
  | nil => simp [Der.encL, DerRd.encItems]
  | cons d r ih =>
    simp only [Der.encL, List.map_cons, DerRd.encItems, List.flatten_cons, Der.hdr]
    rw [Der.enc_eq_encTlv d hw.1.body_lt, ih hw.2]
    simp [DerRd.encItems]

theorem mem_encItems {its : List (Nat × List Nat)} {it : Nat × List Nat} (h : it ∈ its) :
    (∀ b ∈ it.2, b ∈ DerRd.encItems its) ∧ it.2.length ≤ (DerRd.encItems its).length := by
  induction its with
  | nil => cases h
  | cons a r ih =>
    simp only [DerRd.encItems, List.map_cons, List.flatten_cons, List.mem_append, List.length_append]
    rcases List.mem_cons.1 h with rfl | h
    · exact ⟨fun b hb => Or.inl (by simp [DerRd.encTlv, hb]), by simp [DerRd.encTlv]; omega⟩
    · obtain ⟨h1, h2⟩ := ih h
      exact ⟨fun b hb => Or.inr (h1 b hb), by simp only [DerRd.encItems] at h2; omega⟩

/-- what the `der`-crate tree reader returns is a well-formed tree of known tags with this tag and body -/
theorem readNode_sound (fuel : Nat) :
    (∀ tag v d, (∀ b ∈ v, b < 256) → DerRd.tagOfByte tag = .ok tag → v.length ≤ DerRd.MAX_LEN →
      readNode fuel tag v = some d → d.WF ∧ d.known = true ∧ d.tag = tag ∧ d.body = v) ∧
    (∀ its ds, (∀ it ∈ its, (∀ b ∈ it.2, b < 256) ∧ DerRd.tagOfByte it.1 = .ok it.1 ∧ it.2.length ≤ DerRd.MAX_LEN) →
      readNodes fuel its = some ds → Der.WFL ds ∧ Der.knownL ds = true ∧ ds.map Der.hdr = its) := by
  have hM : DerRd.MAX_LEN = 268435455 := rfl
  induction fuel with
  | zero => constructor <;> intros <;> simp_all [readNode, readNodes]
  | succ fuel ih =>
    obtain ⟨ih1, ih2⟩ := ih
    constructor
    · intro tag v d hb ht hl h
      simp only [readNode] at h
      split at h
      · rename_i hc
        split at h
        · rename_i its hs
          split at h
          · rename_i cs hcs
            simp only [Option.some.injEq] at h; subst h
            obtain ⟨hv, _, hk⟩ := DerRd.seqItems_canonical hb hs
            have hits : ∀ it ∈ its, (∀ b ∈ it.2, b < 256) ∧ DerRd.tagOfByte it.1 = .ok it.1 ∧ it.2.length ≤ DerRd.MAX_LEN := by
              intro it hit
              obtain ⟨m1, m2⟩ := mem_encItems hit
              rw [← hv] at m1 m2
              exact ⟨fun b hb2 => hb b (m1 b hb2), hk it hit, by omega⟩
            obtain ⟨w, k, e⟩ := ih2 its cs hits hcs
            have henc : Der.encL cs = v := by rw [encL_eq_encItems cs w, e, ← hv]
            refine ⟨⟨tagOk_of_known ht, hc, by rw [henc]; omega, w⟩, ?_, rfl, henc⟩
            simp [Der.known, k, (tagKnown_iff tag).2 ht]
          · simp at h
        · simp at h
      · rename_i hc
        simp only [Option.some.injEq] at h; subst h
        refine ⟨⟨tagOk_of_known ht, by simpa using hc, by omega⟩, ?_, rfl, rfl⟩
        simp [Der.known, (tagKnown_iff tag).2 ht]
    · intro its ds hits h
      match its, hits, h with
      | [], _, h => simp [readNodes] at h; subst h; exact ⟨trivial, rfl, rfl⟩
      | it :: rest, hits, h =>
        simp only [readNodes] at h
        split at h
        · simp at h
        · rename_i d hd
          split at h
          · simp at h
          · rename_i ds2 hds
            simp only [Option.some.injEq] at h; subst h
            obtain ⟨hb, ht, hl⟩ := hits it (by simp)
            obtain ⟨w1, k1, t1, b1⟩ := ih1 it.1 it.2 d hb ht hl hd
            obtain ⟨w2, k2, e2⟩ := ih2 rest ds2 (fun x hx => hits x (by simp [hx])) hds
            exact ⟨⟨w1, w2⟩, by simp [Der.knownL, k1, k2], by simp [Der.hdr, t1, b1, e2]⟩

/-- **Link lemma (reader side).** Whatever the `der`-crate tree reader accepts is the canonical encoding of
the tree it returns, the tree is well formed and has only tags the crate knows. -/
theorem readTree_sound (l : List Nat) (hb : ∀ b ∈ l, b < 256) (d : Der) (h : readTree l = some d) :
    d.WF ∧ d.known = true ∧ l = d.enc := by
  unfold readTree at h
  split at h
  · rename_i tag v hf
    obtain ⟨hl, ht, hmax⟩ := DerRd.fromDerAny_facts hb hf
    have hvb : ∀ b ∈ v, b < 256 := fun b hbv => hb b (by rw [hl]; simp [DerRd.encTlv, hbv])
    have hvl : v.length ≤ DerRd.MAX_LEN := by
      have := congrArg List.length hl
      simp [DerRd.encTlv] at this; omega
    obtain ⟨w, k, t, b⟩ := (readNode_sound (fuelFor l)).1 tag v d hvb ht hvl h
    exact ⟨w, k, by rw [Der.enc_eq_encTlv d w.body_lt, t, b, ← hl]⟩
  · simp at h

/-- the model's own reader accepts canonical encodings only (`parse_sound` for `parseDer`) -/
theorem parseDer_sound (l : List Nat) (hb : ∀ b ∈ l, b < 256) (d : Der) (h : parseDer l = some d) :
    d.WF ∧ l = d.enc := by
  unfold parseDer at h
  split at h
  · rename_i d2 hp
    simp only [Option.some.injEq] at h; subst h
    obtain ⟨w, e⟩ := (parse_sound (fuelFor l)).1 l _ _ hb hp
    exact ⟨w, by simpa using e⟩
  · simp at h

/-- **The two readers agree on every byte string** (octets `< 256`, length within `Length::MAX` of the crate):
the tree reader made of the `der`-crate model accepts exactly what the model's `parseDer` accepts *and* whose
tags the crate knows, with the same tree. (`parseDer` admits every low-tag-number identifier octet; the crate's
`Tag::try_from` refuses the universal tags it has no type for — e.g. `0x07`, `0x0D`, constructed universal tags
other than SEQUENCE / SET.) -/
theorem readTree_iff_parseDer (l : List Nat) (hb : ∀ b ∈ l, b < 256) (hmax : l.length ≤ DerRd.MAX_LEN) (d : Der) :
    readTree l = some d ↔ parseDer l = some d ∧ d.known = true := by
  constructor
  · intro h
    obtain ⟨w, k, e⟩ := readTree_sound l hb d h
    exact ⟨by rw [e]; exact parseDer_enc d w, k⟩
  · intro ⟨h, k⟩
    obtain ⟨w, e⟩ := parseDer_sound l hb d h
    rw [e] at hmax ⊢
    exact (readTree_enc d w k hmax).1

/-- non-vacuity of `readTree_iff_parseDer`, and the one difference between the readers: a universal tag the crate has no
type for (`0x07` ObjectDescriptor) is admitted by `parseDer` and refused by `Tag::try_from` -/
example : (∀ b ∈ [0x30, 3, 0x02, 1, 5], b < 256) ∧ [0x30, 3, 0x02, 1, 5].length ≤ DerRd.MAX_LEN ∧
    readTree [0x30, 3, 0x02, 1, 5] = some (.cons 0x30 [.prim 0x02 [5]]) ∧
    parseDer [0x30, 3, 0x02, 1, 5] = some (.cons 0x30 [.prim 0x02 [5]]) := ⟨by decide, by decide, rfl, rfl⟩
example : parseDer [0x07, 0] = some (.prim 0x07 []) ∧ readTree [0x07, 0] = none ∧ (Der.prim 0x07 []).known = false :=
  ⟨rfl, rfl, rfl⟩
/-- a non-minimal length is refused by both -/
example : parseDer [0x04, 0x81, 1, 7] = none ∧ readTree [0x04, 0x81, 1, 7] = none := ⟨rfl, rfl⟩

end Codec.Der

/-! ## the certificate: everything `certFieldsOfDer` reads has only tags the `der` crate knows -/
namespace Codec.CertAsn1
open Codec Codec.Der

theorem parseTime_known (d : Der) (e : Nat) (h : parseTime d = some e) : d.known = true := by
  unfold parseTime at h
  split at h
  · rename_i tag s
    dsimp only at h
    split at h
    · rename_i ht; subst ht; rfl
    · split at h
      · rename_i ht; subst ht; rfl
      · simp at h
  · simp at h

theorem parseAttr_known (d : Der) (a : AttrView) (h : parseAttr d = some a) : d.known = true := by
  unfold parseAttr at h
  split at h
  · rename_i oid st s
    cases hi : oidIndex oid with
    | none => simp [hi, bind, Option.bind] at h
    | some i =>
      simp only [hi, bind, Option.bind] at h
      split at h
      · rename_i hst; subst hst; rfl
      · split at h
        · rename_i hst; subst hst; rfl
        · simp at h
  · simp at h

theorem mapO_known {β : Type} (f : Der → Option β) (hf : ∀ d b, f d = some b → d.known = true) :
    ∀ (l : List Der) (bs : List β), mapO f l = some bs → Der.knownL l = true
  | [], _, _ => rfl
  | d :: r, bs, h => by
    obtain ⟨b, bs2, h1, h2, _⟩ := mapO_some_cons _ _ _ _ h
    simp [Der.knownL, hf d b h1, mapO_known f hf r bs2 h2]

theorem parseDn_known (d : Der) (l : List AttrView) (h : parseDn d = some l) : d.known = true := by
  unfold parseDn at h
  split at h
  · rename_i cs
    simp only [Der.known, mapO_known parseAttr parseAttr_known cs l h]; rfl
  · simp at h

theorem parseExt_known (d : Der) (e : ExtView) (h : parseExt d = some e) : d.known = true := by
  unfold parseExt at h
  split at h
  · rfl
  · rfl
  · simp at h

theorem certFieldsOfDer_known (d : Der) (v : View) (h : certFieldsOfDer d = some v) : d.known = true := by
  unfold certFieldsOfDer at h
  split at h
  · rename_i serial sigOid issuer nb na subject pkOid curveOid pk exts
    split at h
    · simp at h
    · cases h1 : parseDn issuer with
      | none => simp [h1, bind, Option.bind] at h
      | some i =>
      cases h2 : parseDn subject with
      | none => simp [h1, h2, bind, Option.bind] at h
      | some s =>
      cases h3 : parseTime nb with
      | none => simp [h1, h2, h3, bind, Option.bind] at h
      | some b =>
      cases h4 : parseTime na with
      | none => simp [h1, h2, h3, h4, bind, Option.bind] at h
      | some a =>
      cases h5 : mapO parseExt exts with
      | none => simp [h1, h2, h3, h4, h5, bind, Option.bind] at h
      | some x =>
        simp [Der.known, Der.knownL, parseDn_known _ _ h1, parseDn_known _ _ h2, parseTime_known _ _ h3,
          parseTime_known _ _ h4, mapO_known parseExt parseExt_known _ _ h5]
        decide
  · simp at h

/-- `cert_roundtrip` (Lemmas/CodecCertAsn1.lean) with the tree made explicit: the DER tree `d` whose fields are read
is well formed and the bytes `as_asn1` writes are *its* encoding -/
theorem cert_roundtrip_tree (f : Fields) (n : Node) (buf : List Nat) (hn : certNode f = some n) (hw : f.WFull)
    (hl : n.lenOk) (hfit : n.need ≤ buf.length) :
    ∃ d v, asAsn1 f.lazy buf = .ok n.enc ∧ d.WF ∧ d.enc = n.enc ∧ parseDer n.enc = some d ∧
      certFieldsOfDer d = some v ∧ f.view = some v := by
  obtain ⟨⟨hi, hs, he⟩, hna⟩ := hw
  have hok := asAsn1_ok f n buf hn ⟨hi, hs, he⟩ hl hfit
  obtain ⟨sa, pa, cu, issuer, nb, na, subject, h2, h3, h4, h5, rfl⟩ := certNode_parts f n hn
  have hle : Node.lenOkL (f.exts.map extNode) := by
    simp only [seq, Node.lenOk, Node.lenOkL] at hl
    exact hl.2.2.2.2.2.2.2.2.1.2.1.2
  obtain ⟨di, vi, i1, i2, i3⟩ := dn_parse f.issuer issuer h2 hi
  obtain ⟨dsu, vsu, s1, s2, s3⟩ := dn_parse f.subject subject h5 hs
  obtain ⟨dnb, b1, b2⟩ := time_parse _ nb h3
  obtain ⟨dna, a1, a2⟩ := time_parse _ na h4
  obtain ⟨dex, vex, x1, x2, x3⟩ := exts_parse f.exts he hle
  let d : Der := .cons 0x30 [.cons 0xA0 [.prim 0x02 [2]], .prim 0x02 f.serial, .cons 0x30 [.prim 0x06 OID_ECDSA_WITH_SHA256],
    di, .cons 0x30 [dnb, dna], dsu,
    .cons 0x30 [.cons 0x30 [.prim 0x06 OID_PUB_KEY_ECPUBKEY, .prim 0x06 OID_EC_TYPE_PRIME256V1], .prim 0x03 (0 :: f.pubkey)],
    .cons 0xA3 [.cons 0x30 dex]]
  have htd : (seq [.cons 0xA0 [.prim 0x02 [2]], .prim 0x02 f.serial, seq [.prim 0x06 OID_ECDSA_WITH_SHA256], issuer,
      seq [nb, na], subject,
      seq [seq [.prim 0x06 OID_PUB_KEY_ECPUBKEY, .prim 0x06 OID_EC_TYPE_PRIME256V1], .prim 0x03 (bitstrContent false f.pubkey)],
      .cons 0xA3 [seq (f.exts.map extNode)]]).toDer = some [d] := by
    simp [seq, Node.toDer, Node.toDerL, tagConstructed, i1, s1, b1, a1, x1, bitstrContent_false, d]
  have htags : (seq [.cons 0xA0 [.prim 0x02 [2]], .prim 0x02 f.serial, seq [.prim 0x06 OID_ECDSA_WITH_SHA256], issuer,
      seq [nb, na], subject,
      seq [seq [.prim 0x06 OID_PUB_KEY_ECPUBKEY, .prim 0x06 OID_EC_TYPE_PRIME256V1], .prim 0x03 (bitstrContent false f.pubkey)],
      .cons 0xA3 [seq (f.exts.map extNode)]]).tagsOk := by
    refine ⟨by decide, fun _ => ⟨⟨by decide, fun _ => ⟨⟨by decide, by decide⟩, trivial⟩⟩, ⟨by decide, by decide⟩,
      ⟨by decide, fun _ => ⟨⟨by decide, by decide⟩, trivial⟩⟩, dnNode_tagsOk _ _ h2,
      ⟨by decide, fun _ => ⟨timeNode_tagsOk _ _ h3, timeNode_tagsOk _ _ h4, trivial⟩⟩, dnNode_tagsOk _ _ h5,
      ⟨by decide, fun _ => ⟨⟨by decide, fun _ => ⟨⟨by decide, by decide⟩, ⟨by decide, by decide⟩, trivial⟩⟩, ⟨by decide, by decide⟩, trivial⟩⟩,
      ⟨by decide, fun _ => ⟨⟨by decide, fun _ => exts_tagsOk _ he⟩, trivial⟩⟩, trivial⟩⟩
  obtain ⟨hwd, hed⟩ := toDer_enc _ hl htags [d] htd
  have hpd := parseDer_enc d hwd.1
  simp only [Der.encL, List.append_nil] at hed
  rw [hed] at hpd
  refine ⟨d, View.mk f.serial 1 vi f.notBefore f.notAfter vsu 1 1 f.pubkey vex, hok, hwd.1, hed, hpd, ?_, ?_⟩
  · simp only [d, certFieldsOfDer, ne_eq, not_true_eq_false, or_self, if_false, i2, s2, b2, a2, x2, bind, Option.bind, pure]
    by_cases hz : f.notAfter = 0
    · simp [hz]
    · have : f.notAfter ≠ DOESNT_EXPIRE := by
        have : DOESNT_EXPIRE = 252455615999 := rfl
        omega
      simp [hz, this]
  · simp [Fields.view, i3, s3, x3, sa, pa, cu, bind, Option.bind, pure]

end Codec.CertAsn1

namespace C17
open Codec Codec.Der Codec.CertAsn1

/-- **Certificate round trip with the `der`-crate reading layer as the DER reader** (audit C17, concern 2).
For every certificate within the declared bounds, `as_asn1` into any buffer with room (below 64 KiB) writes
`n.enc`; on these bytes the model of `AnyRef::from_der` (crate `der` 0.7.10) returns the outer tag and value, the
tree reader made only of the crate's routines (`readTree`: `AnyRef::from_der` + the `while !is_finished()
{ AnyRef::decode }` loop on every constructed value) returns the *same* tree `d` as the model's own `parseDer`
(for the **outer tree**: the value inside the `extnValue` OCTET STRING of a known extension is a leaf of `d`, and
`certFieldsOfDer` still reads that with `parseDer` — `C17.cert_der_roundtrip_rd` in `Lemmas/CodecDerLinkFull.lean` removes
this last use), every tag of `d` is one the crate knows, and the fields read from `d` are the certificate's (`Fields.view`).

What this does **not** say: `certFieldsOfDer` (tree → fields) is still specification-side — rs-matter has no
X.509 → Matter-TLV conversion, and its X.509 parser (`cert/x509/cert.rs`) is for DAC / PAI / PAA attestation
certificates, see `CodecDerLinkX509.lean` for what that parser's field readers return on `n.enc`. -/
theorem cert_der_roundtrip_derrd (f : Fields) (h : f.Legal) :
    ∃ n, certNode f = some n ∧ ∀ buf : List Nat, n.need ≤ buf.length → buf.length < 65536 →
      ∃ d v, asAsn1 f.lazy buf = .ok n.enc ∧
        DerRd.fromDerAny n.enc = .ok (d.tag, d.body) ∧ readTree n.enc = some d ∧ parseDer n.enc = some d ∧
        d.known = true ∧ certFieldsOfDer d = some v ∧ f.view = some v := by
  obtain ⟨n, hn⟩ := certNode_some f h
  refine ⟨n, hn, fun buf hfit hsmall => ?_⟩
  have hl := lenOk_of_need n (by omega)
  obtain ⟨d, v, h1, hw, he, h3, h4, h5⟩ := cert_roundtrip_tree f n buf hn ⟨h.wf, h.na⟩ hl hfit
  have hk := certFieldsOfDer_known d v h4
  have hmax : d.enc.length ≤ DerRd.MAX_LEN := by
    have := need_ge n
    have hM : DerRd.MAX_LEN = 268435455 := rfl
    rw [he]; omega
  obtain ⟨r1, r2⟩ := readTree_enc d hw hk hmax
  have r0 := fromDerAny_enc_der d hw hk hmax
  rw [he] at r0 r1 r2
  exact ⟨d, v, h1, r0, r1, r2, hk, h4, h5⟩

end C17
