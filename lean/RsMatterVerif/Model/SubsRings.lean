import RsMatterVerif.Model.Subs
import RsMatterVerif.Model.ChunkEvents
/-!
# C13: what the event part of a report carries — the event rings and the reader's running watermark

The queue itself is `Chunk.Queue` (`Model/ChunkEvents.lean`, the transliteration of `im/events.rs`
`EventsInner<N>` / `EventWriter` / `EventsBuf<N>`: three rings of `N` bytes, every event written to the
debug ring, promotion debug → info → critical on eviction, eviction from the critical ring = loss,
`EventsIter` = critical ++ info ++ debug).  It is shared with C14; C13 ties it to the real queue in its own
`evs` stream (ring by ring).

Here: `EventReader::process_read` as the reporter runs it over `Events::fetch` (`report_events` of `im.rs`,
without the chunking, which is C14): the reader keeps a RUNNING watermark — `max_seen_event_number` is set to
the number of every event it has looked at in the range — and skips every event at or below it.
Import-free (within the package).
-/
namespace Subs
open Chunk

/-- `EventReader::process_read` over the events of a `fetch`, in the order the iterator yields them:
`cur` = `max_seen_event_number` (running), `next` = `next_max_seen_event_number`; an event outside
`cur < n ≤ next` is skipped; one inside is written if the subscription's paths select it (`sel`;
fabric / access filters included) and in either case `cur := n`. -/
def readEvents (sel : QEv → Bool) (next : Nat) : Nat → List QEv → List Nat
  | _, [] => []
  | cur, e :: es =>
    if cur < e.num ∧ e.num ≤ next then
      (if sel e then [e.num] else []) ++ readEvents sel next e.num es
    else readEvents sel next cur es

/-- the event numbers the report of the live context `c` carries when it is built over the queue `q`:
`EventReader::new(rctx.max_seen_event_number(), rctx.next_max_seen_event_number(), _)` over `events.fetch` -/
def Ctx.reportEvents (c : Ctx) (sel : QEv → Bool) (q : Queue) : List Nat :=
  readEvents sel c.nextEv c.sub.seenEv q.iter

/-- the iteration order of the seeded change C13-c ("start with the operational buffer and follow the
promotion chain"): debug, info, critical ring.  NOT the code's order; kept to state what breaks. -/
def iterNewestFirst (q : Queue) : List QEv := q.debug ++ q.info ++ q.crit

/-- **specification** (property C13, events: "every subscribed event that occurs after the data of the priming
report was read is eventually reported"; per report: nothing that is still retained is skipped).
`out` is what a report may carry for a subscription whose committed event watermark is `seen`, whose report
snapshots `next`, over the retained events `retained` (in any order): exactly the selected retained events with
`seen < number ≤ next`, in increasing order.  Events that were evicted from the last ring are not retained: they
are lost legitimately (the queue is bounded). -/
def OwedReport (sel : QEv → Bool) (seen next : Nat) (retained : List QEv) (out : List Nat) : Prop :=
  out.Pairwise (· < ·) ∧ ∀ n, n ∈ out ↔ ∃ e ∈ retained, e.num = n ∧ sel e = true ∧ seen < n ∧ n ≤ next

/-- executable form of the specification for the oracle: the selected retained numbers in the range, sorted -/
def insertNat (n : Nat) : List Nat → List Nat
  | [] => [n]
  | x :: xs => if n ≤ x then n :: x :: xs else x :: insertNat n xs

def sortNat (l : List Nat) : List Nat := l.foldl (fun acc n => insertNat n acc) []

def owedNumbers (seen next : Nat) (selectedRetained : List Nat) : List Nat :=
  sortNat (selectedRetained.filter fun n => decide (seen < n) && decide (n ≤ next))

end Subs
